package c05

import (
	"bytes"
	"fmt"
	"os"
	"os/signal"
	"path/filepath"
	"sort"
	"strings"
	"syscall"
	"testing"
	"time"

	"github.com/zerx-lab/wordZero/pkg/document"
	"pgregory.net/rapid"

	"wzverif/internal/foreign"
	"wzverif/internal/gen"
	"wzverif/internal/kit"
	"wzverif/internal/opc"
	"wzverif/internal/ops"
)

func TestMain(m *testing.M) {
	document.SetGlobalLevel(document.LogLevelSilent)
	signal.Ignore(syscall.SIGXFSZ)
	kit.TestMain(m, 16, 96)
}

// Case: a document (op list), a size band, and how the fault offsets are chosen.
type Case struct {
	Ops    []ops.Op `json:"ops"`
	Blob   int      `json:"blob"`   // extra incompressible image payload: 0 none, else pixel side of a large png (size band)
	Sample []int    `json:"sample"` // drawn offsets (permille of L) used when L is too large for full enumeration
	Target string   `json:"target"` // plain | nested | existing | devfull | parent-is-file | is-dir
	// Extra, when non-empty, makes the document an OPENED one: a library-written package is extended with these zip
	// entries (as another producer might have written them: directory entries, zero-length parts, unknown parts),
	// opened with OpenFromMemory, and the ops are applied to the opened document.
	Extra []Extra `json:"extra,omitempty"`
	// Stages is the save history of the SAME document object before the judged final save and the fault enumeration:
	// stage i saves the object to a path (judged like every save), then applies its edits. The final save therefore sees
	// an object that was saved before and has changed since (parts added, body grown or shrunk).
	Stages []Stage `json:"stages,omitempty"`
	// NoBefore: no ToBytes call between the last edit and the final save (the file is compared with ToBytes taken right after).
	NoBefore bool `json:"nobefore,omitempty"`

	// Base says what is opened when the document is an opened one: "" = the library's minimal package (with Extra);
	// "own" = the package the library writes for the document built by Pre (that document stays alive as a second
	// object); "foreign" = the package of another producer described by Foreign. Extra entries are added in every case.
	Base    string           `json:"base,omitempty"`
	Pre     []ops.Op         `json:"pre,omitempty"`
	Foreign *foreign.Package `json:"foreign,omitempty"`
	OpenVia string           `json:"openvia,omitempty"` // "" = OpenFromMemory | "path" = written to a file and opened with Open (target "inplace" saves back to that file)
	// Two: a second, independent Document object (built by Other) exists next to the judged one; stages with Obj=1 save
	// and edit it, and it is saved once more between two final saves of the judged object.
	Two   bool     `json:"two,omitempty"`
	Other []ops.Op `json:"other,omitempty"`
	// Light: a sparse sample of fault offsets instead of the enumeration (cases that are about the history / the target).
	Light bool `json:"light,omitempty"`
	// FaultOver: the faulty saves of the enumeration go to one path without removing what the previous attempt left.
	FaultOver bool `json:"faultover,omitempty"`
}

// Stage is one earlier save of the same object followed by edits.
type Stage struct {
	Obj      int      `json:"obj,omitempty"`      // which object is saved and edited: 0 the judged one, 1 the second object (when the case has one)
	Path     string   `json:"path"`               // rel: a relative path in new directories (working directory = scratch directory) | bad: a target that cannot hold the file (/dev/full, a directory, a path below a regular file): Save must fail, the object is used on | main: the path of the final save (when that is a plain file path) | prev: the path of the previous stage | new: a path not used before | newdir: a new path in new directories
	Fault    int      `json:"fault,omitempty"`    // 0: no injected fault; k>0: this save runs with a write fault at (k-1) permille of the package size and is then repeated without a fault on the same path
	NoBefore bool     `json:"nobefore,omitempty"` // no ToBytes call before this save (compared with ToBytes taken right after only); ignored for a fault stage
	Ops      []ops.Op `json:"ops,omitempty"`      // edits applied after this save (shared op kinds plus the local kinds c05big, c05rmlast, c05rmnote)
}

type Extra struct {
	Name string `json:"name"`           // a name ending in "/" is a directory entry
	Data string `json:"data"`           // "" = zero-length part
	Size int    `json:"size,omitempty"` // > 0: Size bytes of generated, poorly compressible data instead of Data
}

var extraNames = []string{"word/", "customXml/", "customXml/item1.xml", "customXml/itemProps1.xml", "word/theme/theme1.xml", "word/fontTable.xml", "docProps/custom.xml",
	"word/media/", "word/embeddings/oleObject1.bin", "word/vbaProject.bin", "word/glossary/document.xml", "META-INF/", "mimetype", "word/webSettings.xml", "extra.dat"}

var cfg = &ops.Config{Classes: gen.AllClasses, Weights: weights()}

func weights() map[string]int {
	w := map[string]int{}
	for k, v := range ops.DefaultWeights {
		w[k] = v
	}
	// calls that replace the current document object (the replaced ones stay alive and are saved as well) and
	// ToBytes calls in the middle of the history: present, but rare
	for _, k := range []string{"reopen", "tpldoc", "tpldoc2", "tplstr", "md", "save"} {
		w[k] = 1
	}
	return w
}

// stageCfg: the edits between two saves of one object. Weighted towards calls that create a package part the object
// did not have at the previous save (header/footer parts, footnotes/endnotes, settings, media, numbering, docProps,
// styles) next to calls that grow or shrink the main part.
var stageCfg = &ops.Config{Classes: gen.AllClasses, Weights: map[string]int{
	"header": 3, "footer": 3, "headerpn": 1, "footerpn": 1, "fheader": 1, "ffooter": 1, "difffirst": 1,
	"footnote": 3, "endnote": 3, "notecfg": 2,
	"image": 3, "imagefile": 1, "table": 2, "cellimg": 1,
	"listitem": 2, "bullet": 1, "numbered": 1,
	"props": 2, "title": 1, "author": 1, "stats": 1,
	"customstyle": 1, "tblstyle": 1, "pagesize": 1,
	"para": 2, "heading": 1, "addtext": 1,
	"rmpara": 1, "rmparaat": 1, "rmelemat": 2,
}}

// genStageOp draws one edit between two saves.
func genStageOp(t *rapid.T) ops.Op {
	switch rapid.IntRange(0, 21).Draw(t, "stagek") {
	case 0, 1: // a large paragraph (4-48 KB of poorly compressible text): the package grows by several KB
		return ops.Op{K: "c05big", I: []int{rapid.IntRange(4, 48).Draw(t, "bigkb"), rapid.IntRange(0, 999).Draw(t, "bigpat"), rapid.IntRange(0, 1).Draw(t, "bigmulti")}}
	case 2, 3, 4: // drop the last body element: the package shrinks
		return ops.Op{K: "c05rmlast"}
	case 5:
		return ops.Op{K: "c05rmnote", S: []string{rapid.SampledFrom([]string{"footnote", "endnote"}).Draw(t, "rmnk"), fmt.Sprint(rapid.IntRange(1, 12).Draw(t, "rmnid"))}}
	case 6, 7: // 10th/11th picture or note, more than 64 paragraphs, a text longer than 64 KiB
		return genCountOp(t)
	}
	return stageCfg.Op(t)
}

func genStages(t *rapid.T, two bool) []Stage {
	// 10-12 saves of one object are rare (the quick tier stays cheap)
	n := rapid.SampledFrom([]int{0, 0, 0, 1, 1, 1, 1, 2, 2, 2, 3, 3, 4, 4, 10, 12}).Draw(t, "nstages")
	var out []Stage
	for i := 0; i < n; i++ {
		st := Stage{Path: rapid.SampledFrom([]string{"main", "main", "main", "prev", "prev", "new", "new", "newdir", "rel", "bad"}).Draw(t, "spath")}
		if two && rapid.IntRange(0, 1).Draw(t, "sobj") == 1 {
			st.Obj = 1
		}
		if st.Path != "bad" && rapid.IntRange(0, 3).Draw(t, "sfault") == 0 {
			st.Fault = 1 + rapid.IntRange(0, 999).Draw(t, "sfaultpm")
		}
		st.NoBefore = rapid.Bool().Draw(t, "snobefore")
		k := rapid.IntRange(0, 4).Draw(t, "snops")
		if n >= 10 {
			k = rapid.IntRange(0, 1).Draw(t, "snops1")
		}
		for j := 0; j < k; j++ {
			st.Ops = append(st.Ops, genStageOp(t))
		}
		out = append(out, st)
	}
	return out
}

func genCase(t *rapid.T) Case {
	c := Case{}
	genSource(t, &c)
	c.Ops = cfg.History(t, 0, 12)
	if rapid.IntRange(0, 5).Draw(t, "countop") == 0 {
		c.Ops = append(c.Ops, genCountOp(t))
	}
	switch rapid.IntRange(0, 3).Draw(t, "band") {
	case 2:
		c.Blob = rapid.IntRange(40, 90).Draw(t, "blob")
	case 3:
		c.Blob = rapid.IntRange(100, kit.Scale(220, 500)).Draw(t, "blob")
	}
	n := rapid.IntRange(8, 40).Draw(t, "nsample")
	for i := 0; i < n; i++ {
		c.Sample = append(c.Sample, rapid.IntRange(0, 999).Draw(t, "permille"))
	}
	c.Target = rapid.SampledFrom(targetKinds).Draw(t, "target")
	if c.OpenVia == "path" && rapid.IntRange(0, 2).Draw(t, "inplace") == 0 {
		c.Target = "inplace" // open a file, edit, save back to it
	}
	if rapid.IntRange(0, 3).Draw(t, "two") == 0 {
		c.Two = true
		c.Other = cfg.History(t, 0, 6)
	}
	c.Stages = genStages(t, c.Two)
	c.NoBefore = rapid.Bool().Draw(t, "nobefore")
	c.Light = rapid.IntRange(0, 2).Draw(t, "light") == 0
	c.FaultOver = rapid.Bool().Draw(t, "faultover")
	return c
}

func partMap(b []byte) (map[string]string, error) {
	p, err := opc.Read(b)
	if err != nil {
		return nil, err
	}
	if len(p.Dups) > 0 {
		return nil, fmt.Errorf("duplicate entries %v", p.Dups)
	}
	m := map[string]string{}
	for k, v := range p.Parts {
		m[k] = string(v)
	}
	return m, nil
}

func sameParts(a, b map[string]string) string {
	for k, v := range a {
		w, ok := b[k]
		if !ok {
			return "part " + k + " missing in the file"
		}
		if v != w {
			return "part " + k + " differs"
		}
	}
	for k := range b {
		if _, ok := a[k]; !ok {
			return "part " + k + " only in the file"
		}
	}
	return ""
}

var (
	faultPoints, closeOnly, writeFaults, controls int
)

// trailing returns the number of bytes of a file that follow the end of the zip package (the end-of-central-directory
// record including its comment): a complete package written by Save ends the file. -1: no end record found.
func trailing(b []byte) int {
	for p := len(b) - 22; p >= 0 && p >= len(b)-22-65535; p-- {
		if b[p] == 'P' && b[p+1] == 'K' && b[p+2] == 5 && b[p+3] == 6 {
			end := p + 22 + int(b[p+20]) + int(b[p+21])<<8
			if end <= len(b) {
				return len(b) - end
			}
		}
	}
	return -1
}

// kept remembers byte slices earlier ToBytes calls returned, with a private copy: what a caller holds must not change
// when the same or another object is serialised or saved later.
type kept struct {
	what string
	b    []byte
	copy []byte
}

type runState struct {
	res  *kit.Result
	kept []kept
}

func (rs *runState) keep(what string, b []byte) {
	if len(b) == 0 || len(b) > 1<<19 {
		return
	}
	if len(rs.kept) >= 8 {
		rs.kept = rs.kept[1:]
	}
	rs.kept = append(rs.kept, kept{what, b, append([]byte(nil), b...)})
}

// checkKept fails F1 when a retained ToBytes result no longer has the bytes it was returned with.
func (rs *runState) checkKept(when string) {
	for i := range rs.kept {
		k := &rs.kept[i]
		if !bytes.Equal(k.b, k.copy) {
			rs.res.Fail("C05.F1", "the byte slice ToBytes returned %s was changed by a later call (%s): Save and the bytes the caller holds disagree", k.what, when)
			k.copy = append([]byte(nil), k.b...)
		}
	}
}

// judgedSave is one Save without an injected fault, judged by F3 (nil) and F1 (the file is a complete package - nothing
// follows its end record - whose part map equals the part map of ToBytes taken immediately before and after).
// It returns the file size and the part map; ok=false when the case cannot go on.
func (rs *runState) judgedSave(doc *document.Document, tg target, what string, noBefore bool) (L int64, want map[string]string, ok bool) {
	res := rs.res
	// noBefore: ToBytes is NOT called before this Save (a ToBytes call refreshes the serialised parts the object keeps,
	// which would hide a Save that relies on them); the file is then compared with ToBytes taken right after only.
	if !noBefore {
		var before []byte
		var err error
		if p, _ := kit.Try(func() { before, err = doc.ToBytes() }); p != nil || err != nil {
			res.Label("tobytes-error")
			return 0, nil, false
		}
		want, err = partMap(before)
		if err != nil {
			res.Label("tobytes-unreadable") // C01's business
			return 0, nil, false
		}
		rs.keep("before "+what, before)
	} else {
		what += ", no ToBytes call before it"
		res.Label("oracle:tobytes-after-only")
	}
	serr, pan := saveWithLimit(doc, tg, -1)
	controls++
	if pan != nil {
		res.Fail("C05.F0", "%s: Save panicked: %v", what, pan)
		return 0, nil, false
	}
	res.Eval("C05.F3")
	if serr != nil {
		res.Fail("C05.F3", "%s: Save (%s target) without any fault returned %v", what, tg.kind, serr)
		return 0, nil, false
	}
	fb, _ := os.ReadFile(tg.read)
	var after []byte
	var err error
	if p, _ := kit.Try(func() { after, err = doc.ToBytes() }); p != nil || err != nil {
		if want == nil {
			res.Label("tobytes-error")
			return 0, nil, false
		}
		after = nil
	}
	var am map[string]string
	if after != nil {
		if am, err = partMap(after); err != nil {
			if want == nil {
				res.Label("tobytes-unreadable")
				return 0, nil, false
			}
			am = nil
		} else {
			rs.keep("after "+what, after)
		}
	}
	res.Eval("C05.F1")
	good := true
	ref, when := want, "before"
	if ref == nil {
		ref, when = am, "right after"
	}
	if got, err := partMap(fb); err != nil {
		res.Fail("C05.F1", "%s: Save (%s target) returned nil but the file is not a readable package: %v", what, tg.kind, err)
		good = false
	} else if d := sameParts(ref, got); d != "" {
		res.Fail("C05.F1", "%s: Save (%s target) returned nil but the file differs from ToBytes taken %s: %s", what, tg.kind, when, d)
		good = false
	} else if tr := trailing(fb); tr != 0 {
		res.Fail("C05.F1", "%s: Save (%s target) returned nil but the file is not just the package: %d bytes follow its end record (-1: no end record at the end of the file)", what, tg.kind, tr)
		good = false
	}
	if want != nil && am != nil {
		if d := sameParts(want, am); d != "" {
			res.Fail("C05.F1", "%s: ToBytes before and after Save disagree: %s", what, d)
			good = false
		}
	}
	rs.checkKept(what)
	return int64(len(fb)), ref, good
}

// failingSave is one Save to a target that cannot hold the file: F2 demands an error.
func (rs *runState) failingSave(doc *document.Document, tg target, what string) bool {
	serr, pan := saveWithLimit(doc, tg, -1)
	controls++
	if pan != nil {
		rs.res.Fail("C05.F0", "%s: Save panicked: %v", what, pan)
		return false
	}
	rs.res.Eval("C05.F2")
	if serr == nil {
		rs.res.Fail("C05.F2", "%s: Save to %s target %q returned nil although the target cannot hold the file", what, tg.kind, tg.arg)
	}
	return true
}

// saveWithLimit runs Save with the soft RLIMIT_FSIZE set to n (n<0: no limit), in the target's working directory.
func saveWithLimit(doc *document.Document, tg target, n int64) (err error, panicked interface{}) {
	if tg.cwd != "" {
		if e := os.Chdir(tg.cwd); e != nil {
			return nil, "chdir: " + e.Error()
		}
		defer os.Chdir(homeDir)
	}
	var old syscall.Rlimit
	if n >= 0 {
		if e := syscall.Getrlimit(syscall.RLIMIT_FSIZE, &old); e != nil {
			return nil, "getrlimit: " + e.Error()
		}
		lim := old
		lim.Cur = uint64(n)
		if e := syscall.Setrlimit(syscall.RLIMIT_FSIZE, &lim); e != nil {
			return nil, "setrlimit: " + e.Error()
		}
		defer syscall.Setrlimit(syscall.RLIMIT_FSIZE, &old)
	}
	p, st := kit.Try(func() { err = doc.Save(tg.arg) })
	if p != nil {
		panicked = fmt.Sprintf("%v [%s]", p, st)
	}
	return
}

func absTarget(kind, p string) target { return target{kind: kind, arg: p, read: p} }

// build makes the judged document object. ok=false: nothing to save (a label says why).
func build(res *kit.Result, c Case, dir string) (x *ops.Exec, sides []*document.Document, src string, ok bool) {
	x = ops.NewExec(dir)
	apply := func(list []ops.Op) bool {
		for _, op := range list {
			if p, _ := kit.Try(func() { doOp(x, op) }); p != nil {
				res.Label("build-panicked") // C01/C09 report panics of the build ops; here the document is just an input
				return false
			}
		}
		return true
	}
	var pkg []byte
	switch {
	case c.Base == "own":
		if !apply(c.Pre) {
			return
		}
		var err error
		if p, _ := kit.Try(func() { pkg, err = x.Doc.ToBytes() }); p != nil || err != nil {
			res.Label("tobytes-error")
			return
		}
		sides = append(sides, x.Doc) // the written object stays a valid object
		res.Label("source:own-package-reopened")
	case c.Base == "foreign" && c.Foreign != nil:
		pkg = c.Foreign.Bytes()
		res.Label("source:foreign-package")
		if c.Foreign.Stored {
			res.Label("foreign:stored-entries")
		}
		if c.Foreign.W != "w" || c.Foreign.OPCPrefix != "" {
			res.Label("foreign:other-prefixes")
		}
	case len(c.Extra) > 0:
		seed := document.New()
		seed.AddParagraph("opened")
		var err error
		if pkg, err = seed.ToBytes(); err != nil {
			res.Label("tobytes-error")
			return
		}
		res.Label("source:minimal-package-opened")
	default:
		res.Label("source:new")
	}
	if pkg != nil {
		fb, err := withExtra(pkg, c.Extra)
		if err != nil {
			res.Label("extra-unzippable")
			return
		}
		od, from := openPackage(fb, c.OpenVia, dir)
		if od == nil {
			res.Label("open-rejected") // C06's business; nothing to save
			return
		}
		src = from
		x.Doc = od
		rehandle(x)
		res.Label("source:opened")
		if src != "" {
			res.Label("open:from-path")
		} else {
			res.Label("open:from-memory")
		}
		lower := map[string]bool{}
		for _, e := range c.Extra {
			if strings.HasSuffix(e.Name, "/") {
				res.Label("extra:directory-entry")
			} else if e.Data == "" && e.Size == 0 {
				res.Label("extra:zero-length-part")
			}
			if e.Size >= 65536 {
				res.Label("extra:part>=64KiB")
			}
			lower[strings.ToLower(e.Name)] = true
		}
		if len(lower) < len(c.Extra) {
			res.Label("extra:names-differ-only-in-case")
		}
		if len(c.Extra) > 32 {
			res.Label("extra:>32-entries")
		}
	}
	if !apply(c.Ops) {
		return
	}
	if c.Blob > 0 {
		im := gen.Img{Fmt: "png", W: c.Blob, H: c.Blob, Pat: c.Blob*7 + len(c.Ops), Name: "blob.png"}
		if p, _ := kit.Try(func() { x.Doc.AddImageFromData(im.Bytes(), im.Name, document.ImageFormatPNG, im.W, im.H, nil) }); p != nil {
			res.Label("build-panicked")
			return
		}
	}
	// objects replaced by reopen / template / Markdown calls stay alive: they are saved too
	for _, d := range x.Side {
		if d != nil && d != x.Doc {
			sides = append(sides, d)
		}
	}
	if x.Replaced > 0 {
		res.Label("source:object-replaced-by-reopen/template/markdown")
	}
	return x, sides, src, true
}

func run(c Case) *kit.Result {
	res := &kit.Result{}
	rs := &runState{res: res}
	if os.Getenv("C05_TIMING") != "" { // development aid: where the time of a run goes
		t0, f0 := time.Now(), faultPoints
		defer func() {
			fmt.Fprintf(os.Stderr, "TIMING %6dms faults=%-5d %v\n", time.Since(t0).Milliseconds(), faultPoints-f0, res.Labels)
		}()
	}
	document.VerifResetGlobals()
	os.Chdir(homeDir)
	dir, _ := os.MkdirTemp(kit.Scratch, "c05-")
	defer os.RemoveAll(dir)
	x, sides, src, ok := build(res, c, dir)
	if !ok {
		return res
	}
	// the second object
	objs := []*ops.Exec{x}
	if c.Two {
		y := ops.NewExec(filepath.Join(dir, "o"))
		os.MkdirAll(y.Dir, 0o755)
		for _, op := range c.Other {
			if p, _ := kit.Try(func() { doOp(y, op) }); p != nil {
				res.Label("build-panicked")
				return res
			}
		}
		objs = append(objs, y)
		res.Label("objects:two")
	}
	res.Label("target:" + c.Target)

	// the save history before the final save
	mainPath := filepath.Join(dir, "out.docx")
	prevPath := mainPath
	sizeAt := map[string]int64{}             // path -> size of the file the last successful save left there
	lastNames := map[int]map[string]string{} // object -> part map of its last successful save
	lastObj := -1
	noteSave := func(obj int, p string, L int64, want map[string]string) {
		if old, ok := sizeAt[p]; ok {
			res.Label("history:same-path-again")
			if L < old {
				res.Label("history:smaller-file-over-larger")
			}
		}
		sizeAt[p] = L
		if ln := lastNames[obj]; ln != nil {
			for k := range want {
				if _, ok := ln[k]; !ok {
					res.Label("history:parts-added-between-saves")
					break
				}
			}
		}
		lastNames[obj] = want
		if lastObj >= 0 && lastObj != obj {
			res.Label("history:objects-saved-alternately")
		}
		lastObj = obj
	}
	if len(c.Stages) == 0 {
		res.Label("history:first-save")
	} else {
		res.Label("history:multi-save")
	}
	if len(c.Stages) >= 9 {
		res.Label("history:10-or-more-saves")
	}
	for i, st := range c.Stages {
		oi := 0
		if st.Obj > 0 && len(objs) > 1 {
			oi = 1
		}
		ex := objs[oi]
		doc := ex.Doc
		tg := absTarget("plain", mainPath)
		switch st.Path {
		case "prev":
			tg = absTarget("plain", prevPath)
		case "new":
			tg = absTarget("plain", filepath.Join(dir, fmt.Sprintf("s%d.docx", i)))
		case "newdir":
			tg = absTarget("nested", filepath.Join(dir, fmt.Sprintf("d%d", i), "sub dir", "s.docx"))
		case "rel":
			tg = target{kind: "relative", arg: filepath.Join(fmt.Sprintf("r%d", i), "s.docx"), cwd: dir}
			tg.read = filepath.Join(dir, tg.arg)
		}
		what := fmt.Sprintf("save %d of the history (object %d, %s path)", i+1, oi, st.Path)
		if st.Path == "bad" {
			// a save that cannot succeed; the object is used on afterwards
			bt := mkTarget([]string{"devfull", "is-dir", "parent-is-file", "empty"}[i%4], dir, "")
			res.Label("history:failed-save-to-unusable-target")
			if !rs.failingSave(doc, bt, what) {
				return res
			}
		} else if st.Fault > 0 {
			// a save that hits a write fault, then the same save again without the fault (same path)
			res.Label("history:fault-on-earlier-save")
			var before []byte
			var err error
			if p, _ := kit.Try(func() { before, err = doc.ToBytes() }); p != nil || err != nil {
				res.Label("tobytes-error")
				return res
			}
			want, err := partMap(before)
			if err != nil {
				res.Label("tobytes-unreadable")
				return res
			}
			N := int64(len(before)) * int64(st.Fault-1) / 1000
			ferr, pan := saveWithLimit(doc, tg, N)
			faultPoints++
			if pan != nil {
				res.Fail("C05.F0", "%s: Save panicked with a write fault at offset %d: %v", what, N, pan)
				return res
			}
			faulty, _ := os.ReadFile(tg.read)
			L, w2, ok := rs.judgedSave(doc, tg, what+", repeated after the faulty attempt", false)
			if !ok {
				return res
			}
			res.Eval("C05.F2")
			switch {
			case ferr == nil && N < L:
				res.Fail("C05.F2", "%s: write fault at byte offset %d of %d: Save returned nil (file on disk had %d bytes)", what, N, L, len(faulty))
				return res
			case ferr == nil:
				// the limit was not below the file size: an ordinary successful save
				if got, err := partMap(faulty); err != nil {
					res.Fail("C05.F1", "%s (limit %d >= size %d): Save returned nil but the file is not a readable package: %v", what, N, L, err)
					return res
				} else if d := sameParts(want, got); d != "" {
					res.Fail("C05.F1", "%s (limit %d >= size %d): Save returned nil but the file differs from ToBytes taken before: %s", what, N, L, d)
					return res
				}
			case N >= L:
				res.Fail("C05.F3", "%s: Save with a size limit of %d >= file size %d failed: %v", what, N, L, ferr)
				return res
			default:
				if strings.Contains(ferr.Error(), "close") || strings.Contains(ferr.Error(), "关闭") {
					closeOnly++
				} else {
					writeFaults++
				}
			}
			prevPath = tg.read
			noteSave(oi, tg.read, L, w2)
		} else {
			L, want, ok := rs.judgedSave(doc, tg, what, st.NoBefore)
			if !ok {
				return res
			}
			prevPath = tg.read
			noteSave(oi, tg.read, L, want)
		}
		for _, op := range st.Ops {
			if p, _ := kit.Try(func() { doOp(ex, op) }); p != nil {
				res.Label("build-panicked")
				return res
			}
		}
	}

	// the final save of the judged object
	doc := x.Doc
	tg := mkTarget(c.Target, dir, src)
	if tg.kind != c.Target {
		res.Label("target:fell-back-to-plain")
	}
	if tg.wantErr {
		if !rs.failingSave(doc, tg, "final save") {
			return res
		}
		// the object is used on: the same save to an ordinary path
		tg = plainTarget(dir)
	}
	L, want, ok := rs.judgedSave(doc, tg, "final save", c.NoBefore)
	if !ok {
		return res
	}
	noteSave(0, tg.read, L, want)
	// the other objects of the case are saved (each judged the same way), then the judged object once more to the same target
	if len(objs) > 1 {
		sides = append(sides, objs[1].Doc)
	}
	if len(sides) > 4 {
		sides = sides[len(sides)-4:]
	}
	for i, sd := range sides {
		stg := absTarget("plain", filepath.Join(dir, fmt.Sprintf("side%d.docx", i)))
		if i%2 == 1 {
			stg = absTarget("plain", tg.read) // over the file of the judged object
			if tg.cwd != "" || tg.kind == "symlink" || tg.kind == "symlink-dangling" {
				stg = tg
			}
		}
		sl, sw, sok := rs.judgedSave(sd, stg, fmt.Sprintf("save of another live object (%d of %d) after the final save", i+1, len(sides)), i%2 == 0)
		if sok {
			noteSave(100+i, stg.read, sl, sw)
		}
		res.Label("history:other-object-saved-after-final-save")
	}
	if len(sides) > 0 {
		if tg.kind == "existing" || tg.kind == "existing-short" || tg.kind == "existing-docx" || tg.kind == "symlink" {
			tg = absTarget(tg.kind+"(second time)", tg.read)
		}
		if L, want, ok = rs.judgedSave(doc, tg, "final save repeated after other objects were saved", !c.NoBefore); !ok {
			return res
		}
		noteSave(0, tg.read, L, want)
	}
	// what the saved package looks like
	media, biggest, work := 0, 0, int64(0)
	for k, v := range want {
		if strings.HasPrefix(k, "word/media/") {
			media++
		}
		if len(v) > biggest {
			biggest = len(v)
		}
		work += int64(len(v)) + 3000
	}
	// work: bytes serialised and compressed by one Save plus a per-entry overhead - a deterministic measure of what one
	// fault point costs. A case spends at most about 6e8 of it on its fault points (a shared, busy machine must get
	// through the largest documents within the per-case time limit); the typical document (work about 60 000) is far below.
	maxPts := int64(6e8) / (work + 1)
	if maxPts < 120 {
		maxPts = 120
	}
	if media >= 10 {
		res.Label("size:10-or-more-media-parts")
	}
	if len(want) > 32 {
		res.Label("size:>32-parts")
	}
	if len(want) > 64 {
		res.Label("size:>64-parts")
	}
	if biggest > 65536 {
		res.Label("size:part>64KiB")
	}

	// fault points
	var offs []int64
	switch {
	case c.Light:
		// a sparse sample: the case is about its history / target
		seen := map[int64]bool{}
		for _, n := range []int64{0, 1, 29, 30, L / 4, L / 2, L - L/4, L - 700, L - 400, L - 200, L - 100, L - 60, L - 23, L - 22, L - 21, L - 5, L - 2, L - 1} {
			if n >= 0 && n < L && !seen[n] {
				seen[n] = true
				offs = append(offs, n)
			}
		}
		for _, pm := range c.Sample {
			if n := L * int64(pm) / 1000; len(offs) < 28 && !seen[n] {
				seen[n] = true
				offs = append(offs, n)
			}
		}
		sort.Slice(offs, func(i, j int) bool { return offs[i] < offs[j] })
		res.Label("enumeration:light")
	case L <= 16384:
		// thorough: every offset. quick: every offset of the first 32 and the last 128 bytes (end record, last directory
		// entries), every second one of the 896 before them (central directory, last entries - where a fault is seen only
		// by the closing calls; the phase changes with the case), the middle with a stride that keeps it to about 100 points.
		step, head, tail, fine, tstep := int64(1), int64(0), L, L, int64(1)
		if kit.Tier != "thorough" {
			head, tail, fine, tstep = 32, L-1024, L-128, 2
			step = (tail - head + 99) / 100
			if step < 1 {
				step = 1
			}
		} else if L > maxPts && maxPts > 2200 {
			// an expensive document: every offset of the first 32 and the last 1024 bytes, the rest evenly spaced
			head, tail = 32, L-1024
			step = (tail - head + (maxPts - 1100) - 1) / (maxPts - 1100)
			res.Label("enumeration:thinned-in-the-middle(expensive document)")
		} else if L > maxPts {
			head, tail, fine, tstep = 32, L-1024, L-128, 2
			step = (tail - head + 99) / 100
			res.Label("enumeration:thinned-in-the-middle(expensive document)")
		}
		phase := int64(len(c.Ops)+len(c.Stages)+len(c.Sample)) % tstep
		for n := int64(0); n < L; {
			offs = append(offs, n)
			switch {
			case n < head || n >= fine:
				n++
			case n >= tail:
				n += tstep
				if n > fine {
					n = fine
				}
			default:
				n += step
				if n > tail {
					n = tail + phase
				}
			}
		}
		offs = append(offs, L-1)
		res.Label("enumeration:exhaustive")
	default:
		seen := map[int64]bool{}
		add := func(n int64) {
			if n >= 0 && n < L && !seen[n] {
				seen[n] = true
				offs = append(offs, n)
			}
		}
		add(0)
		add(1)
		add(L - 1)
		add(L - 2)
		for _, back := range []int64{22, 23, 60, 100, 200, 400, 700, 1000} {
			add(L - back)
		}
		stride := int64(4096)
		for L/stride > int64(kit.Scale(80, 200)) || 3*(L/stride) > maxPts {
			stride *= 2
		}
		for n := stride; n < L; n += stride {
			add(n - 1)
			add(n)
			add(n + 1)
		}
		for _, pm := range c.Sample {
			add(L * int64(pm) / 1000)
		}
		sort.Slice(offs, func(i, j int) bool { return offs[i] < offs[j] })
		res.Label("enumeration:sampled")
	}
	band := "small(<4096)"
	if L >= 4096 {
		band = "medium"
	}
	if L >= 65536 {
		band = "large(>=64K)"
	}
	res.Label("band:" + band)
	ftg := absTarget("plain", filepath.Join(dir, "fault.docx"))
	if c.FaultOver {
		res.Label("enumeration:faulty-saves-over-the-previous-attempt")
	}
	bad := 0
	for _, n := range offs {
		if !c.FaultOver {
			os.Remove(ftg.arg)
		}
		serr, pan := saveWithLimit(doc, ftg, n)
		faultPoints++
		res.Eval("C05.F2")
		if pan != nil {
			res.Fail("C05.F0", "Save panicked with a write fault at offset %d: %v", n, pan)
			break
		}
		if serr == nil {
			size := int64(-1)
			if st, _ := os.Stat(ftg.arg); st != nil {
				size = st.Size()
			}
			if bad < 3 {
				res.Fail("C05.F2", "write fault at byte offset %d of %d: Save returned nil (file on disk has %d bytes)", n, L, size)
			}
			bad++
		} else {
			if strings.Contains(serr.Error(), "close") || strings.Contains(serr.Error(), "关闭") {
				closeOnly++
			} else {
				writeFaults++
			}
		}
	}
	if bad > 0 {
		res.Count("fault_points_with_nil_error", bad)
	}
	// no-fault controls at and beyond L (after all the failed saves of this object)
	for _, n := range []int64{L, L + 1, L + 4096} {
		if !c.FaultOver {
			os.Remove(ftg.arg)
		}
		serr, pan := saveWithLimit(doc, ftg, n)
		controls++
		res.Eval("C05.F3")
		if pan != nil || serr != nil {
			res.Fail("C05.F3", "Save with a size limit of %d >= file size %d failed: %v %v", n, L, serr, pan)
			continue
		}
		fb, _ := os.ReadFile(ftg.arg)
		if got, err := partMap(fb); err != nil {
			res.Fail("C05.F1", "Save (limit %d, no fault) returned nil but file unreadable: %v", n, err)
		} else if d := sameParts(want, got); d != "" {
			res.Fail("C05.F1", "Save (limit %d, no fault) differs from ToBytes: %s", n, d)
		} else if tr := trailing(fb); tr != 0 {
			res.Fail("C05.F1", "Save (limit %d, no fault) returned nil but %d bytes follow the end record of the package", n, tr)
		}
	}
	rs.checkKept("the fault enumeration")
	res.Nontrivial = len(offs) > 2
	srcKind := c.Base
	if srcKind == "" && len(c.Extra) > 0 {
		srcKind = "min"
	}
	res.Shape = fmt.Sprintf("%s|%s|%s|ops=%d|L/512=%d|earlier-saves=%d|objs=%d", band, c.Target, srcKind, len(c.Ops), L/512, len(c.Stages), len(objs)+len(sides))
	return res
}

// lightTargets: one cheap fixed case per target kind (a sparse fault sample each).
func lightTargets() []Case {
	var out []Case
	para := ops.Op{K: "para", S: []string{"hello target"}}
	for i, k := range []string{"existing-short", "existing-docx", "symlink", "symlink-dangling", "relative", "bare", "dotdot", "longname", "name-too-long", "empty", "unicode", "procfs", "is-dir", "ws-trailing", "ws-leading", "ws-newline", "ws-component", "noext", "otherext"} {
		c := Case{Ops: []ops.Op{para}, Target: k, Light: true, NoBefore: i%2 == 1, FaultOver: i%3 == 0}
		if i%4 == 1 {
			c.Stages = []Stage{{Path: "main", NoBefore: true, Ops: []ops.Op{{K: "c05big", I: []int{5, i, 1}}}}}
		}
		out = append(out, c)
	}
	return out
}

func fixedCases() []Case {
	if os.Getenv("C05_NOFIXED") != "" { // development aid: what the generator finds on its own
		return nil
	}
	para := ops.Op{K: "para", S: []string{"hello"}}
	img := func(n int) ops.Op {
		return ops.Op{K: "image", Img: &gen.Img{Fmt: "png", W: 3 + n, H: 4, Pat: n, Name: "p.png"}, I: []int{0, 0, 0, 0}, F: []float64{10, 10}, S: []string{"", "", ""}}
	}
	hdr := ops.Op{K: "header", I: []int{0}, S: []string{"head"}}
	ftr := ops.Op{K: "footer", I: []int{1}, S: []string{"foot"}}
	fn := ops.Op{K: "footnote", S: []string{"t", "note"}}
	tbl := ops.Op{K: "table", I: []int{2, 2}, Grid: [][]string{{"a", "b"}, {"c", "d"}}}
	fp := foreign.Minimal()
	fp.W, fp.R, fp.OPCPrefix, fp.Stored, fp.CTLast = "ns0", "rel", "pr", true, true
	fp.Parts = append(fp.Parts,
		foreign.Part{Name: "word/media/Image1.PNG", Img: &gen.Img{Fmt: "png", W: 4, H: 4, Pat: 1, Name: "Image1.PNG"}, Kind: "media"},
		foreign.Part{Name: "word/media/image1.png", Img: &gen.Img{Fmt: "png", W: 5, H: 4, Pat: 2, Name: "image1.png"}, Kind: "media"},
		foreign.Part{Name: "customXml/item1.xml", XML: "<a/>", Kind: "customXml"})
	fp.Defaults = append(fp.Defaults, foreign.Default{Ext: "png", CT: "image/png"}, foreign.Default{Ext: "PNG", CT: "image/png"})
	cases := []Case{
		{Ops: nil, Target: "plain"},
		{Ops: []ops.Op{para}, Target: "devfull"},
		{Ops: []ops.Op{para}, Blob: 60, Target: "existing", Sample: []int{3, 500, 999}},
		{Ops: []ops.Op{para}, Blob: 200, Target: "nested", Sample: []int{1, 250, 777}},
		{Ops: []ops.Op{para}, Target: "parent-is-file", Light: true},
		{Ops: []ops.Op{para}, Target: "plain", Light: true, Extra: []Extra{{Name: "word/"}, {Name: "customXml/"}, {Name: "customXml/item1.xml"}, {Name: "extra.dat", Data: "x"}}},
		// one object saved several times: parts appear between the saves (same path, other paths), a faulty save in between
		{Ops: []ops.Op{para}, Target: "plain", Light: true, Stages: []Stage{
			{Path: "main", Ops: []ops.Op{hdr, fn}},
			{Path: "new", Fault: 501, Ops: []ops.Op{ftr, {K: "listitem", S: []string{"item"}, I: []int{1, 0, 1, 0}}, {K: "props", S: []string{"T", "S", "C", "K", "D", "en", "cat", "1", "2"}}}},
			{Path: "prev", NoBefore: true, Ops: []ops.Op{{K: "endnote", S: []string{"t", "end"}}, {K: "notecfg", I: []int{1, 1}}, img(5)}},
		}},
		// grow, save, shrink, save to the same path: the second file is shorter than the one it replaces
		{Ops: []ops.Op{para, {K: "c05big", I: []int{40, 7}}}, Target: "plain", NoBefore: true, Light: true, Stages: []Stage{
			{Path: "main", Ops: []ops.Op{{K: "c05rmlast"}}},
			{Path: "main", NoBefore: true, Ops: []ops.Op{{K: "c05big", I: []int{1, 3}}, {K: "c05rmlast"}, {K: "c05rmlast"}}},
		}},
		// --- widened domain ---
		// another producer's package (other prefixes, stored entries, content types last, media names that differ only in
		// case), opened from a path, edited and saved back in place
		{Base: "foreign", Foreign: &fp, OpenVia: "path", Target: "inplace", Ops: []ops.Op{para, hdr}, Light: true,
			Extra:  []Extra{{Name: "customXml/Item1.xml", Data: "<b/>"}, {Name: "word/Media/"}, {Name: "docProps/custom.xml", Size: 4097}},
			Stages: []Stage{{Path: "new", NoBefore: true, Ops: []ops.Op{img(1)}}}},
		// the library's own rich package reopened from memory; the written object stays alive and is saved after the reopened one
		{Base: "own", Pre: []ops.Op{para, tbl, hdr, fn, img(2), {K: "heading", S: []string{"H"}, I: []int{1}}}, Ops: []ops.Op{ftr, para}, Target: "nested", Light: true, NoBefore: true,
			Stages: []Stage{{Path: "main", Ops: []ops.Op{{K: "rmparaat", I: []int{1}}, {K: "endnote", S: []string{"t", "e"}}}}}},
		// two objects saved alternately to the same and to different paths; their part sets differ
		{Ops: []ops.Op{para, hdr}, Two: true, Other: []ops.Op{para, fn, img(3)}, Target: "plain", Light: true, Stages: []Stage{
			{Obj: 0, Path: "main", Ops: []ops.Op{ftr}},
			{Obj: 1, Path: "main", NoBefore: true, Ops: []ops.Op{{K: "c05big", I: []int{6, 1, 1}}}},
			{Obj: 0, Path: "prev", NoBefore: true, Ops: []ops.Op{img(4)}},
			{Obj: 1, Path: "new", Ops: []ops.Op{hdr}},
			{Obj: 0, Path: "rel"},
			{Obj: 1, Path: "bad", Ops: []ops.Op{para}},
			{Obj: 0, Path: "bad"},
		}},
		// objects replaced by reopen / template rendering / Markdown conversion: every live object is saved
		{Ops: []ops.Op{para, hdr, {K: "reopen", B: []bool{true}}, img(6), {K: "tpldoc", Data: &ops.Data{Vars: map[string]string{"a": "b"}}}, fn}, Target: "plain", Light: true},
		{Ops: []ops.Op{para, {K: "md", S: []string{"# T\n\ntext **b**\n\n- i1\n- i2\n"}, B: []bool{true, true, false, false, false, false}, I: []int{3}}, ftr}, Target: "unicode", Light: true, NoBefore: true},
		// counts and sizes: 12 pictures (image10, image11), 11 notes, 129 paragraphs, a text past 64 KiB with multi-byte characters
		{Ops: []ops.Op{para, {K: "c05imgs", I: []int{12, 3}}}, Target: "plain", Light: true, Stages: []Stage{{Path: "main", NoBefore: true, Ops: []ops.Op{{K: "c05notes", I: []int{11, 0}}, {K: "c05notes", I: []int{10, 1}}}}}},
		{Ops: []ops.Op{{K: "c05paras", I: []int{129}}, {K: "c05big", I: []int{65, 9, 1}}}, Target: "existing", Light: true, FaultOver: true},
		// more than 64 parts: 70 foreign entries + 33 pictures
		{Base: "own", Pre: []ops.Op{para, {K: "c05imgs", I: []int{33, 1}}}, Ops: []ops.Op{para}, Target: "plain", Light: true, Extra: manyExtras(70)},
		// ten saves of one object, a picture added before each
		{Ops: []ops.Op{para}, Target: "plain", Light: true, Stages: tenSaves()},
	}
	// parts of another producer the library keeps as they are, with every content form of extraDatas under .xml, .rels
	// and other names: opened from memory and saved; opened from a path, edited and saved twice
	cases = append(cases,
		Case{Ops: []ops.Op{para}, Target: "plain", Light: true, Extra: edgeContentExtras()},
		Case{Base: "own", Pre: []ops.Op{para, hdr, img(7)}, OpenVia: "path", Ops: []ops.Op{ftr}, Target: "inplace", Light: true, NoBefore: true, FaultOver: true,
			Extra: edgeContentExtras(), Stages: []Stage{{Path: "new", NoBefore: true, Ops: []ops.Op{fn}}}})
	return append(cases, lightTargets()...)
}

// edgeContentExtras: one foreign part per content form of extraDatas for each of several part names / extensions.
func edgeContentExtras() []Extra {
	var out []Extra
	for i, d := range extraDatas {
		if d == "" && i > 0 {
			continue
		}
		out = append(out,
			Extra{Name: fmt.Sprintf("customXml/item%d.xml", i+1), Data: d},
			Extra{Name: fmt.Sprintf("customXml/_rels/item%d.xml.rels", i+1), Data: d},
			Extra{Name: fmt.Sprintf("word/embeddings/object%d.bin", i+1), Data: d})
	}
	names := []string{"docProps/custom.xml", "word/theme/theme1.xml", "word/fontTable.xml", "word/webSettings.xml", "word/glossary/document.xml", "extra.dat"}
	for i, n := range names {
		out = append(out, Extra{Name: n, Data: extraDatas[6+i%(len(extraDatas)-6)]})
	}
	return out
}

func manyExtras(n int) []Extra {
	out := []Extra{{Name: "customXml/"}, {Name: "word/media/image9.png", Data: "x"}, {Name: "word/media/image10.png", Data: "y"}}
	for i := len(out); i < n; i++ {
		out = append(out, Extra{Name: fmt.Sprintf("customXml/item%d.xml", i), Data: fmt.Sprintf("<i n=\"%d\"/>", i)})
	}
	return out
}

func tenSaves() []Stage {
	var out []Stage
	for i := 0; i < 11; i++ {
		out = append(out, Stage{Path: []string{"main", "prev", "new"}[i%3], NoBefore: i%2 == 0,
			Ops: []ops.Op{{K: "image", Img: &gen.Img{Fmt: "png", W: 2 + i, H: 3, Pat: i, Name: "same.png"}, I: []int{0, 0, 0, 0}, F: []float64{10, 10}, S: []string{"", "", ""}}}})
	}
	return out
}

func TestC05(t *testing.T) {
	kit.Main(t, kit.Spec[Case]{
		ID: "C05", Level: "fault_enumeration",
		Rule: "per generated document one unrestricted Save (L = file size) and one Save per fault point with the soft RLIMIT_FSIZE set to N: every N in [0,L) when L<=16384 (an expensive document - more than about 6e8/L bytes serialised per Save - keeps every N of the first 32 and last 1024 bytes and gets the rest evenly thinned; quick: every N of the first 32 and last 128 bytes, every second one of the 896 before with a phase that changes from case to case, about 100 evenly spaced ones between), else 0,1,L-2,L-1, eight offsets in the last 1000 bytes, every multiple of a 4096*2^k stride +-1 and 8-40 drawn offsets; one case in three takes a sparse sample of about 25 offsets instead (it is about its history / target); controls N in {L, L+1, L+4096}. Document: 0-12 API ops (incl. reopen / template rendering / Markdown conversion, which replace the object - the replaced objects stay alive and are saved after the final save) on a new document, or on a document opened (OpenFromMemory, or Open from a path) from the library's minimal package, from the package the library wrote for a generated document, or from a generated package of another producer (other prefixes, stored entries, absolute targets, several sections, odd media names), each optionally extended with 1-5 (rarely 33-70) foreign zip entries: directory entries, zero-length parts, unknown parts, names that differ only in case or are prefixes of one another, names the library generates itself (image9/image10, header1), non-ASCII names, data of 4095-70000 bytes, contents with a UTF-8 byte order mark / UTF-16 / white space, CRLF or NUL at the ends; optionally a large incompressible image (three size bands); optionally edits that cross counts (10-12, rarely 17/33/65 pictures or notes, up to 129 paragraphs) and a 63-130 KiB text with multi-byte characters. Targets: plain, nested new directories, existing longer file / shorter file / complete larger package, symbolic link to a file, dangling symbolic link, relative path in new directories, bare file name, path with .. and ., 255-byte name, non-ASCII name, white space at the ends of the path / of a relative path / of components (blank, tab, newline), no or another extension, the path the document was opened from; unusable targets (/dev/full, parent is a regular file, path is a directory, 256-byte name, empty path, directory below /proc) must give an error and the object is saved to an ordinary path afterwards. Save history: in about 3 of 4 cases the object was saved 1-4 (rarely 10-12) times before the final save (to the final path, the previous path, a fresh path, fresh directories, a relative path; one stage in four first hits a write fault at a drawn offset and is then repeated on the same path; one in ten goes to an unusable target and must fail), each save followed by 0-4 edits drawn mostly from the calls that create package parts plus body growth and shrinkage; in one case of four a second, independent Document object is saved and edited in some of the stages (alternately with the judged one, also to the same path) and once more between two final saves of the judged object; every save of every object is judged like the final one. A case is non-trivial when it has >2 fault points with 0<=N<L; distinct = (size band, target kind, source, op count, L/512, saves, objects).",
		Gen:  genCase, Run: run, Findings: findings, CaseLimit: 300e9,
		MustSee: map[string]float64{"history:multi-save": 0.3, "history:parts-added-between-saves": 0.15, "history:same-path-again": 0.15, "history:first-save": 0.1,
			"source:opened": 0.15, "source:foreign-package": 0.05, "objects:two": 0.05, "history:objects-saved-alternately": 0.05, "enumeration:exhaustive": 0.1},
		Fixed: fixedCases,
		Assumptions: []string{"write failures are modelled as 'the N-th byte of the output file cannot be written' (EFBIG through RLIMIT_FSIZE, ENOSPC through /dev/full); media errors on already written bytes and fsync failures are out of scope (the library never syncs)",
			"zip entry order is map-iteration order and is not compared; parts are compared as a name->bytes map",
			"a complete package ends the file: bytes after the end-of-central-directory record (leftovers of a longer file that was at the path) make a file unfaithful even when a lenient zip reader still finds the parts",
			"after a Save that returned an error nothing is demanded of the target file; the object must still save faithfully afterwards",
			"a save through a symbolic link is judged by what is read back through the same path (whether the link is followed or replaced is not prescribed)",
			"a byte slice returned by ToBytes belongs to the caller: when a later Save/ToBytes of the same or another object changes it, the serialised bytes the caller holds and the saved file disagree (judged under F1)",
			"every save is judged against ToBytes of the same object taken at that moment; nothing is demanded about an object staying unchanged while other objects are saved"},
		Extra: func() map[string]interface{} {
			return map[string]interface{}{"fault_points": faultPoints, "faults_surfacing_at_close": closeOnly, "faults_surfacing_in_write": writeFaults, "no_fault_controls": controls}
		},
	})
}

package c05

import (
	"testing"

	"wzverif/internal/kit"
)

// FuzzC05: coverage-guided search over the generator and oracle of TestC05 (thorough tier; see internal/kit/fuzz.go).
func FuzzC05(f *testing.F) { kit.FuzzVia(f, TestC05) }

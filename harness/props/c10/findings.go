package c10

import (
	"fmt"
	"strings"

	"wzverif/internal/kit"
)

const (
	kfRelID    = "KF-C10-relid-collision"
	kfSkipBody = "KF-C10-placeholder-skip-body"
	kfSkipCell = "KF-C10-placeholder-skip-cell"
	kfResize   = "KF-C10-resize-noop"
)

// opOf extracts the step index a failure detail starts with ("op N (...)").
func opOf(f kit.Failure) int {
	var n int
	if _, err := fmt.Sscanf(f.Detail, "op %d ", &n); err != nil {
		return -1
	}
	return n
}

var findings = []kit.Finding[Case]{
	{
		ID:     kfResize,
		Clause: "C10.K3.rule",
		Desc: "ResizeImage only stores the new ImageSize in ImageInfo.Config: the drawing the addition already put into the document keeps its wp:extent / a:ext, " +
			"the saved picture is shown at the size it had before the call",
		// input class: a ResizeImage call on the handle of a picture of the document; failure: the extent of exactly such a
		// picture (the detail names the resizing step) does not follow the rule of the new size and still is the extent the addition gave it
		Trigger: func(c Case, f kit.Failure) bool {
			i := strings.Index(f.Detail, ", resized by op ")
			if i < 0 || !strings.HasSuffix(f.Detail, unchangedNote) {
				return false
			}
			var n int
			if _, err := fmt.Sscanf(f.Detail[i:], ", resized by op %d)", &n); err != nil {
				return false
			}
			return n > 0 && n < len(c.Steps) && c.Steps[n].K == "resize" && opOf(f) > n
		},
	},
	{
		ID:     kfRelID,
		Clause: "C10.K1.relid",
		Desc: "new relationship ids are computed as rId<number of relationships + 2>: after opening a package whose main-part relationship ids are numeric but not the dense rId2..rIdN+1 " +
			"(another producer's numbering), the next picture/header/footer/numbering relationship reuses an existing id, so two pictures share one r:embed and one of them shows the other's bytes",
		// input class: a relationship-creating call after reopening a package renumbered with holes (shift, spread, gap);
		// failure: an r:embed that is the id of several relationships, observed after that reopen
		Trigger: func(c Case, f kit.Failure) bool {
			if !strings.Contains(f.Detail, "is the id of ") {
				return false
			}
			a := analyze(c)
			return a.sparseAt >= 0 && a.relAfterSparse && opOf(f) > a.sparseAt
		},
	},
	{
		ID:     kfSkipBody,
		Clause: "C10.K",
		Desc: "processImagePlaceholders replaces elements of Body.Elements while ranging over it: once a template paragraph has expanded into several paragraphs (text around the placeholder, " +
			"or several placeholders), later body elements are visited at stale positions - their placeholders stay unreplaced or their pictures replace/delete other elements",
		// input class: a render whose base document has a body paragraph expanding into >1 paragraphs followed by a body element with a placeholder;
		// every observation from that render on is affected (the document no longer is the model)
		Trigger: func(c Case, f kit.Failure) bool {
			a := analyze(c)
			return a.skipBodyAt >= 0 && opOf(f) >= a.skipBodyAt
		},
	},
	{
		ID:     kfSkipCell,
		Clause: "C10.K",
		Desc: "processImagePlaceholdersInTable replaces cell.Paragraphs while ranging over its old length: once a template paragraph of a cell has expanded into several paragraphs, " +
			"the last paragraphs of that cell are never visited and their placeholders stay unreplaced",
		Trigger: func(c Case, f kit.Failure) bool {
			a := analyze(c)
			return a.skipCellAt >= 0 && opOf(f) >= a.skipCellAt
		},
	},
}

package c10

import (
	"bytes"
	"fmt"
	"io"
	"testing"

	"github.com/zerx-lab/wordZero/pkg/document"
	"wzverif/internal/gen"
	"wzverif/internal/opc"
)

func TestProbe(t *testing.T) {
	document.SetGlobalLevel(document.LogLevelSilent)
	d := document.New()
	im := gen.Img{Fmt: "png", W: 3, H: 5, Pat: 1, Name: "a.png"}
	d.AddImageFromData(im.Bytes(), im.Name, document.ImageFormatPNG, 3, 5, &document.ImageConfig{Position: document.ImagePositionFloatLeft, Size: &document.ImageSize{Width: 10, KeepAspectRatio: true}})
	tb, _ := d.AddTable(&document.TableConfig{Rows: 2, Cols: 2, Width: 4000})
	im2 := gen.Img{Fmt: "gif", W: 4, H: 4, Pat: 2, Name: "a.png"}
	_, err := d.AddCellImageFromData(tb, 1, 1, im2.Bytes(), 0)
	fmt.Println("cell err", err)
	d.AddHeader(document.HeaderFooterTypeDefault, "hdr")
	d.AddParagraph("x {{#image a}} y {{#image b}}")
	d.AddParagraph("{{#image a}}")
	tb.SetCellText(0, 0, "{{#image b}} t")
	tb.AddCellParagraph(0, 0, "{{#image a}}")
	b, _ := d.ToBytes()
	p, _ := opc.Read(b)
	fmt.Println(string(p.Parts["word/_rels/document.xml.rels"]))
	d2, err := document.OpenFromMemory(io.NopCloser(bytes.NewReader(b)))
	fmt.Println("open", err)
	b2, _ := d2.ToBytes()
	p2, _ := opc.Read(b2)
	fmt.Println(string(p2.Parts["word/document.xml"]))
	fmt.Println(p2.SortedNames())
	te := document.NewTemplateEngine()
	_, err = te.LoadTemplateFromDocument("t", d2)
	fmt.Println("load", err)
	td := document.NewTemplateData()
	ia := gen.Img{Fmt: "jpeg", W: 6, H: 2, Pat: 3}
	ib := gen.Img{Fmt: "png", W: 2, H: 2, Pat: 4}
	td.SetImageFromData("a", ia.Bytes(), nil)
	td.SetImageFromData("b", ib.Bytes(), &document.ImageConfig{Size: &document.ImageSize{Height: 20, KeepAspectRatio: true}})
	d3, err := te.RenderTemplateToDocument("t", td)
	fmt.Println("render", err)
	b3, _ := d3.ToBytes()
	p3, _ := opc.Read(b3)
	fmt.Println(string(p3.Parts["word/document.xml"]))
	fmt.Println(string(p3.Parts["word/_rels/document.xml.rels"]))
	fmt.Println(p3.SortedNames())
}

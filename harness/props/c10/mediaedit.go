package c10

import (
	"archive/zip"
	"bytes"
	"fmt"
	"path"
	"regexp"
	"strconv"
	"strings"

	"wzverif/internal/opc"
)

// Media naming schemes: how another producer might have named (and referred to) the media parts of the main part.
// The bytes of every part stay what they were; only part names, relationship targets and zip entries change.
const (
	medKeep     = 0 // names as the library wrote them
	medAbsolute = 1 // Target="/word/media/imageN.ext": an absolute reference to the same part
	medZeros    = 2 // imageN.ext -> image0N.ext (leading zero)
	medShift    = 3 // imageN.ext -> image(N+K).ext: the numbers continue past 9 / 99 / 999 with holes below
	medNamed    = 4 // imageN.ext -> pic_N.ext: names the library does not generate
	medUpperExt = 5 // imageN.png -> imageN.PNG (extension matching of content types is case-insensitive)
	medDirs     = 6 // the zip has directory entries word/ and word/media/ (zip tools write them)
	medNoNumber = 7 // the first media part is called image.ext (no number), the others keep their names
	nMedSchemes = 8
)

// medShifts are the K of medShift: they move the highest number to just below, onto and just past a power of ten.
var medShifts = []int{1, 8, 9, 10, 97, 99, 990}

var (
	relElem    = regexp.MustCompile(`<Relationship\b[^>]*>`)
	targetAttr = regexp.MustCompile(`\bTarget="([^"]*)"`)
	imageName  = regexp.MustCompile(`^image(\d+)(\.[A-Za-z0-9]+)$`)
)

// remedia rewrites names of the media parts the image relationships of word/document.xml point to. It returns the new
// package and how many relationship targets or zip entries differ.
func remedia(b []byte, scheme, k int) ([]byte, int, error) {
	if scheme == medKeep {
		return b, 0, nil
	}
	pkg, err := opc.Read(b)
	if err != nil {
		return nil, 0, err
	}
	const relsName = "word/_rels/document.xml.rels"
	if k < 0 {
		k = -k
	}
	shift := medShifts[k%len(medShifts)]
	// old part name -> new part name, old target -> new target
	rename := map[string]string{}
	retarget := map[string]string{}
	first := true
	for _, r := range pkg.Rels[relsName] {
		if r.Type != relImage || r.External() {
			continue
		}
		if _, ok := pkg.Parts[r.Resolved]; !ok {
			continue
		}
		dir, file := path.Split(r.Resolved)
		m := imageName.FindStringSubmatch(file)
		if m == nil || dir != "word/media/" {
			continue
		}
		n, err := strconv.Atoi(m[1])
		if err != nil {
			continue
		}
		nf := file
		switch scheme {
		case medAbsolute:
			retarget[r.Target] = "/" + r.Resolved
			continue
		case medZeros:
			nf = "image0" + m[1] + m[2]
		case medShift:
			nf = fmt.Sprintf("image%d%s", n+shift, m[2])
		case medNamed:
			nf = "pic_" + m[1] + m[2]
		case medUpperExt:
			nf = "image" + m[1] + strings.ToUpper(m[2])
		case medNoNumber:
			if first {
				nf = "image" + m[2]
			}
		}
		first = false
		if nf != file {
			rename[r.Resolved] = dir + nf
			retarget[r.Target] = "media/" + nf
		}
	}
	// no two parts may end up under one name
	taken := map[string]bool{}
	for _, name := range pkg.Names {
		n := name
		if v, ok := rename[name]; ok {
			n = v
		}
		if taken[n] {
			return nil, 0, fmt.Errorf("media renaming is not injective at %s", n)
		}
		taken[n] = true
	}
	changed := len(retarget)
	rels := relElem.ReplaceAllFunc(pkg.Parts[relsName], func(e []byte) []byte {
		if !bytes.Contains(e, []byte(relImage)) {
			return e
		}
		return targetAttr.ReplaceAllFunc(e, func(a []byte) []byte {
			t := string(targetAttr.FindSubmatch(a)[1])
			if n, ok := retarget[t]; ok {
				return []byte(`Target="` + n + `"`)
			}
			return a
		})
	})
	var buf bytes.Buffer
	zw := zip.NewWriter(&buf)
	dirs := map[string]bool{}
	for _, name := range pkg.Names {
		data := pkg.Parts[name]
		if name == relsName {
			data = rels
		}
		if v, ok := rename[name]; ok {
			name = v
		}
		if scheme == medDirs {
			for _, d := range []string{"word/", "word/media/"} {
				if strings.HasPrefix(name, d) && !dirs[d] && name != d {
					dirs[d] = true
					if _, err := zw.Create(d); err != nil {
						return nil, 0, err
					}
					changed++
				}
			}
		}
		w, err := zw.Create(name)
		if err != nil {
			return nil, 0, err
		}
		if _, err := w.Write(data); err != nil {
			return nil, 0, err
		}
	}
	if err := zw.Close(); err != nil {
		return nil, 0, err
	}
	return buf.Bytes(), changed, nil
}

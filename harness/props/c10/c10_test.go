package c10

import (
	"bytes"
	"fmt"
	"io"
	"os"
	"path/filepath"
	"strings"
	"testing"
	"time"

	"github.com/zerx-lab/wordZero/pkg/document"

	"wzverif/internal/gen"
	"wzverif/internal/kit"
	"wzverif/internal/ops"
)

func TestMain(m *testing.M) {
	document.SetGlobalLevel(document.LogLevelSilent)
	kit.TestMain(m, 900, 10000)
}

// ---- interpreter ------------------------------------------------------------------------------------------------------

type exec struct {
	res             *kit.Result
	doc             *document.Document
	m               *model
	dir             string
	nfile           int
	unjudged        int
	reopens         int
	foreign         bool
	picAfterForeign bool
	renders         int
	shape           []string
	// sources that live as long as the case
	te       *document.TemplateEngine // the case's one engine (Eng >= 1)
	teRuns   int                      // renders it has done
	td       *document.TemplateData   // the case's one TemplateData (TD == 1)
	tdRuns   int
	entries  map[string]tdEntry // what the harness set in td
	tt       tplTrack
	slotImg  map[int]gen.Img   // what is at the k-th reused path now
	slotUses map[int][]slotUse // pictures made from the k-th reused path so far
	// widened domain (widen.go)
	handles []*handle                     // ImageInfo handles the current document object returned
	alt     *side                         // the case's other document
	cfgs    map[int]*document.ImageConfig // the case's shared config objects
	cfgSize map[int]Size                  // the size configuration each of them was created with
	cfgUses map[int][]*pic
	swaps   int
}

// fileFor writes the payload under its original name when that is a legal file name (else under its base name), at a path
// of its own; with slot > 0 it replaces the file at the case's slot-th reused path instead.
func (x *exec) fileFor(im gen.Img, slot int) (path, used string, err error) {
	if slot > 0 {
		d := filepath.Join(x.dir, fmt.Sprintf("slot%d", slot))
		if err := os.MkdirAll(d, 0o755); err != nil {
			return "", "", err
		}
		p := filepath.Join(d, slotName(slot))
		if err := os.WriteFile(p, payload(im), 0o644); err != nil {
			return "", "", err
		}
		if x.slotImg == nil {
			x.slotImg = map[int]gen.Img{}
		}
		x.slotImg[slot] = im
		return p, slotName(slot), nil
	}
	name := im.Name
	if strings.ContainsAny(name, "/\x00") || name == "" || name == "." || name == ".." {
		name = filepath.Base(name)
	}
	if name == "" || name == "." || name == ".." || name == "/" {
		name = "img"
	}
	x.nfile++
	d := filepath.Join(x.dir, fmt.Sprintf("f%d", x.nfile))
	if err := os.MkdirAll(d, 0o755); err != nil {
		return "", "", err
	}
	p := filepath.Join(d, name)
	return p, name, os.WriteFile(p, payload(im), 0o644)
}

// used records that picture p was made from the slot-th reused path and labels the input class.
func (x *exec) used(slot int, p *pic, src string, shared bool) {
	if slot <= 0 || p == nil {
		return
	}
	p.slot = slot
	for _, u := range x.slotUses[slot] {
		if u.hash == p.hash {
			continue
		}
		x.res.Label("path-reused-other-bytes:" + src)
		if u.w != p.w || u.h != p.h {
			x.res.Label("path-reused-other-pixel-size:" + src)
			if shared && u.shared {
				x.res.Label("one-engine-same-path-other-pixel-size")
			}
		}
	}
	if x.slotUses == nil {
		x.slotUses = map[int][]slotUse{}
	}
	x.slotUses[slot] = append(x.slotUses[slot], slotUse{hash: p.hash, w: p.w, h: p.h, src: src, shared: shared})
}

func imageConfig(sz Size, look []int, alt, title string) *document.ImageConfig {
	if sz.Mode == "nil" {
		return nil
	}
	c := &document.ImageConfig{AltText: alt, Title: title}
	switch sz.Mode {
	case "both":
		c.Size = &document.ImageSize{Width: sz.W, Height: sz.H}
	case "bothkeep":
		c.Size = &document.ImageSize{Width: sz.W, Height: sz.H, KeepAspectRatio: true}
	case "wkeep":
		c.Size = &document.ImageSize{Width: sz.W, KeepAspectRatio: true}
	case "hkeep":
		c.Size = &document.ImageSize{Height: sz.H, KeepAspectRatio: true}
	case "wonly":
		c.Size = &document.ImageSize{Width: sz.W}
	case "honly":
		c.Size = &document.ImageSize{Height: sz.H}
	case "empty":
		c.Size = &document.ImageSize{}
	case "emptykeep":
		c.Size = &document.ImageSize{KeepAspectRatio: true}
	}
	l := func(i int) int {
		if i < len(look) {
			return look[i]
		}
		return 0
	}
	switch ops.In(l(0), 4) {
	case 1:
		c.Position = document.ImagePositionInline
	case 2:
		c.Position = document.ImagePositionFloatLeft
	case 3:
		c.Position = document.ImagePositionFloatRight
	}
	if l(1) > 0 {
		c.Alignment = ops.Aligns[ops.In(l(1), 4)]
	}
	switch ops.In(l(2), 5) {
	case 1:
		c.WrapText = document.ImageWrapNone
	case 2:
		c.WrapText = document.ImageWrapSquare
	case 3:
		c.WrapText = document.ImageWrapTight
	case 4:
		c.WrapText = document.ImageWrapTopAndBottom
	}
	return c
}

func hfType(i int) document.HeaderFooterType {
	switch ops.In(i, 3) {
	case 0:
		return document.HeaderFooterTypeDefault
	case 1:
		return document.HeaderFooterTypeFirst
	}
	return document.HeaderFooterTypeEven
}

func (x *exec) bytesOf(where string) []byte {
	var b []byte
	var err error
	x.res.Eval("C10.K0")
	if p, st := kit.Try(func() { b, err = x.doc.ToBytes() }); p != nil {
		x.res.Fail("C10.K0", "%s: ToBytes panicked: %v [%s]", where, p, st)
		return nil
	}
	if err != nil {
		x.res.Fail("C10.K0", "%s: ToBytes failed, the pictures are stored nowhere: %v", where, err)
		return nil
	}
	return b
}

// table returns the library table corresponding to the model's ti-th table.
func (x *exec) table(where string, ti int) *document.Table {
	ts := x.doc.Body.GetTables()
	if len(ts) != len(x.m.tables()) {
		x.res.Fail("C10.K0", "%s: the document has %d tables, %d were added", where, len(ts), len(x.m.tables()))
		return nil
	}
	return ts[ti]
}

// step executes one step; false stops the case (the state is no longer comparable).
func (x *exec) step(i int, s Step) bool {
	where := fmt.Sprintf("op %d (%s)", i, s.K)
	res := x.res
	call := func(f func() error) bool {
		res.Eval("C10.K0")
		var err error
		if p, st := kit.Try(func() { err = f() }); p != nil {
			res.Fail("C10.K0", "%s panicked: %v [%s]", where, p, st)
			return false
		}
		if err != nil {
			res.Fail("C10.K0", "%s: a call with valid arguments failed: %v", where, err)
			return false
		}
		return true
	}
	added := func(p *pic) {
		if p == nil {
			return
		}
		if x.foreign {
			x.picAfterForeign = true
		}
		x.shape = append(x.shape, s.K+":"+p.format+":"+p.size.Mode)
	}
	switch s.K {
	case "img":
		if s.Img == nil || s.Size == nil {
			return true
		}
		im := *s.Img
		var info *document.ImageInfo
		cfg := x.cfgFor(s.Cfg, *s.Size, s.Look, s.S)
		if !call(func() error {
			var err error
			info, err = x.doc.AddImageFromData(given(im), im.Name, ops.ImgFormats[im.Fmt], im.W, im.H, cfg)
			return err
		}) {
			return false
		}
		p, _ := x.m.apply(s, i)
		x.made(p, info, s.Cfg)
		added(p)
	case "imgfile":
		if s.Img == nil || s.Size == nil {
			return true
		}
		path, used, err := x.fileFor(*s.Img, s.Slot)
		if err != nil {
			res.Count("scratch-problem", 1)
			return true
		}
		var info *document.ImageInfo
		cfg := x.cfgFor(s.Cfg, *s.Size, s.Look, s.S)
		if !call(func() error {
			var err error
			info, err = x.doc.AddImageFromFile(path, cfg)
			return err
		}) {
			return false
		}
		p, _ := x.m.apply(s, i)
		if p != nil {
			p.name = used
		}
		x.made(p, info, s.Cfg)
		added(p)
		x.used(s.Slot, p, "body", false)
	case "table":
		r, c := s.N, s.M
		if r < 1 {
			r = 1
		}
		if c < 1 {
			c = 1
		}
		if !call(func() error {
			_, err := x.doc.AddTable(&document.TableConfig{Rows: r, Cols: c, Width: 6000})
			return err
		}) {
			return false
		}
		x.m.apply(s, i)
		x.shape = append(x.shape, "table")
	case "cellimg", "cellimgd", "cellimgf":
		ti, r, c, _, ok := x.m.cellOf(s)
		if !ok || s.Img == nil || s.Size == nil {
			res.Count("skipped-step", 1)
			return true
		}
		t := x.table(where, ti)
		if t == nil {
			return false
		}
		im := *s.Img
		sz := *s.Size
		var f func() error
		var info *document.ImageInfo
		used := im.Name
		slot := 0
		switch s.K {
		case "cellimg":
			cfg := &document.CellImageConfig{AltText: s.S}
			switch sz.Mode {
			case "both":
				cfg.Width, cfg.Height = sz.W, sz.H
			case "bothkeep":
				cfg.Width, cfg.Height, cfg.KeepAspectRatio = sz.W, sz.H, true
			case "wkeep":
				cfg.Width, cfg.KeepAspectRatio = sz.W, true
			case "hkeep":
				cfg.Height, cfg.KeepAspectRatio = sz.H, true
			case "wonly":
				cfg.Width = sz.W
			case "honly":
				cfg.Height = sz.H
			}
			if s.B {
				path, u, err := x.fileFor(im, s.Slot)
				if err != nil {
					res.Count("scratch-problem", 1)
					return true
				}
				used, slot = u, s.Slot
				cfg.FilePath = path
			} else {
				cfg.Data = given(im)
				if s.N%2 == 1 {
					cfg.Format = ops.ImgFormats[im.Fmt]
				}
			}
			f = func() (err error) { info, err = x.doc.AddCellImage(t, r, c, cfg); return err }
		case "cellimgd":
			w := 0.0
			if sz.Mode == "wkeep" {
				w = sz.W
			}
			f = func() (err error) { info, err = x.doc.AddCellImageFromData(t, r, c, given(im), w); return err }
		case "cellimgf":
			w := 0.0
			if sz.Mode == "wkeep" {
				w = sz.W
			}
			path, u, err := x.fileFor(im, s.Slot)
			if err != nil {
				res.Count("scratch-problem", 1)
				return true
			}
			used, slot = u, s.Slot
			f = func() (err error) { info, err = x.doc.AddCellImageFromFile(t, r, c, path, w); return err }
		}
		if !call(f) {
			return false
		}
		p, _ := x.m.apply(s, i)
		if p != nil {
			p.name = used
		}
		x.made(p, info, 0)
		added(p)
		x.used(slot, p, "cell", false)
	case "phpara":
		if len(s.Texts) != len(s.Phs)+1 {
			return true
		}
		text := paraText(s.Texts, s.Phs, s.N)
		if !call(func() error { x.doc.AddParagraph(text); return nil }) {
			return false
		}
		x.m.apply(s, i)
		x.shape = append(x.shape, fmt.Sprintf("phpara:%d", len(s.Phs)))
	case "cellph":
		ti, r, c, fresh, ok := x.m.cellOf(s)
		if !ok || len(s.Texts) != len(s.Phs)+1 {
			res.Count("skipped-step", 1)
			return true
		}
		t := x.table(where, ti)
		if t == nil {
			return false
		}
		text := paraText(s.Texts, s.Phs, s.N)
		if s.B && fresh {
			if !call(func() error { return t.SetCellText(r, c, text) }) {
				return false
			}
		} else if !call(func() error { _, err := t.AddCellParagraph(r, c, text); return err }) {
			return false
		}
		x.m.apply(s, i)
		x.shape = append(x.shape, fmt.Sprintf("cellph:%d", len(s.Phs)))
	case "render":
		td := document.NewTemplateData()
		entries := map[string]tdEntry{}
		if s.TD == 1 {
			if x.td == nil {
				x.td, x.entries = document.NewTemplateData(), map[string]tdEntry{}
			}
			td, entries = x.td, x.entries
			if x.tdRuns > 0 {
				res.Label("templatedata-reused")
			}
			x.tdRuns++
		}
		if s.Clear {
			// documented: Clear empties the template data; what earlier renders set is gone
			td.Clear()
			for n := range entries {
				delete(entries, n)
			}
			res.Label("templatedata-cleared")
		}
		dst := td
		if s.Merge {
			td = document.NewTemplateData() // the entries go here first and reach the render's data through Merge
		}
		for _, d := range s.Data {
			b := given(d.Img)
			cfg := x.cfgFor(d.Cfg, d.Size, d.Look, "")
			if d.Cfg > 0 {
				d.Size = x.cfgSize[d.Cfg]
			}
			e := tdEntry{via: d.Via, img: d.Img, size: d.Size, name: d.Img.Name, op: i, cfg: d.Cfg}
			switch d.Via {
			case "file", "details-file":
				path, u, err := x.fileFor(d.Img, d.Slot)
				if err != nil {
					res.Count("scratch-problem", 1)
					return true
				}
				e.name, e.slot = u, d.Slot
				if d.Via == "file" {
					td.SetImage(d.Name, path, cfg)
				} else {
					td.SetImageWithDetails(d.Name, path, nil, cfg, d.Alt, d.Title)
				}
			case "details-data":
				td.SetImageWithDetails(d.Name, "", b, cfg, d.Alt, d.Title)
			case "details-both":
				// documented: the binary data is preferred over the path
				decoy := d.Img
				decoy.Pat ^= 0x5a5a5
				decoy.Name = "decoy.png"
				path, _, err := x.fileFor(decoy, 0)
				if err != nil {
					res.Count("scratch-problem", 1)
					return true
				}
				td.SetImageWithDetails(d.Name, path, b, cfg, d.Alt, d.Title)
			default:
				td.SetImageFromData(d.Name, b, cfg)
			}
			entries[d.Name] = e
			res.Label("tpl-via:" + d.Via)
		}
		if s.Merge {
			dst.Merge(td)
			td = dst
			res.Label("templatedata-merged")
		}
		// what every entry of the TemplateData leads to when the render reads it: a path is a reference, the files of
		// the reused paths are what the last writer left there
		imgs := map[string]*pic{}
		for name, e := range entries {
			im := e.img
			if viaFile(e.via) && e.slot > 0 {
				im = x.slotImg[e.slot]
			}
			b := payload(im)
			p := &pic{hash: hashOf(b), n: len(b), w: im.W, h: im.H, format: im.Fmt, size: e.size, name: e.name, op: i, stale: e.op != i, cfg: e.cfg}
			p.tail, p.base = tailOf(im)
			if viaFile(e.via) {
				p.slot = e.slot
			}
			imgs[name] = p
		}
		var nd *document.Document
		base, again := x.tt.base(x.m, s.Eng)
		shared := s.Eng >= 1
		shared = shared && s.Eng != 3
		if s.Eng == 3 {
			res.Label("render-through-TemplateRenderer")
		}
		if !call(func() error {
			if s.Eng == 3 {
				// the documented file route: the template is a .docx on disk
				p := filepath.Join(x.dir, fmt.Sprintf("tpl%d.docx", i))
				if err := x.doc.Save(p); err != nil {
					return err
				}
				tr := document.NewTemplateRenderer()
				tr.SetLogging(false)
				if _, err := tr.LoadTemplateFromFile("t", p); err != nil {
					return err
				}
				var err error
				nd, err = tr.RenderTemplate("t", td)
				return err
			}
			te := document.NewTemplateEngine()
			if shared {
				if x.te == nil {
					x.te = document.NewTemplateEngine()
				}
				te = x.te
			}
			if !again {
				if _, err := te.LoadTemplateFromDocument("t", x.doc); err != nil {
					return err
				}
			}
			var err error
			nd, err = te.RenderTemplateToDocument("t", td)
			return err
		}) {
			return false
		}
		if nd == nil {
			res.Fail("C10.K0", "%s: RenderTemplateToDocument returned no document and no error", where)
			return false
		}
		if shared {
			if x.teRuns > 0 {
				res.Label("engine-reused")
			}
			x.teRuns++
		}
		if again {
			res.Label("template-rendered-again")
		}
		x.m = base
		x.doc = nd
		x.handles = nil
		info := x.m.render(imgs)
		x.renders++
		for _, p := range x.m.pics() {
			if p.op != i || (p.src != "tpl-body" && p.src != "tpl-cell") {
				continue
			}
			if p.stale {
				res.Label("stale-templatedata-entry-shown")
			}
			x.used(p.slot, p, "tpl", shared)
		}
		x.shape = append(x.shape, fmt.Sprintf("render:%d/%d", info.supplied, info.placeholders))
		if info.supplied > 0 {
			res.Label("render-with-pictures")
			if x.foreign {
				x.picAfterForeign = true
			}
		}
		if info.adjacent {
			res.Label("placeholders-in-adjacent-paragraphs")
		}
		if info.multiPerPara {
			res.Label("several-placeholders-in-one-paragraph")
		}
		if info.inCell {
			res.Label("placeholder-in-cell")
		}
		if info.missingImages > 0 {
			res.Label("placeholder-without-image")
		}
		if info.existingPics > 0 && info.supplied > 0 {
			res.Label("render-on-document-with-pictures")
		}
		if info.skipBody {
			res.Label("class:expansion-before-placeholder(body)")
		}
		if info.skipCell {
			res.Label("class:expansion-before-placeholder(cell)")
		}
		if b := x.bytesOf(where); b != nil {
			observe(res, where, b, x.m, &x.unjudged)
		} else {
			return false
		}
	case "reopen", "renumber":
		var b []byte
		if s.K == "renumber" || !s.B { // (reopen through a file: Save writes the package itself)
			if b = x.bytesOf(where); b == nil {
				return false
			}
		}
		if s.K == "renumber" {
			nf := len(res.Failures)
			observe(res, where+" before reopening", b, x.m, &x.unjudged)
			clean := len(res.Failures) == nf
			nb, changed, err := renumber(b, ops.In(s.N, nSchemes), 1+ops.In(s.M, 3))
			if err != nil {
				res.Count("renumber-not-applicable", 1)
				return true
			}
			if changed > 0 {
				res.Label(fmt.Sprintf("renumber:scheme%d", ops.In(s.N, nSchemes)))
				x.foreign = true
			}
			b = nb
			if s.NoSty > 0 {
				sb, onPicture, schanged, err := dropStyles(b, s.NoSty)
				if err != nil {
					res.Count("renumber-not-applicable", 1)
					return true
				}
				if schanged > 0 {
					res.Label("foreign-package-without-styles-part")
					if onPicture {
						res.Label("foreign-package-without-styles-part:its-usual-id-is-a-picture's")
					}
					x.foreign = true
				}
				b = sb
			}
			if s.Med != medKeep {
				mb, mchanged, err := remedia(b, ops.In(s.Med, nMedSchemes), s.MedK)
				if err != nil {
					res.Count("renumber-not-applicable", 1)
					return true
				}
				if mchanged > 0 {
					res.Label("foreign-media-names")
					res.Label(fmt.Sprintf("foreign-media-names:scheme%d", ops.In(s.Med, nMedSchemes)))
					x.foreign = true
				}
				b = mb
			}
			// the renumbered package must itself satisfy the oracle, otherwise the harness's rewrite is wrong
			if clean {
				pre := &kit.Result{}
				u := 0
				observe(pre, where, b, x.m, &u)
				if len(pre.Failures) > 0 {
					res.Fail("C10.harness", "%s: the renumbered package does not satisfy the oracle (harness defect): %s", where, pre.Failures[0].Detail)
					return false
				}
			}
		}
		var nd *document.Document
		if !call(func() error {
			var err error
			if s.B {
				p := filepath.Join(x.dir, fmt.Sprintf("reopen%d.docx", i))
				if s.K == "reopen" {
					// Save writes the file itself; what it wrote is judged like every saved package
					if err := x.doc.Save(p); err != nil {
						return err
					}
					fb, err := os.ReadFile(p)
					if err != nil {
						return nil
					}
					observe(res, where+" (file written by Save)", fb, x.m, &x.unjudged)
				} else if err := os.WriteFile(p, b, 0o644); err != nil {
					return nil
				}
				nd, err = document.Open(p)
			} else {
				nd, err = document.OpenFromMemory(io.NopCloser(bytes.NewReader(b)))
			}
			return err
		}) {
			return false
		}
		if nd == nil {
			res.Count("scratch-problem", 1)
			return true
		}
		x.doc = nd
		x.handles = nil
		x.reopens++
		x.shape = append(x.shape, s.K)
		if nb := x.bytesOf(where); nb != nil {
			observe(res, where+" after reopening", nb, x.m, &x.unjudged)
		} else {
			return false
		}
	case "save":
		b := x.bytesOf(where)
		if b == nil {
			return false
		}
		observe(res, where, b, x.m, &x.unjudged)
		x.shape = append(x.shape, "save")
	case "header":
		call(func() error { return x.doc.AddHeader(hfType(s.N), s.S) })
		x.shape = append(x.shape, "header")
	case "footer":
		call(func() error { return x.doc.AddFooter(hfType(s.N), s.S) })
		x.shape = append(x.shape, "footer")
	case "listitem":
		call(func() error {
			x.doc.AddListItem(s.S, &document.ListConfig{Type: ops.ListTypes[ops.In(s.N, len(ops.ListTypes))], BulletSymbol: document.BulletTypeDot})
			return nil
		})
		x.shape = append(x.shape, "listitem")
	case "para":
		call(func() error { x.doc.AddParagraph(s.S); return nil })
	default:
		return x.widened(i, s, where, call)
	}
	return true
}

func run(c Case) *kit.Result {
	res := &kit.Result{}
	document.VerifResetGlobals()
	dir, err := os.MkdirTemp(kit.Scratch, "c10-")
	if err != nil {
		res.Count("scratch-problem", 1)
		return res
	}
	defer os.RemoveAll(dir)
	x := &exec{res: res, doc: document.New(), m: &model{}, dir: dir}
	completed := true
	for i, s := range c.Steps {
		if !x.step(i, s) {
			completed = false
			break
		}
	}
	if completed {
		where := fmt.Sprintf("op %d (final save)", len(c.Steps))
		if b := x.bytesOf(where); b != nil {
			observe(res, where, b, x.m, &x.unjudged)
		}
		if x.alt != nil {
			// the other document of the case: nothing done to the current one may have reached it
			x.swap()
			where = fmt.Sprintf("op %d (final save of the other document)", len(c.Steps))
			if b := x.bytesOf(where); b != nil {
				observe(res, where, b, x.m, &x.unjudged)
			}
			x.swap()
		}
	}
	// evidence
	pics := x.m.pics()
	if x.alt != nil {
		pics = append(pics, x.alt.m.pics()...)
	}
	x.widenedLabels(pics)
	formats, srcs, modes := map[string]bool{}, map[string]bool{}, map[string]bool{}
	names := map[string]string{}
	for _, p := range pics {
		formats[p.format] = true
		srcs[p.src] = true
		modes[p.size.Mode] = true
		if h, ok := names[p.name]; ok && h != p.hash {
			res.Label("two-payloads-under-one-name")
		}
		names[p.name] = p.hash
		res.Label("fmt:" + p.format)
		res.Label("src:" + p.src)
		res.Label("size:" + p.size.Mode)
		if strings.ContainsAny(p.name, "<&\"") || !isASCII(p.name) || !strings.Contains(p.name, ".") || strings.HasSuffix(p.name, ".xml") || strings.HasSuffix(p.name, ".rels") {
			res.Label("odd-file-name")
		}
	}
	if x.unjudged > 0 {
		res.Label("extent-not-judged(one dimension, no keep-aspect)")
		res.Count("extent-not-judged", x.unjudged)
	}
	if x.reopens > 0 {
		res.Label("reopen")
	}
	if x.foreign {
		res.Label("reopen-of-renumbered-package")
	}
	if x.picAfterForeign {
		res.Label("picture-after-reopen-of-renumbered-package")
	}
	if x.renders > 0 {
		res.Label("render")
	}
	if x.m.pendingPlaceholders() > 0 {
		res.Label("unrendered-placeholders-at-end")
	}
	res.Count("pictures", len(pics))
	res.Nontrivial = len(pics) >= 3 && len(formats) >= 2 && (x.reopens > 0 || srcs["cell"] || srcs["tpl-body"] || srcs["tpl-cell"])
	res.Shape = strings.Join(x.shape, "|")
	return res
}

func isASCII(s string) bool {
	for _, r := range s {
		if r > 127 {
			return false
		}
	}
	return true
}

func TestC10(t *testing.T) {
	kit.Main(t, kit.Spec[Case]{
		ID: "C10", Level: "exploration",
		Rule: "history of 3-22 (thorough 3-40) calls: AddImageFromData / AddImageFromFile (png, jpeg, gif payloads 1-64 px made by the standard encoders, traceable by sha256; file-name classes incl. equal names for different payloads, non-ASCII, no extension, misleading extension), AddCellImage / ...FromData / ...FromFile, template paragraphs with {{#image x}} placeholders in the body and in table cells (alone, with text around, several per paragraph, in consecutive paragraphs) rendered through LoadTemplateFromDocument + RenderTemplateToDocument with SetImage / SetImageFromData / SetImageWithDetails, optionally (half of the cases) with sources that outlive one use - one TemplateEngine for all renders of the case (newly loaded documents and the loaded template rendered again), one TemplateData whose entries partly stay from render to render, and up to three file paths whose image the harness replaces (other bytes, format, pixel size) before each AddImageFromFile / AddCellImage(FilePath) / AddCellImageFromFile / SetImage that names them -, interleaved with headers, footers, list items, saves, save->OpenFromMemory/Open cycles and reopening of a copy of the package whose relationship ids were renumbered by the harness (5 schemes); size configs nil / none / an ImageSize without dimensions / WxH / one dimension with KeepAspectRatio / one dimension without, 0.1-500 mm. Widened: ResizeImage and the other setters that take the ImageInfo an addition of the current document object returned; AddImageFromDataWithoutElement; additions that cannot succeed (missing / empty / non-image file, cell out of range, config without source); *ImageConfig objects reused for several pictures (a third of the cases); a second document the history alternates with; the same bytes twice, payloads with bytes after the end-of-image marker, now and then 65-200 px (media parts > 64 KiB); names the library itself generates, names differing only in case; bursts of 8-13 (rarely 31-36, thorough up to 70) additions followed by reopen and more additions; renders through a TemplateRenderer (Save + LoadTemplateFromFile + RenderTemplate), TemplateData.Merge / Clear; reopen through Save + Open; foreign media part names (absolute targets, leading zeros, numbers shifted past 9/99/999, other names, upper-case extension, zip directory entries) next to the foreign relationship ids; foreign packages without a styles part (a third of the renumbered ones), where the id the library gives the styles relationship is unused or is the id of a picture / header / numbering relationship. Reference model = ordered list of pictures by position {payload hash, pixel size, size config} (for a path: hash and pixel size of the bytes that are at the path when the creating call reads it); every saved package is read with the harness's own zip/OPC/XML readers. non-trivial = >=3 pictures of >=2 formats with >=1 reopen or >=1 cell/template picture; distinct = distinct sequence of (step kind, format, size mode, placeholders per paragraph, render outcome)",
		Gen:  genCase, Run: run, Findings: findings, Fixed: fixedCases,
		// every case works in a scratch directory of its own (image files, saved packages); on a heavily loaded machine creating and
		// removing it has been seen to stall for many seconds, so the watchdog for a hanging case is wider than the default 20 s
		CaseLimit: 60 * time.Second,
		MustSee: map[string]float64{"two-payloads-under-one-name": 0.05, "picture-after-reopen-of-renumbered-package": 0.05, "placeholders-in-adjacent-paragraphs": 0.05,
			"several-placeholders-in-one-paragraph": 0.05, "placeholder-in-cell": 0.05, "src:cell": 0.2, "src:tpl-body": 0.15, "src:tpl-cell": 0.05, "reopen": 0.3,
			"fmt:png": 0.3, "fmt:jpeg": 0.3, "fmt:gif": 0.3, "size:wkeep": 0.15, "size:hkeep": 0.1, "size:both": 0.15, "size:none": 0.1, "render-on-document-with-pictures": 0.1,
			"engine-reused": 0.05, "template-rendered-again": 0.05, "templatedata-reused": 0.04, "stale-templatedata-entry-shown": 0.02,
			"path-reused-other-pixel-size:tpl": 0.04, "path-reused-other-pixel-size:body": 0.08, "path-reused-other-pixel-size:cell": 0.03,
			"one-engine-same-path-other-pixel-size": 0.015,
			// widened domain
			"resize": 0.05, "setter-after-insertion": 0.02, "two-documents-both-with-pictures": 0.05, "config-object-reused-other-aspect-ratio": 0.08,
			"failed-addition-then-more": 0.03, "media-part-without-picture": 0.02, "pictures>10": 0.1, "foreign-media-names": 0.04,
			"render-through-TemplateRenderer": 0.05, "templatedata-merged": 0.03, "payload-with-trailing-bytes": 0.1, "payloads-prefix-of-one-another": 0.05,
			"same-payload-under-two-names": 0.08, "name-the-library-generates": 0.2, "names-differ-only-in-case": 0.04, "size:empty": 0.1, "pixel-size>64": 0.03,
			"foreign-package-without-styles-part": 0.03, "foreign-package-without-styles-part:its-usual-id-is-a-picture's": 0.02},
		Assumptions: []string{
			"1 mm = 36000 EMU and 1 px at 96 dpi = 9525 EMU; the documentation leaves rounding open, so a given dimension may be off by 1 EMU and a derived one by 1 EMU plus the pixel ratio",
			"one dimension without KeepAspectRatio: the statement gives no rule, the extent is not judged (counted as extent-not-judged); wp:extent = a:ext is still demanded",
			"where a picture lands relative to other body elements is C08's subject; only the order among pictures is compared (for template pictures: placeholder order of the base document)",
			"renumbered packages keep the styles relationship at the id it has (foreign numbering of that relationship is C02/C04's subject) or have no styles part at all (it is optional; then its usual id rId1 may be any other relationship's, a picture's included); the rewritten package is checked against the same oracle before it is opened",
			"an r:embed that is the id of several relationships counts as resolved only if all of them lead to the picture's own bytes",
			"template texts around placeholders contain no other template syntax; placeholders use names of [A-Za-z0-9_]+",
			"a file path is a reference: the picture shows the bytes that are at the path when the call that creates the picture reads it - AddImageFromFile / AddCellImage / AddCellImageFromFile: that call; TemplateData.SetImage (no error result, cannot read): the render. The harness replaces a file only between such calls, never during one",
			"ResizeImage (documented: adjusts the picture size; the README calls it on the ImageInfo of a picture that is in the document) makes its ImageSize the picture's size configuration, judged by the same sizing rules; the other setters have no rule in the statement: the picture keeps bytes and extent",
			"an ImageSize with no dimension set is 'no size given' (pixel size at 96 dpi); a config object passed for several pictures asks the same of each of them, every derived dimension comes from the picture's own pixel ratio",
			"ImageInfo handles are used only on the document object that returned them, and ResizeImage not on pictures whose config object is shared (the call writes into that object; what this means for its other users is stated nowhere)",
			"additions that cannot succeed are inputs no implementation could show (no file, no image format, no such cell, no source): no picture may appear and the later ones must be right; whether an error is returned is not judged",
			"bytes after the end-of-image marker belong to the image file the caller gave (all three decoders stop at the marker): they are stored like the rest",
		},
	})
}

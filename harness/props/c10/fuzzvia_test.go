package c10

import (
	"testing"

	"wzverif/internal/kit"
)

// FuzzC10: coverage-guided search over the generator and oracle of TestC10 (thorough tier; see internal/kit/fuzz.go).
func FuzzC10(f *testing.F) { kit.FuzzVia(f, TestC10) }

package c10

import (
	"archive/zip"
	"bytes"
	"fmt"
	"io"
	"regexp"
	"strconv"
	"strings"

	"wzverif/internal/opc"
)

// Renumbering schemes: how another producer might have numbered the relationships of the main part.
// The styles relationship keeps its id in all of them (foreign numbering of that one is C02/C04's subject; a package
// without a styles part, where its usual id may be a picture's, is nostyles.go).
const (
	schemeShift   = 0 // rIdN -> rId(N+k): numeric, holes below the first id
	schemeSpread  = 1 // rIdN -> rId(2N): numeric, holes between the ids
	schemeGap     = 2 // the highest id is raised by one: numeric, one hole
	schemeReverse = 3 // the same dense id set in reverse order
	schemeNamed   = 4 // ids that are not of the form rId<number>
	nSchemes      = 5
)

const relStyles = opc.RelPrefix + "styles"

var (
	relIDAttr = regexp.MustCompile(`\bId="([^"]*)"`)
	useAttr   = regexp.MustCompile(`\br:(embed|id|link|pict)="([^"]*)"`)
)

// renumber rewrites the relationship ids of word/_rels/document.xml.rels and every use of them in
// word/document.xml; all other bytes of the package are kept. It returns the new package and the number of ids changed.
func renumber(b []byte, scheme, k int) ([]byte, int, error) {
	pkg, err := opc.Read(b)
	if err != nil {
		return nil, 0, err
	}
	const relsName = "word/_rels/document.xml.rels"
	rels := pkg.Rels[relsName]
	var ids []string
	for _, r := range rels {
		if r.Type == relStyles {
			continue
		}
		ids = append(ids, r.ID)
	}
	if len(ids) == 0 {
		return b, 0, nil
	}
	num := func(id string) (int, bool) {
		if !strings.HasPrefix(id, "rId") {
			return 0, false
		}
		n, err := strconv.Atoi(id[3:])
		return n, err == nil
	}
	mapping := map[string]string{}
	if k < 1 {
		k = 1
	}
	switch scheme {
	case schemeShift:
		for _, id := range ids {
			if n, ok := num(id); ok {
				mapping[id] = fmt.Sprintf("rId%d", n+k)
			}
		}
	case schemeSpread:
		for _, id := range ids {
			if n, ok := num(id); ok {
				mapping[id] = fmt.Sprintf("rId%d", 2*n)
			}
		}
	case schemeGap:
		max, maxID := -1, ""
		for _, id := range ids {
			if n, ok := num(id); ok && n > max {
				max, maxID = n, id
			}
		}
		if maxID != "" {
			mapping[maxID] = fmt.Sprintf("rId%d", max+1)
		}
	case schemeReverse:
		for i, id := range ids {
			mapping[id] = ids[len(ids)-1-i]
		}
	case schemeNamed:
		for i, id := range ids {
			mapping[id] = fmt.Sprintf("R%x_%d", 0xa0+i*7, k)
		}
	}
	// the mapping must stay injective and must not touch the id of the styles relationship (rId1 in a package the library
	// made; another id once the library has added it to a package that came without one, see nostyles.go)
	seen := map[string]bool{}
	for _, r := range rels {
		if r.Type == relStyles {
			seen[r.ID] = true
		}
	}
	for _, id := range ids {
		n := id
		if v, ok := mapping[id]; ok {
			n = v
		}
		if seen[n] {
			return nil, 0, fmt.Errorf("renumbering is not injective at %s", n)
		}
		seen[n] = true
	}
	changed := 0
	for o, n := range mapping {
		if o != n {
			changed++
		}
	}
	out := map[string][]byte{}
	out[relsName] = relIDAttr.ReplaceAllFunc(pkg.Parts[relsName], func(m []byte) []byte {
		id := string(relIDAttr.FindSubmatch(m)[1])
		if n, ok := mapping[id]; ok {
			return []byte(`Id="` + n + `"`)
		}
		return m
	})
	out["word/document.xml"] = useAttr.ReplaceAllFunc(pkg.Parts["word/document.xml"], func(m []byte) []byte {
		sm := useAttr.FindSubmatch(m)
		if n, ok := mapping[string(sm[2])]; ok {
			return []byte(`r:` + string(sm[1]) + `="` + n + `"`)
		}
		return m
	})
	var buf bytes.Buffer
	zw := zip.NewWriter(&buf)
	for _, name := range pkg.Names {
		data := pkg.Parts[name]
		if d, ok := out[name]; ok {
			data = d
		}
		w, err := zw.Create(name)
		if err != nil {
			return nil, 0, err
		}
		if _, err := io.Copy(w, bytes.NewReader(data)); err != nil {
			return nil, 0, err
		}
	}
	if err := zw.Close(); err != nil {
		return nil, 0, err
	}
	return buf.Bytes(), changed, nil
}

package c10

import (
	"fmt"
	"math"
	"strconv"
	"strings"

	"wzverif/internal/canon"
	"wzverif/internal/kit"
	"wzverif/internal/opc"
)

const relImage = opc.RelPrefix + "image"

// unchangedNote marks an extent failure of a resized picture whose extent still is what the addition made it.
const unchangedNote = "[the extent is still the one of the addition]"

// seen is one picture found in word/document.xml.
type seen struct {
	embed          string
	extCx, extCy   string // wp:extent
	xfrmCx, xfrmCy string // pic:spPr/a:xfrm/a:ext
	floating       bool
	problem        string
}

// picturesOf lists the pictures of the main part in document order (w:drawing elements anywhere below w:body).
func picturesOf(root *canon.Node) ([]seen, error) {
	body := root.Kid(canon.W, "body")
	if body == nil {
		return nil, fmt.Errorf("no w:body")
	}
	var out []seen
	for _, d := range body.All(canon.W, "drawing") {
		var s seen
		box := d.Kid(canon.WP, "inline")
		if box == nil {
			box = d.Kid(canon.WP, "anchor")
			s.floating = true
		}
		if box == nil {
			s.problem = "w:drawing without wp:inline / wp:anchor"
			out = append(out, s)
			continue
		}
		if e := box.Kid(canon.WP, "extent"); e != nil {
			s.extCx, s.extCy = e.A("", "cx"), e.A("", "cy")
		} else {
			s.problem = "no wp:extent"
		}
		blips := d.All(canon.A, "blip")
		if len(blips) != 1 {
			s.problem = fmt.Sprintf("%d a:blip elements", len(blips))
		} else {
			s.embed = blips[0].A(canon.R, "embed")
		}
		for _, sp := range d.All(canon.PIC, "spPr") {
			if x := sp.Kid(canon.A, "xfrm"); x != nil {
				if e := x.Kid(canon.A, "ext"); e != nil {
					s.xfrmCx, s.xfrmCy = e.A("", "cx"), e.A("", "cy")
				}
			}
		}
		out = append(out, s)
	}
	return out, nil
}

func short(h string) string {
	if len(h) > 10 {
		return h[:10]
	}
	return h
}

type observer struct {
	res   *kit.Result
	fails map[string]int // clause -> failures reported (capped per observation)
}

func (o *observer) fail(clause, format string, a ...interface{}) {
	if o.fails[clause] >= 2 {
		return
	}
	o.fails[clause]++
	o.res.Fail(clause, format, a...)
}

// observe judges one saved package against the model. where starts with "op N".
func observe(res *kit.Result, where string, b []byte, m *model, unjudged *int) {
	o := &observer{res: res, fails: map[string]int{}}
	want := m.pics()
	res.Eval("C10.K1.count")
	pkg, err := opc.Read(b)
	if err != nil {
		o.fail("C10.K1.count", "%s: saved package unreadable: %v", where, err)
		return
	}
	main, ok := pkg.Parts["word/document.xml"]
	if !ok {
		o.fail("C10.K1.count", "%s: no word/document.xml", where)
		return
	}
	root, err := canon.Parse(main)
	if err != nil {
		o.fail("C10.K1.count", "%s: word/document.xml does not parse: %v", where, err)
		return
	}
	got, err := picturesOf(root)
	if err != nil {
		o.fail("C10.K1.count", "%s: %v", where, err)
		return
	}
	rels := pkg.RelsOf("word/document.xml")
	byHash := map[string][]int{}
	for i, p := range want {
		byHash[p.hash] = append(byHash[p.hash], i)
	}
	// resolve returns the bytes-hash of every relationship carrying the id.
	type cand struct {
		rel  opc.Rel
		hash string
		n    int
		err  string
	}
	resolve := func(id string) []cand {
		var out []cand
		for _, r := range rels {
			if r.ID != id {
				continue
			}
			c := cand{rel: r}
			switch {
			case r.Type != relImage:
				c.err = "relationship type is " + strings.TrimPrefix(r.Type, opc.RelPrefix)
			case r.External():
				c.err = "relationship is external"
			default:
				data, ok := pkg.Parts[r.Resolved]
				if !ok {
					c.err = "target " + r.Target + " is not a part of the package"
				} else {
					c.hash, c.n = hashOf(data), len(data)
				}
			}
			out = append(out, c)
		}
		return out
	}
	describe := func(h string) string {
		if js, ok := byHash[h]; ok {
			return fmt.Sprintf("the payload of picture %v", js)
		}
		return "no payload ever given"
	}
	if len(got) != len(want) {
		var gs, ws []string
		for _, s := range got {
			d := "?"
			if cs := resolve(s.embed); len(cs) > 0 && cs[0].err == "" {
				d = short(cs[0].hash)
			}
			gs = append(gs, s.embed+"="+d)
		}
		for _, p := range want {
			ws = append(ws, fmt.Sprintf("%s(%s,op%d)", short(p.hash), p.src, p.op))
		}
		o.fail("C10.K1.count", "%s: the main part shows %d pictures, %d were added\n found: %v\n added: %v", where, len(got), len(want), gs, ws)
		return
	}
	for i, p := range want {
		s := got[i]
		tag := fmt.Sprintf("%s: picture %d (%s, %s %dx%d px, name %q, added by op %d, size %s)", where, i, p.src, p.format, p.w, p.h, p.name, p.op, sizeString(p.size))
		if p.resized > 0 {
			tag = strings.TrimSuffix(tag, ")") + fmt.Sprintf(", resized by op %d)", p.resized)
		}
		if s.problem != "" {
			o.fail("C10.K1.resolve", "%s: %s", tag, s.problem)
			continue
		}
		// K1/K2: picture -> relationship -> part -> bytes
		clause := "C10.K1.resolve"
		if p.seenOK {
			clause = "C10.K2"
		}
		res.Eval(clause)
		cs := resolve(s.embed)
		switch {
		case len(cs) == 0:
			o.fail(clause, "%s: r:embed=%q is not an id of word/_rels/document.xml.rels", tag, s.embed)
		case len(cs) > 1:
			allRight := true
			var ds []string
			for _, c := range cs {
				if c.err != "" || c.hash != p.hash {
					allRight = false
				}
				ds = append(ds, c.rel.Target)
			}
			if !allRight {
				o.fail("C10.K1.relid", "%s: r:embed=%q is the id of %d relationships (targets %v): which bytes the picture shows depends on the reader", tag, s.embed, len(cs), ds)
			} else {
				p.seenOK = true
			}
		case cs[0].err != "":
			o.fail(clause, "%s: r:embed=%q: %s", tag, s.embed, cs[0].err)
		case cs[0].hash != p.hash:
			o.fail(clause, "%s: r:embed=%q -> %s holds %d bytes sha256 %s: %s; expected its own payload (%d bytes, sha256 %s)", tag, s.embed, cs[0].rel.Target,
				cs[0].n, short(cs[0].hash), describe(cs[0].hash), p.n, short(p.hash))
		default:
			p.seenOK = true
		}
		// K3: extent
		res.Eval("C10.K3.match")
		if s.extCx != s.xfrmCx || s.extCy != s.xfrmCy {
			o.fail("C10.K3.match", "%s: wp:extent is %sx%s but a:ext is %sx%s", tag, s.extCx, s.extCy, s.xfrmCx, s.xfrmCy)
		}
		rule := ruleFor(p)
		if !rule.judged {
			*unjudged++
			continue
		}
		res.Eval("C10.K3.rule")
		cx, ex := strconv.ParseInt(s.extCx, 10, 64)
		cy, ey := strconv.ParseInt(s.extCy, 10, 64)
		if ex != nil || ey != nil {
			o.fail("C10.K3.rule", "%s: wp:extent %qx%q is not a pair of integers", tag, s.extCx, s.extCy)
			continue
		}
		if math.Abs(float64(cx)-rule.cx) > rule.tolX || math.Abs(float64(cy)-rule.cy) > rule.tolY {
			note := ""
			if p.resized > 0 && p.orig != nil {
				// the signature of a resize that did nothing: the extent is still the one of the addition
				q := *p
				q.size = *p.orig
				if r0 := ruleFor(&q); !r0.judged || (math.Abs(float64(cx)-r0.cx) <= r0.tolX && math.Abs(float64(cy)-r0.cy) <= r0.tolY) {
					note = " " + unchangedNote
				}
			}
			o.fail("C10.K3.rule", "%s: extent is %dx%d EMU, the sizing rule gives %.1fx%.1f (+-%.1f/%.1f): %s%s", tag, cx, cy, rule.cx, rule.cy, rule.tolX, rule.tolY, rule.why, note)
		}
	}
}

func sizeString(s Size) string {
	switch s.Mode {
	case "both", "bothkeep":
		return fmt.Sprintf("%s %gx%g mm", s.Mode, s.W, s.H)
	case "wkeep", "wonly":
		return fmt.Sprintf("%s %g mm", s.Mode, s.W)
	case "hkeep", "honly":
		return fmt.Sprintf("%s %g mm", s.Mode, s.H)
	}
	return s.Mode
}

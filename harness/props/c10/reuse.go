package c10

import (
	"wzverif/internal/gen"
)

// Reused sources: one TemplateEngine, one TemplateData and a few file paths that live as long as the case.
//
// The statement quantifies over histories of image additions; an application that renders a report template every hour
// keeps one engine, regenerates chart.png at the same path and renders again. Whatever the library remembers between two
// uses (in the engine, in the TemplateData, in the Document, per path or per name) must not leak into the later picture:
// it shows the bytes that are at the path when the creating call reads it, with the extent that follows from those bytes.

// slotNames are the file names of the reused paths. The name does not follow the format written there
// (an image under a misleading extension is part of the domain, see gen.ImgNames).
var slotNames = []string{"chart.png", "logo", "图.jpg", "same.png"}

func slotName(k int) string {
	if k < 1 {
		k = 1
	}
	return slotNames[(k-1)%len(slotNames)]
}

// ---- deep copy of the model (the document an engine loaded stays what it was at the load) ----------------------------

func (p *mpara) clone() *mpara {
	if p == nil {
		return nil
	}
	c := &mpara{texts: append([]string(nil), p.texts...), phs: append([]string(nil), p.phs...)}
	if p.phs == nil {
		c.phs = nil
	}
	if p.texts == nil {
		c.texts = nil
	}
	if p.pic != nil {
		cp := *p.pic
		c.pic = &cp
	}
	return c
}

func (t *mtable) clone() *mtable {
	c := &mtable{rows: t.rows, cols: t.cols}
	for _, row := range t.cells {
		var nr []*mcell
		for _, cell := range row {
			nc := &mcell{fresh: cell.fresh}
			for _, p := range cell.paras {
				nc.paras = append(nc.paras, p.clone())
			}
			nr = append(nr, nc)
		}
		c.cells = append(c.cells, nr)
	}
	return c
}

func (m *model) clone() *model {
	c := &model{}
	for _, it := range m.body {
		switch {
		case it.para != nil:
			c.body = append(c.body, mitem{para: it.para.clone()})
		case it.table != nil:
			c.body = append(c.body, mitem{table: it.table.clone()})
		default:
			c.body = append(c.body, mitem{})
		}
	}
	return c
}

// ---- the template side of a case that is a pure function of the steps (used by the interpreter and by analyze) -------

type tplTrack struct {
	loaded *model          // the document as it was when the case's one engine loaded it last (nil: nothing loaded yet)
	shared map[string]bool // names set in the case's one TemplateData so far
}

// base returns the model a render step works on: the current document, or - for a repeated render of the loaded
// template - a copy of the document as it was at the load. again reports the second case.
func (tt *tplTrack) base(cur *model, eng int) (m *model, again bool) {
	switch {
	case eng == 3: // a TemplateRenderer of its own: the case's one engine is not involved
		return cur, false
	case eng == 2 && tt.loaded != nil:
		return tt.loaded.clone(), true
	case eng >= 1:
		tt.loaded = cur.clone()
	}
	return cur, false
}

// names returns the image names the TemplateData of the step holds when the render runs.
func (tt *tplTrack) names(s Step) map[string]bool {
	out := map[string]bool{}
	if s.TD == 1 {
		if tt.shared == nil || s.Clear {
			tt.shared = map[string]bool{}
		}
		for _, d := range s.Data {
			tt.shared[d.Name] = true
		}
		for n := range tt.shared {
			out[n] = true
		}
		return out
	}
	for _, d := range s.Data {
		out[d.Name] = true
	}
	return out
}

// ---- file system and TemplateData as the interpreter left them ----------------------------------------------------------

// tdEntry is one image entry of a TemplateData as the harness set it.
type tdEntry struct {
	via  string
	img  gen.Img // the bytes handed over (data), or what the harness wrote to the entry's path when it set the entry
	slot int     // >0: the entry names a reused path, whose content may have been replaced since
	size Size
	name string // file name of the path (or the original name for data)
	op   int    // step that set the entry
	cfg  int    // >0: the entry holds the case's cfg-th shared config object
}

// slotUse is one picture made from a reused path.
type slotUse struct {
	hash   string
	w, h   int
	src    string // body | cell | tpl
	shared bool   // made by the case's one engine
}

func viaFile(via string) bool { return via == "file" || via == "details-file" }

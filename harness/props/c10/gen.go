package c10

import (
	"pgregory.net/rapid"

	"wzverif/internal/gen"
	"wzverif/internal/kit"
)

var (
	pxSpecial  = []int{1, 1, 2, 3, 7, 16, 33, 48, 63, 64}
	mmSpecial  = []float64{0.1, 0.1, 500, 25.4, 10, 1.0 / 3, 99.99, 0.15, 210, 0.29, 123.456, 499.99}
	phNames    = []string{"a", "a", "b", "b", "c", "d", "img_1", "X9"}
	aroundText = []string{"", "", "", " ", "x", "Hello world", "图 ", "  y", "\t", "see: "}
	someTexts  = []string{"", "t", "Kopfzeile", "页眉 <1> & \"q\"", "item"}
	sizeModes  = []string{"nil", "nil", "none", "none", "both", "both", "both", "both", "bothkeep", "wkeep", "wkeep", "wkeep", "wkeep", "hkeep", "hkeep", "hkeep", "hkeep", "wonly", "honly"}
	cellModes  = []string{"none", "none", "both", "both", "bothkeep", "wkeep", "wkeep", "wkeep", "hkeep", "hkeep", "hkeep", "wonly", "honly"}
	vias       = []string{"data", "data", "data", "file", "file", "details-data", "details-file", "details-both"}
	reuseVias  = []string{"data", "file", "file", "file", "details-data", "details-file", "details-file", "details-both"}
	tplKinds   = weighted(map[string]int{"img": 8, "imgfile": 4, "table": 4, "cellimg": 3, "cellimgd": 2, "cellimgf": 2, "phpara": 18, "cellph": 10,
		"render": 6, "reopen": 5, "renumber": 1, "save": 3, "header": 2, "footer": 1, "listitem": 2, "para": 3})
	directKinds = weighted(map[string]int{"img": 14, "imgfile": 8, "table": 3, "cellimg": 6, "cellimgd": 4, "cellimgf": 4,
		"reopen": 10, "renumber": 5, "save": 4, "header": 3, "footer": 2, "listitem": 3, "para": 2})
	stepKinds = weighted(map[string]int{"img": 14, "imgfile": 8, "table": 4, "cellimg": 6, "cellimgd": 4, "cellimgf": 4, "phpara": 10, "cellph": 6,
		"render": 8, "reopen": 8, "renumber": 4, "save": 5, "header": 3, "footer": 2, "listitem": 3, "para": 3})
)

func weighted(w map[string]int) []string {
	// deterministic order
	keys := []string{"img", "imgfile", "table", "cellimg", "cellimgd", "cellimgf", "phpara", "cellph", "render", "reopen", "renumber", "save", "header", "footer", "listitem", "para"}
	var out []string
	for _, k := range keys {
		for i := 0; i < w[k]; i++ {
			out = append(out, k)
		}
	}
	return out
}

func genPx(t *rapid.T, label string) int {
	if rapid.IntRange(0, 2).Draw(t, label+"s") == 0 {
		return rapid.SampledFrom(pxSpecial).Draw(t, label)
	}
	return rapid.IntRange(1, 64).Draw(t, label)
}

func genImg(t *rapid.T) gen.Img {
	return gen.Img{
		Fmt:  rapid.SampledFrom([]string{"png", "jpeg", "gif"}).Draw(t, "fmt"),
		W:    genPx(t, "pw"),
		H:    genPx(t, "ph"),
		Pat:  rapid.IntRange(0, 1<<20).Draw(t, "pat"),
		Name: rapid.SampledFrom(gen.ImgNames).Draw(t, "name"),
	}
}

func genMM(t *rapid.T, label string) float64 {
	if rapid.IntRange(0, 2).Draw(t, label+"s") == 0 {
		return rapid.SampledFrom(mmSpecial).Draw(t, label)
	}
	return rapid.Float64Range(0.1, 500).Draw(t, label)
}

func genSize(t *rapid.T, modes []string) Size {
	s := Size{Mode: rapid.SampledFrom(modes).Draw(t, "mode")}
	switch s.Mode {
	case "both", "bothkeep":
		s.W, s.H = genMM(t, "mmw"), genMM(t, "mmh")
	case "wkeep", "wonly":
		s.W = genMM(t, "mmw")
	case "hkeep", "honly":
		s.H = genMM(t, "mmh")
	}
	return s
}

func genLook(t *rapid.T) []int {
	if rapid.IntRange(0, 1).Draw(t, "plain") == 0 {
		return nil
	}
	return []int{rapid.IntRange(0, 3).Draw(t, "pos"), rapid.IntRange(0, 4).Draw(t, "al"), rapid.IntRange(0, 4).Draw(t, "wrap")}
}

func genTplPara(t *rapid.T) ([]string, []string) {
	var texts, phs []string
	switch rapid.IntRange(0, 9).Draw(t, "pk") {
	case 0, 1, 2, 3, 4, 5: // the placeholder alone
		return []string{rapid.SampledFrom([]string{"", "", " "}).Draw(t, "b"), rapid.SampledFrom([]string{"", "", " "}).Draw(t, "a")},
			[]string{rapid.SampledFrom(phNames).Draw(t, "ph")}
	case 6, 7: // text around one placeholder
		return []string{rapid.SampledFrom(aroundText).Draw(t, "b"), rapid.SampledFrom(aroundText).Draw(t, "a")}, []string{rapid.SampledFrom(phNames).Draw(t, "ph")}
	}
	n := rapid.IntRange(2, 4).Draw(t, "nph")
	for j := 0; j < n; j++ {
		texts = append(texts, rapid.SampledFrom(aroundText).Draw(t, "tx"))
		phs = append(phs, rapid.SampledFrom(phNames).Draw(t, "ph"))
	}
	texts = append(texts, rapid.SampledFrom(aroundText).Draw(t, "tx"))
	return texts, phs
}

func genCase(t *rapid.T) Case {
	n := rapid.IntRange(3, kit.Scale(20, 40)).Draw(t, "n")
	var c Case
	// profile of the history: 0 mixed, 1 template-heavy, 2 no templates (more reopen cycles)
	profile := rapid.SampledFrom([]int{0, 0, 1, 1, 2}).Draw(t, "profile")
	kinds := stepKinds
	switch profile {
	case 1:
		kinds = tplKinds
	case 2:
		kinds = directKinds
	}
	nTables, pending := 0, map[string]bool{}
	// reuse: the case keeps one TemplateEngine, one TemplateData and a few file paths whose content it replaces between uses
	rs := &reuseGen{on: rapid.IntRange(0, 1).Draw(t, "reuse") == 1}
	sel := func() []int {
		return []int{rapid.IntRange(0, 5).Draw(t, "ts"), rapid.IntRange(0, 5).Draw(t, "rs"), rapid.IntRange(0, 5).Draw(t, "cs")}
	}
	addTable := func() {
		c.Steps = append(c.Steps, Step{K: "table", N: rapid.IntRange(1, 3).Draw(t, "rows"), M: rapid.IntRange(1, 3).Draw(t, "cols")})
		nTables++
	}
	for len(c.Steps) < n {
		k := rapid.SampledFrom(kinds).Draw(t, "k")
		if len(pending) > 0 && rapid.IntRange(0, 4).Draw(t, "rendernow") == 0 {
			k = "render"
		}
		if rs.on && (k == "img" || k == "cellimgd") && rapid.IntRange(0, 2).Draw(t, "fromfile") == 0 {
			k = map[string]string{"img": "imgfile", "cellimgd": "cellimgf"}[k]
		}
		switch k {
		case "img", "imgfile":
			im := genImg(t)
			sz := genSize(t, sizeModes)
			st := Step{K: k, Img: &im, Size: &sz, Look: genLook(t), S: rapid.SampledFrom(someTexts).Draw(t, "alt")}
			if k == "imgfile" {
				st.Slot = rs.slot(t)
			}
			c.Steps = append(c.Steps, st)
		case "table":
			addTable()
		case "cellimg", "cellimgd", "cellimgf":
			if nTables == 0 {
				addTable()
			}
			im := genImg(t)
			var sz Size
			if k == "cellimg" {
				sz = genSize(t, cellModes)
			} else {
				sz = genSize(t, []string{"none", "wkeep", "wkeep"})
			}
			st := Step{K: k, Img: &im, Size: &sz, Sel: sel(), B: rapid.Bool().Draw(t, "file"), N: rapid.IntRange(0, 1).Draw(t, "fmtgiven"),
				S: rapid.SampledFrom(someTexts).Draw(t, "alt")}
			if k == "cellimgf" || (k == "cellimg" && st.B) {
				st.Slot = rs.slot(t)
			}
			c.Steps = append(c.Steps, st)
		case "phpara":
			tx, ph := genTplPara(t)
			c.Steps = append(c.Steps, Step{K: k, Texts: tx, Phs: ph, N: rapid.IntRange(0, 2).Draw(t, "sp")})
			for _, p := range ph {
				pending[p] = true
			}
			if rapid.IntRange(0, 2).Draw(t, "again") == 0 { // consecutive template paragraphs
				tx, ph := genTplPara(t)
				c.Steps = append(c.Steps, Step{K: k, Texts: tx, Phs: ph, N: rapid.IntRange(0, 2).Draw(t, "sp")})
				for _, p := range ph {
					pending[p] = true
				}
			}
		case "cellph":
			if nTables == 0 {
				addTable()
			}
			tx, ph := genTplPara(t)
			where := sel()
			c.Steps = append(c.Steps, Step{K: k, Texts: tx, Phs: ph, N: rapid.IntRange(0, 2).Draw(t, "sp"), Sel: where, B: rapid.Bool().Draw(t, "settext")})
			for _, p := range ph {
				pending[p] = true
			}
			if rapid.IntRange(0, 2).Draw(t, "again") == 0 { // consecutive template paragraphs in the same cell
				tx, ph := genTplPara(t)
				c.Steps = append(c.Steps, Step{K: k, Texts: tx, Phs: ph, N: rapid.IntRange(0, 2).Draw(t, "sp"), Sel: where})
				for _, p := range ph {
					pending[p] = true
				}
			}
		case "render":
			if rs.on && len(rs.lastNames) > 0 && (len(pending) == 0 || rapid.IntRange(0, 2).Draw(t, "againnow") == 0) {
				// the engine renders the template it holds once more, with other data
				c.Steps = append(c.Steps, genRender(t, rs.lastNames, rs, true))
				continue
			}
			if len(pending) == 0 && rapid.IntRange(0, 3).Draw(t, "emptyrender") != 0 {
				continue
			}
			c.Steps = append(c.Steps, genRender(t, pending, rs, false))
			pending = map[string]bool{}
			if rs.on && len(rs.lastNames) > 0 && rapid.IntRange(0, 2).Draw(t, "againafter") == 0 {
				c.Steps = append(c.Steps, genRender(t, rs.lastNames, rs, true))
			}
		case "reopen":
			c.Steps = append(c.Steps, Step{K: k, B: rapid.IntRange(0, 3).Draw(t, "viafile") == 0})
		case "renumber":
			c.Steps = append(c.Steps, Step{K: k, N: rapid.IntRange(0, nSchemes-1).Draw(t, "scheme"), M: rapid.IntRange(0, 2).Draw(t, "shift")})
		case "save":
			c.Steps = append(c.Steps, Step{K: k})
		case "header", "footer", "listitem":
			c.Steps = append(c.Steps, Step{K: k, N: rapid.IntRange(0, 6).Draw(t, "hk"), S: rapid.SampledFrom(someTexts).Draw(t, "txt")})
		case "para":
			c.Steps = append(c.Steps, Step{K: k, S: rapid.SampledFrom(someTexts).Draw(t, "txt")})
		}
	}
	if len(pending) > 0 && rapid.IntRange(0, 3).Draw(t, "finalrender") != 0 {
		c.Steps = append(c.Steps, genRender(t, pending, rs, false))
		if rs.on && len(rs.lastNames) > 0 && rapid.IntRange(0, 1).Draw(t, "againlast") == 0 {
			c.Steps = append(c.Steps, genRender(t, rs.lastNames, rs, true))
		}
	}
	return c
}

// reuseGen is the generator's view of the sources a case keeps: which names the one engine's loaded template still
// has as placeholders, which names the one TemplateData holds, and how the previous render supplied each name.
type reuseGen struct {
	on        bool
	lastNames map[string]bool   // placeholders of the document the one engine loaded last
	shared    map[string]bool   // names set in the one TemplateData
	prev      map[string]TplImg // entry of the previous render, per name
}

func (rs *reuseGen) slot(t *rapid.T) int {
	if !rs.on {
		return 0
	}
	return rapid.SampledFrom([]int{0, 1, 1, 1, 1, 2, 2, 3}).Draw(t, "slot")
}

func genRender(t *rapid.T, pending map[string]bool, rs *reuseGen, again bool) Step {
	st := Step{K: "render"}
	if rs.on {
		st.Eng = rapid.SampledFrom([]int{0, 1, 1, 1}).Draw(t, "eng")
		st.TD = rapid.SampledFrom([]int{0, 1, 1}).Draw(t, "td")
		if again {
			st.Eng = 2
		}
	}
	for _, name := range []string{"a", "b", "c", "d", "img_1", "X9"} {
		use := pending[name] && rapid.IntRange(0, 9).Draw(t, "supply") != 0
		if !pending[name] && rapid.IntRange(0, 9).Draw(t, "extra") == 0 {
			use = true
		}
		if use && st.TD == 1 && rs.shared[name] && rapid.IntRange(0, 2).Draw(t, "leave") == 0 {
			use = false // the entry an earlier render set stays
		}
		if !use {
			continue
		}
		vs := vias
		if rs.on {
			vs = reuseVias
		}
		d := TplImg{Name: name, Img: genImg(t), Via: rapid.SampledFrom(vs).Draw(t, "via"), Size: genSize(t, sizeModes), Look: genLook(t)}
		if viaFile(d.Via) {
			d.Slot = rs.slot(t)
		}
		if p, ok := rs.prev[name]; ok && rs.on && rapid.IntRange(0, 1).Draw(t, "likebefore") == 0 {
			// the same source as in the previous render (same call, same path), other image
			d.Via, d.Slot = p.Via, p.Slot
			if rapid.IntRange(0, 1).Draw(t, "samesize") == 0 {
				d.Size, d.Look = p.Size, p.Look
			}
		}
		if d.Via != "data" && d.Via != "file" {
			d.Alt, d.Title = rapid.SampledFrom(someTexts).Draw(t, "alt"), rapid.SampledFrom(someTexts).Draw(t, "title")
		}
		st.Data = append(st.Data, d)
	}
	if rs.on {
		if rs.prev == nil {
			rs.prev, rs.shared = map[string]TplImg{}, map[string]bool{}
		}
		for _, d := range st.Data {
			rs.prev[d.Name] = d
			if st.TD == 1 {
				rs.shared[d.Name] = true
			}
		}
		if st.Eng == 1 {
			rs.lastNames = map[string]bool{}
			for n := range pending {
				rs.lastNames[n] = true
			}
		}
	}
	return st
}

package c10

import (
	"pgregory.net/rapid"

	"wzverif/internal/gen"
	"wzverif/internal/kit"
)

var (
	pxSpecial   = []int{1, 1, 2, 3, 7, 16, 33, 48, 63, 64}
	mmSpecial   = []float64{0.1, 0.1, 500, 25.4, 10, 1.0 / 3, 99.99, 0.15, 210, 0.29, 123.456, 499.99, 1, 100, 0.5}
	phNames     = []string{"a", "a", "b", "b", "c", "d", "img_1", "X9", "a", "b", "ab", "A", "img_10", "img"}
	allPhNames  = []string{"a", "b", "c", "d", "img_1", "X9", "ab", "A", "img_10", "img"}
	aroundText  = []string{"", "", "", " ", "x", "Hello world", "图 ", "  y", "\t", "see: "}
	someTexts   = []string{"", "t", "Kopfzeile", "页眉 <1> & \"q\"", "item"}
	sizeModes   = []string{"nil", "nil", "none", "none", "both", "both", "both", "both", "bothkeep", "wkeep", "wkeep", "wkeep", "wkeep", "hkeep", "hkeep", "hkeep", "hkeep", "wonly", "honly", "empty", "emptykeep"}
	resizeModes = []string{"both", "both", "both", "bothkeep", "wkeep", "wkeep", "hkeep", "hkeep", "wonly", "honly", "empty"}
	// names on top of gen.ImgNames: names the library itself generates (for media parts, for template and cell pictures),
	// names that differ only in case or are prefixes of one another, white space at the ends and inside
	moreNames = []string{"image10.png", "image9.png", "image2.jpeg", "image_0.png", "image_1.png", "cell_image.png", "Same.PNG", "SAME.png", "same.png.png",
		"same", "image1", "image1.png.png", "image01.png", "rId3.png", "a\tb.png", " lead.png", "trail.png ", "b.JPG", "B.jpg"}
	cellModes = []string{"none", "none", "both", "both", "bothkeep", "wkeep", "wkeep", "wkeep", "hkeep", "hkeep", "hkeep", "wonly", "honly"}
	vias      = []string{"data", "data", "data", "file", "file", "details-data", "details-file", "details-both"}
	reuseVias = []string{"data", "file", "file", "file", "details-data", "details-file", "details-file", "details-both"}
	tplKinds  = weighted(map[string]int{"img": 8, "imgfile": 4, "table": 4, "cellimg": 3, "cellimgd": 2, "cellimgf": 2, "phpara": 18, "cellph": 10,
		"render": 6, "reopen": 5, "renumber": 1, "save": 3, "header": 2, "footer": 1, "listitem": 2, "para": 3,
		"resize": 2, "setlook": 1, "imgnoelem": 1, "badadd": 1, "swap": 1})
	directKinds = weighted(map[string]int{"img": 14, "imgfile": 8, "table": 3, "cellimg": 6, "cellimgd": 4, "cellimgf": 4,
		"reopen": 10, "renumber": 6, "save": 4, "header": 3, "footer": 2, "listitem": 3, "para": 2,
		"resize": 6, "setlook": 3, "imgnoelem": 2, "badadd": 3, "swap": 3})
	stepKinds = weighted(map[string]int{"img": 14, "imgfile": 8, "table": 4, "cellimg": 6, "cellimgd": 4, "cellimgf": 4, "phpara": 10, "cellph": 6,
		"render": 8, "reopen": 8, "renumber": 4, "save": 5, "header": 3, "footer": 2, "listitem": 3, "para": 3,
		"resize": 5, "setlook": 2, "imgnoelem": 1, "badadd": 2, "swap": 2})
)

func weighted(w map[string]int) []string {
	// deterministic order
	keys := []string{"img", "imgfile", "table", "cellimg", "cellimgd", "cellimgf", "phpara", "cellph", "render", "reopen", "renumber", "save", "header", "footer", "listitem", "para",
		"resize", "setlook", "imgnoelem", "badadd", "swap"}
	var out []string
	for _, k := range keys {
		for i := 0; i < w[k]; i++ {
			out = append(out, k)
		}
	}
	return out
}

func genPx(t *rapid.T, label string) int {
	// (rapid draws the ends of a range far more often than its middle: the rare classes sit at middle values)
	switch k := rapid.IntRange(0, 89).Draw(t, label+"s"); {
	case k == 70: // past the design's 64 px: payloads of more than 64 KiB come from here
		return rapid.SampledFrom([]int{65, 100, 150}).Draw(t, label)
	case k < 30:
		return rapid.SampledFrom(pxSpecial).Draw(t, label)
	}
	return rapid.IntRange(1, 64).Draw(t, label)
}

// imgGen draws the images of one case; it remembers them so that a later one can be an earlier one again (the same
// bytes, under the same or another name) or an earlier one with bytes after its end-of-image marker.
type imgGen struct {
	seen []gen.Img
	tiny bool // a burst is being drawn: 1-3 px
}

func genName(t *rapid.T) string {
	if rapid.IntRange(0, 3).Draw(t, "morenames") == 0 {
		return rapid.SampledFrom(moreNames).Draw(t, "name")
	}
	return rapid.SampledFrom(gen.ImgNames).Draw(t, "name")
}

func (g *imgGen) draw(t *rapid.T) gen.Img {
	if len(g.seen) > 0 && !g.tiny {
		switch rapid.IntRange(0, 19).Draw(t, "again") {
		case 9: // the same bytes once more, same name
			return rapid.SampledFrom(g.seen).Draw(t, "earlier")
		case 12: // the same bytes under another name
			im := rapid.SampledFrom(g.seen).Draw(t, "earlier")
			im.Name = genName(t)
			return im
		case 14: // an earlier image followed by a few more bytes, same name, format and pixel size
			im := rapid.SampledFrom(g.seen).Draw(t, "earlier")
			im.Pat = im.Pat&(1<<tailShift-1) | rapid.IntRange(1, 3).Draw(t, "tail")<<tailShift
			g.seen = append(g.seen, im)
			return im
		}
	}
	im := gen.Img{
		Fmt:  rapid.SampledFrom([]string{"png", "jpeg", "gif"}).Draw(t, "fmt"),
		W:    genPx(t, "pw"),
		H:    genPx(t, "ph"),
		Pat:  rapid.IntRange(0, 1<<20).Draw(t, "pat"),
		Name: genName(t),
	}
	if g.tiny {
		im.W, im.H = 1+im.W%3, 1+im.H%3
	} else if rapid.IntRange(0, 59).Draw(t, "big") == 40 {
		// a payload of more than 64 KiB (the pixels are noise: a PNG of 160x160 px has about 77 KiB)
		im.W, im.H = rapid.SampledFrom([]int{160, 200}).Draw(t, "bigw"), rapid.SampledFrom([]int{160, 176}).Draw(t, "bigh")
		im.Fmt = rapid.SampledFrom([]string{"png", "png", "jpeg"}).Draw(t, "bigfmt")
	}
	if rapid.IntRange(0, 29).Draw(t, "tailed") == 20 {
		im.Pat |= rapid.IntRange(1, 3).Draw(t, "tail") << tailShift
	}
	g.seen = append(g.seen, im)
	return im
}

func genMM(t *rapid.T, label string) float64 {
	if rapid.IntRange(0, 2).Draw(t, label+"s") == 0 {
		return rapid.SampledFrom(mmSpecial).Draw(t, label)
	}
	return rapid.Float64Range(0.1, 500).Draw(t, label)
}

func genSize(t *rapid.T, modes []string) Size {
	s := Size{Mode: rapid.SampledFrom(modes).Draw(t, "mode")}
	switch s.Mode {
	case "both", "bothkeep":
		s.W, s.H = genMM(t, "mmw"), genMM(t, "mmh")
	case "wkeep", "wonly":
		s.W = genMM(t, "mmw")
	case "hkeep", "honly":
		s.H = genMM(t, "mmh")
	}
	return s
}

func genLook(t *rapid.T) []int {
	if rapid.IntRange(0, 1).Draw(t, "plain") == 0 {
		return nil
	}
	return []int{rapid.IntRange(0, 3).Draw(t, "pos"), rapid.IntRange(0, 4).Draw(t, "al"), rapid.IntRange(0, 4).Draw(t, "wrap")}
}

func genTplPara(t *rapid.T) ([]string, []string) {
	var texts, phs []string
	switch rapid.IntRange(0, 9).Draw(t, "pk") {
	case 0, 1, 2, 3, 4, 5: // the placeholder alone
		return []string{rapid.SampledFrom([]string{"", "", " "}).Draw(t, "b"), rapid.SampledFrom([]string{"", "", " "}).Draw(t, "a")},
			[]string{rapid.SampledFrom(phNames).Draw(t, "ph")}
	case 6, 7: // text around one placeholder
		return []string{rapid.SampledFrom(aroundText).Draw(t, "b"), rapid.SampledFrom(aroundText).Draw(t, "a")}, []string{rapid.SampledFrom(phNames).Draw(t, "ph")}
	}
	n := rapid.IntRange(2, 4).Draw(t, "nph")
	for j := 0; j < n; j++ {
		texts = append(texts, rapid.SampledFrom(aroundText).Draw(t, "tx"))
		phs = append(phs, rapid.SampledFrom(phNames).Draw(t, "ph"))
	}
	texts = append(texts, rapid.SampledFrom(aroundText).Draw(t, "tx"))
	return texts, phs
}

func genCase(t *rapid.T) Case {
	n := rapid.IntRange(3, kit.Scale(20, 40)).Draw(t, "n")
	var c Case
	// profile of the history: 0 mixed, 1 template-heavy, 2 no templates (more reopen cycles)
	profile := rapid.SampledFrom([]int{0, 0, 1, 1, 2}).Draw(t, "profile")
	kinds := stepKinds
	switch profile {
	case 1:
		kinds = tplKinds
	case 2:
		kinds = directKinds
	}
	nTables, pending := 0, map[string]bool{}
	altTables, altPending := 0, map[string]bool{} // the same for the case's other document
	ig := &imgGen{}
	// reuse: the case keeps one TemplateEngine, one TemplateData and a few file paths whose content it replaces between uses
	rs := &reuseGen{on: rapid.IntRange(0, 1).Draw(t, "reuse") == 1, imgs: ig}
	// shared config objects: in a third of the cases some additions pass one of up to two *ImageConfig objects the case keeps
	cfgOn := rapid.IntRange(0, 2).Draw(t, "cfgreuse") == 1
	rs.cfgOn = cfgOn
	// a burst of additions that takes counts past 10 (now and then past 32 and, in the thorough tier, past 64)
	burstAt, burstLen := -1, 0
	switch b := rapid.IntRange(0, 59).Draw(t, "burst"); {
	case b >= 30 && b < 38:
		burstAt, burstLen = rapid.IntRange(0, n-1).Draw(t, "burstat"), rapid.IntRange(8, 13).Draw(t, "burstlen")
	case b == 45:
		burstAt, burstLen = rapid.IntRange(0, n-1).Draw(t, "burstat"), rapid.IntRange(31, kit.Scale(36, 70)).Draw(t, "burstlen")
	}
	sel := func() []int {
		return []int{rapid.IntRange(0, 5).Draw(t, "ts"), rapid.IntRange(0, 5).Draw(t, "rs"), rapid.IntRange(0, 5).Draw(t, "cs")}
	}
	addTable := func() {
		c.Steps = append(c.Steps, Step{K: "table", N: rapid.IntRange(1, 3).Draw(t, "rows"), M: rapid.IntRange(1, 3).Draw(t, "cols")})
		nTables++
	}
	for len(c.Steps) < n {
		if burstAt >= 0 && len(c.Steps) >= burstAt {
			burstAt = -1
			ig.tiny = true
			kind := rapid.SampledFrom([]string{"img", "img", "imgfile", "cellimgd", "mixed"}).Draw(t, "burstkind")
			if kind == "cellimgd" && nTables == 0 {
				addTable()
			}
			for j := 0; j < burstLen; j++ {
				k := kind
				if k == "mixed" {
					k = rapid.SampledFrom([]string{"img", "imgfile", "header", "img", "listitem"}).Draw(t, "bk")
				}
				switch k {
				case "img", "imgfile":
					im := ig.draw(t)
					sz := genSize(t, sizeModes)
					c.Steps = append(c.Steps, Step{K: k, Img: &im, Size: &sz})
				case "cellimgd":
					im := ig.draw(t)
					sz := genSize(t, []string{"none", "wkeep"})
					c.Steps = append(c.Steps, Step{K: k, Img: &im, Size: &sz, Sel: sel()})
				default:
					c.Steps = append(c.Steps, Step{K: k, N: rapid.IntRange(0, 6).Draw(t, "hk"), S: "t"})
				}
			}
			ig.tiny = false
			// what the counts are for: the names and ids generated after them, also in a reopened document
			switch rapid.IntRange(0, 3).Draw(t, "afterburst") {
			case 0:
				c.Steps = append(c.Steps, Step{K: "reopen", B: rapid.Bool().Draw(t, "viafile")})
			case 1:
				c.Steps = append(c.Steps, genRenumber(t))
			}
			for j := rapid.IntRange(1, 3).Draw(t, "more"); j > 0; j-- {
				im := ig.draw(t)
				sz := genSize(t, sizeModes)
				c.Steps = append(c.Steps, Step{K: "img", Img: &im, Size: &sz})
			}
			continue
		}
		k := rapid.SampledFrom(kinds).Draw(t, "k")
		if len(pending) > 0 && rapid.IntRange(0, 4).Draw(t, "rendernow") == 0 {
			k = "render"
		}
		if rs.on && (k == "img" || k == "cellimgd") && rapid.IntRange(0, 2).Draw(t, "fromfile") == 0 {
			k = map[string]string{"img": "imgfile", "cellimgd": "cellimgf"}[k]
		}
		switch k {
		case "img", "imgfile", "imgnoelem":
			im := ig.draw(t)
			sz := genSize(t, sizeModes)
			st := Step{K: k, Img: &im, Size: &sz, Look: genLook(t), S: rapid.SampledFrom(someTexts).Draw(t, "alt")}
			if k == "imgfile" {
				st.Slot = rs.slot(t)
			}
			st.Cfg = rs.cfg(t)
			c.Steps = append(c.Steps, st)
		case "table":
			addTable()
		case "cellimg", "cellimgd", "cellimgf":
			if nTables == 0 {
				addTable()
			}
			im := ig.draw(t)
			var sz Size
			if k == "cellimg" {
				sz = genSize(t, cellModes)
			} else {
				sz = genSize(t, []string{"none", "wkeep", "wkeep"})
			}
			st := Step{K: k, Img: &im, Size: &sz, Sel: sel(), B: rapid.Bool().Draw(t, "file"), N: rapid.IntRange(0, 1).Draw(t, "fmtgiven"),
				S: rapid.SampledFrom(someTexts).Draw(t, "alt")}
			if k == "cellimgf" || (k == "cellimg" && st.B) {
				st.Slot = rs.slot(t)
			}
			c.Steps = append(c.Steps, st)
		case "phpara":
			tx, ph := genTplPara(t)
			c.Steps = append(c.Steps, Step{K: k, Texts: tx, Phs: ph, N: rapid.IntRange(0, 2).Draw(t, "sp")})
			for _, p := range ph {
				pending[p] = true
			}
			if rapid.IntRange(0, 2).Draw(t, "again") == 0 { // consecutive template paragraphs
				tx, ph := genTplPara(t)
				c.Steps = append(c.Steps, Step{K: k, Texts: tx, Phs: ph, N: rapid.IntRange(0, 2).Draw(t, "sp")})
				for _, p := range ph {
					pending[p] = true
				}
			}
		case "cellph":
			if nTables == 0 {
				addTable()
			}
			tx, ph := genTplPara(t)
			where := sel()
			c.Steps = append(c.Steps, Step{K: k, Texts: tx, Phs: ph, N: rapid.IntRange(0, 2).Draw(t, "sp"), Sel: where, B: rapid.Bool().Draw(t, "settext")})
			for _, p := range ph {
				pending[p] = true
			}
			if rapid.IntRange(0, 2).Draw(t, "again") == 0 { // consecutive template paragraphs in the same cell
				tx, ph := genTplPara(t)
				c.Steps = append(c.Steps, Step{K: k, Texts: tx, Phs: ph, N: rapid.IntRange(0, 2).Draw(t, "sp"), Sel: where})
				for _, p := range ph {
					pending[p] = true
				}
			}
		case "render":
			if rs.on && len(rs.lastNames) > 0 && (len(pending) == 0 || rapid.IntRange(0, 2).Draw(t, "againnow") == 0) {
				// the engine renders the template it holds once more, with other data
				c.Steps = append(c.Steps, genRender(t, rs.lastNames, rs, true))
				continue
			}
			if len(pending) == 0 && rapid.IntRange(0, 3).Draw(t, "emptyrender") != 0 {
				continue
			}
			c.Steps = append(c.Steps, genRender(t, pending, rs, false))
			pending = map[string]bool{}
			if rs.on && len(rs.lastNames) > 0 && rapid.IntRange(0, 2).Draw(t, "againafter") == 0 {
				c.Steps = append(c.Steps, genRender(t, rs.lastNames, rs, true))
			}
		case "reopen":
			c.Steps = append(c.Steps, Step{K: k, B: rapid.IntRange(0, 3).Draw(t, "viafile") == 0})
		case "renumber":
			c.Steps = append(c.Steps, genRenumber(t))
		case "save":
			c.Steps = append(c.Steps, Step{K: k})
		case "header", "footer", "listitem":
			c.Steps = append(c.Steps, Step{K: k, N: rapid.IntRange(0, 6).Draw(t, "hk"), S: rapid.SampledFrom(someTexts).Draw(t, "txt")})
		case "para":
			c.Steps = append(c.Steps, Step{K: k, S: rapid.SampledFrom(someTexts).Draw(t, "txt")})
		case "resize":
			sz := genSize(t, resizeModes)
			c.Steps = append(c.Steps, Step{K: k, Ref: rapid.IntRange(0, 40).Draw(t, "ref"), Size: &sz})
		case "setlook":
			c.Steps = append(c.Steps, Step{K: k, Ref: rapid.IntRange(0, 40).Draw(t, "ref"), N: rapid.IntRange(0, 4).Draw(t, "setter"),
				Look: []int{rapid.IntRange(0, 3).Draw(t, "pos"), rapid.IntRange(0, 4).Draw(t, "al"), rapid.IntRange(0, 4).Draw(t, "wrap")},
				S:    rapid.SampledFrom(someTexts).Draw(t, "txt")})
		case "badadd":
			c.Steps = append(c.Steps, Step{K: k, N: rapid.IntRange(0, 4).Draw(t, "bad"), B: rapid.Bool().Draw(t, "incell"), Sel: sel()})
		case "swap":
			c.Steps = append(c.Steps, Step{K: k})
			nTables, altTables = altTables, nTables
			pending, altPending = altPending, pending
		}
	}
	if len(pending) > 0 && rapid.IntRange(0, 3).Draw(t, "finalrender") != 0 {
		c.Steps = append(c.Steps, genRender(t, pending, rs, false))
		if rs.on && len(rs.lastNames) > 0 && rapid.IntRange(0, 1).Draw(t, "againlast") == 0 {
			c.Steps = append(c.Steps, genRender(t, rs.lastNames, rs, true))
		}
	}
	return c
}

// genRenumber: the package of another producer - other relationship ids and, in half of the steps, other media part names.
func genRenumber(t *rapid.T) Step {
	st := Step{K: "renumber", N: rapid.IntRange(0, nSchemes-1).Draw(t, "scheme"), M: rapid.IntRange(0, 2).Draw(t, "shift")}
	if rapid.Bool().Draw(t, "media") {
		st.Med = rapid.IntRange(1, nMedSchemes-1).Draw(t, "med")
		st.MedK = rapid.IntRange(0, len(medShifts)-1).Draw(t, "medk")
		if rapid.Bool().Draw(t, "idskept") {
			st.N = schemeReverse // the relationship ids stay the dense set the library wrote, only the names are foreign
		}
	}
	if rapid.IntRange(0, 2).Draw(t, "nostyles") == 0 {
		// no styles part: the id the library gives its relationship is free or is some other relationship's
		st.NoSty = rapid.IntRange(1, noStyMax).Draw(t, "nosty")
	}
	return st
}

// reuseGen is the generator's view of the sources a case keeps: which names the one engine's loaded template still
// has as placeholders, which names the one TemplateData holds, and how the previous render supplied each name.
type reuseGen struct {
	on        bool
	lastNames map[string]bool   // placeholders of the document the one engine loaded last
	shared    map[string]bool   // names set in the one TemplateData
	prev      map[string]TplImg // entry of the previous render, per name
	imgs      *imgGen
	cfgOn     bool
}

// cfg draws which config object an addition passes: 0 one of its own, k>0 the case's k-th shared object.
func (rs *reuseGen) cfg(t *rapid.T) int {
	if !rs.cfgOn {
		return 0
	}
	return rapid.SampledFrom([]int{0, 0, 1, 1, 1, 2}).Draw(t, "cfg")
}

func (rs *reuseGen) slot(t *rapid.T) int {
	if !rs.on {
		return 0
	}
	return rapid.SampledFrom([]int{0, 1, 1, 1, 1, 2, 2, 3}).Draw(t, "slot")
}

func genRender(t *rapid.T, pending map[string]bool, rs *reuseGen, again bool) Step {
	st := Step{K: "render"}
	if rs.on {
		st.Eng = rapid.SampledFrom([]int{0, 1, 1, 1}).Draw(t, "eng")
		st.TD = rapid.SampledFrom([]int{0, 1, 1}).Draw(t, "td")
		if again {
			st.Eng = 2
		}
	}
	if !again && rapid.IntRange(0, 5).Draw(t, "renderer") == 3 {
		st.Eng = 3 // LoadTemplateFromFile + RenderTemplate of a TemplateRenderer
	}
	st.Merge = rapid.IntRange(0, 5).Draw(t, "merge") == 4
	if st.TD == 1 && len(rs.shared) > 0 && rapid.IntRange(0, 5).Draw(t, "clear") == 2 {
		st.Clear = true
		rs.shared = map[string]bool{}
	}
	for _, name := range allPhNames {
		use := pending[name] && rapid.IntRange(0, 9).Draw(t, "supply") != 0
		if !pending[name] && rapid.IntRange(0, 9).Draw(t, "extra") == 0 {
			use = true
		}
		if use && st.TD == 1 && rs.shared[name] && rapid.IntRange(0, 2).Draw(t, "leave") == 0 {
			use = false // the entry an earlier render set stays
		}
		if !use {
			continue
		}
		vs := vias
		if rs.on {
			vs = reuseVias
		}
		d := TplImg{Name: name, Img: rs.imgs.draw(t), Via: rapid.SampledFrom(vs).Draw(t, "via"), Size: genSize(t, sizeModes), Look: genLook(t)}
		if viaFile(d.Via) {
			d.Slot = rs.slot(t)
		}
		d.Cfg = rs.cfg(t)
		if p, ok := rs.prev[name]; ok && rs.on && rapid.IntRange(0, 1).Draw(t, "likebefore") == 0 {
			// the same source as in the previous render (same call, same path), other image
			d.Via, d.Slot = p.Via, p.Slot
			if rapid.IntRange(0, 1).Draw(t, "samesize") == 0 {
				d.Size, d.Look = p.Size, p.Look
			}
		}
		if d.Via != "data" && d.Via != "file" {
			d.Alt, d.Title = rapid.SampledFrom(someTexts).Draw(t, "alt"), rapid.SampledFrom(someTexts).Draw(t, "title")
		}
		st.Data = append(st.Data, d)
	}
	if rs.on {
		if rs.prev == nil {
			rs.prev, rs.shared = map[string]TplImg{}, map[string]bool{}
		}
		for _, d := range st.Data {
			rs.prev[d.Name] = d
			if st.TD == 1 {
				rs.shared[d.Name] = true
			}
		}
		if st.Eng == 1 {
			rs.lastNames = map[string]bool{}
			for n := range pending {
				rs.lastNames[n] = true
			}
		}
	}
	return st
}

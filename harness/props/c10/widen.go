package c10

import (
	"fmt"
	"os"
	"path/filepath"
	"strings"

	"github.com/zerx-lab/wordZero/pkg/document"

	"wzverif/internal/gen"
	"wzverif/internal/kit"
	"wzverif/internal/ops"
)

// Widened domain of C10: calls on pictures that are already in the document (ResizeImage and the other setters that take
// the ImageInfo an addition returned), additions that cannot succeed, a media part without a picture, configuration
// objects the caller reuses for several pictures, and a second document the history alternates with.

// handle is an ImageInfo an addition returned, with the model picture it stands for. Handles belong to the document
// object that returned them; they are dropped when the case moves on to another object (reopen, render).
type handle struct {
	info *document.ImageInfo
	p    *pic
}

// side is the state of the document the case is not working on at the moment.
type side struct {
	doc             *document.Document
	m               *model
	handles         []*handle
	foreign         bool
	picAfterForeign bool
}

func (x *exec) swap() {
	if x.alt == nil {
		x.alt = &side{doc: document.New(), m: &model{}}
	}
	cur := &side{doc: x.doc, m: x.m, handles: x.handles, foreign: x.foreign, picAfterForeign: x.picAfterForeign}
	x.doc, x.m, x.handles, x.foreign, x.picAfterForeign = x.alt.doc, x.alt.m, x.alt.handles, x.alt.foreign, x.alt.picAfterForeign
	x.alt = cur
}

// cfgFor returns the config object a call passes: one of its own, or the case's k-th shared object.
func (x *exec) cfgFor(k int, sz Size, look []int, alt string) *document.ImageConfig {
	if k <= 0 {
		return imageConfig(sz, look, alt, "")
	}
	if c, ok := x.cfgs[k]; ok {
		return c
	}
	if x.cfgs == nil {
		x.cfgs, x.cfgSize = map[int]*document.ImageConfig{}, map[int]Size{}
	}
	x.cfgs[k] = imageConfig(sz, look, alt, "")
	x.cfgSize[k] = sz
	return x.cfgs[k]
}

// made registers the picture an addition made: its handle and, for a shared config object, the size it really asked for.
func (x *exec) made(p *pic, info *document.ImageInfo, cfg int) {
	if p == nil {
		return
	}
	if cfg > 0 {
		p.size = x.cfgSize[cfg]
		p.cfg = cfg
		if x.cfgUses == nil {
			x.cfgUses = map[int][]*pic{}
		}
		for _, q := range x.cfgUses[cfg] {
			x.res.Label("config-object-reused")
			if q.w*p.h != q.h*p.w {
				x.res.Label("config-object-reused-other-aspect-ratio")
			}
		}
		x.cfgUses[cfg] = append(x.cfgUses[cfg], p)
	}
	if info != nil {
		x.handles = append(x.handles, &handle{info: info, p: p})
	}
}

var setterNames = []string{"position", "wrap", "alt", "title", "alignment"}

// widened executes the step kinds of the widened domain; false stops the case.
func (x *exec) widened(i int, s Step, where string, call func(func() error) bool) bool {
	res := x.res
	switch s.K {
	case "swap":
		x.swap()
		x.swaps++
		x.shape = append(x.shape, "swap")
	case "imgnoelem":
		if s.Img == nil || s.Size == nil {
			return true
		}
		im := *s.Img
		if !call(func() error {
			_, err := x.doc.AddImageFromDataWithoutElement(given(im), im.Name, ops.ImgFormats[im.Fmt], im.W, im.H, x.cfgFor(s.Cfg, *s.Size, s.Look, s.S))
			return err
		}) {
			return false
		}
		res.Label("media-part-without-picture")
		x.shape = append(x.shape, "imgnoelem")
	case "resize":
		if len(x.handles) == 0 || s.Size == nil || s.Size.Mode == "nil" {
			res.Count("skipped-step", 1)
			return true
		}
		h := x.handles[ops.In(s.Ref, len(x.handles))]
		if h.p.cfg > 0 {
			// ResizeImage writes into the picture's config object; what that means for the other pictures made (or still to
			// be made) with a shared object is not stated anywhere
			res.Count("skipped-step", 1)
			return true
		}
		c := imageConfig(*s.Size, nil, "", "")
		var size *document.ImageSize
		if c != nil {
			size = c.Size
		}
		if size == nil {
			res.Count("skipped-step", 1)
			return true
		}
		if !call(func() error { return x.doc.ResizeImage(h.info, size) }) {
			return false
		}
		if h.p.orig == nil {
			o := h.p.size
			h.p.orig = &o
		}
		h.p.size = *s.Size
		h.p.resized = i
		res.Label("resize")
		res.Label("resize:" + h.p.src + ":" + s.Size.Mode)
		x.shape = append(x.shape, "resize:"+h.p.src+":"+s.Size.Mode)
	case "setlook":
		if len(x.handles) == 0 {
			res.Count("skipped-step", 1)
			return true
		}
		h := x.handles[ops.In(s.Ref, len(x.handles))]
		which := ops.In(s.N, len(setterNames))
		l := func(j int) int {
			if j < len(s.Look) {
				return s.Look[j]
			}
			return 0
		}
		if !call(func() error {
			switch which {
			case 0:
				pos := []document.ImagePosition{document.ImagePositionInline, document.ImagePositionFloatLeft, document.ImagePositionFloatRight}[ops.In(l(0), 3)]
				return x.doc.SetImagePosition(h.info, pos, float64(ops.In(l(1), 5)), float64(ops.In(l(2), 5)))
			case 1:
				w := []document.ImageWrapText{document.ImageWrapNone, document.ImageWrapSquare, document.ImageWrapTight, document.ImageWrapTopAndBottom}[ops.In(l(2), 4)]
				return x.doc.SetImageWrapText(h.info, w)
			case 2:
				return x.doc.SetImageAltText(h.info, s.S)
			case 3:
				return x.doc.SetImageTitle(h.info, s.S)
			}
			return x.doc.SetImageAlignment(h.info, ops.Aligns[ops.In(l(1), 4)])
		}) {
			return false
		}
		res.Label("setter-after-insertion")
		res.Label("setter-after-insertion:" + setterNames[which])
		x.shape = append(x.shape, "set:"+setterNames[which])
	case "badadd":
		x.badAdd(i, s, where)
	}
	return true
}

// badAdd makes an addition that has nothing to show. Whatever the call returns (a panic is a failure), the model gets no
// picture: the observations that follow decide whether the call left something behind.
func (x *exec) badAdd(i int, s Step, where string) {
	res := x.res
	variant := ops.In(s.N, 5)
	d := filepath.Join(x.dir, fmt.Sprintf("bad%d", i))
	if err := os.MkdirAll(d, 0o755); err != nil {
		res.Count("scratch-problem", 1)
		return
	}
	p := filepath.Join(d, "bad.png")
	var content []byte
	switch variant {
	case 1:
		content = []byte{}
	case 2:
		content = []byte("this is not an image, it only has the name of one\n")
	}
	if content != nil {
		if err := os.WriteFile(p, content, 0o644); err != nil {
			res.Count("scratch-problem", 1)
			return
		}
	}
	var err error
	res.Eval("C10.K0")
	cellCall := func(f func(t *document.Table, r, c int) error) error {
		ti, r, c, _, ok := x.m.cellOf(s)
		if !ok {
			_, e := x.doc.AddImageFromFile(p, nil)
			return e
		}
		t := x.table(where, ti)
		if t == nil {
			return nil
		}
		return f(t, r, c)
	}
	pv, st := kit.Try(func() {
		switch variant {
		case 0, 1, 2:
			if s.B {
				err = cellCall(func(t *document.Table, r, c int) error {
					_, e := x.doc.AddCellImageFromFile(t, r, c, p, 10)
					return e
				})
			} else {
				_, err = x.doc.AddImageFromFile(p, imageConfig(Size{Mode: "wkeep", W: 10}, nil, "", ""))
			}
		case 3:
			err = cellCall(func(t *document.Table, r, c int) error {
				im := gen.Img{Fmt: "png", W: 2, H: 2, Pat: 7}
				if s.Img != nil {
					im = *s.Img
				}
				_, e := x.doc.AddCellImageFromData(t, r+1000, c, given(im), 0)
				return e
			})
		case 4:
			err = cellCall(func(t *document.Table, r, c int) error {
				_, e := x.doc.AddCellImage(t, r, c, &document.CellImageConfig{Width: 10, KeepAspectRatio: true})
				return e
			})
		}
	})
	if pv != nil {
		res.Fail("C10.K0", "%s: an addition that cannot succeed (variant %d) panicked instead of returning an error: %v [%s]", where, variant, pv, st)
		return
	}
	if err != nil {
		res.Label("failed-addition-then-more")
	} else {
		res.Label("failed-addition-returned-no-error")
	}
	x.shape = append(x.shape, fmt.Sprintf("badadd:%d", variant))
}

// widenedLabels labels the input classes of the widened domain.
func (x *exec) widenedLabels(pics []*pic) {
	res := x.res
	if x.swaps > 0 {
		res.Label("two-documents-alternately")
		if x.alt != nil && len(x.alt.m.pics()) > 0 && len(x.m.pics()) > 0 {
			res.Label("two-documents-both-with-pictures")
		}
	}
	byHash := map[string]*pic{}
	lower := map[string]string{}
	bases := map[string]string{}
	for _, p := range pics {
		if q, ok := byHash[p.hash]; ok {
			res.Label("same-payload-twice")
			if q.name != p.name {
				res.Label("same-payload-under-two-names")
			}
		}
		byHash[p.hash] = p
		if p.tail {
			res.Label("payload-with-trailing-bytes")
		}
		if q, ok := bases[p.base]; ok && q != p.hash {
			res.Label("payloads-prefix-of-one-another")
		}
		bases[p.base] = p.hash
		if p.n > 64<<10 {
			res.Label("payload>64KiB")
		}
		if p.w > 64 || p.h > 64 {
			res.Label("pixel-size>64")
		}
		if n, ok := lower[strings.ToLower(p.name)]; ok && n != p.name {
			res.Label("names-differ-only-in-case")
		}
		lower[strings.ToLower(p.name)] = p.name
		if libraryName(p.name) {
			res.Label("name-the-library-generates")
		}
		if p.size.Mode == "empty" || p.size.Mode == "emptykeep" {
			res.Label("size:empty")
		}
	}
	switch n := len(pics); {
	case n > 64:
		res.Label("pictures>64")
		fallthrough
	case n > 32:
		res.Label("pictures>32")
		fallthrough
	case n > 10:
		res.Label("pictures>10")
	}
}

func libraryName(n string) bool {
	return imageName.MatchString(n) || strings.HasPrefix(n, "image_") || n == "cell_image.png"
}

package c10

import (
	"archive/zip"
	"bytes"
	"fmt"
	"regexp"

	"wzverif/internal/opc"
)

// A package of another producer need not have a styles part at all (it is optional), and then no relationship id of the
// main part is special: rId1 may belong to a picture like any other id.
//
// NoSty of a renumber step:
//
//	0      the styles relationship stays where the library wrote it
//	1      the styles part, its content-type override and its relationship are removed; the id it had stays unused
//	n >= 2 the same, and the id the styles relationship had is given to the (n-2)-th remaining relationship of the main part
//	       (in the order of the relationship part, modulo their number) - every use of it in word/document.xml follows
const noStyMax = 9

var (
	typeAttr     = regexp.MustCompile(`\bType="([^"]*)"`)
	relWhole     = regexp.MustCompile(`<Relationship\b[^>]*?(?:/>|>\s*</Relationship>)`)
	overrideElem = regexp.MustCompile(`<Override\b[^>]*PartName="/word/styles\.xml"[^>]*?(?:/>|>\s*</Override>)`)
)

// dropStyles applies NoSty (see above) to a package; it returns the new package, whether the id that was freed now belongs to an image
// relationship, and how many things were changed.
func dropStyles(b []byte, mode int) (out []byte, onPicture bool, changed int, err error) {
	if mode <= 0 {
		return b, false, 0, nil
	}
	pkg, err := opc.Read(b)
	if err != nil {
		return nil, false, 0, err
	}
	const relsName = "word/_rels/document.xml.rels"
	const mainName = "word/document.xml"
	stylesID, stylesPart := "", ""
	var others []opc.Rel
	for _, r := range pkg.Rels[relsName] {
		if r.Type == relStyles {
			if stylesID != "" {
				return nil, false, 0, fmt.Errorf("two styles relationships")
			}
			stylesID, stylesPart = r.ID, r.Resolved
			continue
		}
		others = append(others, r)
	}
	if stylesID == "" || stylesPart != "word/styles.xml" {
		return nil, false, 0, fmt.Errorf("no styles relationship to word/styles.xml")
	}
	for _, r := range others {
		if r.ID == stylesID {
			return nil, false, 0, fmt.Errorf("the id of the styles relationship is not unique")
		}
	}
	moved := ""
	if mode >= 2 && len(others) > 0 {
		r := others[(mode-2)%len(others)]
		moved = r.ID
		onPicture = r.Type == relImage
	}
	edited := map[string][]byte{}
	edited[relsName] = relWhole.ReplaceAllFunc(pkg.Parts[relsName], func(e []byte) []byte {
		if m := typeAttr.FindSubmatch(e); m != nil && string(m[1]) == relStyles {
			changed++
			return nil
		}
		if moved == "" {
			return e
		}
		return relIDAttr.ReplaceAllFunc(e, func(a []byte) []byte {
			if string(relIDAttr.FindSubmatch(a)[1]) == moved {
				changed++
				return []byte(`Id="` + stylesID + `"`)
			}
			return a
		})
	})
	if moved != "" {
		edited[mainName] = useAttr.ReplaceAllFunc(pkg.Parts[mainName], func(m []byte) []byte {
			sm := useAttr.FindSubmatch(m)
			if string(sm[2]) == moved {
				return []byte(`r:` + string(sm[1]) + `="` + stylesID + `"`)
			}
			return m
		})
	}
	const ctName = "[Content_Types].xml"
	edited[ctName] = overrideElem.ReplaceAll(pkg.Parts[ctName], nil)
	var buf bytes.Buffer
	zw := zip.NewWriter(&buf)
	for _, name := range pkg.Names {
		if name == stylesPart {
			changed++
			continue
		}
		data := pkg.Parts[name]
		if d, ok := edited[name]; ok {
			data = d
		}
		w, err := zw.Create(name)
		if err != nil {
			return nil, false, 0, err
		}
		if _, err := w.Write(data); err != nil {
			return nil, false, 0, err
		}
	}
	if err := zw.Close(); err != nil {
		return nil, false, 0, err
	}
	return buf.Bytes(), onPicture, changed, nil
}

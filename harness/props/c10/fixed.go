package c10

import (
	"os"

	"wzverif/internal/gen"
)

func im(f string, w, h, pat int, name string) *gen.Img {
	return &gen.Img{Fmt: f, W: w, H: h, Pat: pat, Name: name}
}

// fixedCases are hand-written histories every run executes first (judged like generated ones).
func fixedCases() []Case {
	if os.Getenv("C10_NOFIXED") == "1" { // sensitivity experiments: generated search only
		return nil
	}
	sz := func(m string, w, h float64) *Size { return &Size{Mode: m, W: w, H: h} }
	return []Case{
		// equal names for different payloads of three formats, reopen, more pictures, reopen through a file
		{Steps: []Step{
			{K: "img", Img: im("png", 3, 5, 1, "same.png"), Size: sz("nil", 0, 0)},
			{K: "imgfile", Img: im("jpeg", 8, 2, 2, "same.png"), Size: sz("wkeep", 40, 0)},
			{K: "img", Img: im("gif", 64, 1, 3, "same.png"), Size: sz("hkeep", 0, 0.1), Look: []int{2, 0, 3}},
			{K: "reopen"},
			{K: "img", Img: im("gif", 1, 64, 4, "noext"), Size: sz("both", 500, 0.1)},
			{K: "header", N: 0, S: "h"},
			{K: "imgfile", Img: im("png", 7, 7, 5, "名前.png"), Size: sz("bothkeep", 12.5, 99.99)},
			{K: "reopen", B: true},
			{K: "img", Img: im("jpeg", 5, 9, 6, "pic.xml"), Size: sz("none", 0, 0), Look: []int{3, 2, 1}},
		}},
		// cell pictures by the three entry points, placeholders alone in body and cell paragraphs, render on a document with pictures
		{Steps: []Step{
			{K: "table", N: 2, M: 2},
			{K: "cellimgd", Img: im("png", 4, 2, 10, "a.png"), Size: sz("wkeep", 30, 0), Sel: []int{0, 1, 1}},
			{K: "cellimgf", Img: im("gif", 2, 6, 11, "d.gif"), Size: sz("none", 0, 0), Sel: []int{0, 0, 1}},
			{K: "cellimg", Img: im("jpeg", 9, 3, 12, "b.jpg"), Size: sz("hkeep", 0, 15), Sel: []int{0, 1, 1}, N: 1},
			{K: "cellimg", Img: im("jpeg", 9, 3, 13, "b.jpg"), Size: sz("both", 20, 10), Sel: []int{0, 0, 0}, B: true},
			{K: "phpara", Texts: []string{"", ""}, Phs: []string{"a"}},
			{K: "phpara", Texts: []string{"", " "}, Phs: []string{"b"}, N: 2},
			{K: "cellph", Texts: []string{"", ""}, Phs: []string{"a"}, Sel: []int{0, 1, 0}, B: true},
			{K: "cellph", Texts: []string{"", ""}, Phs: []string{"c"}, Sel: []int{0, 1, 0}},
			{K: "img", Img: im("png", 5, 5, 14, "image0.png"), Size: sz("nil", 0, 0)},
			{K: "render", Data: []TplImg{
				{Name: "a", Img: *im("png", 6, 4, 20, "x.png"), Via: "data", Size: Size{Mode: "wkeep", W: 33.3}},
				{Name: "b", Img: *im("gif", 3, 9, 21, "y.gif"), Via: "file", Size: Size{Mode: "nil"}},
				{Name: "c", Img: *im("jpeg", 10, 10, 22, "z.jpeg"), Via: "details-both", Size: Size{Mode: "both", W: 5, H: 7}, Alt: "alt", Title: "t"},
			}},
			{K: "img", Img: im("gif", 2, 2, 15, "image1.png"), Size: sz("nil", 0, 0)},
			{K: "reopen"},
			{K: "cellimgd", Img: im("png", 4, 2, 16, "a.png"), Size: sz("none", 0, 0), Sel: []int{0, 0, 0}},
		}},
		// another producer's numbering that cannot collide (reverse order, non-numeric ids), then more relationships
		{Steps: []Step{
			{K: "img", Img: im("png", 3, 3, 30, "a.png"), Size: sz("nil", 0, 0)},
			{K: "footer", N: 0, S: "f"},
			{K: "img", Img: im("jpeg", 3, 4, 31, "b.jpg"), Size: sz("nil", 0, 0)},
			{K: "renumber", N: schemeReverse},
			{K: "img", Img: im("gif", 5, 3, 32, "c.gif"), Size: sz("wkeep", 10, 0)},
			{K: "renumber", N: schemeNamed, M: 1},
			{K: "img", Img: im("png", 6, 3, 33, "d.png"), Size: sz("hkeep", 0, 10)},
			{K: "listitem", S: "i"},
			{K: "img", Img: im("png", 6, 3, 34, "d.png"), Size: sz("nil", 0, 0)},
		}},
		// sources that outlive one use: one engine renders, the images at the paths are replaced (other format, pixel size,
		// bytes), the engine renders the same template again and then a newly loaded one, with one TemplateData whose
		// entries partly stay; the same paths are also used by AddImageFromFile and the cell entry points in between
		{Steps: []Step{
			{K: "imgfile", Img: im("png", 12, 4, 40, "x.png"), Size: sz("nil", 0, 0), Slot: 1},
			{K: "table", N: 1, M: 2},
			{K: "cellimgf", Img: im("gif", 5, 15, 41, "x.gif"), Size: sz("wkeep", 20, 0), Sel: []int{0, 0, 0}, Slot: 2},
			{K: "phpara", Texts: []string{"", ""}, Phs: []string{"a"}},
			{K: "phpara", Texts: []string{"", ""}, Phs: []string{"b"}},
			{K: "phpara", Texts: []string{"", ""}, Phs: []string{"c"}},
			{K: "cellph", Texts: []string{"", ""}, Phs: []string{"d"}, Sel: []int{0, 0, 1}, B: true},
			{K: "render", Eng: 1, TD: 1, Data: []TplImg{
				{Name: "a", Img: *im("png", 40, 20, 42, "chart.png"), Via: "file", Size: Size{Mode: "nil"}, Slot: 1},
				{Name: "b", Img: *im("jpeg", 8, 32, 43, "p.jpg"), Via: "details-file", Size: Size{Mode: "wkeep", W: 50}, Slot: 2, Alt: "alt"},
				{Name: "c", Img: *im("gif", 9, 3, 44, "q.gif"), Via: "file", Size: Size{Mode: "hkeep", H: 12}, Slot: 3},
				{Name: "d", Img: *im("png", 7, 7, 45, "r.png"), Via: "file", Size: Size{Mode: "none"}, Slot: 3},
			}},
			{K: "save"},
			// same template, same engine, same TemplateData: a and d are set again, both naming the first path (both pictures show
			// what d's call wrote there last); b and c stay as the first render set them (c's path holds what d's first entry wrote)
			{K: "render", Eng: 2, TD: 1, Data: []TplImg{
				{Name: "a", Img: *im("gif", 10, 30, 46, "chart.png"), Via: "file", Size: Size{Mode: "nil"}, Slot: 1},
				{Name: "d", Img: *im("jpeg", 3, 17, 47, "r.png"), Via: "details-file", Size: Size{Mode: "wkeep", W: 50}, Slot: 1},
			}},
			{K: "cellimg", Img: im("png", 31, 2, 48, "s.png"), Size: sz("hkeep", 0, 9), Sel: []int{0, 0, 0}, B: true, Slot: 2},
			{K: "imgfile", Img: im("jpeg", 2, 11, 49, "t.jpg"), Size: sz("wkeep", 25, 0), Slot: 1},
			{K: "reopen"},
			{K: "phpara", Texts: []string{"", ""}, Phs: []string{"b"}},
			{K: "phpara", Texts: []string{"see: ", ""}, Phs: []string{"a"}},
			// a newly loaded document on the same engine; b still is the entry of the first render, its file is the cell call's now
			{K: "render", Eng: 1, TD: 1, Data: []TplImg{
				{Name: "a", Img: *im("png", 21, 13, 50, "chart.png"), Via: "file", Size: Size{Mode: "hkeep", H: 30}, Slot: 1},
			}},
			{K: "render", Eng: 2, Data: []TplImg{
				{Name: "a", Img: *im("png", 13, 21, 51, "chart.png"), Via: "file", Size: Size{Mode: "none"}, Slot: 1},
				{Name: "b", Img: *im("gif", 64, 1, 52, "u.gif"), Via: "file", Size: Size{Mode: "nil"}, Slot: 1},
			}},
		}},
		// widened domain: two documents filled alternately, one config object for pictures of different aspect ratios, an
		// addition that cannot succeed followed by more pictures, a media part without a picture, then the same package with
		// media numbered from 1 (the way Word names them) and more pictures of the format whose number comes next
		{Steps: []Step{
			{K: "img", Img: im("png", 6, 4, 60, "red.png"), Size: sz("wkeep", 40, 0), Cfg: 1},
			{K: "swap"},
			{K: "img", Img: im("gif", 3, 5, 61, "blue.gif"), Size: sz("nil", 0, 0)},
			{K: "header", N: 0, S: "h"},
			{K: "swap"},
			{K: "img", Img: im("jpeg", 2, 9, 62, "image1.png"), Size: sz("hkeep", 0, 5), Cfg: 1},
			{K: "table", N: 1, M: 1},
			{K: "badadd", N: 3, Sel: []int{0, 0, 0}},
			{K: "img", Img: im("jpeg", 5, 5, 63, "Same.PNG"), Size: sz("empty", 0, 0)},
			{K: "imgnoelem", Img: im("png", 2, 2, 64, "x.png"), Size: sz("nil", 0, 0)},
			{K: "img", Img: im("png", 7, 3, 65, "same.png"), Size: sz("emptykeep", 0, 0)},
			{K: "renumber", N: schemeReverse, Med: medShift, MedK: 0},
			{K: "img", Img: im("png", 4, 4, 66, "SAME.png"), Size: sz("both", 10, 10)},
			{K: "swap"},
			{K: "img", Img: im("gif", 1, 1, 67, "b.gif"), Size: sz("nil", 0, 0)},
			{K: "badadd", N: 0},
			{K: "img", Img: im("gif", 2, 1, 68, "b.gif"), Size: sz("nil", 0, 0)},
		}},
		// calls on pictures that are already in the document: ResizeImage on a body and on a cell picture (explicit size, explicit
		// size with KeepAspectRatio, one dimension), the other setters, through a save and a reopen
		{Steps: []Step{
			{K: "img", Img: im("png", 8, 2, 70, "a.png"), Size: sz("nil", 0, 0)},
			{K: "table", N: 1, M: 2},
			{K: "cellimgd", Img: im("jpeg", 3, 9, 71, "b.jpg"), Size: sz("wkeep", 20, 0), Sel: []int{0, 0, 1}},
			{K: "resize", Ref: 0, Size: sz("both", 80, 60)},
			{K: "resize", Ref: 1, Size: sz("bothkeep", 30, 10)},
			{K: "setlook", Ref: 0, N: 0, Look: []int{1, 2, 0}},
			{K: "setlook", Ref: 1, N: 4, Look: []int{0, 2, 0}},
			{K: "save"},
			{K: "resize", Ref: 0, Size: sz("hkeep", 0, 12)},
			{K: "reopen", B: true},
			{K: "img", Img: im("gif", 5, 5, 72, "c.gif"), Size: sz("none", 0, 0)},
		}},
		// the file route of the template renderer with merged template data: placeholder names that are prefixes of one another
		// or differ in case, a payload that is another one plus bytes after its end marker, a media part of more than 64 KiB,
		// then the same bytes once more under another name
		{Steps: []Step{
			{K: "phpara", Texts: []string{"", ""}, Phs: []string{"a"}},
			{K: "phpara", Texts: []string{"", ""}, Phs: []string{"ab"}},
			{K: "phpara", Texts: []string{"", ""}, Phs: []string{"A"}},
			{K: "render", Eng: 3, Merge: true, Data: []TplImg{
				{Name: "a", Img: *im("png", 10, 4, 80, "p.png"), Via: "data", Size: Size{Mode: "nil"}},
				{Name: "ab", Img: *im("png", 10, 4, 80|2<<tailShift, "p.png"), Via: "file", Size: Size{Mode: "wkeep", W: 25}},
				{Name: "A", Img: *im("png", 160, 160, 81, "big.png"), Via: "details-data", Size: Size{Mode: "both", W: 50, H: 50}},
			}},
			{K: "reopen"},
			{K: "img", Img: im("png", 10, 4, 80, "q.png"), Size: sz("hkeep", 0, 8)},
		}},
		// another producer's packages without a styles part: the id the library gives the styles relationship is unused, is the
		// first picture's, is the header's; more pictures and other relationships after each reopen
		{Steps: []Step{
			{K: "img", Img: im("png", 8, 4, 90, "a.png"), Size: sz("nil", 0, 0)},
			{K: "img", Img: im("jpeg", 4, 6, 91, "b.jpg"), Size: sz("wkeep", 30, 0)},
			{K: "renumber", N: schemeReverse, NoSty: 2},
			{K: "img", Img: im("gif", 5, 7, 92, "c.gif"), Size: sz("nil", 0, 0)},
			{K: "header", N: 0, S: "h"},
			{K: "reopen"},
			{K: "table", N: 1, M: 1},
			{K: "cellimgd", Img: im("png", 3, 3, 93, "d.png"), Size: sz("none", 0, 0), Sel: []int{0, 0, 0}},
			{K: "renumber", N: schemeNamed, M: 1, NoSty: 1},
			{K: "img", Img: im("gif", 2, 9, 94, "e.gif"), Size: sz("hkeep", 0, 10)},
			{K: "renumber", N: schemeReverse, NoSty: 5, Med: medNamed},
			{K: "listitem", S: "i"},
			{K: "img", Img: im("png", 6, 6, 95, "f.png"), Size: sz("both", 10, 10)},
			{K: "reopen", B: true},
			{K: "img", Img: im("jpeg", 7, 2, 96, "g.jpg"), Size: sz("nil", 0, 0)},
		}},
	}
}

package c10

import (
	"crypto/sha256"
	"encoding/hex"
	"fmt"
	"strings"

	"wzverif/internal/gen"
)

// ---- case data ------------------------------------------------------------------------------------------

// Size is a size configuration of one picture.
//
//	nil      no ImageConfig at all
//	none     ImageConfig without Size
//	both     Width and Height in mm                      -> mm*36000 EMU each
//	bothkeep Width and Height in mm, KeepAspectRatio set -> the flag only matters "when only one dimension is set"
//	wkeep    Width only, KeepAspectRatio                 -> height from the pixel ratio
//	hkeep    Height only, KeepAspectRatio                -> width from the pixel ratio
//	wonly    Width only, no KeepAspectRatio              -> not specified by the statement: extent not judged
//	honly    Height only, no KeepAspectRatio             -> not judged
//	empty    an ImageSize with no dimension set          -> no size given: the pixel size
//	emptykeep  the same with KeepAspectRatio set
type Size struct {
	Mode string  `json:"m"`
	W    float64 `json:"w,omitempty"`
	H    float64 `json:"h,omitempty"`
}

// TplImg is one entry of the TemplateData image map of a render step.
type TplImg struct {
	Name  string  `json:"name"`
	Img   gen.Img `json:"img"`
	Via   string  `json:"via"` // data | file | details-data | details-file | details-both
	Size  Size    `json:"size"`
	Look  []int   `json:"look,omitempty"`
	Alt   string  `json:"alt,omitempty"`
	Title string  `json:"title,omitempty"`
	Slot  int     `json:"slot,omitempty"` // via file / details-file: 0 a path of its own, k>0 the case's k-th reused path (see Step.Slot)
	Cfg   int     `json:"cfg,omitempty"`  // k>0: the case's k-th shared *ImageConfig object (see Step.Cfg)
}

// Step is one call of the history.
//
//	img        AddImageFromData(payload, name, format, w, h, config)
//	imgfile    AddImageFromFile(scratch/<name>, config)
//	table      AddTable(rows=N, cols=M)
//	cellimg    AddCellImage(table, r, c, CellImageConfig{Data|FilePath, Format?, Width, Height, KeepAspectRatio})
//	cellimgd   AddCellImageFromData(table, r, c, payload, widthMM)
//	cellimgf   AddCellImageFromFile(table, r, c, path, widthMM)
//	phpara     AddParagraph(text0 {{#image p0}} text1 ... )               (a template paragraph in the body)
//	cellph     AddCellParagraph / SetCellText with such a text            (a template paragraph in a cell)
//	render     LoadTemplateFromDocument(current) + RenderTemplateToDocument(Data); the result becomes the current document.
//	           Eng 0: a new TemplateEngine; 1: the case's one engine (load the current document under the same template name
//	           again, render); 2: the case's one engine renders the template it loaded last ONCE MORE (no reload; the base is the
//	           document as it was at that load) - without a loaded template 2 acts like 1.
//	           TD 0: a new TemplateData; 1: the case's one TemplateData (entries of earlier TD=1 renders stay unless set again).
//
// Slot (imgfile, cellimg with B, cellimgf, TplImg via file): 0 = the file gets a path of its own; k>0 = the file is written to the
// case's k-th reused path (replacing what an earlier step wrote there - an image of other bytes, format, pixel size) just before the call.
// A path is a reference: the picture shows the bytes that are at the path when the call that creates the picture reads it
// (AddImageFromFile / AddCellImage...: that call; SetImage: the render - SetImage cannot fail, it does not read).
//
//	reopen     ToBytes -> OpenFromMemory (B: Save -> Open through a file); editing continues on the reopened document
//	renumber   ToBytes -> the harness rewrites the relationship ids of word/_rels/document.xml.rels and their uses
//	           (scheme N) -> OpenFromMemory: the package of another producer with the same content
//	save       ToBytes + oracle
//	header, footer, listitem, para   other calls (the first three create relationships)
//
// Widened domain (widen.go):
//
//	resize     ResizeImage(handle Ref of the current document object, Size): the picture's size configuration becomes Size
//	setlook    SetImagePosition / SetImageWrapText / SetImageAltText / SetImageTitle / SetImageAlignment (N selects) on handle Ref:
//	           no rule of the statement covers them, the picture must keep its bytes and its extent
//	imgnoelem  AddImageFromDataWithoutElement: a media part and a relationship, no picture
//	badadd     an addition that cannot succeed (N: missing file, empty file, text file, cell out of range, config without source): whatever it returns, no picture appears and the later ones are right
//	swap       the case's two documents change places: the calls that follow go to the other document (new at first use)
//
// Cfg (img, imgfile, imgnoelem, TplImg): k>0 = the call passes the case's k-th shared *ImageConfig object, created from Size/Look
// of the first step that names k; later steps that name k pass the same object (their own Size/Look are not used).
// Med/MedK (renumber): how the other producer named the media parts (mediaedit.go).
// NoSty (renumber): the other producer's package has no styles part; the id its relationship had is unused or belongs to
// another relationship of the main part (nostyles.go).
// Merge (render): the entries of the step are set in a TemplateData of their own that is Merge()d into the render's TemplateData;
// Clear (render): TemplateData.Clear() is called on the render's TemplateData before the entries are set.
type Step struct {
	K     string   `json:"k"`
	Img   *gen.Img `json:"img,omitempty"`
	Size  *Size    `json:"size,omitempty"`
	Look  []int    `json:"look,omitempty"` // position, alignment, wrap selectors
	Sel   []int    `json:"sel,omitempty"`  // table, row, column selectors
	Texts []string `json:"texts,omitempty"`
	Phs   []string `json:"phs,omitempty"`
	Data  []TplImg `json:"data,omitempty"`
	N     int      `json:"n,omitempty"`
	M     int      `json:"m,omitempty"`
	B     bool     `json:"b,omitempty"`
	S     string   `json:"s,omitempty"`
	Slot  int      `json:"slot,omitempty"`
	Eng   int      `json:"eng,omitempty"`
	TD    int      `json:"td,omitempty"`
	Ref   int      `json:"ref,omitempty"`
	Cfg   int      `json:"cfg,omitempty"`
	Med   int      `json:"med,omitempty"`
	MedK  int      `json:"medk,omitempty"`
	NoSty int      `json:"nosty,omitempty"`
	Merge bool     `json:"merge,omitempty"`
	Clear bool     `json:"clear,omitempty"`
}

type Case struct {
	Steps []Step `json:"steps"`
}

// ---- reference model ------------------------------------------------------------------------------------

type pic struct {
	hash    string // sha256 of the payload
	n       int    // payload length
	w, h    int    // pixel size
	format  string
	size    Size
	src     string // body | cell | tpl-body | tpl-cell
	name    string
	op      int
	seenOK  bool   // resolved correctly at an earlier observation
	slot    int    // >0: the bytes were read from the case's slot-th reused path
	stale   bool   // template picture whose TemplateData entry was set by an earlier render step
	cfg     int    // >0: made with the case's cfg-th shared *ImageConfig object
	tail    bool   // the payload has bytes after the end-of-image marker
	base    string // identifies the payload without its tail
	orig    *Size  // resized pictures: the size configuration of the addition
	resized int    // step that resized the picture last (-1/0: never; steps are numbered from 0, a resize is never step 0)
}

type mpara struct {
	pic   *pic
	texts []string // len(phs)+1 when phs != nil
	phs   []string
}

type mcell struct {
	paras []*mpara
	fresh bool // first paragraph is still the untouched default paragraph
}

type mtable struct {
	rows, cols int
	cells      [][]*mcell
}

type mitem struct {
	para  *mpara
	table *mtable
}

type model struct {
	body []mitem
}

// payload memoises the encoded image of a generated Img (pure function of the value).
var payloadCache = map[gen.Img][]byte{}

// Pat carries two things: the low tailShift bits select the pixels (gen.Img.Bytes), the bits above them say how many bytes
// follow the end-of-image marker of the encoded file (image files with trailing bytes are common - editors append metadata -
// and all three decoders stop at the marker). Two payloads that differ only in the tail are prefixes of one another.
const tailShift = 21

const tailBytes = "\x00wzverif tail "

func payload(im gen.Img) []byte {
	key := im
	key.Name = ""
	if b, ok := payloadCache[key]; ok {
		return b
	}
	if len(payloadCache) > 4096 {
		payloadCache = map[gen.Img][]byte{}
	}
	base := im
	base.Pat = im.Pat & (1<<tailShift - 1)
	b := base.Bytes()
	if t := im.Pat >> tailShift; t > 0 {
		b = append([]byte(nil), b...)
		for j := 0; j < t*5; j++ {
			b = append(b, tailBytes[j%len(tailBytes)])
		}
	}
	payloadCache[key] = b
	return b
}

func tailOf(im gen.Img) (bool, string) {
	return im.Pat>>tailShift > 0, fmt.Sprintf("%s/%d/%d/%d", im.Fmt, im.W, im.H, im.Pat&(1<<tailShift-1))
}

// given is what the library receives: a copy, so that nothing the library does to the slice (during the call or later)
// reaches the reference bytes of the model.
func given(im gen.Img) []byte { return append([]byte(nil), payload(im)...) }

func hashOf(b []byte) string {
	h := sha256.Sum256(b)
	return hex.EncodeToString(h[:])
}

func (m *model) tables() []*mtable {
	var out []*mtable
	for _, it := range m.body {
		if it.table != nil {
			out = append(out, it.table)
		}
	}
	return out
}

// pics lists the pictures in document order (descending into cells row by row).
func (m *model) pics() []*pic {
	var out []*pic
	for _, it := range m.body {
		if it.para != nil && it.para.pic != nil {
			out = append(out, it.para.pic)
		}
		if it.table != nil {
			for _, row := range it.table.cells {
				for _, c := range row {
					for _, p := range c.paras {
						if p.pic != nil {
							out = append(out, p.pic)
						}
					}
				}
			}
		}
	}
	return out
}

func (m *model) pendingPlaceholders() int {
	n := 0
	for _, it := range m.body {
		if it.para != nil {
			n += len(it.para.phs)
		}
		if it.table != nil {
			for _, row := range it.table.cells {
				for _, c := range row {
					for _, p := range c.paras {
						n += len(p.phs)
					}
				}
			}
		}
	}
	return n
}

func newTable(rows, cols int) *mtable {
	t := &mtable{rows: rows, cols: cols}
	for r := 0; r < rows; r++ {
		var row []*mcell
		for c := 0; c < cols; c++ {
			row = append(row, &mcell{paras: []*mpara{{}}, fresh: true})
		}
		t.cells = append(t.cells, row)
	}
	return t
}

func blank(s string) bool { return strings.TrimSpace(s) == "" }

// expansion is the number of paragraphs a template paragraph is documented to turn into:
// one per placeholder (picture, or a note when no image of that name is supplied) plus one per
// non-blank text between them.
func (p *mpara) expansion() int {
	if len(p.phs) == 0 {
		return 1
	}
	k := len(p.phs)
	for _, t := range p.texts {
		if !blank(t) {
			k++
		}
	}
	return k
}

func (t *mtable) hasPlaceholder() bool {
	for _, row := range t.cells {
		for _, c := range row {
			for _, p := range c.paras {
				if len(p.phs) > 0 {
					return true
				}
			}
		}
	}
	return false
}

// renderInfo describes the input class of one render step (used by labels and by the known-finding triggers).
type renderInfo struct {
	placeholders  int
	supplied      int // placeholders with an image supplied
	adjacent      bool
	multiPerPara  bool
	inCell        bool
	skipBody      bool // a body paragraph expanding into >1 paragraphs is followed by a body element with a placeholder
	skipCell      bool // the same inside one cell
	existingPics  int
	missingImages int
}

func expand(p *mpara, imgs map[string]*pic, src string, info *renderInfo) []*mpara {
	if len(p.phs) == 0 {
		return []*mpara{p}
	}
	var out []*mpara
	for j, ph := range p.phs {
		if !blank(p.texts[j]) {
			out = append(out, &mpara{})
		}
		info.placeholders++
		if im, ok := imgs[ph]; ok {
			cp := *im
			cp.src = src
			out = append(out, &mpara{pic: &cp})
			info.supplied++
		} else {
			out = append(out, &mpara{}) // a note paragraph, no picture
			info.missingImages++
		}
	}
	if !blank(p.texts[len(p.phs)]) {
		out = append(out, &mpara{})
	}
	return out
}

// render replaces every placeholder by the picture supplied under its name, in place.
func (m *model) render(imgs map[string]*pic) renderInfo {
	var info renderInfo
	info.existingPics = len(m.pics())
	// input class first
	seenExp := false
	prevPh := false
	for _, it := range m.body {
		has := false
		if it.para != nil {
			has = len(it.para.phs) > 0
			if len(it.para.phs) > 1 {
				info.multiPerPara = true
			}
		}
		if it.table != nil {
			has = it.table.hasPlaceholder()
		}
		if has && seenExp {
			info.skipBody = true
		}
		if it.para != nil && has && prevPh {
			info.adjacent = true
		}
		prevPh = it.para != nil && has
		if it.para != nil && it.para.expansion() > 1 {
			seenExp = true
		}
		if it.table != nil {
			for _, row := range it.table.cells {
				for _, c := range row {
					exp, prev := false, false
					for _, p := range c.paras {
						if len(p.phs) > 0 {
							info.inCell = true
							if exp {
								info.skipCell = true
							}
							if prev {
								info.adjacent = true
							}
							if len(p.phs) > 1 {
								info.multiPerPara = true
							}
						}
						prev = len(p.phs) > 0
						if p.expansion() > 1 {
							exp = true
						}
					}
				}
			}
		}
	}
	// then the replacement
	var nb []mitem
	for _, it := range m.body {
		if it.para != nil {
			for _, p := range expand(it.para, imgs, "tpl-body", &info) {
				nb = append(nb, mitem{para: p})
			}
			continue
		}
		for _, row := range it.table.cells {
			for _, c := range row {
				var np []*mpara
				for _, p := range c.paras {
					if len(p.phs) > 0 {
						c.fresh = false
					}
					np = append(np, expand(p, imgs, "tpl-cell", &info)...)
				}
				c.paras = np
			}
		}
		nb = append(nb, it)
	}
	m.body = nb
	return info
}

// ---- sizing rule (from the documentation of ImageSize / ImageConfig / CellImageConfig and the statement) -------------
//
// 1 mm = 36000 EMU, 1 px at 96 dpi = 9525 EMU (914400 EMU per inch).
// The documentation leaves the rounding open, so every expectation is an interval.

type extentRule struct {
	judged         bool
	cx, cy         float64
	tolX, tolY     float64
	exact          bool
	why            string
	derivedIsWidth bool
}

func ruleFor(p *pic) extentRule {
	const mm = 36000.0
	eps := func(v float64) float64 { return 1 + v*1e-9 } // floor/round/ceil all accepted
	switch p.size.Mode {
	case "nil", "none", "empty", "emptykeep":
		return extentRule{judged: true, exact: true, cx: float64(p.w) * 9525, cy: float64(p.h) * 9525, why: "no size given: pixel size at 96 dpi (9525 EMU per pixel)"}
	case "both", "bothkeep":
		return extentRule{judged: true, cx: p.size.W * mm, cy: p.size.H * mm, tolX: eps(p.size.W * mm), tolY: eps(p.size.H * mm), why: "width and height given: 36000 EMU per mm"}
	case "wkeep":
		r := float64(p.h) / float64(p.w)
		cx := p.size.W * mm
		return extentRule{judged: true, cx: cx, cy: cx * r, tolX: eps(cx), tolY: 1 + r + cx*r*1e-9, why: fmt.Sprintf("width given, aspect ratio kept: height = width * %d/%d", p.h, p.w)}
	case "hkeep":
		r := float64(p.w) / float64(p.h)
		cy := p.size.H * mm
		return extentRule{judged: true, cy: cy, cx: cy * r, tolY: eps(cy), tolX: 1 + r + cy*r*1e-9, derivedIsWidth: true, why: fmt.Sprintf("height given, aspect ratio kept: width = height * %d/%d", p.w, p.h)}
	}
	return extentRule{judged: false}
}

// ---- pure analysis of a case (no library call): input classes for labels and known-finding triggers -----------------

type analysis struct {
	skipBodyAt, skipCellAt int // first render step of that input class (-1: none)
	sparseAt               int // first renumber step that leaves numeric, non-dense relationship ids (-1: none)
	relAfterSparse         bool
}

// relCreating says whether a step may add a relationship to the main part.
func relCreating(s Step) bool {
	switch s.K {
	case "img", "imgfile", "cellimg", "cellimgd", "cellimgf", "render", "header", "footer", "listitem", "imgnoelem", "badadd":
		return true
	}
	return false
}

// sparseScheme: the renumbering keeps ids of the form rId<number> but leaves holes below the highest one.
func sparseScheme(n int) bool { return n == schemeShift || n == schemeSpread || n == schemeGap }

func analyze(c Case) analysis {
	a := analysis{skipBodyAt: -1, skipCellAt: -1, sparseAt: -1}
	m := &model{}
	other := &model{}
	tt := &tplTrack{}
	for i, s := range c.Steps {
		if a.sparseAt >= 0 && relCreating(s) {
			a.relAfterSparse = true
		}
		switch s.K {
		case "swap":
			m, other = other, m
		case "renumber":
			if sparseScheme(s.N) && a.sparseAt < 0 {
				a.sparseAt = i
			}
		case "render":
			imgs := map[string]*pic{}
			for n := range tt.names(s) {
				imgs[n] = &pic{}
			}
			m, _ = tt.base(m, s.Eng)
			info := m.render(imgs)
			if info.skipBody && a.skipBodyAt < 0 {
				a.skipBodyAt = i
			}
			if info.skipCell && a.skipCellAt < 0 {
				a.skipCellAt = i
			}
		default:
			m.apply(s, i)
		}
	}
	return a
}

// apply performs the model side of every step except render/reopen/renumber/save.
// It returns the picture the step adds (nil if none) and whether the step was applicable.
func (m *model) apply(s Step, i int) (*pic, bool) {
	mk := func(src string, size Size) *pic {
		b := payload(*s.Img)
		p := &pic{hash: hashOf(b), n: len(b), w: s.Img.W, h: s.Img.H, format: s.Img.Fmt, size: size, src: src, name: s.Img.Name, op: i}
		p.tail, p.base = tailOf(*s.Img)
		return p
	}
	sel := func(k, n int) int {
		v := 0
		if k < len(s.Sel) {
			v = s.Sel[k]
		}
		if v < 0 {
			v = -v
		}
		return v % n
	}
	switch s.K {
	case "img", "imgfile":
		if s.Img == nil || s.Size == nil {
			return nil, false
		}
		p := mk("body", *s.Size)
		m.body = append(m.body, mitem{para: &mpara{pic: p}})
		return p, true
	case "table":
		r, c := s.N, s.M
		if r < 1 {
			r = 1
		}
		if c < 1 {
			c = 1
		}
		m.body = append(m.body, mitem{table: newTable(r, c)})
		return nil, true
	case "cellimg", "cellimgd", "cellimgf":
		ts := m.tables()
		if len(ts) == 0 || s.Img == nil || s.Size == nil {
			return nil, false
		}
		t := ts[sel(0, len(ts))]
		cell := t.cells[sel(1, t.rows)][sel(2, t.cols)]
		p := mk("cell", *s.Size)
		cell.paras = append(cell.paras, &mpara{pic: p})
		return p, true
	case "phpara":
		if len(s.Texts) != len(s.Phs)+1 {
			return nil, false
		}
		m.body = append(m.body, mitem{para: &mpara{texts: s.Texts, phs: s.Phs}})
		return nil, true
	case "cellph":
		ts := m.tables()
		if len(ts) == 0 || len(s.Texts) != len(s.Phs)+1 {
			return nil, false
		}
		t := ts[sel(0, len(ts))]
		cell := t.cells[sel(1, t.rows)][sel(2, t.cols)]
		if s.B && cell.fresh {
			cell.paras[0] = &mpara{texts: s.Texts, phs: s.Phs}
			cell.fresh = false
		} else {
			cell.paras = append(cell.paras, &mpara{texts: s.Texts, phs: s.Phs})
		}
		return nil, true
	}
	return nil, true
}

// cellOf resolves the selectors of a cell step against the model (same arithmetic as apply).
func (m *model) cellOf(s Step) (ti, r, c int, fresh bool, ok bool) {
	ts := m.tables()
	if len(ts) == 0 {
		return 0, 0, 0, false, false
	}
	sel := func(k, n int) int {
		v := 0
		if k < len(s.Sel) {
			v = s.Sel[k]
		}
		if v < 0 {
			v = -v
		}
		return v % n
	}
	ti = sel(0, len(ts))
	t := ts[ti]
	r, c = sel(1, t.rows), sel(2, t.cols)
	return ti, r, c, t.cells[r][c].fresh, true
}

func paraText(texts, phs []string, sp int) string {
	var b strings.Builder
	for j, ph := range phs {
		b.WriteString(texts[j])
		b.WriteString("{{#image")
		if (sp+j)%3 == 2 {
			b.WriteString("  ")
		} else {
			b.WriteString(" ")
		}
		b.WriteString(ph)
		b.WriteString("}}")
	}
	b.WriteString(texts[len(phs)])
	return b.String()
}

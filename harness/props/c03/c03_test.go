package c03

import (
	"bytes"
	"crypto/sha1"
	"encoding/hex"
	"fmt"
	"io"
	"math"
	"os"
	"path/filepath"
	"runtime/debug"
	"sort"
	"strings"
	"testing"
	"time"

	"github.com/zerx-lab/wordZero/pkg/document"
	"pgregory.net/rapid"

	"wzverif/internal/canon"
	"wzverif/internal/foreign"
	"wzverif/internal/gen"
	"wzverif/internal/kit"
	"wzverif/internal/opc"
	"wzverif/internal/ops"
)

func TestMain(m *testing.M) {
	document.SetGlobalLevel(document.LogLevelSilent)
	kit.TestMain(m, 560, 10000)
}

// Case: a document built by a history of API calls, then Cycles save/open cycles.
type Case struct {
	Ops    []ops.Op `json:"ops"`
	Cycles int      `json:"cycles"` // 1..4: B1=save(D), D2=open(B1), B2=save(D2) is cycle 1; every further cycle adds open+save
	File   bool     `json:"file"`   // reopen through Save/Open on a file instead of ToBytes/OpenFromMemory
	// Foreign, when set, replaces the API-built document by a package of the independent foreign-package generator:
	// only the stability clause is judged on it (foreign_src.go); Ops is empty then.
	Foreign *foreign.Package `json:"foreign,omitempty"`
	// SaveAPI: every save of the cycle chain goes through Document.Save(path) (the file is read back) instead of ToBytes.
	SaveAPI bool `json:"saveapi,omitempty"`
	// Other: a second document built by its own ops ALTERNATELY with the first one (op i of Other runs before op i+1
	// of Ops); it is saved and reopened between the saves and opens of the first document and must round-trip too.
	Other []ops.Op `json:"other,omitempty"`
	// ForeignEdit (foreign source only): after the first Open a paragraph and this picture are added through the API;
	// the stability clause then speaks about a foreign document that was edited.
	ForeignEdit *gen.Img `json:"foreignedit,omitempty"`
}

// ---------------------------------------------------------------------------------------------
// generator

var weights = map[string]int{
	// body elements
	"para": 8, "fpara": 6, "heading": 3, "headingbm": 1, "headingbm2": 1, "pagebreak": 4, "listitem": 2, "bullet": 1, "numbered": 1,
	"math": 1, "mathlatex": 1, "inlinemath": 1, "toc": 1,
	// paragraph setters
	"align": 3, "spacing": 3, "indent": 3, "keepnext": 2, "keeplines": 2, "pbb": 2, "widow": 2, "outline": 2, "snap": 2, "pstyle": 2,
	"hrule": 2, "pborder": 2, "pformat": 4,
	// multi-valued formatting whose parts are drawn independently (ops/c03_sides.go)
	"pborder4": 4, "cellpborder4": 2, "cellborders6": 3, "tblborders6": 3, "runfonts": 3, "ptabs": 6, "tcmar": 2, "tblcellmar": 2,
	// run level
	"addtext": 6, "ppagebreak": 2, "pbold": 2, "pitalic": 1, "punderline": 2, "pstrike": 1, "phighlight": 2, "pfont": 2, "psize": 2, "pcolor": 2,
	// tables
	"table": 18, "celltext": 5, "cellftext": 2, "celladdtext": 2, "cellpara": 2, "cellfpara": 2, "celllist": 2, "cellfmt": 2, "cellfmtdir": 1, "cellimg": 1,
	"nested": 2, "nestedh": 8, "insrow": 2, "approw": 1, "delrow": 2, "inscol": 2, "appcol": 1, "delcol": 2,
	"mergeh": 9, "mergev": 5, "merger": 5, "unmerge": 2, "rowheight": 2, "rowheightrange": 2, "rowheader": 2, "headerrows": 2, "rowkeep": 2,
	"tblstyle": 2, "tblborders": 2, "tblshading": 2, "cellshading": 2, "altrows": 1, "celldir": 2, "cellpad": 1, "cellborders": 2, "tblalign": 2,
	"rmtblborders": 1, "rmcellborders": 1, "clearcell": 1, "clearcellfmt": 1, "clearcellparas": 1,
	// pictures
	"image": 4, "imagefile": 1, "imagefloat": 4, "imgalt": 2, "imgtitle": 2, "imgalign": 2,
	// section
	"pagesize": 1, "custompage": 2, "orient": 2, "margins": 3, "hfdist": 2, "gutter": 2, "docgrid": 1, "cleargrid": 1,
	"header": 1, "footer": 1, "headerpn": 1, "footerpn": 1, "fheader": 1, "ffooter": 1, "difffirst": 1,
	// body edits
	"rmpara": 1, "rmparaat": 1, "rmelemat": 1,
}

var styleIDs = []string{"Normal", "Heading1", "Heading2", "Heading3", "Title", "Quote", "ListParagraph", "NoSuchStyle", "My Style", "样式", "heading1", "Heading11", "Heading 1", "normal"}

var cfg = &ops.Config{Classes: gen.Expressible, Weights: map[string]int{"para": 1}, StyleIDs: styleIDs}

var kindList = func() []string {
	var out []string
	for k, w := range weights {
		for i := 0; i < w; i++ {
			out = append(out, k)
		}
	}
	sort.Strings(out)
	return out
}()

// scenario heads/tails guarantee that the expensive-to-reach features occur often enough
var scenarios = [][]string{
	{"table", "nestedh", "nestedh", "celltext", "mergeh"},
	{"table", "mergeh", "mergev", "celltext", "rowheight", "rowheader"},
	{"table", "merger", "cellfmt", "celldir", "cellborders"},
	{"para", "pformat", "addtext", "ppagebreak", "addtext"},
	{"fpara", "keepnext", "keeplines", "pbb", "widow", "outline", "snap", "pborder"},
	{"imagefloat", "para", "image"},
	{"para", "align", "spacing", "indent", "pstyle"},
	{"heading", "para", "pagebreak", "table", "margins"},
	{"para", "pborder4", "ptabs", "runfonts", "indent", "spacing"},
	{"table", "tblborders6", "cellborders6", "tcmar", "tblcellmar", "cellpborder4"},
}

// wideScenarios: heads for the entry points added by widen.go (drawn independently of the scenarios above)
var wideScenarios = [][]string{
	{"image", "imagefloat", "imgpos", "imgwrap", "imgresize", "table", "cellimgcfg", "cellimgfile"},
	{"table", "rowprops", "rowprops", "tbllayout", "customtblstyle", "copytable", "celltext", "delrows"},
	{"createtable", "mergev", "delcols", "tblread", "cleartable", "celltext"},
	{"table", "vmergefields", "celltext", "vmergefields", "structprops"},
	{"pagesettings", "para", "multilist", "restartnum", "listitem", "docread", "pagesettings"},
}

func drawOp(t *rapid.T, k string) ops.Op {
	var o ops.Op
	if isWide(k) {
		o = drawWide(t, k)
	} else if ops.IsSides(k) {
		o = cfg.SidesOp(t, k)
	} else if ops.IsExtra(k) {
		o = cfg.ExtraOp(t, k)
	} else {
		o = cfg.OpOf(t, k)
	}
	widenText(t, &o)
	sanitize(&o)
	return o
}

func fix(s string) string {
	if gen.XMLExpressible(s) {
		return s
	}
	return "x"
}

// sanitize keeps every string argument inside what XML 1.0 can carry (identity of text is demanded only there).
func sanitize(o *ops.Op) {
	for i := range o.S {
		o.S[i] = fix(o.S[i])
	}
	for i := range o.Grid {
		for j := range o.Grid[i] {
			o.Grid[i][j] = fix(o.Grid[i][j])
		}
	}
	if o.Fmt != nil {
		o.Fmt.Color, o.Fmt.Font, o.Fmt.FontName, o.Fmt.Highlight = fix(o.Fmt.Color), fix(o.Fmt.Font), fix(o.Fmt.FontName), fix(o.Fmt.Highlight)
	}
}

// tracker follows, on the generator side only, how many tables the history has created and their approximate
// shapes, so that most table ops address existing rows/columns (the interpreter still resolves selectors by itself;
// a wrong guess only yields an API error, which is a legal outcome).
type dim struct{ r, c int }
type tracker struct {
	tabs   []dim
	merged [][3]int // table, row, column of the start cell of the merges drawn so far
}

func rng(t *rapid.T, lo, hi int, label string) int {
	if hi < lo {
		hi = lo
	}
	return rapid.IntRange(lo, hi).Draw(t, label)
}

func (tr *tracker) aim(t *rapid.T, o *ops.Op) {
	switch o.K {
	case "table", "createtable":
		if rapid.IntRange(0, 9).Draw(t, "shape") > 0 {
			o.I[0], o.I[1] = rapid.IntRange(1, 6).Draw(t, "rows"), rapid.IntRange(1, 6).Draw(t, "cols")
			// shapes past one digit (the 10th/11th column or row) now and then, past 16/32/64 columns rarely
			switch rapid.SampledFrom(shapeSlots).Draw(t, "wideshape") {
			case 1:
				o.I[1] = rapid.IntRange(9, 12).Draw(t, "cols2")
			case 2:
				o.I[0] = rapid.IntRange(9, 12).Draw(t, "rows2")
			case 3:
				o.I[0], o.I[1] = rapid.IntRange(1, 3).Draw(t, "rows3"), rapid.SampledFrom([]int{16, 17, 32, 33, 64, 65}).Draw(t, "cols3")
			}
			if o.I[2] < 0 {
				o.I[2] = 6000
			}
			if o.Grid != nil && len(o.Grid) > o.I[0] {
				o.Grid = o.Grid[:o.I[0]]
			}
		}
		if o.I[0] > 0 && o.I[1] > 0 {
			tr.tabs = append(tr.tabs, dim{o.I[0], o.I[1]})
		}
		return
	}
	if len(tr.tabs) == 0 || len(o.I) == 0 {
		return
	}
	if rapid.IntRange(0, 9).Draw(t, "aim") == 0 {
		return // keep the unconstrained positions (out of range, -1, n, n+1)
	}
	ti := rapid.IntRange(0, len(tr.tabs)-1).Draw(t, "ti")
	d := tr.tabs[ti]
	row := func() int { return rng(t, 0, d.r-1, "row") }
	col := func() int { return rng(t, 0, d.c-1, "col") }
	span := func(n int, label string) (int, int) {
		a := rng(t, 0, n-1, label+"a")
		b := rng(t, a, n-1, label+"b")
		if a == b && b+1 < n && rapid.Bool().Draw(t, label+"w") {
			b++
		}
		return a, b
	}
	switch o.K {
	case "celltext", "cellpara", "cellftext", "celladdtext", "cellfpara", "celllist", "cellfmt", "cellfmtdir", "cellimg", "cellshading", "celldir", "cellpad",
		"cellborders", "rmcellborders", "clearcell", "clearcellfmt", "clearcellparas", "unmerge", "cellpborder4", "cellborders6", "tcmar", "cellimgcfg", "cellimgfile", "structprops":
		o.I[0], o.I[1], o.I[2] = ti, row(), col()
		if o.K == "unmerge" && len(tr.merged) > 0 && rapid.Bool().Draw(t, "atmerged") {
			// aim at a cell that an earlier op merged (start cell of the merge)
			m := tr.merged[rapid.IntRange(0, len(tr.merged)-1).Draw(t, "mi")]
			o.I[0], o.I[1], o.I[2] = m[0], m[1], m[2]
		}
	case "nested", "nestedh":
		o.I[0], o.I[1], o.I[2] = ti, row(), col()
		if rapid.IntRange(0, 5).Draw(t, "nshape") > 0 {
			o.I[3], o.I[4] = rapid.IntRange(1, 3).Draw(t, "nrows"), rapid.IntRange(1, 3).Draw(t, "ncols")
		}
		if o.K == "nestedh" && o.I[3] > 0 && o.I[4] > 0 {
			tr.tabs = append(tr.tabs, dim{o.I[3], o.I[4]})
		}
	case "mergeh":
		a, b := span(d.c, "mh")
		if d.c >= 10 && rapid.Bool().Draw(t, "mhwide") { // a span of two digits
			a = rng(t, 0, d.c-10, "mhwa")
			b = rng(t, a+9, d.c-1, "mhwb")
		}
		o.I[0], o.I[1], o.I[2], o.I[3] = ti, row(), a, b
		tr.merged = append(tr.merged, [3]int{ti, o.I[1], a})
	case "mergev", "vmergefields":
		a, b := span(d.r, "mv")
		o.I[0], o.I[1], o.I[2], o.I[3] = ti, a, b, col()
		tr.merged = append(tr.merged, [3]int{ti, a, o.I[3]})
	case "merger":
		a, b := span(d.r, "mrr")
		c1, c2 := span(d.c, "mrc")
		if d.c >= 10 && rapid.Bool().Draw(t, "mrwide") {
			c1 = rng(t, 0, d.c-10, "mrwa")
			c2 = rng(t, c1+9, d.c-1, "mrwb")
		}
		o.I[0], o.I[1], o.I[2], o.I[3], o.I[4] = ti, a, b, c1, c2
		tr.merged = append(tr.merged, [3]int{ti, a, c1})
	case "tblread":
		o.I[0], o.I[1], o.I[2], o.I[3], o.I[4] = ti, row(), col(), row(), col()
	case "delrows":
		a, b := span(d.r, "drs")
		o.I[0], o.I[1], o.I[2] = ti, a, b
		if d.r-(b-a+1) >= 1 {
			tr.tabs[ti].r -= b - a + 1
		}
	case "delcols":
		a, b := span(d.c, "dcs")
		o.I[0], o.I[1], o.I[2] = ti, a, b
		if d.c-(b-a+1) >= 1 {
			tr.tabs[ti].c -= b - a + 1
		}
	case "copytable":
		o.I[0] = ti
		tr.tabs = append(tr.tabs, d)
	case "rowprops":
		o.I[0], o.I[1] = ti, row()
	case "rowheight", "rowheader", "rowkeep", "delrow", "rowkeepnext":
		o.I[0], o.I[1] = ti, row()
		if o.K == "delrow" && d.r > 1 {
			tr.tabs[ti].r--
		}
	case "insrow":
		o.I[0], o.I[1] = ti, rng(t, 0, d.r, "irow")
		tr.tabs[ti].r++
	case "approw":
		o.I[0] = ti
		tr.tabs[ti].r++
	case "headerrows", "rowheightrange":
		a, b := span(d.r, "hr")
		o.I[0], o.I[1], o.I[2] = ti, a, b
	case "delcol":
		o.I[0], o.I[1] = ti, col()
		if d.c > 1 {
			tr.tabs[ti].c--
		}
	case "inscol":
		o.I[0], o.I[1] = ti, rng(t, 0, d.c, "icol")
		tr.tabs[ti].c++
	case "appcol":
		o.I[0] = ti
		tr.tabs[ti].c++
	case "tblstyle", "tblborders", "tblshading", "altrows", "tblalign", "rmtblborders", "tblborders6", "tblcellmar", "tblpagebreak", "tbllayout", "cleartable", "customtblstyle":
		o.I[0] = ti
	}
}

// source of the case: 0 = ordinary API history, 1 = foreign package (stability clause only), 2 = API history with
// parts of unusual size (big.go). Slot 0 is the ordinary one, so that shrinking moves towards it.
var sourceSlots = func() []int {
	out := make([]int, 100)
	for i := range out {
		switch {
		case i%7 == 6:
			out[i] = 1 // 14 slots, drawn in ~11 % of the cases
		case i == 20 || i == 50 || i == 80:
			out[i] = 2 // drawn in ~2 % of the cases
		}
	}
	return out
}()

// shapeSlots: 0 = the ordinary shape (up to 6 x 6); 1 = 9-12 columns; 2 = 9-12 rows; 3 = 16/17/32/33/64/65 columns
var shapeSlots = func() []int {
	out := make([]int, 100)
	for i := range out {
		switch {
		case i%16 == 5:
			out[i] = 1 // 6 slots
		case i%25 == 7:
			out[i] = 2 // 4 slots
		case i == 50:
			out[i] = 3
		}
	}
	return out
}()

// otherKinds: what the second, alternately built document is made of
var otherKinds = []string{"para", "para", "fpara", "image", "imagefloat", "table", "celltext", "cellimg", "listitem", "heading", "margins", "header",
	"addtext", "pagebreak", "mergeh", "orient", "footerpn"}

func genCase(t *rapid.T) Case {
	switch src := rapid.SampledFrom(sourceSlots).Draw(t, "source"); {
	case src == 1:
		return genForeignCase(t)
	case src == 2 || (kit.Tier == "thorough" && rapid.IntRange(0, 39).Draw(t, "source2") == 39):
		return genBigCase(t)
	}
	var c Case
	tr := &tracker{}
	add := func(k string) {
		o := drawOp(t, k)
		tr.aim(t, &o)
		c.Ops = append(c.Ops, o)
		// a table of ten or more columns gets, half of the time, a merge over ten or more of them right away
		if n := len(tr.tabs); (k == "table" || k == "createtable") && n > 0 && tr.tabs[n-1].c >= 10 && o.I[1] == tr.tabs[n-1].c && rapid.Bool().Draw(t, "widemerge") {
			d := tr.tabs[n-1]
			a := rng(t, 0, d.c-10, "wma")
			b := rng(t, a+9, d.c-1, "wmb")
			r1 := rng(t, 0, d.r-1, "wmr")
			if rapid.Bool().Draw(t, "wmrange") {
				c.Ops = append(c.Ops, ops.Op{K: "merger", I: []int{n - 1, r1, rng(t, r1, d.r-1, "wmr2"), a, b}})
			} else {
				c.Ops = append(c.Ops, ops.Op{K: "mergeh", I: []int{n - 1, r1, a, b}})
			}
		}
	}
	if rapid.IntRange(0, 1).Draw(t, "head") == 0 {
		for _, k := range rapid.SampledFrom(scenarios).Draw(t, "scenario") {
			add(k)
		}
	}
	if rapid.IntRange(0, 4).Draw(t, "widehead") == 0 {
		for _, k := range rapid.SampledFrom(wideScenarios).Draw(t, "widescenario") {
			add(k)
		}
	}
	n := rapid.IntRange(8, kit.Scale(30, 50)).Draw(t, "nops")
	for i := 0; i < n; i++ {
		add(rapid.SampledFrom(kindList).Draw(t, "kind"))
	}
	// intermediate saves: a document that was saved before it was finished is an API-built document too.
	// 0-3 "save" ops (ToBytes on the live document) at arbitrary positions ...
	for i := rapid.SampledFrom([]int{0, 0, 1, 1, 2, 3}).Draw(t, "nsaves"); i > 0; i-- {
		at := rapid.IntRange(1, len(c.Ops)).Draw(t, "saveat")
		c.Ops = append(c.Ops[:at], append([]ops.Op{{K: "save"}}, c.Ops[at:]...)...)
	}
	// ... and, often, a save followed only by edits of existing elements (no body element added or removed)
	if rapid.IntRange(0, 2).Draw(t, "savetail") == 0 {
		c.Ops = append(c.Ops, ops.Op{K: "save"})
		for i := rapid.IntRange(1, 5).Draw(t, "ntail"); i > 0; i-- {
			add(rapid.SampledFrom(inPlaceKinds).Draw(t, "tailkind"))
			if rapid.IntRange(0, 4).Draw(t, "resave") == 0 {
				c.Ops = append(c.Ops, ops.Op{K: "save"})
				add(rapid.SampledFrom(inPlaceKinds).Draw(t, "tailkind2"))
			}
		}
	}
	// a document that was saved, opened again and edited further is an API-built document too: now and then the history
	// contains a reopen (the ops after it act on the opened document) ...
	switch rapid.SampledFrom(historySlots).Draw(t, "history") {
	case 1:
		at := len(c.Ops) // half of the time at the end: only additions follow
		if rapid.Bool().Draw(t, "reopenmid") {
			at = rapid.IntRange(len(c.Ops)/2, len(c.Ops)).Draw(t, "reopenat")
		}
		re := ops.Op{K: "reopen", B: []bool{rapid.Bool().Draw(t, "reopenfile")}}
		c.Ops = append(c.Ops[:at], append([]ops.Op{re}, c.Ops[at:]...)...)
		for i := rapid.IntRange(0, 3).Draw(t, "nafter"); i > 0; i-- {
			add(rapid.SampledFrom([]string{"image", "imagefloat", "cellimg", "para", "listitem", "table", "addtext", "celltext", "margins", "header"}).Draw(t, "afterkind"))
		}
	case 2:
		// ... and rarely that happens to a document with more pictures / list items than one digit counts (the 11th
		// media part, relationship and numbering instance), to which further ones are added after the reopen
		n := rapid.IntRange(9, 13).Draw(t, "npics")
		for i := 0; i < n; i++ {
			add(rapid.SampledFrom([]string{"image", "image", "imagefloat", "cellimg"}).Draw(t, "manykind"))
			if rapid.IntRange(0, 2).Draw(t, "withitem") == 0 {
				add("listitem")
			}
		}
		c.Ops = append(c.Ops, ops.Op{K: "reopen", B: []bool{rapid.Bool().Draw(t, "reopenfile")}})
		for i := rapid.IntRange(2, 5).Draw(t, "nafter"); i > 0; i-- {
			add(rapid.SampledFrom([]string{"image", "image", "imagefloat", "cellimg", "listitem"}).Draw(t, "afterkind"))
		}
	}
	// two documents built alternately
	if rapid.IntRange(0, 11).Draw(t, "other") == 0 {
		otr := &tracker{}
		for i := rapid.IntRange(2, 8).Draw(t, "nother"); i > 0; i-- {
			o := drawOp(t, rapid.SampledFrom(otherKinds).Draw(t, "otherkind"))
			otr.aim(t, &o)
			c.Other = append(c.Other, o)
		}
	}
	c.Cycles = rapid.SampledFrom([]int{1, 2, 2, 3, 3, 4}).Draw(t, "cycles")
	c.File = rapid.IntRange(0, 3).Draw(t, "file") == 0
	c.SaveAPI = rapid.IntRange(0, 3).Draw(t, "saveapi") == 0
	return c
}

// historySlots: 0 = plain history; 1 = one reopen somewhere in its second half; 2 = many pictures, reopen, more pictures
var historySlots = func() []int {
	out := make([]int, 100)
	for i := range out {
		switch {
		case i%12 == 7:
			out[i] = 1 // 8 slots
		case i == 30 || i == 60 || i == 90:
			out[i] = 2
		}
	}
	return out
}()

// inPlaceKinds change existing body elements without adding or removing a top-level one
// (page-setting kinds do so only when a section element already exists).
var inPlaceKinds = []string{"pborder4", "cellpborder4", "cellborders6", "tblborders6", "runfonts", "ptabs", "tcmar", "tblcellmar", "addtext", "addtext", "addtext", "ppagebreak", "align", "spacing", "indent", "pformat", "keepnext", "outline", "pstyle", "pborder",
	"pbold", "pcolor", "psize", "pfont", "celltext", "celltext", "cellftext", "celladdtext", "cellpara", "cellfmt", "celldir", "cellborders", "cellshading",
	"mergeh", "mergev", "merger", "rowheight", "rowheader", "insrow", "approw", "delrow", "appcol", "nestedh", "cellimg", "tblborders", "tblalign",
	"orient", "margins", "pagesize", "docgrid", "difffirst", "imgalign"}

// ---------------------------------------------------------------------------------------------
// observers

type saved struct {
	raw  []byte
	pkg  *opc.Package
	main *canon.Node
}

func observe(b []byte) (*saved, error) {
	pkg, err := opc.Read(b)
	if err != nil {
		return nil, err
	}
	data, ok := pkg.Parts["word/document.xml"]
	if !ok {
		return nil, fmt.Errorf("no word/document.xml")
	}
	root, err := canon.Parse(data)
	if err != nil {
		return nil, fmt.Errorf("word/document.xml: %v", err)
	}
	return &saved{b, pkg, root}, nil
}

var emptyContainers = map[string]bool{"w:pPr": true, "w:rPr": true, "w:tcPr": true, "w:trPr": true, "w:tblPr": true}

// rt1Options: the stated normalisations plus the loss-class paths (judged separately).
var rt1Options = &canon.Options{
	Skip:            func(n *canon.Node) bool { return classOfNode(n) != "" },
	EmptyContainers: emptyContainers,
	SkipAttr: func(n *canon.Node, a canon.Attr) bool {
		return n.Is(canon.W, "t") && a.Space == canon.XML && a.Local == "space" && n.Text == ""
	},
}

// classItem is one outermost loss-class subtree below some node.
type classItem struct {
	id   string
	str  string // canonical form without the subtrees of other classes inside it
	node *canon.Node
}

func collectClassItems(n *canon.Node, out *[]classItem) {
	for _, k := range n.Kids {
		if id := classOfNode(k); id != "" {
			var b strings.Builder
			writeStripped(&b, k, id)
			*out = append(*out, classItem{id, b.String(), k})
			continue
		}
		collectClassItems(k, out)
	}
}

// compareClasses judges every loss class separately: the sequences of outermost class subtrees below a and b are
// compared per class (each rendered without the other classes' subtrees inside it); where a class's subtrees pair up
// one to one, the comparison descends into the pairs, so that e.g. a picture lock lost inside a retained nested table is a
// picLocks loss, while everything inside a lost nested table counts as part of that loss. fails: class -> first difference.
func compareClasses(a, b *canon.Node, fails map[string]string) {
	var la, lb []classItem
	collectClassItems(a, &la)
	collectClassItems(b, &lb)
	by := func(l []classItem) map[string][]classItem {
		m := map[string][]classItem{}
		for _, it := range l {
			m[it.id] = append(m[it.id], it)
		}
		return m
	}
	ma, mb := by(la), by(lb)
	for _, cl := range classes {
		ia, ib := ma[cl.ID], mb[cl.ID]
		sa, sb := make([]string, len(ia)), make([]string, len(ib))
		for i := range ia {
			sa[i] = ia[i].str
		}
		for i := range ib {
			sb[i] = ib[i].str
		}
		if d := seqDiff(sa, sb); d != "" {
			if _, seen := fails[cl.ID]; !seen {
				fails[cl.ID] = d
			}
		}
		if len(ia) == len(ib) {
			for i := range ia {
				compareClasses(ia[i].node, ib[i].node, fails)
			}
		}
	}
}

// writeStripped renders n canonically, leaving out the loss-class subtrees inside it.
func writeStripped(b *strings.Builder, n *canon.Node, own string) {
	b.WriteString("<" + n.Name())
	for _, a := range n.Attrs {
		sp := a.Space
		switch sp {
		case canon.W:
			sp = "w:"
		case canon.R:
			sp = "r:"
		case "":
		default:
			sp = "{" + sp + "}"
		}
		fmt.Fprintf(b, " %s%s=%q", sp, a.Local, a.Value)
	}
	b.WriteString(">")
	if n.Text != "" {
		fmt.Fprintf(b, "%q", n.Text)
	}
	for _, k := range n.Kids {
		if id := classOfNode(k); id != "" {
			continue // listed (and judged) on its own by compareClasses
		}
		writeStripped(b, k, own)
	}
	b.WriteString("</>")
}

// blips lists the bytes (as hash) every a:blip outside loss-class subtrees resolves to, in document order.
func blips(s *saved, masked bool) []string {
	rels := map[string]string{}
	for _, r := range s.pkg.RelsOf("word/document.xml") {
		rels[r.ID] = r.Resolved
	}
	var out []string
	var rec func(n *canon.Node)
	rec = func(n *canon.Node) {
		if masked && classOfNode(n) != "" {
			return
		}
		if n.Is(canon.A, "blip") {
			id := n.A(canon.R, "embed")
			tgt, ok := rels[id]
			data, ok2 := s.pkg.Parts[tgt]
			switch {
			case !ok:
				out = append(out, "unresolved:"+id)
			case !ok2:
				out = append(out, "missing-part:"+tgt)
			default:
				out = append(out, blipKey(data))
			}
		}
		for _, k := range n.Kids {
			rec(k)
		}
	}
	rec(s.main)
	return out
}

// ---------------------------------------------------------------------------------------------
// in-memory body comparison

func kindOf(e interface{}) string {
	switch e.(type) {
	case *document.Paragraph:
		return "paragraph"
	case *document.Table:
		return "table"
	case *document.SectionProperties:
		return "sectPr"
	case *document.BookmarkStart, *document.BookmarkEnd:
		return "bookmark"
	case *document.SDT:
		return "sdt"
	case *document.MathParagraph:
		return "math"
	}
	return fmt.Sprintf("%T", e)
}

func sectLast(in []interface{}) []interface{} {
	var out, sect []interface{}
	for _, e := range in {
		if _, ok := e.(*document.SectionProperties); ok {
			sect = append(sect, e)
		} else {
			out = append(out, e)
		}
	}
	if len(sect) > 0 {
		out = append(out, sect[len(sect)-1]) // the writer keeps the last one
	}
	return out
}

// alignBodies pairs the elements of the built body (a) with those of the reopened body (b) after moving the
// section element last. Body-level elements of a loss class that have no counterpart in b are taken out and counted.
func alignBodies(a, b []interface{}) (a2, b2 []interface{}, lost map[string]int) {
	a, b = sectLast(a), sectLast(b)
	lost = map[string]int{}
	j := 0
	for i := 0; i < len(a); i++ {
		ka := kindOf(a[i])
		var kb string
		if j < len(b) {
			kb = kindOf(b[j])
		}
		switch ka {
		case "bookmark", "sdt":
			if kb != ka {
				lost[ka]++
				continue
			}
		case "math":
			if kb != ka {
				lost[ka]++
				// the reader leaves an empty paragraph in its place
				if j < len(b) {
					if bp, isP := b[j].(*document.Paragraph); isP && len(bp.Runs) == 0 {
						j++
					}
				}
				continue
			}
		}
		a2 = append(a2, a[i])
		if j < len(b) {
			b2 = append(b2, b[j])
			j++
		}
	}
	for ; j < len(b); j++ {
		b2 = append(b2, b[j])
	}
	return
}

func min(a, b int) int {
	if a < b {
		return a
	}
	return b
}

// ---------------------------------------------------------------------------------------------
// run

func reopen(b []byte, file bool, dir string, n int) (*document.Document, error) {
	if file {
		p := filepath.Join(dir, fmt.Sprintf("cycle%d.docx", n))
		if err := os.WriteFile(p, b, 0o644); err != nil {
			return document.OpenFromMemory(io.NopCloser(bytes.NewReader(b)))
		}
		return document.Open(p)
	}
	return document.OpenFromMemory(io.NopCloser(bytes.NewReader(b)))
}

func opTouches(c Case, id string) bool {
	cl := classByID(id)
	if cl == nil {
		return false
	}
	for _, o := range c.Ops {
		if cl.Trigger(o) {
			return true
		}
	}
	return false
}

var paraSetters = map[string]bool{"align": true, "spacing": true, "indent": true, "keepnext": true, "keeplines": true, "pbb": true, "widow": true,
	"outline": true, "snap": true, "pstyle": true, "hrule": true, "pborder": true, "pformat": true, "pborder4": true, "ptabs": true}
var formatSetters = map[string]bool{"cellpborder4": true, "cellborders6": true, "tblborders6": true, "runfonts": true, "tcmar": true, "tblcellmar": true, "fpara": true, "addtext": true, "pbold": true, "pitalic": true, "punderline": true, "pstrike": true, "phighlight": true,
	"pfont": true, "psize": true, "pcolor": true, "cellfmt": true, "cellfmtdir": true, "cellftext": true, "celladdtext": true, "cellfpara": true,
	"celldir": true, "cellborders": true, "cellshading": true, "tblborders": true, "tblshading": true, "tblstyle": true, "altrows": true, "rowheight": true,
	"rowheightrange": true, "rowheader": true, "headerrows": true, "rowkeep": true, "tblalign": true, "margins": true, "pagesize": true, "custompage": true,
	"orient": true, "hfdist": true, "gutter": true, "docgrid": true}

var paraTarget = map[string]bool{"align": true, "spacing": true, "indent": true, "keepnext": true, "keeplines": true, "pbb": true, "widow": true, "outline": true,
	"snap": true, "pstyle": true, "hrule": true, "pborder": true, "pformat": true, "addtext": true, "ppagebreak": true, "pbold": true, "pitalic": true, "punderline": true,
	"pstrike": true, "phighlight": true, "pfont": true, "psize": true, "pcolor": true, "inlinemath": true, "rmpara": true,
	"pborder4": true, "runfonts": true, "ptabs": true, "bigaddtext": true, "manyruns": true}
var imageTarget = map[string]bool{"imgalt": true, "imgtitle": true, "imgalign": true}
var tableTarget = map[string]bool{"celltext": true, "cellpara": true, "cellftext": true, "celladdtext": true, "cellfpara": true, "celllist": true, "cellfmt": true,
	"cellfmtdir": true, "cellimg": true, "cellshading": true, "celldir": true, "cellpad": true, "cellborders": true, "rmcellborders": true, "clearcell": true,
	"clearcellfmt": true, "clearcellparas": true, "unmerge": true, "nested": true, "nestedh": true, "mergeh": true, "mergev": true, "merger": true, "rowheight": true,
	"rowheader": true, "rowkeep": true, "delrow": true, "insrow": true, "approw": true, "headerrows": true, "rowheightrange": true, "delcol": true, "inscol": true,
	"appcol": true, "tblstyle": true, "tblborders": true, "tblshading": true, "altrows": true, "tblalign": true, "rmtblborders": true,
	"cellpborder4": true, "cellborders6": true, "tblborders6": true, "tcmar": true, "tblcellmar": true, "bigcellimg": true, "bigcelltext": true}

// hasTarget: the op has an object to act on (an op without one is a no-op of the interpreter, not an API call).
func hasTarget(x *ops.Exec, k string) bool {
	switch {
	case paraTarget[k]:
		return len(x.Paras) > 0
	case tableTarget[k]:
		return len(x.Tables) > 0
	case imageTarget[k]:
		return len(x.Images) > 0
	}
	return true
}

func mkScratch() (string, error) { return os.MkdirTemp(kit.Scratch, "c03-") }
func rmScratch(dir string)       { os.RemoveAll(dir) }

func canonDiffNoMask(a, b *saved) string { return canon.Diff(a.main, b.main, nil) }

// blipKey is the form in which blips() reports the bytes behind a picture: hash and length.
func blipKey(data []byte) string {
	h := sha1.Sum(data)
	return fmt.Sprintf("%s(%d bytes)", hex.EncodeToString(h[:8]), len(data))
}

func run(c Case) *kit.Result {
	if c.Foreign != nil {
		return runForeign(c)
	}
	res := &kit.Result{}
	document.VerifResetGlobals()
	dir, _ := mkScratch()
	defer rmScratch(dir)
	x := ops.NewExec(dir)
	bs := &bigState{}
	ws := &wideState{}
	supplied := map[string]bool{} // pictures handed to the API by successful calls
	// pictures of the document when it was last reopened in the middle of the history (as saved just before that Open),
	// the payloads added by picture calls since then, and whether every op since then only adds (appendOnlyKinds)
	var atReopen, addedSince []string
	onlyAdds := true
	// the second document, built alternately with the first (Case.Other)
	var xo *ops.Exec
	if len(c.Other) > 0 {
		xo = ops.NewExec(filepath.Join(dir, "other"))
		os.MkdirAll(xo.Dir, 0o755)
		res.Label("two-documents-alternately")
	}

	// 1. build
	var shape []string
	okKinds := map[string]bool{}
	nSaves, lenAtSave, editsSinceSave := 0, -1, 0
	for i, op := range c.Ops {
		for _, cl := range op.Cls {
			res.Label("str:" + cl)
		}
		var err error
		if xo != nil && i >= 1 && i-1 < len(c.Other) {
			if po, _ := kit.Try(func() { doOther(xo, c.Other[i-1]) }); po != nil {
				res.Count("discarded:build-panic", 1)
				res.Label("discard:build-panic")
				res.Shape = "discard"
				return res
			}
		}
		target := hasTarget(x, op.K)
		p, _ := kit.Try(func() {
			if op.K == "reopen" {
				var pics []string
				if pics, err = doReopen(x, op); err == nil {
					atReopen, addedSince, onlyAdds = pics, nil, true
				}
			} else if isBig(op.K) {
				err = doBig(x, op, bs)
			} else if isWide(op.K) {
				err = doWide(x, op, ws)
			} else if ops.IsSides(op.K) {
				err = x.DoSides(op)
			} else if ops.IsExtra(op.K) {
				err = x.DoExtra(op)
			} else {
				err = x.Do(op)
			}
		})
		if p != nil {
			// a panicking API call leaves no defined document; other properties (C09) judge the panic itself
			res.Count("discarded:build-panic", 1)
			res.Label("discard:build-panic")
			res.Shape = "discard"
			_ = i
			return res
		}
		e := "ok"
		if err != nil {
			e = "err"
		} else if target {
			okKinds[op.K] = true
			if isImageOp(op.K) && op.Img != nil {
				k := blipKey(op.Img.Bytes())
				supplied[k] = true
				addedSince = append(addedSince, k)
				ws.imgOps++
				if ws.reopened > 0 {
					ws.afterRe = true
				}
			}
			if op.K == "reopen" {
				ws.reopened++
			} else if !appendOnlyKinds[op.K] {
				onlyAdds = false
			}
			if ops.IsSides(op.K) {
				// parts that differ from each other: the only inputs on which a confusion of the parts can show
				if n := ops.DistinctSides(op); n >= 2 {
					res.Label("parts-differ:" + op.K)
					res.Label("parts-differ")
					if n >= 3 {
						res.Label("parts-differ>=3")
					}
				}
			}
		} else {
			e = "noop"
		}
		if op.K == "save" || op.K == "savefile" {
			x.Saves = nil // intermediate packages are not judged here (C01 does); the final save must reflect the final body
			if err == nil {
				nSaves++
				lenAtSave, editsSinceSave = len(x.Doc.Body.Elements), 0
			}
		} else if err == nil && target {
			editsSinceSave++
		}
		shape = append(shape, op.K+":"+e)
	}
	D := x.Doc
	if D == nil || D.Body == nil {
		res.Count("discarded:no-body", 1)
		return res
	}
	if xo != nil { // the rest of the second document's ops, when it has more of them than the first one
		for j := len(c.Ops) - 1; j >= 0 && j < len(c.Other); j++ {
			if po, _ := kit.Try(func() { doOther(xo, c.Other[j]) }); po != nil {
				xo = nil
				break
			}
		}
	}
	if ws.reopened > 0 {
		res.Label("reopen-in-history")
		if ws.afterRe {
			res.Label("picture-added-after-reopen")
		}
	}
	if ws.imgOps >= 11 {
		res.Label("pictures>=11")
		if ws.afterRe {
			res.Label("pictures>=11+added-after-reopen")
		}
	}
	if nSaves > 0 {
		res.Label("intermediate-save")
		if editsSinceSave > 0 {
			res.Label("save-then-edit")
			if len(D.Body.Elements) == lenAtSave {
				// the edits after the last intermediate save changed existing elements only (same number of body children)
				res.Label("save-then-inplace-edit")
			}
		}
	}

	// 2. first save
	var b1 []byte
	var err error
	if p, st := kit.Try(func() { b1, err = saveDoc(D, c, dir, "first") }); p != nil || err != nil {
		// serialisation failure/panic is C01/C05 territory: nothing was produced to reopen
		res.Count("discarded:save-failed", 1)
		res.Label("discard:save-failed")
		_ = st
		return res
	}
	s1, oerr := observe(b1)
	if oerr != nil {
		res.Count("discarded:unreadable-output", 1) // C01 judges this
		res.Label("discard:unreadable-output")
		return res
	}
	// the second document is saved right after the first one
	var so1 *saved
	if xo != nil && xo.Doc != nil {
		var bo []byte
		var oe error
		if p, _ := kit.Try(func() { bo, oe = saveDoc(xo.Doc, c, xo.Dir, "first") }); p == nil && oe == nil {
			so1, _ = observe(bo)
		}
	}

	// features of the built document (from the written main part, independent of the library's reader)
	feat := map[string]bool{}
	kinds := map[string]bool{}
	body := s1.main.Kid(canon.W, "body")
	if body != nil {
		for _, k := range body.Kids {
			switch {
			case k.Is(canon.W, "p"):
				if len(k.All(canon.W, "drawing")) > 0 {
					kinds["picture"] = true
				} else if len(k.All(canon.W, "br")) > 0 && len(k.All(canon.W, "t")) == 0 {
					kinds["break"] = true
				} else {
					kinds["paragraph"] = true
				}
			case k.Is(canon.W, "tbl"):
				kinds["table"] = true
			case k.Is(canon.W, "sectPr"):
				kinds["sectPr"] = true
			default:
				kinds[k.Local] = true
			}
		}
	}
	s1.main.Walk(func(n *canon.Node) bool {
		switch {
		case n.Is(canon.W, "tbl") && n.Parent.Is(canon.W, "tc"):
			feat["nested-table"] = true
			if n.Parent.Parent != nil && n.Parent.Parent.Parent != nil && n.Parent.Parent.Parent.Parent.Is(canon.W, "tc") {
				feat["nested-depth>=2"] = true
			}
		case n.Is(canon.W, "gridSpan"):
			feat["merge-h"] = true
			if len(n.A(canon.W, "val")) >= 2 {
				feat["gridspan>=10"] = true
			}
		case n.Is(canon.W, "tblGrid"):
			if len(n.Kids) >= 10 {
				feat["cols>=10"] = true
			}
		case n.Is(canon.W, "numId"):
			if len(n.A(canon.W, "val")) >= 2 {
				feat["numid>=10"] = true
			}
		case n.Is(canon.W, "instrText") && n.Parent.Parent.Is(canon.W, "p") && n.Parent.Parent.Parent.Is(canon.W, "body"):
			feat["field-run-in-body"] = true
		case n.Is(canon.W, "noWrap") || n.Is(canon.W, "hideMark") || n.Is(canon.W, "tblInd"):
			feat["struct-only-table-property"] = true
		case n.Is(canon.W, "vMerge"):
			feat["merge-v"] = true
			if n.A(canon.W, "val") == "" {
				feat["merge-v-without-val"] = true
			}
		case n.Is(canon.W, "br") && n.Parent.Is(canon.W, "r"):
			feat["run-break"] = true
		case n.Is(canon.WP, "anchor"):
			feat["floating-picture"] = true
		case n.Is(canon.WP, "inline"):
			feat["inline-picture"] = true
		case n.Is(canon.W, "trHeight"):
			feat["row-height"] = true
		case n.Is(canon.W, "tblHeader"):
			feat["header-row"] = true
		case n.Is(canon.W, "numPr"):
			feat["list-item"] = true
		case n.Is(canon.W, "t"):
			if n.Text != strings.TrimSpace(n.Text) {
				feat["edge-whitespace-text"] = true
			}
			if strings.ContainsAny(n.Text, "\t\n\r") {
				feat["tab-newline-text"] = true
			}
		case n.Is(canon.W, "pgMar") || n.Is(canon.W, "pgSz"):
			feat["page-settings"] = true
		}
		if n.Is(canon.W, "t") {
			for _, r := range n.Text {
				if r > 127 {
					feat["non-ascii-text"] = true
					break
				}
			}
		}
		return true
	})
	for f := range feat {
		res.Label("feat:" + f)
	}
	nPara, nFmt := 0, 0
	for k := range okKinds {
		res.Label("op:" + k)
		if paraSetters[k] {
			nPara++
		}
		if paraSetters[k] || formatSetters[k] {
			nFmt++
		}
	}
	for _, data := range bs.supplied {
		supplied[blipKey(data)] = true
	}
	if len(bs.labels) > 0 {
		res.Label("big:any")
		for l := range bs.labels {
			res.Label(l)
		}
	}
	res.Label("source:api")
	res.Label(fmt.Sprintf("cycles:%d", c.Cycles))
	if c.Cycles >= 3 {
		res.Label("cycles>=3")
	}
	if c.File {
		res.Label("via:file")
	} else {
		res.Label("via:memory")
	}
	res.Nontrivial = (len(kinds) >= 3 || feat["merge-h"] || feat["merge-v"] || feat["nested-table"]) && nFmt >= 2 && c.Cycles >= 2
	if len(bs.labels) > 0 {
		// a document with a part of unusual size that went through at least one full cycle and one stability cycle
		res.Nontrivial = c.Cycles >= 2
		defer debug.FreeOSMemory()
	}
	if len(kinds) >= 3 {
		res.Label("rule:>=3-body-kinds")
	}
	if nFmt >= 2 {
		res.Label("rule:>=2-format-setters")
	}
	if nPara >= 1 {
		res.Label("rule:paragraph-setter")
	}
	sort.Strings(shape)
	res.Shape = fmt.Sprintf("%v|c%d", dedup(shape), c.Cycles)

	// RT6: the text as a consumer of the saved package reads it. Leading and trailing white space of a w:t is significant
	// only under xml:space="preserve"; the library's own reader does not care, so only the written bytes can show it.
	// Elements whose text was handed to one of the entry points that build a run without Text.Space (cell texts, row and
	// column data, list items, the TOC title and entries: finding KF-C03-text-without-preserve) are judged on their own.
	res.Eval("C03.RT6")
	res.Eval("C03.RT6/builder-without-preserve")
	var badPlain, badBuilder []string
	unp := unpreservingTexts(c)
	for _, e := range unpreservedEdgeText(s1.main) {
		if unp[e.text] || (e.inSdt && unp["\x00toc"]) {
			badBuilder = append(badBuilder, e.where)
		} else {
			badPlain = append(badPlain, e.where)
		}
	}
	const rt6 = "first save: %d w:t element(s) whose text begins or ends with white space lack xml:space=\"preserve\" (a consumer of the package drops that white space), first: %s"
	if len(badPlain) > 0 {
		res.Fail("C03.RT6", rt6, len(badPlain), badPlain[0])
	}
	if len(badBuilder) > 0 {
		res.Fail("C03.RT6/builder-without-preserve", rt6, len(badBuilder), badBuilder[0])
	}

	// 3. first reopen
	var D2 *document.Document
	if p, st := kit.Try(func() { D2, err = reopen(b1, c.File, dir, 1) }); p != nil {
		res.Eval("C03.RT2")
		res.Fail("C03.RT2", "opening the saved document panicked: %v [%s]", p, st)
		return res
	}
	res.Eval("C03.RT2")
	if err != nil || D2 == nil || D2.Body == nil {
		res.Fail("C03.RT2", "the saved document cannot be opened: %v", err)
		return res
	}

	// the second document is opened right after the first one
	var O2 *document.Document
	if so1 != nil {
		var oe error
		res.Eval("C03.RT2")
		if p, st := kit.Try(func() { O2, oe = reopen(so1.raw, c.File, xo.Dir, 1) }); p != nil || oe != nil || O2 == nil || O2.Body == nil {
			res.Fail("C03.RT2", "second document (built alternately with the first): its saved package cannot be opened: %v %v [%s]", oe, p, st)
			O2 = nil
		}
	}

	// RT2: in-memory body
	a2, b2, lost := alignBodies(D.Body.Elements, D2.Body.Elements)
	lostMem := map[string][]string{}
	for k, n := range lost {
		lostMem[k] = append(lostMem[k], fmt.Sprintf("%d body-level %s element(s) of the built body have no counterpart after Open", n, k))
	}
	diffs := DeepDiffNorm(a2, b2, "Body.Elements", 400)
	var general []memDiff
	for _, d := range diffs {
		if id := classOfPath(d.Path); id != "" {
			lostMem[id] = append(lostMem[id], d.Path+": "+d.Detail)
		} else {
			general = append(general, d)
		}
	}
	if len(general) > 0 {
		res.Fail("C03.RT2", "in-memory body after Open differs from the built body (built vs reopened), %d difference(s), first: %s: %s%s",
			len(general), general[0].Path, general[0].Detail, more(general))
	}
	for _, cl := range classes {
		res.Eval("C03.lost:" + cl.ID + "/RT2")
		if l := lostMem[cl.ID]; len(l) > 0 {
			res.Fail("C03.lost:"+cl.ID+"/RT2", "%d in-memory difference(s) of class %s (built vs reopened), first: %s", len(l), cl.ID, l[0])
		}
	}

	// 4. second save, RT1 / RT4
	var bN []byte
	if O2 != nil { // the second document is saved again just before the first one
		var bo []byte
		var oe error
		if p, st := kit.Try(func() { bo, oe = saveDoc(O2, c, xo.Dir, "second") }); p != nil || oe != nil {
			res.Fail("C03.RT1", "second document (built alternately with the first): saving the reopened document failed: %v %v [%s]", oe, p, st)
		} else if so2, e := observe(bo); e != nil {
			res.Fail("C03.RT1", "second document (built alternately with the first): the re-saved package is unreadable: %v", e)
		} else {
			if d := canon.Diff(so1.main, so2.main, rt1Options); d != "" {
				res.Fail("C03.RT1", "second document (built alternately with the first): main part of its first save vs main part saved after Open: %s", d)
			}
			if d := seqDiff(blips(so1, true), blips(so2, true)); d != "" {
				res.Fail("C03.RT4", "second document (built alternately with the first): pictures first save vs after Open+save: %s", d)
			}
		}
	}
	if p, st := kit.Try(func() { bN, err = saveDoc(D2, c, dir, "second") }); p != nil || err != nil {
		res.Eval("C03.RT1")
		res.Fail("C03.RT1", "saving the reopened document failed: %v %v [%s]", err, p, st)
		return res
	}
	s2, oerr := observe(bN)
	res.Eval("C03.RT1")
	if oerr != nil {
		res.Fail("C03.RT1", "the re-saved package is unreadable: %v", oerr)
		return res
	}
	if d := canon.Diff(s1.main, s2.main, rt1Options); d != "" {
		res.Fail("C03.RT1", "main part of the first save vs main part saved after Open: %s", d)
	}
	lostXML := map[string]string{}
	compareClasses(s1.main, s2.main, lostXML)
	for _, cl := range classes {
		res.Eval("C03.lost:" + cl.ID + "/RT1")
		if d, bad := lostXML[cl.ID]; bad {
			res.Fail("C03.lost:"+cl.ID+"/RT1", "%s elements of the first save vs after Open+save: %s", cl.ID, d)
		}
	}
	res.Eval("C03.RT4")
	if d := seqDiff(blips(s1, true), blips(s2, true)); d != "" {
		res.Fail("C03.RT4", "pictures (bytes behind every a:blip, document order) first save vs after Open+save: %s", d)
	}
	// "same pictures" is said of the document that was built: every picture the saved-and-reopened document shows must be,
	// byte for byte, one of the pictures that were handed to the API (whatever their size)
	for i, k := range blips(s2, true) {
		if !supplied[k] {
			res.Fail("C03.RT4", "picture %d (document order) after save+Open+save resolves to %s, which is none of the %d picture payloads handed to the API", i, k, len(supplied))
			break
		}
	}
	// ... and a document that was saved, opened and then only added to still shows the pictures it had when it was opened,
	// each as often as then, plus every picture added since exactly once (as a multiset: cell pictures are not last in
	// document order). Histories with any other kind of op after the reopen (removals, merges, copies, ...) are left out.
	if ws.reopened > 0 && onlyAdds {
		res.Label("reopen-then-only-additions")
		want := map[string]int{}
		for _, k := range atReopen {
			want[k]++
		}
		for _, k := range addedSince {
			want[k]++
		}
		got := map[string]int{}
		for _, k := range blips(s1, false) {
			got[k]++
		}
		var keys []string
		for k := range want {
			keys = append(keys, k)
		}
		for k := range got {
			if _, ok := want[k]; !ok {
				keys = append(keys, k)
			}
		}
		sort.Strings(keys)
		for _, k := range keys {
			if got[k] != want[k] {
				res.Fail("C03.RT4", "document saved, opened (%d picture(s) then) and extended by %d picture call(s): the payload %s shows %d time(s) in its next save, expected %d (its count when the document was opened plus the calls that added it since): a picture of the document resolves to another picture's bytes or was lost",
					len(atReopen), len(addedSince), k, got[k], want[k])
				break
			}
		}
	}

	// 5. further cycles: RT3, never masked
	prevDoc, prevSaved := D2, s2
	for cyc := 2; cyc <= c.Cycles; cyc++ {
		var Dn *document.Document
		res.Eval("C03.RT3")
		if p, st := kit.Try(func() { Dn, err = reopen(prevSaved.raw, c.File, dir, cyc) }); p != nil || err != nil || Dn == nil || Dn.Body == nil {
			res.Fail("C03.RT3", "cycle %d: reopening failed: %v %v [%s]", cyc, err, p, st)
			return res
		}
		if ds := DeepDiffNorm(prevDoc.Body.Elements, Dn.Body.Elements, "Body.Elements", 5); len(ds) > 0 {
			res.Fail("C03.RT3", "cycle %d: in-memory body differs from the previous cycle's: %s: %s", cyc, ds[0].Path, ds[0].Detail)
		}
		var bb []byte
		if p, st := kit.Try(func() { bb, err = saveDoc(Dn, c, dir, fmt.Sprintf("cycle%d", cyc)) }); p != nil || err != nil {
			res.Fail("C03.RT3", "cycle %d: saving failed: %v %v [%s]", cyc, err, p, st)
			return res
		}
		sn, oerr := observe(bb)
		if oerr != nil {
			res.Fail("C03.RT3", "cycle %d: saved package unreadable: %v", cyc, oerr)
			return res
		}
		if d := canon.Diff(prevSaved.main, sn.main, nil); d != "" {
			res.Fail("C03.RT3", "cycle %d: main part differs from the previous cycle's (no mask): %s", cyc, d)
		}
		if d := seqDiff(blips(prevSaved, false), blips(sn, false)); d != "" {
			res.Fail("C03.RT3", "cycle %d: pictures differ from the previous cycle's: %s", cyc, d)
		}
		prevDoc, prevSaved = Dn, sn
	}

	// RT7: the built document itself is not changed by what happened to its copies: saved once more now, after the
	// copies were opened and saved, it yields the main part and the pictures of its first save (judged in the cases with
	// one or two cycles, which keeps the cost of a case even; not for the size classes)
	if len(bs.labels) == 0 && c.Cycles <= 2 {
		res.Eval("C03.RT7")
		var bb []byte
		if p, st := kit.Try(func() { bb, err = saveDoc(D, c, dir, "first") }); p != nil || err != nil {
			res.Fail("C03.RT7", "saving the built document a second time (after its copies were opened and saved) failed: %v %v [%s]", err, p, st)
		} else if sa, e := observe(bb); e != nil {
			res.Fail("C03.RT7", "the built document saved a second time is unreadable: %v", e)
		} else {
			if d := canon.Diff(s1.main, sa.main, nil); d != "" {
				res.Fail("C03.RT7", "the built document saved a second time, after its copies were opened and saved, differs from its first save (no call on it in between): %s", d)
			}
			if d := seqDiff(blips(s1, false), blips(sa, false)); d != "" {
				res.Fail("C03.RT7", "pictures of the built document saved a second time differ from those of its first save: %s", d)
			}
		}
	}

	// 6. RT5 page settings (last: GetPageSettings creates a section element when there is none)
	res.Eval("C03.RT5")
	var ps1, ps2 *document.PageSettings
	if p, _ := kit.Try(func() { ps1 = D.GetPageSettings(); ps2 = D2.GetPageSettings() }); p == nil && ps1 != nil && ps2 != nil {
		if d := pageDiff(ps1, ps2); d != "" {
			res.Fail("C03.RT5", "GetPageSettings built vs reopened: %s", d)
		}
	}
	return res
}

// appendOnlyKinds: ops that add body elements, cell pictures, runs or formatting, or only read - none of them removes,
// moves or repeats a picture by its documented meaning
var appendOnlyKinds = map[string]bool{"image": true, "imagefile": true, "imagefloat": true, "cellimg": true, "cellimgcfg": true, "cellimgfile": true,
	"para": true, "fpara": true, "heading": true, "headingbm": true, "headingbm2": true, "pagebreak": true, "listitem": true, "bullet": true, "numbered": true, "multilist": true,
	"addtext": true, "ppagebreak": true, "table": true, "createtable": true, "align": true, "spacing": true, "indent": true, "pstyle": true, "pbold": true, "pitalic": true,
	"pcolor": true, "psize": true, "pfont": true, "margins": true, "orient": true, "pagesize": true, "custompage": true, "pagesettings": true, "gutter": true, "hfdist": true,
	"docgrid": true, "header": true, "footer": true, "headerpn": true, "footerpn": true, "fheader": true, "ffooter": true, "save": true, "savefile": true, "docread": true,
	"tblread": true, "imgalt": true, "imgtitle": true, "imgpos": true, "imgwrap": true, "restartnum": true}

// doReopen executes the op "reopen" (as internal/ops does: save, Open, the opened document becomes the current one and
// the handles are taken from it) and reports the pictures of the package that was opened, in document order.
func doReopen(x *ops.Exec, o ops.Op) ([]string, error) {
	x.NOps++
	d := x.Doc
	b, err := d.ToBytes()
	if err != nil {
		x.Errs++
		return nil, err
	}
	var nd *document.Document
	if len(o.B) > 0 && o.B[0] {
		p := filepath.Join(x.Dir, "reopen.docx")
		if werr := os.WriteFile(p, b, 0o644); werr != nil {
			return nil, nil // scratch problem, not an API result
		}
		nd, err = document.Open(p)
	} else {
		nd, err = document.OpenFromMemory(io.NopCloser(bytes.NewReader(b)))
	}
	if err != nil || nd == nil || nd.Body == nil {
		x.Errs++
		return nil, fmt.Errorf("reopen of own output failed: %v", err)
	}
	var pics []string
	if s, e := observe(b); e == nil {
		pics = blips(s, false)
	}
	x.Side = append(x.Side, d)
	if len(x.Side) > 4 {
		x.Side = x.Side[len(x.Side)-4:]
	}
	x.Doc = nd
	x.Paras, x.Tables, x.Images = nd.Body.GetParagraphs(), nd.Body.GetTables(), nil
	x.Replaced++
	return pics, nil
}

// saveDoc is one save of the cycle chain: Document.ToBytes, or (Case.SaveAPI) Document.Save to a file that is read back.
func saveDoc(d *document.Document, c Case, dir, name string) ([]byte, error) {
	if !c.SaveAPI {
		return d.ToBytes()
	}
	p := filepath.Join(dir, "saved", name+".docx")
	if err := d.Save(p); err != nil {
		return nil, err
	}
	return os.ReadFile(p) // the file stays: a later save of the same document to the same name overwrites it
}

// doOther executes one op of the second document (errors are legal outcomes and are not judged).
func doOther(x *ops.Exec, o ops.Op) {
	switch {
	case isWide(o.K):
		doWide(x, o, &wideState{})
	case ops.IsSides(o.K):
		x.DoSides(o)
	case ops.IsExtra(o.K):
		x.DoExtra(o)
	default:
		x.Do(o)
	}
}

// unpreservedEdgeText lists the w:t elements whose text begins or ends with XML white space and that are not under
// xml:space="preserve" (the attribute is inherited from the nearest ancestor that carries it).
type edgeT struct {
	where, text string
	inSdt       bool // inside a block-level content control (the table of contents the library generates)
}

func unpreservedEdgeText(root *canon.Node) []edgeT {
	var out []edgeT
	var rec func(n *canon.Node, preserve bool)
	rec = func(n *canon.Node, preserve bool) {
		switch n.A(canon.XML, "space") {
		case "preserve":
			preserve = true
		case "default":
			preserve = false
		}
		if n.Is(canon.W, "t") && !preserve && n.Text != strings.Trim(n.Text, " \t\r\n") {
			in := false
			for a := n.Parent; a != nil; a = a.Parent {
				if a.Is(canon.W, "sdt") {
					in = true
				}
			}
			where := ""
			if len(out) < 8 { // the path is for the report only (and costs a walk over the siblings)
				where = fmt.Sprintf("%s: %q", nodePath(n), clipS(n.Text))
			}
			out = append(out, edgeT{where, n.Text, in})
		}
		for _, k := range n.Kids {
			rec(k, preserve)
		}
	}
	rec(root, false)
	return out
}

func nodePath(n *canon.Node) string {
	var parts []string
	for ; n != nil; n = n.Parent {
		idx := 0
		if n.Parent != nil {
			for _, k := range n.Parent.Kids {
				if k == n {
					break
				}
				if k.Space == n.Space && k.Local == n.Local {
					idx++
				}
			}
		}
		parts = append([]string{fmt.Sprintf("%s[%d]", n.Name(), idx)}, parts...)
	}
	return "/" + strings.Join(parts, "/")
}

func more(g []memDiff) string {
	if len(g) < 2 {
		return ""
	}
	return fmt.Sprintf("; second: %s: %s", g[1].Path, g[1].Detail)
}

func dedup(s []string) []string {
	var out []string
	for i, x := range s {
		if i == 0 || x != s[i-1] {
			out = append(out, x)
		}
	}
	return out
}

func seqDiff(a, b []string) string {
	for i := 0; i < len(a) && i < len(b); i++ {
		if a[i] != b[i] {
			k := 0 // show both items from just before the first differing byte
			for k < len(a[i]) && k < len(b[i]) && a[i][k] == b[i][k] {
				k++
			}
			if k > 30 {
				k -= 30
			} else {
				k = 0
			}
			return fmt.Sprintf("item %d at offset %d: …%s vs …%s", i, k, clipS(a[i][k:]), clipS(b[i][k:]))
		}
	}
	if len(a) != len(b) {
		extra, side := a, "first"
		if len(b) > len(a) {
			extra, side = b, "second"
		}
		return fmt.Sprintf("%d vs %d items; only in %s: %s", len(a), len(b), side, clipS(extra[min(len(a), len(b))]))
	}
	return ""
}

const twipMM = 25.4 / 1440

func pageDiff(a, b *document.PageSettings) string {
	var out []string
	f := func(n string, x, y float64) {
		if math.Abs(x-y) > 1.001*twipMM {
			out = append(out, fmt.Sprintf("%s %.3f vs %.3f", n, x, y))
		}
	}
	if a.Size != b.Size {
		out = append(out, fmt.Sprintf("Size %s vs %s", a.Size, b.Size))
	}
	if a.Orientation != b.Orientation {
		out = append(out, fmt.Sprintf("Orientation %s vs %s", a.Orientation, b.Orientation))
	}
	f("CustomWidth", a.CustomWidth, b.CustomWidth)
	f("CustomHeight", a.CustomHeight, b.CustomHeight)
	f("MarginTop", a.MarginTop, b.MarginTop)
	f("MarginRight", a.MarginRight, b.MarginRight)
	f("MarginBottom", a.MarginBottom, b.MarginBottom)
	f("MarginLeft", a.MarginLeft, b.MarginLeft)
	f("HeaderDistance", a.HeaderDistance, b.HeaderDistance)
	f("FooterDistance", a.FooterDistance, b.FooterDistance)
	f("GutterWidth", a.GutterWidth, b.GutterWidth)
	if a.DocGridType != b.DocGridType || a.DocGridLinePitch != b.DocGridLinePitch || a.DocGridCharSpace != b.DocGridCharSpace {
		out = append(out, fmt.Sprintf("DocGrid %s/%d/%d vs %s/%d/%d", a.DocGridType, a.DocGridLinePitch, a.DocGridCharSpace, b.DocGridType, b.DocGridLinePitch, b.DocGridCharSpace))
	}
	return strings.Join(out, "; ")
}

func TestC03(t *testing.T) {
	kit.Main(t, kit.Spec[Case]{
		ID: "C03", Level: "exploration",
		CaseLimit: 360 * time.Second, // documents with 30 MiB pictures or 10 M characters on a machine that runs a dozen other checks at the same time
		Rule: "(a, ~88 % of the cases) document built by 8-30 (thorough 8-50) generated API calls (paragraph/run/table/picture/section setters with their argument ranges, XML-expressible text) " +
			"including multi-valued formatting whose parts are drawn independently of each other (paragraph/cell/table borders per side incl. diagonals and insideH/insideV with own presence, style, size, colour, spacing; cell and table margins per side; run fonts per script; tab stop lists; indentation, spacing and page margins per component), " +
			"optionally preceded by a scenario prefix, with 0-3 intermediate saves of the live document at arbitrary positions and (1 case in 3) a tail of one more save followed by 1-5 edits of existing elements, then 1-4 save/open cycles through memory or a file; non-trivial = (>=3 kinds of body children or a merged/nested table) " +
			"and >=2 distinct successful formatting setters and >=2 cycles; distinct = distinct set of (op kind, outcome) plus cycle count. " +
			"Widened: the histories also call ResizeImage / SetImagePosition / SetImageWrapText, AddCellImage (explicit and detected format) / AddCellImageFromFile, SetTablePageBreak, SetRowKeepWithNext, TableRowProperties.SetCantSplit / SetTblHeader, " +
			"SetTableLayout, DeleteRows / DeleteColumns, ClearTable, CopyTable + Body.AddElement, CreateTable + Body.AddElement, CreateCustomTableStyle, every read accessor and iterator of Table and Document, CreateMultiLevelList, RestartNumbering, SetPageSettings with every field drawn on its own (defaults included), " +
			"Document.Save of the live document, field runs (CreateHyperlinkField / CreatePageRefField) in body paragraphs, tblInd / noWrap / hideMark through the struct fields, vertical merges set through the field TableCellProperties.VMerge with continuation cells that carry w:val=\"continue\" or no w:val (op vmergefields); one text in five is of an edge class (tab, newline, CR, NBSP, U+2028, U+FEFF ... rather than spaces at the ends; astral or combining characters first / last / just before a round length; blanks only; markup look-alikes); " +
			"6 % of the tables have 9-12 columns or rows and 1 % 16-65 columns, with merges spanning 10 or more columns; 8 % of the histories hold a reopen (save, Open, the opened document is edited further) and 3 % put 9-13 pictures and some list items before it and 2-5 after it; in about 10 % a second document is built alternately with the first and saved / opened between its saves and opens; " +
			"a quarter of the cycle chains save through Document.Save(path) to one file name instead of ToBytes. " +
			"(b, ~2 % quick / ~4 % thorough, plus three hand-written cases in every run) size classes: a short history of the same kind holding one or two parts of unusual size - a picture of 4 KiB .. 18 MiB (thorough: 36 MiB) " +
			"at, one below, one above or a little above a power of two or round decimal size, in a PNG/JPEG/GIF container the decoders accept, through AddImageFromData / AddImageFromFile / AddCellImageFromData; a paragraph, run or cell text of 255 .. 4 Mi (thorough 10 M) characters " +
			"(ASCII, multi-byte, or tabs/newlines/markup characters); 256 .. 5000 (thorough 65536) paragraphs, runs of one paragraph or table rows; tables of 63 .. 256 columns; 10 .. 256 pictures; non-trivial = >=2 cycles. " +
			"(c, ~10 %) a package drawn by the independent foreign-package generator (every producer-side variation it has, formulas in 1 of 3), opened and taken through 3-5 save/open cycles: only the stability clause is judged " +
			"(saves 2, 3, ... must have the same main part, unmasked, the same pictures, and their reopened bodies must be equal); a quarter of the packages get media numbered past one digit (image9 | image10, 99 | 100, more than 10/16/32/64 parts) and a third are edited through the API after the first Open (a paragraph and a picture, which must show exactly once); non-trivial = >=2 body-level features; distinct = distinct feature set plus cycle count",
		Gen: genCase, Run: run, Findings: findings,
		Assumptions: []string{
			"text arguments are restricted to what XML 1.0 can carry (other characters are replaced by the encoder, which is outside 'what the library can express')",
			"the main part is compared through the harness's canonical XML reader; absent == empty only for w:pPr/w:rPr/w:tcPr/w:trPr/w:tblPr, xml:space ignored on empty w:t, namespace declarations ignored",
			"a history in which an API call panics, or whose first save fails, is discarded (judged by C09/C01/C05)",
			"pictures of unusual size are a small valid PNG/JPEG/GIF whose container carries filler bytes in the way the format provides for (private ancillary chunk, comment segments, comment extension); image/png, image/jpeg and image/gif decode them",
			"a foreign package that the library refuses to open, or whose first save fails, is discarded (C04/C09 judge that); what the first cycle changes of a foreign document is not judged here (C04)",
			"a w:t whose text begins or ends with white space must carry xml:space=\"preserve\" in the saved main part (clause RT6): without it the white space is not significant for a consumer of the package (the rule the harness's C11 and C19 readers apply too); the library's own reader never trims, so this shows in the written bytes only",
			"a reopen in the middle of a history makes the opened document the built one: what that Open lost of the earlier ops is not judged in that case (it is in all the others)",
			"TableStyle.Name (display name of a custom table style, tag xml:\"-\", carried to the styles part on save) is not part of the body and is not compared",
			"run fonts per script, tab stop lists and cell/table margins per side have no setter: they are built through the exported struct fields (RunProperties.FontFamily, ParagraphProperties.Tabs, TableCellProperties.TcMar, TableProperties.TableCellMar), as the library's own builders and examples do",
		},
		MustSee: map[string]float64{"feat:nested-table": 0.08, "feat:run-break": 0.1, "feat:floating-picture": 0.1, "cycles>=3": 0.3, "feat:merge-h": 0.08, "feat:merge-v": 0.05,
			"op:align": 0.05, "op:spacing": 0.05, "op:indent": 0.05, "op:keepnext": 0.03, "op:keeplines": 0.03, "op:pbb": 0.03, "op:widow": 0.03, "op:outline": 0.03,
			"intermediate-save": 0.4, "save-then-inplace-edit": 0.15, "op:snap": 0.03, "op:pstyle": 0.03, "op:pborder": 0.03, "op:pformat": 0.05, "feat:edge-whitespace-text": 0.2, "feat:non-ascii-text": 0.2,
			"parts-differ": 0.3, "parts-differ:pborder4": 0.08, "parts-differ:cellborders6": 0.04, "parts-differ:tblborders6": 0.04, "parts-differ:ptabs": 0.05, "parts-differ:runfonts": 0.04,
			"parts-differ:tcmar": 0.02, "parts-differ:tblcellmar": 0.03, "parts-differ:cellpborder4": 0.02,
			"two-documents-alternately": 0.04, "reopen-in-history": 0.03, "picture-added-after-reopen": 0.015, "reopen-then-only-additions": 0.015, "feat:cols>=10": 0.02, "feat:gridspan>=10": 0.004,
		"feat:numid>=10": 0.01, "feat:field-run-in-body": 0.01, "feat:struct-only-table-property": 0.01, "feat:merge-v-without-val": 0.01, "str:edge:lead-nonspace-blank": 0.08, "str:edge:trail-nonspace-blank": 0.08,
		"str:edge:blank-only": 0.05, "str:edge:lead-astral": 0.05, "str:edge:trail-astral": 0.05, "str:edge:multibyte-at-round-length": 0.04, "op:rowprops": 0.03, "op:copytable": 0.03,
		"op:createtable": 0.04, "op:pagesettings": 0.04, "op:savefile": 0.03, "op:cellimgcfg": 0.03, "op:delrows": 0.02, "op:delcols": 0.015, "op:multilist": 0.03, "op:imgpos": 0.02,
		"op:imgwrap": 0.02, "op:imgresize": 0.02, "op:tblread": 0.02, "op:customtblstyle": 0.03, "foreign:edited-after-open": 0.015,
		"source:foreign": 0.06, "pkg:" + foreign.FTable: 0.01, "pkg:" + foreign.FPicture: 0.004, "big:any": 0.005, "big:picture>=8MiB+1": 0.001, "big:picture>=16MiB": 0.001,
			"big:text>=1Mi": 0.001, "big:paragraphs>=4096": 0.001, "big:rows>=1000": 0.001, "big:cols>=64": 0.001, "big:pictures>=100": 0.001, "big:runs>=1000": 0.001},
		Fixed: fixedCases,
	})
}

package c03

import (
	"os"
	"strings"

	"wzverif/internal/gen"
	"wzverif/internal/ops"
)

func op(k string) ops.Op { return ops.Op{K: k} }

// fixedCases are hand-written documents executed before the generated search and judged by the same oracle:
// they pin the features the statement names (every paragraph setter, run formats, edge whitespace, merges,
// nested tables to depth 3, inline and floating pictures in every wrap mode, section settings) whatever the seed.
func fixedCases() []Case {
	if os.Getenv("C03_NOFIXED") == "1" { // sensitivity measurements of the generated search alone
		return nil
	}
	img := &gen.Img{Fmt: "png", W: 5, H: 4, Pat: 11, Name: "a.png"}
	jpg := &gen.Img{Fmt: "jpeg", W: 9, H: 3, Pat: 12, Name: "b.jpg"}
	full := &ops.Fmt{Bold: true, Italic: true, Underline: true, Strike: true, Size: 14, Color: "#1A2B3C", Font: "宋体", Highlight: "yellow"}
	var all []Case

	// 1. every paragraph setter on its own paragraph, run formats, edge whitespace
	c := Case{Cycles: 3}
	texts := []string{" leading", "trailing ", "\tTab\tinside\t", "line1\nline2", "  ", "中文 ñ 😀 &<>\"'", "", "a\r\nb"}
	for _, s := range texts {
		c.Ops = append(c.Ops, ops.Op{K: "para", S: []string{s}})
	}
	c.Ops = append(c.Ops,
		ops.Op{K: "align", I: []int{0, 1}}, ops.Op{K: "align", I: []int{1, 2}}, ops.Op{K: "align", I: []int{2, 3}}, ops.Op{K: "align", I: []int{3, 0}},
		ops.Op{K: "spacing", I: []int{1, 12, 6, 24}, F: []float64{1.5}},
		ops.Op{K: "indent", I: []int{2}, F: []float64{-0.5, 1, 0.25}},
		ops.Op{K: "keepnext", I: []int{3}, B: []bool{true}}, ops.Op{K: "keeplines", I: []int{3}, B: []bool{true}},
		ops.Op{K: "pbb", I: []int{4}, B: []bool{true}}, ops.Op{K: "widow", I: []int{4}, B: []bool{false}}, ops.Op{K: "widow", I: []int{5}, B: []bool{true}},
		ops.Op{K: "outline", I: []int{5, 3}}, ops.Op{K: "snap", I: []int{6}, B: []bool{false}}, ops.Op{K: "pstyle", I: []int{6}, S: []string{"Quote"}},
		ops.Op{K: "pborder", I: []int{7, 12, 1}, S: []string{"double", "0000FF"}, B: []bool{true, true, true, true}},
		ops.Op{K: "hrule", I: []int{0, 18}, S: []string{"single", "808080"}},
		ops.Op{K: "pformat", I: []int{1, 2, 24, 12, 0, 0}, F: []float64{2, 0.5, 0, 0}, B: []bool{true, false, true, true, true, false}, S: []string{"Heading1"}},
		ops.Op{K: "addtext", I: []int{0}, S: []string{" x "}, Fmt: full},
		ops.Op{K: "ppagebreak", I: []int{0}},
		ops.Op{K: "addtext", I: []int{0}, S: []string{"after break"}, Fmt: &ops.Fmt{FontName: "Arial"}},
		ops.Op{K: "pbold", I: []int{1}, B: []bool{true}}, ops.Op{K: "pitalic", I: []int{1}, B: []bool{true}}, ops.Op{K: "psize", I: []int{2, 18}},
		ops.Op{K: "pcolor", I: []int{2}, S: []string{"#FF00FF"}}, ops.Op{K: "phighlight", I: []int{3}, S: []string{"cyan"}}, ops.Op{K: "pfont", I: []int{3}, S: []string{"Times New Roman"}},
		ops.Op{K: "punderline", I: []int{4}, B: []bool{true}}, ops.Op{K: "pstrike", I: []int{4}, B: []bool{true}},
		ops.Op{K: "heading", S: []string{"Heading"}, I: []int{2}}, op("pagebreak"),
		ops.Op{K: "listitem", S: []string{"item"}, I: []int{1, 0, 1, 0}}, ops.Op{K: "bullet", S: []string{"dot"}, I: []int{1, 2}},
		ops.Op{K: "margins", F: []float64{20, 15, 20, 15}}, ops.Op{K: "orient", B: []bool{true}}, ops.Op{K: "docgrid", I: []int{1, 400, 0}})
	all = append(all, c)

	// 2. tables: merges of every kind, row heights, header rows, cell formats, extra cell paragraphs, nesting to depth 3
	c = Case{Cycles: 4, File: true}
	c.Ops = append(c.Ops,
		ops.Op{K: "table", I: []int{4, 4, 8000}, Grid: [][]string{{"a", " b", "c ", "d"}, {"e", "f"}, {"", "\t"}}},
		ops.Op{K: "mergeh", I: []int{0, 0, 1, 2}}, ops.Op{K: "mergev", I: []int{0, 1, 3, 0}}, ops.Op{K: "merger", I: []int{0, 2, 3, 2, 3}},
		ops.Op{K: "rowheight", I: []int{0, 0, 30}, S: []string{"exact"}}, ops.Op{K: "rowheight", I: []int{0, 1, 20}, S: []string{"atLeast"}},
		ops.Op{K: "rowheader", I: []int{0, 0}, B: []bool{true}}, ops.Op{K: "rowkeep", I: []int{0, 1}, B: []bool{true}},
		ops.Op{K: "cellfmt", I: []int{0, 1, 1, 5}, S: []string{"right", "bottom", "FFFF00"}, Fmt: full},
		ops.Op{K: "celldir", I: []int{0, 1, 2, 1}}, ops.Op{K: "cellborders", I: []int{0, 1, 1, 8, 0}, S: []string{"dashed", "FF0000"}, B: []bool{true, true, true, true, true, true}},
		ops.Op{K: "cellshading", I: []int{0, 1, 3}, S: []string{"pct25", "000000", "EEEEEE"}},
		ops.Op{K: "cellpara", I: []int{0, 1, 1}, S: []string{" second paragraph "}}, ops.Op{K: "cellfpara", I: []int{0, 1, 1}, S: []string{"third"}, Fmt: full},
		ops.Op{K: "celladdtext", I: []int{0, 1, 1}, S: []string{" more"}, Fmt: &ops.Fmt{Italic: true}},
		ops.Op{K: "celllist", I: []int{0, 1, 2, 1, 0}, S: []string{"one", "two"}},
		ops.Op{K: "tblborders", I: []int{0, 6, 0}, S: []string{"double", "00FF00"}}, ops.Op{K: "tblshading", I: []int{0}, S: []string{"clear", "auto", "F0F0F0"}},
		ops.Op{K: "tblalign", I: []int{0, 2}}, ops.Op{K: "tblstyle", I: []int{0}, S: []string{"TableGrid", ""}, B: []bool{true, true}},
		ops.Op{K: "nestedh", I: []int{0, 1, 1, 2, 2, 3000}, Grid: [][]string{{"n1", " n2 "}, {"n3"}}},
		ops.Op{K: "nestedh", I: []int{1, 0, 0, 1, 2, 1500}, Grid: [][]string{{"d2", "d2b"}}},
		ops.Op{K: "nestedh", I: []int{2, 0, 1, 1, 1, 700}, Grid: [][]string{{"d3"}}},
		ops.Op{K: "mergeh", I: []int{1, 1, 0, 1}}, ops.Op{K: "celltext", I: []int{2, 0, 0}, S: []string{" deep "}},
		ops.Op{K: "cellimg", I: []int{1, 0, 1}, Img: img, F: []float64{10}},
		ops.Op{K: "para", S: []string{"after table"}})
	all = append(all, c)

	// 3. pictures: inline with size/alt/title, floating left/right in every wrap mode with offsets
	c = Case{Cycles: 2}
	c.Ops = append(c.Ops, ops.Op{K: "para", S: []string{"pictures"}},
		ops.Op{K: "image", Img: img, I: []int{2, 0, 2, 0}, F: []float64{20, 10}, S: []string{"", "alt <text>", "title & more"}},
		ops.Op{K: "image", Img: jpg, I: []int{0, 0, 0, 0}, F: []float64{0, 0}, S: []string{"", "", ""}})
	for wrap := 1; wrap <= 4; wrap++ {
		c.Ops = append(c.Ops, ops.Op{K: "imagefloat", Img: img, I: []int{3, wrap%2 + 1, 0, wrap}, F: []float64{30, 0, float64(wrap) * 2.5, 0}, S: []string{"", "a", "t"}})
	}
	c.Ops = append(c.Ops, ops.Op{K: "imagefloat", Img: jpg, I: []int{0, 2, 0, 0}, F: []float64{0, 0, 0, 7}, S: []string{"", "", ""}},
		ops.Op{K: "imgalign", I: []int{0, 1}}, ops.Op{K: "header", I: []int{0}, S: []string{"head"}}, ops.Op{K: "difffirst", B: []bool{true}},
		ops.Op{K: "custompage", F: []float64{150, 200}}, ops.Op{K: "hfdist", F: []float64{10, 12}}, ops.Op{K: "gutter", F: []float64{5}})
	all = append(all, c)

	// 4. multi-valued formatting whose parts differ from each other: every side / entry / script has its own value
	c = Case{Cycles: 3}
	c.Ops = append(c.Ops,
		ops.Op{K: "para", S: []string{"four different sides"}}, ops.Op{K: "para", S: []string{"heavy above, light below"}},
		ops.Op{K: "para", S: []string{"left and right only"}}, ops.Op{K: "para", S: []string{"tabs\tand\tfonts ñ 中"}},
		ops.Op{K: "pborder4", I: []int{0, 6, 1, 8, 2, 10, 3, 12, 4}, S: []string{"single", "111111", "double", "222222", "dotted", "333333", "dashed", "444444"}, B: []bool{true, true, true, true}},
		ops.Op{K: "pborder4", I: []int{1, 24, 4, 0, 0, 4, 1, 0, 0}, S: []string{"thick", "FF0000", "", "", "dashed", "808080", "", ""}, B: []bool{true, false, true, false}},
		ops.Op{K: "pborder4", I: []int{2, 0, 0, 2, 31, 0, 0, 96, 0}, S: []string{"", "", "dotted", "auto", "", "", "double", "0000FF"}, B: []bool{false, true, false, true}},
		ops.Op{K: "ptabs", I: []int{3, 720, 4320, 8640, -200}, S: []string{"left", "", "center", "dot", "right", "hyphen", "decimal", "underscore"}},
		ops.Op{K: "runfonts", I: []int{3, 0}, S: []string{"Arial", "Calibri", "宋体", "Noto Sans Arabic"}},
		ops.Op{K: "addtext", I: []int{3}, S: []string{" second run"}, Fmt: &ops.Fmt{Bold: true}},
		ops.Op{K: "runfonts", I: []int{3, 1}, S: []string{"Times New Roman", "", "Microsoft YaHei", ""}},
		ops.Op{K: "indent", I: []int{0}, F: []float64{-0.75, 2, 1.25}}, ops.Op{K: "spacing", I: []int{1, 18, 7, 11}, F: []float64{1.15}},
		ops.Op{K: "table", I: []int{3, 3, 7000}, Grid: [][]string{{"a", "b", "c"}, {"d", "e", "f"}, {"g", "h", "i"}}},
		ops.Op{K: "tblborders6", I: []int{0, 4, 0, 8, 1, 12, 2, 16, 3, 2, 0, 6, 5}, S: []string{"single", "111111", "double", "222222", "dashed", "333333", "dotted", "444444", "thick", "555555", "none", "auto"},
			B: []bool{true, true, true, true, true, true}},
		ops.Op{K: "cellborders6", I: []int{0, 1, 1, 4, 0, 8, 1, 12, 2, 16, 3, 2, 0, 6, 5}, S: []string{"double", "AA0000", "single", "00AA00", "dotted", "0000AA", "dashed", "AAAA00", "single", "00AAAA", "thick", "AA00AA"},
			B: []bool{true, true, true, true, true, true}},
		ops.Op{K: "cellborders6", I: []int{0, 0, 2, 4, 0, 0, 0, 12, 2, 0, 0, 2, 0, 0, 0}, S: []string{"double", "AA0000", "", "", "dotted", "0000AA", "", "", "single", "00AAAA", "", ""},
			B: []bool{true, false, true, false, true, false}},
		ops.Op{K: "tcmar", I: []int{0, 2, 0, 10, 20, 30, 40}, S: []string{"dxa", "dxa", "nil", "pct"}, B: []bool{true, true, true, true}},
		ops.Op{K: "tcmar", I: []int{0, 2, 1, 55, 0, 0, 66}, S: []string{"dxa", "", "", "dxa"}, B: []bool{true, false, false, true}},
		ops.Op{K: "tblcellmar", I: []int{0, 15, 115, 25, 125}, S: []string{"dxa", "dxa", "dxa", "dxa"}, B: []bool{true, true, true, true}},
		ops.Op{K: "cellpborder4", I: []int{0, 2, 2, 0, 6, 1, 8, 2, 10, 3, 12, 4}, S: []string{"dashed", "123456", "single", "654321", "double", "ABCDEF", "dotted", "FEDCBA"}, B: []bool{true, true, true, true}},
		ops.Op{K: "margins", F: []float64{11, 22, 33, 44}})
	all = append(all, c)
	all = append(all, wideFixedCases()...)
	all = append(all, bigFixedCases()...)
	return all
}

// bigFixedCases pin the size classes (big.go) whatever the seed: pictures at, just above and far above 8 MiB in every
// container format and through every picture entry point, paragraphs/runs/cells with 64 Ki .. 4 Mi characters,
// thousands of paragraphs, runs and rows, a table wider than 63 columns, more than a hundred pictures.
func bigFixedCases() []Case {
	var all []Case
	const mi = 1 << 20
	// 5. pictures: exactly 8 MiB, 8 MiB + 1, 9 MiB in a table cell, 16 MiB and a bit, 32 MiB + 1; text before, between and after
	c := Case{Cycles: 2, File: true}
	c.Ops = append(c.Ops, ops.Op{K: "para", S: []string{"before"}},
		ops.Op{K: "bigimage", S: []string{"png", "exact.png", "alt", "title"}, I: []int{8 * mi, 11, 0, 1}, F: []float64{40, 30}},
		ops.Op{K: "bigimage", S: []string{"jpeg", "plus1.jpg", "alt", "title"}, I: []int{8*mi + 1, 12, 1, 0}, F: []float64{0, 0}},
		ops.Op{K: "para", S: []string{" between "}},
		ops.Op{K: "bigimage", S: []string{"gif", "sixteen.gif", "", ""}, I: []int{16*mi + 4097, 15, 1, 3}, F: []float64{0, 0}},
		ops.Op{K: "table", I: []int{2, 2, 6000}, Grid: [][]string{{"a", "b"}, {"c", "d"}}},
		ops.Op{K: "bigcellimg", S: []string{"gif"}, I: []int{0, 1, 1, 9 * mi, 13, 1}, F: []float64{25}},
		ops.Op{K: "bigimagefile", S: []string{"png", "huge.png", "", ""}, I: []int{32*mi + 1, 14, 1, 2}, F: []float64{60, 0}},
		ops.Op{K: "image", Img: &gen.Img{Fmt: "png", W: 6, H: 6, Pat: 99, Name: "small.png"}, I: []int{0, 0, 0, 0}, F: []float64{0, 0}, S: []string{"", "", ""}},
		ops.Op{K: "para", S: []string{"after"}})
	all = append(all, c)
	// 6. text: a paragraph of 1 Mi + 1 characters with multi-byte characters, a 4 Mi character run with tabs, newlines and
	// markup characters added to a paragraph, 64 Ki characters in a table cell, and 32767/32768 character paragraphs
	c = Case{Cycles: 2}
	c.Ops = append(c.Ops, ops.Op{K: "para", S: []string{"head"}},
		ops.Op{K: "bigtext", I: []int{mi + 1, 21, 1}},
		ops.Op{K: "bigaddtext", I: []int{0, 4 * mi, 22, 2}, Fmt: &ops.Fmt{Italic: true, Size: 10}},
		ops.Op{K: "table", I: []int{1, 2, 6000}, Grid: [][]string{{"a", "b"}}},
		ops.Op{K: "bigcelltext", I: []int{0, 0, 1, 1 << 16, 23, 0}},
		ops.Op{K: "bigtext", I: []int{32767, 24, 0}}, ops.Op{K: "bigtext", I: []int{32768, 25, 2}},
		ops.Op{K: "para", S: []string{" tail "}})
	all = append(all, c)
	// 7. counts: 5000 paragraphs, 2000 runs in one paragraph, a table of 1025 rows, a table of 64 columns, 101 pictures
	c = Case{Cycles: 2}
	c.Ops = append(c.Ops, ops.Op{K: "para", S: []string{"many"}},
		ops.Op{K: "manyruns", I: []int{0, 2000, 31}},
		ops.Op{K: "manyparas", I: []int{5000, 32}},
		ops.Op{K: "bigtable", I: []int{1025, 3, 9000}},
		ops.Op{K: "bigtable", I: []int{2, 64, 9000}},
		ops.Op{K: "mergeh", I: []int{1, 0, 60, 63}},
		ops.Op{K: "manyimages", I: []int{101, 33}},
		ops.Op{K: "margins", F: []float64{10, 10, 10, 10}})
	all = append(all, c)
	return all
}

// wideFixedCases pin, whatever the seed, the entry points and narrow sub-domains added by widen.go: counts just past one
// digit (a span of 11 columns, the 11th picture / list item, with more added after a reopen), the text classes at the
// edges, the formatting that only exported struct fields express, field runs in body paragraphs, Document.Save as the
// saving entry point, and two documents built alternately.
func wideFixedCases() []Case {
	img := func(i int) *gen.Img {
		return &gen.Img{Fmt: []string{"png", "jpeg", "gif"}[i%3], W: 2 + i%5, H: 1 + i%3, Pat: 700 + i, Name: []string{"image0.png", "image10.png", "p.jpg", "image9.gif"}[i%4]}
	}
	png := func(i int) *gen.Img { // one format, so that equal numbers mean equal part names
		return &gen.Img{Fmt: "png", W: 2 + i%5, H: 1 + i%3, Pat: 900 + i, Name: "p.png"}
	}
	var all []Case

	// 6. thresholds: 11 pictures and 11 list items, reopen, then only additions (more pictures in body and cell, list items)
	c := Case{Cycles: 2, SaveAPI: true, File: true}
	row := func(n int) []string {
		var out []string
		for i := 0; i < n; i++ {
			out = append(out, []string{"c", " c", "c\t", "\nc", "中"}[i%5])
		}
		return out
	}
	c.Ops = append(c.Ops, ops.Op{K: "table", I: []int{2, 2, 4000}})
	for i := 0; i < 11; i++ {
		c.Ops = append(c.Ops, ops.Op{K: "image", Img: png(i), I: []int{0, 0, 0, 0}, F: []float64{0, 0}, S: []string{"", "", ""}},
			ops.Op{K: "listitem", S: []string{"item"}, I: []int{i, i, 1, i % 3}})
	}
	c.Ops = append(c.Ops, ops.Op{K: "cellimgcfg", Img: png(20), I: []int{0, 1, 1, 1, 1}, F: []float64{12, 0}, S: []string{"alt", "title"}},
		ops.Op{K: "reopen", B: []bool{false}},
		ops.Op{K: "image", Img: png(30), I: []int{0, 0, 0, 0}, F: []float64{0, 0}, S: []string{"", "", ""}},
		ops.Op{K: "imagefloat", Img: png(31), I: []int{0, 1, 0, 2}, F: []float64{0, 0, 3, 0}, S: []string{"", "", ""}},
		ops.Op{K: "cellimg", Img: png(32), I: []int{0, 0, 0}, F: []float64{8}},
		ops.Op{K: "listitem", S: []string{"after reopen"}, I: []int{1, 0, 1, 0}}, ops.Op{K: "multilist", S: []string{"a", "b"}, I: []int{0, 2, 0, 1, 1, 3, 0, 5}})
	all = append(all, c)

	// 7. edge classes of text in body paragraphs, added runs and cell paragraphs; struct-only formatting; field runs; page settings at their defaults
	c = Case{Cycles: 3, SaveAPI: true}
	for _, s := range []string{"\tx", "x\n", "\r", "\r\nx\r\n", "\u00a0x\u00a0", "\u3000", "\u2028x\u2028", "\u0085x", "\ufeffx\ufeff", "\u200bx", "😀x", "x𝔘", "😀", "\u0301x", "x\U0010FFFD",
		"<w:t xml:space=\"preserve\"> x </w:t>", "&#10;", "]]>", " x\t", strings.Repeat("a", 254) + "😀z"} {
		c.Ops = append(c.Ops, ops.Op{K: "para", S: []string{s}})
	}
	c.Ops = append(c.Ops, ops.Op{K: "addtext", I: []int{0}, S: []string{"\n"}}, ops.Op{K: "addtext", I: []int{1}, S: []string{"\t\u2028"}, Fmt: &ops.Fmt{Bold: true}},
		ops.Op{K: "table", I: []int{2, 2, 6000}}, ops.Op{K: "cellpara", I: []int{0, 0, 0}, S: []string{"\tcell paragraph\n"}}, ops.Op{K: "cellfpara", I: []int{0, 1, 1}, S: []string{"\u00a0\r"}, Fmt: &ops.Fmt{Italic: true}},
		ops.Op{K: "structprops", I: []int{0, 0, 1, 720}, S: []string{"dxa", "1", ""}, B: []bool{true, true, true}},
		ops.Op{K: "structprops", I: []int{0, 1, 0, -360}, S: []string{"auto", "", "0"}, B: []bool{true, true, true}},
		ops.Op{K: "rowprops", I: []int{0, 0}, B: []bool{true, true, true, true}}, ops.Op{K: "rowprops", I: []int{0, 1}, B: []bool{false, true, true, true}},
		ops.Op{K: "tbllayout", I: []int{0, 3, 2, 2}}, ops.Op{K: "customtblstyle", I: []int{0, 8, 0}, S: []string{"MyTable", "My Table", "double", "00FF00", "pct25", "auto", "EEEEEE"}, B: []bool{true, true, true}},
		ops.Op{K: "fieldruns", I: []int{2, 0}, S: []string{"_Toc10", " link text "}}, ops.Op{K: "fieldruns", I: []int{3, 1}, S: []string{"bm", "7"}},
		ops.Op{K: "pagesettings", I: []int{0, 2, 312, 0}, F: []float64{210, 297, 25.4, 25.4, 25.4, 25.4, 12.7, 12.7, 0}, B: []bool{false}},
		ops.Op{K: "savefile"}, ops.Op{K: "addtext", I: []int{4}, S: []string{"after Save\t"}},
		ops.Op{K: "pagesettings", I: []int{5, 0, 0, -105}, F: []float64{148.5, 200.25, 0, 10, 31.75, 20.5, 0, 12.7, 10}, B: []bool{true}},
		ops.Op{K: "copytable", I: []int{0}}, ops.Op{K: "tblread", I: []int{0, 0, 0, 1, 1}, S: []string{"cell"}}, op("docread"),
		ops.Op{K: "delrows", I: []int{1, 0, 0}},
		// shapes past one digit: a span of 11 columns, a range merge over 10, a vertical merge over 11 rows
		ops.Op{K: "table", I: []int{3, 12, 9000}, Grid: [][]string{row(12), row(12), row(12)}},
		ops.Op{K: "mergeh", I: []int{2, 0, 1, 11}}, ops.Op{K: "merger", I: []int{2, 1, 2, 0, 9}},
		ops.Op{K: "createtable", I: []int{11, 2, 5000}, B: []bool{true}}, ops.Op{K: "mergev", I: []int{3, 0, 10, 1}},
		ops.Op{K: "image", Img: img(60), I: []int{0, 0, 0, 0}, F: []float64{0, 0}, S: []string{"", "", ""}}, ops.Op{K: "imgpos", I: []int{0, 1}, F: []float64{5, 5}},
		ops.Op{K: "imgwrap", I: []int{0, 3}}, ops.Op{K: "imgresize", I: []int{0, 1}, F: []float64{40, 30}},
		// vertical merges set through the exported field: continuation cells with w:val="continue" and without w:val
		ops.Op{K: "table", I: []int{4, 3, 6000}, Grid: [][]string{{"a", "b", "c"}, {"", "", "d"}, {"", "", "e"}, {"f", "g", "h"}}},
		ops.Op{K: "vmergefields", I: []int{4, 0, 2, 0}, S: []string{""}}, ops.Op{K: "vmergefields", I: []int{4, 0, 3, 1}, S: []string{"continue"}})
	all = append(all, c)

	// 8. two documents built alternately, both with pictures, lists, tables and page settings
	c = Case{Cycles: 2, File: true}
	for i := 0; i < 6; i++ {
		c.Ops = append(c.Ops, ops.Op{K: "para", S: []string{"first document"}}, ops.Op{K: "image", Img: img(40 + i), I: []int{0, 0, 0, 0}, F: []float64{0, 0}, S: []string{"", "", ""}})
		c.Other = append(c.Other, ops.Op{K: "image", Img: img(50 + i), I: []int{0, 0, 0, 0}, F: []float64{0, 0}, S: []string{"", "", ""}}, ops.Op{K: "para", S: []string{" second document "}})
	}
	c.Ops = append(c.Ops, ops.Op{K: "listitem", S: []string{"one"}, I: []int{1, 0, 1, 0}}, ops.Op{K: "margins", F: []float64{30, 30, 30, 30}}, ops.Op{K: "header", I: []int{0}, S: []string{"first"}})
	c.Other = append(c.Other, ops.Op{K: "listitem", S: []string{"uno"}, I: []int{0, 1, 1, 0}}, ops.Op{K: "orient", B: []bool{true}}, ops.Op{K: "footerpn", I: []int{0}, S: []string{"second"}, B: []bool{true}},
		ops.Op{K: "table", I: []int{2, 2, 5000}, Grid: [][]string{{"a", "b"}, {"c", "d"}}})
	all = append(all, c)
	return all
}

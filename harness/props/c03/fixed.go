package c03

func fixedCases() []Case { return nil }

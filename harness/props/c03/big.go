package c03

// Size classes: documents whose parts are much larger than anything the ordinary op generator draws -
// pictures of 64 KiB .. 32 MiB (exactly at, one below and one above the powers of two and round decimal
// sizes), paragraphs / runs / cells with up to 10 M characters, thousands of paragraphs, runs, rows,
// hundreds of columns and pictures. The statement quantifies over all API-built documents; size is not an
// exception, so the same clauses judge these cases.
//
// The ops are plain data (a replay of a 16 MiB picture is a few integers): the payload is rebuilt from
// (container format, size, seed, fill) by bigImage, the text from (length, seed, alphabet) by bigText.
//
//	bigimage      S:[fmt,name,alt,title] I:[size,seed,fill,cfgMode] F:[wMM,hMM]   Document.AddImageFromData
//	bigimagefile  same                                                            Document.AddImageFromFile (decodes the picture)
//	bigcellimg    S:[fmt] I:[tsel,row,col,size,seed,fill] F:[widthMM]             Document.AddCellImageFromData (decodes the picture)
//	bigtext       I:[runes,seed,alphabet]                                         Document.AddParagraph
//	bigaddtext    I:[psel,runes,seed,alphabet] Fmt                                Paragraph.AddFormattedText
//	bigcelltext   I:[tsel,row,col,runes,seed,alphabet]                            Table.SetCellText
//	manyparas     I:[count,seed]                                                  count x AddParagraph / AddFormattedParagraph
//	manyruns      I:[psel,count,seed]                                             count x Paragraph.AddFormattedText
//	bigtable      I:[rows,cols,width]                                             Document.AddTable with a full data grid
//	manyimages    I:[count,seed]                                                  count x AddImageFromData (distinct tiny pictures)

import (
	"encoding/binary"
	"fmt"
	"hash/crc32"
	"os"
	"path/filepath"
	"strings"

	"github.com/zerx-lab/wordZero/pkg/document"
	"pgregory.net/rapid"

	"wzverif/internal/gen"
	"wzverif/internal/kit"
	"wzverif/internal/ops"
)

var bigKinds = map[string]bool{"bigimage": true, "bigimagefile": true, "bigcellimg": true, "bigtext": true, "bigaddtext": true,
	"bigcelltext": true, "manyparas": true, "manyruns": true, "bigtable": true, "manyimages": true}

func isBig(k string) bool { return bigKinds[k] }

func opI(o ops.Op, i int) int {
	if i < len(o.I) {
		return o.I[i]
	}
	return 0
}
func opS(o ops.Op, i int) string {
	if i < len(o.S) {
		return o.S[i]
	}
	return ""
}
func opF(o ops.Op, i int) float64 {
	if i < len(o.F) {
		return o.F[i]
	}
	return 0
}

// ---------------------------------------------------------------------------------------------
// payloads

type xs uint64

func (s *xs) next() uint64 {
	x := uint64(*s)
	x ^= x << 13
	x ^= x >> 7
	x ^= x << 17
	*s = xs(x)
	return x
}

func newXS(seed int) *xs {
	s := xs(uint64(seed)*0x9E3779B97F4A7C15 + 0x1234567)
	if s == 0 {
		s = 1
	}
	s.next()
	return &s
}

// filler returns n bytes: fill 0 = pseudo-random (incompressible), otherwise a 251-byte period (compressible).
func filler(n, seed, fill int) []byte {
	out := make([]byte, n)
	if fill == 0 {
		s := newXS(seed)
		i := 0
		for ; i+8 <= n; i += 8 {
			binary.LittleEndian.PutUint64(out[i:], s.next())
		}
		for v := s.next(); i < n; i++ {
			out[i] = byte(v)
			v >>= 8
		}
		return out
	}
	for i := range out {
		out[i] = byte((i%251)*7 + seed)
	}
	return out
}

// bigImage builds a picture file of exactly size bytes (when size is at least the size of the smallest container
// plus the framing of one filler block): a small valid picture of the given format whose container carries the
// filler the way the format provides for it - a private ancillary chunk (PNG), comment segments (JPEG), a comment
// extension (GIF). The standard decoders accept the result and report the small picture's dimensions.
func bigImage(format string, size, seed, fill int) (data []byte, w, h int) {
	base := gen.Img{Fmt: format, W: 3 + seed%5, H: 2 + seed%3, Pat: seed & 0xFFFFF}
	if base.Fmt != "jpeg" && base.Fmt != "gif" {
		base.Fmt = "png"
	}
	b := base.Bytes()
	w, h = base.W, base.H
	add := size - len(b)
	switch base.Fmt {
	case "png":
		// signature(8) + IHDR chunk(25), then the filler chunk: length, type "wzVf" (ancillary, private, safe to copy), data, crc
		if add < 12 {
			return b, w, h
		}
		fl := filler(add-12, seed, fill)
		out := make([]byte, 0, size)
		out = append(out, b[:33]...)
		var hd [8]byte
		binary.BigEndian.PutUint32(hd[:4], uint32(len(fl)))
		copy(hd[4:], "wzVf")
		out = append(out, hd[:]...)
		out = append(out, fl...)
		crc := crc32.Update(crc32.ChecksumIEEE(hd[4:8]), crc32.IEEETable, fl)
		var cb [4]byte
		binary.BigEndian.PutUint32(cb[:], crc)
		out = append(out, cb[:]...)
		out = append(out, b[33:]...)
		return out, w, h
	case "jpeg":
		// COM segments (FF FE, 16-bit length that counts itself) right after SOI; every segment adds 4..65537 bytes
		if add < 4 {
			return b, w, h
		}
		fl := filler(add, seed, fill)
		out := make([]byte, 0, size)
		out = append(out, b[:2]...)
		for r := add; r > 0; {
			seg := r
			if seg > 65537 {
				seg = 65537
			}
			if rest := r - seg; rest > 0 && rest < 4 {
				seg -= 4
			}
			out = append(out, 0xFF, 0xFE, byte((seg-2)>>8), byte(seg-2))
			out = append(out, fl[:seg-4]...)
			fl = fl[seg-4:]
			r -= seg
		}
		out = append(out, b[2:]...)
		return out, w, h
	default: // gif: comment extension (21 FE, sub-blocks of 1..255 bytes, 00) between the colour table and the first block
		if add < 5 || len(b) < 13 {
			return b, w, h
		}
		at := 13
		if b[10]&0x80 != 0 {
			at += 3 << ((b[10] & 7) + 1)
		}
		fl := filler(add, seed, fill)
		out := make([]byte, 0, size)
		out = append(out, b[:at]...)
		out = append(out, 0x21, 0xFE)
		for r := add - 3; r > 0; { // every sub-block adds 2..256 bytes
			blk := r
			if blk > 256 {
				blk = 256
			}
			if r-blk == 1 {
				blk--
			}
			out = append(out, byte(blk-1))
			out = append(out, fl[:blk-1]...)
			fl = fl[blk-1:]
			r -= blk
		}
		out = append(out, 0)
		out = append(out, b[at:]...)
		return out, w, h
	}
}

var words = []string{"lorem", "ipsum", "dolor", "sit", "amet", "x", "0123456789", "Zeile", "a", "consectetur", "I", "the"}
var wideRunes = []rune("éßñΩжשع中文字かな한😀𝔘  ")

// bigText builds a text of exactly n runes. alphabet 0: ASCII words separated by single blanks; 1: the same with
// 2-, 3- and 4-byte characters mixed in; 2: ASCII with tabs, newlines, runs of blanks and XML-special characters.
func bigText(n, seed, alphabet int) string {
	var b strings.Builder
	b.Grow(n + 16)
	s := newXS(seed)
	cnt := 0
	put := func(r rune) {
		if cnt < n {
			b.WriteRune(r)
			cnt++
		}
	}
	for cnt < n {
		v := s.next()
		wd := words[v%uint64(len(words))]
		for _, r := range wd {
			put(r)
		}
		v >>= 8
		switch alphabet {
		case 1:
			if v%3 == 0 {
				put(wideRunes[(v>>4)%uint64(len(wideRunes))])
			}
			put(' ')
		case 2:
			switch v % 11 {
			case 0:
				put('\t')
			case 1:
				put('\n')
			case 2:
				put(' ')
				put(' ')
				put(' ')
			case 3:
				put('<')
				put('&')
				put('>')
			case 4:
				put('"')
				put('\'')
			default:
				put(' ')
			}
		default:
			put(' ')
		}
	}
	return b.String()
}

// ---------------------------------------------------------------------------------------------
// interpreter

// bigState is what the run remembers about the big ops it executed.
type bigState struct {
	labels   map[string]bool
	supplied [][]byte // picture payloads handed to the API by big ops (the ordinary ops' payloads are rebuilt from their recipe)
}

func (bs *bigState) label(l string) {
	if bs.labels == nil {
		bs.labels = map[string]bool{}
	}
	bs.labels[l] = true
}

func sizeLabels(bs *bigState, what string, n int, steps []int, names []string) {
	for i, s := range steps {
		if n >= s {
			bs.label("big:" + what + ">=" + names[i])
		}
	}
}

var byteSteps = []int{1 << 16, 1 << 20, 4 << 20, 8<<20 + 1, 16 << 20}
var byteNames = []string{"64KiB", "1MiB", "4MiB", "8MiB+1", "16MiB"}
var runeSteps = []int{1 << 12, 1 << 16, 1 << 20, 4 << 20}
var runeNames = []string{"4Ki", "64Ki", "1Mi", "4Mi"}
var countSteps = []int{256, 1000, 4096, 10000}
var countNames = []string{"256", "1000", "4096", "10000"}

func bigCfg(o ops.Op) *document.ImageConfig {
	switch opI(o, 3) % 4 {
	case 1:
		return &document.ImageConfig{Size: &document.ImageSize{Width: opF(o, 0), Height: opF(o, 1)}, AltText: opS(o, 2), Title: opS(o, 3)}
	case 2:
		return &document.ImageConfig{Position: document.ImagePositionFloatLeft, WrapText: document.ImageWrapSquare,
			Size: &document.ImageSize{Width: opF(o, 0), KeepAspectRatio: true}, AltText: opS(o, 2)}
	case 3:
		return &document.ImageConfig{Position: document.ImagePositionInline, Alignment: document.AlignCenter, Title: opS(o, 3)}
	}
	return nil
}

// doBig executes one op of a big kind; same conventions as ops.Exec.Do (an op without a target is a no-op).
func doBig(x *ops.Exec, o ops.Op, bs *bigState) error {
	x.NOps++
	err := doBig1(x, o, bs)
	if err != nil {
		x.Errs++
	}
	return err
}

func pick(n, sel int) int {
	if sel < 0 {
		sel = -sel
	}
	return sel % n
}

func doBig1(x *ops.Exec, o ops.Op, bs *bigState) error {
	d := x.Doc
	switch o.K {
	case "bigimage", "bigimagefile":
		data, w, h := bigImage(opS(o, 0), opI(o, 0), opI(o, 1), opI(o, 2))
		format := ops.ImgFormats["png"]
		if f, ok := ops.ImgFormats[opS(o, 0)]; ok {
			format = f
		}
		var info *document.ImageInfo
		var err error
		if o.K == "bigimage" {
			info, err = d.AddImageFromData(data, opS(o, 1), format, w, h, bigCfg(o))
		} else {
			p := filepath.Join(x.Dir, "img", "big-"+filepath.Base(opS(o, 1)))
			os.MkdirAll(filepath.Dir(p), 0o755)
			if werr := os.WriteFile(p, data, 0o644); werr != nil {
				return nil // scratch space problem: not an API outcome
			}
			info, err = d.AddImageFromFile(p, bigCfg(o))
			os.Remove(p)
		}
		if err != nil {
			return err
		}
		x.Images = append(x.Images, info)
		bs.supplied = append(bs.supplied, data)
		sizeLabels(bs, "picture", len(data), byteSteps, byteNames)
		bs.label("big:picture:" + string(format))
	case "bigcellimg":
		if len(x.Tables) == 0 {
			return nil
		}
		data, _, _ := bigImage(opS(o, 0), opI(o, 3), opI(o, 4), opI(o, 5))
		info, err := d.AddCellImageFromData(x.Tables[pick(len(x.Tables), opI(o, 0))], opI(o, 1), opI(o, 2), data, opF(o, 0))
		if err != nil {
			return err
		}
		x.Images = append(x.Images, info)
		bs.supplied = append(bs.supplied, data)
		sizeLabels(bs, "picture", len(data), byteSteps, byteNames)
		bs.label("big:picture-in-cell")
	case "bigtext":
		x.Paras = append(x.Paras, d.AddParagraph(bigText(opI(o, 0), opI(o, 1), opI(o, 2))))
		sizeLabels(bs, "text", opI(o, 0), runeSteps, runeNames)
	case "bigaddtext":
		if len(x.Paras) == 0 {
			return nil
		}
		x.Paras[pick(len(x.Paras), opI(o, 0))].AddFormattedText(bigText(opI(o, 1), opI(o, 2), opI(o, 3)), o.Fmt.TF())
		sizeLabels(bs, "text", opI(o, 1), runeSteps, runeNames)
	case "bigcelltext":
		if len(x.Tables) == 0 {
			return nil
		}
		if err := x.Tables[pick(len(x.Tables), opI(o, 0))].SetCellText(opI(o, 1), opI(o, 2), bigText(opI(o, 3), opI(o, 4), opI(o, 5))); err != nil {
			return err
		}
		sizeLabels(bs, "text", opI(o, 3), runeSteps, runeNames)
		bs.label("big:text-in-cell")
	case "manyparas":
		n, s := opI(o, 0), newXS(opI(o, 1))
		for i := 0; i < n; i++ {
			v := s.next()
			var p *document.Paragraph
			switch v % 5 {
			case 0:
				p = d.AddFormattedParagraph(fmt.Sprintf("¶ %d of %d", i, n), &document.TextFormat{Bold: v&32 != 0, Italic: v&64 != 0, FontSize: 8 + int(v>>8)%20})
			case 1:
				p = d.AddParagraph(fmt.Sprintf(" %d ", i))
				p.SetAlignment(ops.Aligns[(v>>8)%4])
			default:
				p = d.AddParagraph(fmt.Sprintf("paragraph %d", i))
			}
			if i < 8 || i >= n-8 {
				x.Paras = append(x.Paras, p)
			}
		}
		sizeLabels(bs, "paragraphs", n, countSteps, countNames)
	case "manyruns":
		if len(x.Paras) == 0 {
			return nil
		}
		p := x.Paras[pick(len(x.Paras), opI(o, 0))]
		n, s := opI(o, 1), newXS(opI(o, 2))
		for i := 0; i < n; i++ {
			v := s.next()
			var f *document.TextFormat
			if v%3 != 0 {
				f = &document.TextFormat{Bold: v&8 != 0, Underline: v&16 != 0, FontSize: int(v>>8) % 30}
			}
			p.AddFormattedText(fmt.Sprintf("r%d ", i), f)
		}
		sizeLabels(bs, "runs", n, countSteps, countNames)
	case "bigtable":
		rows, cols := opI(o, 0), opI(o, 1)
		grid := make([][]string, rows)
		for r := range grid {
			grid[r] = make([]string, cols)
			for c := range grid[r] {
				grid[r][c] = fmt.Sprintf("%d.%d", r, c)
			}
		}
		t, err := d.AddTable(&document.TableConfig{Rows: rows, Cols: cols, Width: opI(o, 2), Data: grid})
		if err != nil {
			return err
		}
		x.Tables = append(x.Tables, t)
		sizeLabels(bs, "rows", rows, countSteps, countNames)
		if cols >= 64 {
			bs.label("big:cols>=64")
		}
	case "manyimages":
		n, seed := opI(o, 0), opI(o, 1)
		for i := 0; i < n; i++ {
			im := gen.Img{Fmt: []string{"png", "gif", "jpeg"}[(i+seed)%3], W: 1 + i%3, H: 1 + (i/3)%2, Pat: (seed*1009 + i) & 0xFFFFF, Name: fmt.Sprintf("m%d", i)}
			data := im.Bytes()
			info, err := d.AddImageFromData(data, im.Name, ops.ImgFormats[im.Fmt], im.W, im.H, nil)
			if err != nil {
				return err
			}
			if i < 4 {
				x.Images = append(x.Images, info)
			}
			bs.supplied = append(bs.supplied, data)
		}
		sizeLabels(bs, "pictures", n, []int{10, 100, 256}, []string{"10", "100", "256"})
	}
	return nil
}

// ---------------------------------------------------------------------------------------------
// generator

// around draws a size at or next to one of the given thresholds: exactly, one below, one above, or a little above.
func around(t *rapid.T, thresholds []int, label string) int {
	th := rapid.SampledFrom(thresholds).Draw(t, label)
	switch rapid.SampledFrom([]int{0, 1, 1, 2, 3, 3}).Draw(t, label+"d") {
	case 0:
		return th - 1
	case 1:
		return th
	case 2:
		return th + 1
	}
	return th + rapid.IntRange(2, th/8+16).Draw(t, label+"x")
}

const mib = 1 << 20

var picSizesSmall = []int{1 << 12, 1 << 15, 1 << 16, 100000, 1 << 17, 1 << 18, 1 << 19, 1000000, mib}
var picSizesLarge = []int{2 * mib, 4 * mib, 5 * mib, 8 * mib, 8 * mib, 9 * mib, 10000000, 12 * mib, 16 * mib}
var picSizesHuge = []int{16 * mib, 20 * mib, 24 * mib, 32 * mib}
var textSizesSmall = []int{255, 1 << 10, 1 << 12, 1 << 15, 1 << 16, 100000}
var textSizesLarge = []int{1 << 18, 1000000, mib, 2 * mib, 4 * mib}
var textSizesHuge = []int{8 * mib, 10000000}
var countSizes = []int{256, 1000, 1 << 10, 2000, 1 << 12, 5000}
var countSizesHuge = []int{10000, 1 << 14, 1 << 15, 1 << 16}
var colSizes = []int{63, 64, 100, 255, 256}

// sizeTier: 0 small, 1 large, 2 huge (thorough tier only for the most expensive sizes)
func sizeTier(t *rapid.T, label string) int {
	if kit.Tier == "thorough" {
		return rapid.SampledFrom([]int{0, 0, 1, 1, 1, 2}).Draw(t, label)
	}
	return rapid.SampledFrom([]int{0, 0, 0, 1, 1}).Draw(t, label)
}

func drawBigOp(t *rapid.T, k string) ops.Op {
	o := ops.Op{K: k}
	seed := rapid.IntRange(1, 1<<20).Draw(t, "bseed")
	picSize := func() int {
		switch sizeTier(t, "pictier") {
		case 0:
			return around(t, picSizesSmall, "picsize")
		case 1:
			return around(t, picSizesLarge, "picsize")
		}
		return around(t, picSizesHuge, "picsize")
	}
	textSize := func() int {
		switch sizeTier(t, "texttier") {
		case 0:
			return around(t, textSizesSmall, "textsize")
		case 1:
			return around(t, textSizesLarge, "textsize")
		}
		return around(t, textSizesHuge, "textsize")
	}
	count := func() int {
		if sizeTier(t, "counttier") == 2 {
			return around(t, countSizesHuge, "count")
		}
		return around(t, countSizes, "count")
	}
	fill := rapid.SampledFrom([]int{0, 1, 1}).Draw(t, "fill")
	format := rapid.SampledFrom([]string{"png", "png", "jpeg", "gif"}).Draw(t, "bfmt")
	alpha := rapid.IntRange(0, 2).Draw(t, "alphabet")
	switch k {
	case "bigimage", "bigimagefile":
		o.S = []string{format, rapid.SampledFrom(gen.ImgNames).Draw(t, "bname"), "alt", "title"}
		o.I = []int{picSize(), seed, fill, rapid.IntRange(0, 3).Draw(t, "bcfg")}
		o.F = []float64{float64(rapid.IntRange(5, 150).Draw(t, "bw")), float64(rapid.IntRange(5, 150).Draw(t, "bh"))}
	case "bigcellimg":
		o.S = []string{format}
		o.I = []int{rapid.IntRange(0, 3).Draw(t, "ti"), rapid.IntRange(0, 2).Draw(t, "row"), rapid.IntRange(0, 2).Draw(t, "col"), picSize(), seed, fill}
		o.F = []float64{float64(rapid.IntRange(0, 80).Draw(t, "bw"))}
	case "bigtext":
		o.I = []int{textSize(), seed, alpha}
	case "bigaddtext":
		o.I = []int{rapid.IntRange(0, 9).Draw(t, "psel"), textSize(), seed, alpha}
		if rapid.Bool().Draw(t, "bfmtd") {
			o.Fmt = &ops.Fmt{Bold: true, Size: 9, Color: "336699"}
		}
	case "bigcelltext":
		o.I = []int{rapid.IntRange(0, 3).Draw(t, "ti"), rapid.IntRange(0, 2).Draw(t, "row"), rapid.IntRange(0, 2).Draw(t, "col"), textSize(), seed, alpha}
	case "manyparas":
		o.I = []int{count(), seed}
	case "manyruns":
		o.I = []int{rapid.IntRange(0, 9).Draw(t, "psel"), count(), seed}
	case "bigtable":
		if rapid.Bool().Draw(t, "wide") {
			o.I = []int{rapid.IntRange(1, 40).Draw(t, "rows"), around(t, colSizes, "cols"), 9000}
		} else {
			o.I = []int{count(), rapid.IntRange(1, 4).Draw(t, "cols"), 9000}
		}
	case "manyimages":
		o.I = []int{around(t, []int{10, 100, 256}, "nimg"), seed}
	}
	return o
}

var bigKindList = []string{"bigimage", "bigimage", "bigimage", "bigimagefile", "bigcellimg", "bigtext", "bigtext", "bigaddtext", "bigcelltext",
	"manyparas", "manyruns", "bigtable", "bigtable", "manyimages"}

// genBigCase: a short ordinary history (so that the big part has neighbours: text before and after, a table to put
// a picture or a text into, page settings) with one or two big ops in it.
func genBigCase(t *rapid.T) Case {
	var c Case
	tr := &tracker{}
	add := func(k string) {
		o := drawOp(t, k)
		tr.aim(t, &o)
		c.Ops = append(c.Ops, o)
	}
	add("para")
	add("table")
	for i := rapid.IntRange(0, 4).Draw(t, "npre"); i > 0; i-- {
		add(rapid.SampledFrom(kindList).Draw(t, "kind"))
	}
	for i := rapid.SampledFrom([]int{1, 1, 1, 2}).Draw(t, "nbig"); i > 0; i-- {
		c.Ops = append(c.Ops, drawBigOp(t, rapid.SampledFrom(bigKindList).Draw(t, "bigkind")))
		if rapid.IntRange(0, 3).Draw(t, "midsave") == 0 {
			c.Ops = append(c.Ops, ops.Op{K: "save"})
		}
	}
	for i := rapid.IntRange(0, 3).Draw(t, "npost"); i > 0; i-- {
		add(rapid.SampledFrom(kindList).Draw(t, "kind"))
	}
	c.Cycles = rapid.SampledFrom([]int{1, 2, 2, 3}).Draw(t, "cycles")
	c.File = rapid.IntRange(0, 2).Draw(t, "file") == 0
	return c
}

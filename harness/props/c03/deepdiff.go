package c03

// In-memory comparison of document bodies (clause RT2/RT3): a reflect walk that reports *every*
// difference with its field path, under the normalisations stated in DESIGN.md §C03:
//   - nil slice == empty slice
//   - XMLName fields are ignored (the writer fills them from struct tags, the reader never sets them)
//   - Text.Space is ignored when Text.Content is empty (the writer omits an empty w:t)
//   - a nil pointer to a pure container (pPr, rPr, tcPr, trPr, tblPr) equals a pointer to an empty one
//   - SectionProperties.XmlnsR (a repeated namespace declaration) is ignored
//   - TableStyle.Name (display name of a custom table style, written to the styles part only) is ignored
// Nothing else: a lost pointer, attribute string or character is a difference.

import (
	"encoding/xml"
	"fmt"
	"reflect"
)

type memDiff struct {
	Path   string
	Detail string
}

var xmlNameType = reflect.TypeOf(xml.Name{})

var pureContainers = map[string]bool{"ParagraphProperties": true, "RunProperties": true, "TableCellProperties": true,
	"TableRowProperties": true, "TableProperties": true}

type differ struct {
	out   []memDiff
	limit int
	norm  bool // container normalisation on (RT2); RT3 uses it too: it is part of DeepEqualNorm
}

func (d *differ) add(path, format string, a ...interface{}) {
	if len(d.out) < d.limit {
		d.out = append(d.out, memDiff{path, fmt.Sprintf(format, a...)})
	}
}

// emptyValue: nil pointers, empty slices/strings, structs whose fields (XMLName aside) are all empty.
func emptyValue(v reflect.Value) bool {
	switch v.Kind() {
	case reflect.Ptr, reflect.Interface:
		return v.IsNil()
	case reflect.Slice, reflect.Map, reflect.String:
		return v.Len() == 0
	case reflect.Struct:
		for i := 0; i < v.NumField(); i++ {
			if v.Type().Field(i).Type == xmlNameType {
				continue
			}
			if !emptyValue(v.Field(i)) {
				return false
			}
		}
		return true
	case reflect.Bool:
		return !v.Bool()
	case reflect.Int, reflect.Int8, reflect.Int16, reflect.Int32, reflect.Int64:
		return v.Int() == 0
	case reflect.Float32, reflect.Float64:
		return v.Float() == 0
	}
	return false
}

func brief(v reflect.Value) string {
	if !v.IsValid() {
		return "<invalid>"
	}
	switch v.Kind() {
	case reflect.Ptr, reflect.Interface:
		if v.IsNil() {
			return "nil"
		}
		return "&" + brief(v.Elem())
	}
	s := fmt.Sprintf("%+v", v.Interface())
	if len(s) > 160 {
		s = s[:160] + "…"
	}
	return s
}

func (d *differ) walk(a, b reflect.Value, path string) {
	if len(d.out) >= d.limit {
		return
	}
	if a.Kind() != b.Kind() || a.Type() != b.Type() {
		d.add(path, "type %s vs %s", a.Type(), b.Type())
		return
	}
	switch a.Kind() {
	case reflect.Interface:
		if a.IsNil() || b.IsNil() {
			if a.IsNil() != b.IsNil() {
				d.add(path, "%s vs %s", brief(a), brief(b))
			}
			return
		}
		ae, be := a.Elem(), b.Elem()
		if ae.Type() != be.Type() {
			d.add(path, "element kind %s vs %s", ae.Type(), be.Type())
			return
		}
		d.walk(ae, be, path)
	case reflect.Ptr:
		if a.IsNil() || b.IsNil() {
			if a.IsNil() && b.IsNil() {
				return
			}
			if pureContainers[a.Type().Elem().Name()] {
				nz := a
				if a.IsNil() {
					nz = b
				}
				if emptyValue(nz.Elem()) {
					return
				}
				// report the non-empty members as individual losses/inventions
				d.walk(zeroIfNil(a), zeroIfNil(b), path)
				return
			}
			d.add(path, "%s vs %s", brief(a), brief(b))
			return
		}
		d.walk(a.Elem(), b.Elem(), path)
	case reflect.Struct:
		t := a.Type()
		if t.Name() == "Text" && t.NumField() == 3 {
			ac, bc := a.FieldByName("Content"), b.FieldByName("Content")
			if ac.IsValid() && ac.Kind() == reflect.String && ac.Len() == 0 && bc.Len() == 0 {
				return
			}
		}
		for i := 0; i < t.NumField(); i++ {
			f := t.Field(i)
			if f.Type == xmlNameType || f.PkgPath != "" {
				continue
			}
			if t.Name() == "SectionProperties" && f.Name == "XmlnsR" {
				continue
			}
			if t.Name() == "TableStyle" && f.Name == "Name" {
				// the display name CreateCustomTableStyle gives: it is carried to the styles part on save (tag xml:"-"),
				// it is not part of the body (what becomes of the style definition is C13/C14's question)
				continue
			}
			d.walk(a.Field(i), b.Field(i), path+"."+f.Name)
		}
	case reflect.Slice:
		n := a.Len()
		if b.Len() != n {
			d.add(path, "length %d vs %d", a.Len(), b.Len())
			if b.Len() < n {
				n = b.Len()
			}
		}
		for i := 0; i < n; i++ {
			d.walk(a.Index(i), b.Index(i), fmt.Sprintf("%s[%d]", path, i))
		}
	case reflect.String:
		if as, bs := a.String(), b.String(); as != bs {
			if len(as) <= 80 && len(bs) <= 80 {
				d.add(path, "%q vs %q", as, bs)
			} else {
				k := 0 // long strings: lengths and the surroundings of the first differing byte
				for k < len(as) && k < len(bs) && as[k] == bs[k] {
					k++
				}
				from := k - 20
				if from < 0 {
					from = 0
				}
				d.add(path, "strings of %d vs %d bytes differ at byte %d: …%q vs …%q", len(as), len(bs), k, clipS(as[from:]), clipS(bs[from:]))
			}
		}
	case reflect.Bool:
		if a.Bool() != b.Bool() {
			d.add(path, "%v vs %v", a.Bool(), b.Bool())
		}
	case reflect.Int, reflect.Int8, reflect.Int16, reflect.Int32, reflect.Int64:
		if a.Int() != b.Int() {
			d.add(path, "%d vs %d", a.Int(), b.Int())
		}
	case reflect.Float32, reflect.Float64:
		if a.Float() != b.Float() {
			d.add(path, "%v vs %v", a.Float(), b.Float())
		}
	case reflect.Map:
		if a.Len() != b.Len() {
			d.add(path, "map length %d vs %d", a.Len(), b.Len())
		}
	default:
		// no other kinds occur in the body types
	}
}

func zeroIfNil(p reflect.Value) reflect.Value {
	if p.IsNil() {
		return reflect.New(p.Type().Elem()).Elem()
	}
	return p.Elem()
}

func clipS(s string) string {
	if len(s) > 80 {
		return s[:80] + "…"
	}
	return s
}

// DeepDiffNorm returns every difference between a and b (at most limit) under the normalisations above.
func DeepDiffNorm(a, b interface{}, root string, limit int) []memDiff {
	d := &differ{limit: limit, norm: true}
	d.walk(reflect.ValueOf(a), reflect.ValueOf(b), root)
	return d.out
}

// DeepEqualNorm is the boolean form.
func DeepEqualNorm(a, b interface{}) bool { return len(DeepDiffNorm(a, b, "", 1)) == 0 }

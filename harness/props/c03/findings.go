package c03

import "wzverif/internal/kit"

// One finding per loss class (ledger D07): the clause id names the element path, the trigger is the
// call site that can put such an element into the document. Only ids listed `open:` in
// KNOWN_FINDINGS.txt have masking power.
var classDesc = map[string]string{
	"keepNext":        "Open drops w:keepNext of a paragraph (SetKeepWithNext / SetParagraphFormat.KeepWithNext)",
	"keepLines":       "Open drops w:keepLines of a paragraph (SetKeepLines / SetParagraphFormat.KeepLines)",
	"pageBreakBefore": "Open drops w:pageBreakBefore of a paragraph (SetPageBreakBefore / SetParagraphFormat.PageBreakBefore)",
	"widowControl":    "Open drops w:widowControl of a paragraph (SetWidowControl / SetParagraphFormat)",
	"outlineLvl":      "Open drops w:outlineLvl of a paragraph (SetOutlineLevel / SetParagraphFormat.OutlineLevel)",
	"snapToGrid":      "Open drops w:snapToGrid of a paragraph (SetSnapToGrid(false) / SetParagraphFormat.SnapToGrid)",
	"pBdr":            "Open drops w:pBdr of a paragraph (SetBorder / SetHorizontalRule)",
	"runBreak":        "Open drops w:br of a run: Document.AddPageBreak / Paragraph.AddPageBreak page breaks vanish after a reopen",
	"bookmark":        "Open drops body-level w:bookmarkStart/w:bookmarkEnd (AddHeadingParagraphWithBookmark)",
	"nestedTable":     "Open drops tables nested in a table cell (AddNestedTable) with all their content",
	"sdt":             "Open drops body-level w:sdt (GenerateTOC): the whole table of contents vanishes after a reopen",
	"math":            "Open drops m:oMath/m:oMathPara of a formula paragraph (AddMathFormula): an empty paragraph remains",
	"anchor":          "Open drops the positioning/wrap children of wp:anchor (simplePos, positionH, positionV, effectExtent, wrapTight, wrapTopAndBottom, cNvGraphicFramePr) of floating pictures",
	"picLocks":        "Open drops a:picLocks of pic:cNvPicPr of every picture",
	"titlePg":         "Open drops w:titlePg of the section (SetDifferentFirstPage(true))",
	"pgNumType":       "Open drops w:pgNumType of the section (created by the header/footer calls)",
}

var findings = func() []kit.Finding[Case] {
	var out []kit.Finding[Case]
	for _, cl := range classes {
		id := cl.ID
		out = append(out, kit.Finding[Case]{
			ID: "KF-C03-" + id, Clause: "C03.lost:" + id + "/", Desc: classDesc[id],
			Trigger: func(c Case, f kit.Failure) bool { return opTouches(c, id) },
		})
	}
	return out
}()

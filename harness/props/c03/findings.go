package c03

import "wzverif/internal/kit"

var findings = []kit.Finding[Case]{}

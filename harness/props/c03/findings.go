package c03

import (
	"strings"

	"wzverif/internal/kit"
)

// One finding per loss class (ledger D07): the clause id names the element path, the trigger is the
// call site that can put such an element into the document. Only ids listed `open:` in
// KNOWN_FINDINGS.txt have masking power.
var classDesc = map[string]string{
	"keepNext":        "Open drops w:keepNext of a paragraph (SetKeepWithNext / SetParagraphFormat.KeepWithNext)",
	"keepLines":       "Open drops w:keepLines of a paragraph (SetKeepLines / SetParagraphFormat.KeepLines)",
	"pageBreakBefore": "Open drops w:pageBreakBefore of a paragraph (SetPageBreakBefore / SetParagraphFormat.PageBreakBefore)",
	"widowControl":    "Open drops w:widowControl of a paragraph (SetWidowControl / SetParagraphFormat)",
	"outlineLvl":      "Open drops w:outlineLvl of a paragraph (SetOutlineLevel / SetParagraphFormat.OutlineLevel)",
	"snapToGrid":      "Open drops w:snapToGrid of a paragraph (SetSnapToGrid(false) / SetParagraphFormat.SnapToGrid)",
	"pBdr":            "Open drops w:pBdr of a paragraph (SetBorder / SetHorizontalRule)",
	"runBreak":        "Open drops w:br of a run: Document.AddPageBreak / Paragraph.AddPageBreak page breaks vanish after a reopen",
	"bookmark":        "Open drops body-level w:bookmarkStart/w:bookmarkEnd (AddHeadingParagraphWithBookmark)",
	"nestedTable":     "Open drops tables nested in a table cell (AddNestedTable) with all their content",
	"sdt":             "Open drops body-level w:sdt (GenerateTOC): the whole table of contents vanishes after a reopen",
	"math":            "Open drops m:oMath/m:oMathPara of a formula paragraph (AddMathFormula): an empty paragraph remains",
	"anchor":          "Open drops the positioning/wrap children of wp:anchor (simplePos, positionH, positionV, effectExtent, wrapTight, wrapTopAndBottom, cNvGraphicFramePr) of floating pictures",
	"picLocks":        "Open drops a:picLocks of pic:cNvPicPr of every picture",
	"titlePg":         "Open drops w:titlePg of the section (SetDifferentFirstPage(true))",
	"pgNumType":       "Open drops w:pgNumType of the section (created by the header/footer calls)",
}

var findings = func() []kit.Finding[Case] {
	var out []kit.Finding[Case]
	for _, cl := range classes {
		id := cl.ID
		out = append(out, kit.Finding[Case]{
			ID: "KF-C03-" + id, Clause: "C03.lost:" + id + "/", Desc: classDesc[id],
			Trigger: func(c Case, f kit.Failure) bool { return opTouches(c, id) },
		})
	}
	out = append(out, kit.Finding[Case]{
		ID: "KF-C03-text-without-preserve", Clause: "C03.RT6/builder-without-preserve",
		Desc: "cell texts (TableConfig.Data, SetCellText, SetCellFormattedText, AddCellFormattedText, row/column data), list items (AddListItem and its wrappers) " +
			"and the TOC title/entries are written as w:t without xml:space=\"preserve\": their leading/trailing white space is lost for every consumer but the library's own reader",
		Trigger: func(c Case, f kit.Failure) bool { return len(unpreservingTexts(c)) > 0 },
	})
	return out
}()

// unpreservingKinds: op kinds whose texts reach an entry point that builds the run as Text{Content: text} without
// Space (S = the op's S strings, G = its grid)
var unpreservingKinds = map[string]string{"table": "G", "nested": "G", "nestedh": "G", "createtable": "G", "celltext": "S", "cellftext": "S", "celladdtext": "S",
	"insrow": "S", "approw": "S", "inscol": "S", "appcol": "S", "listitem": "S", "bullet": "S", "numbered": "S", "multilist": "S", "toc": "S"}

func edgeWS(s string) bool { return s != strings.Trim(s, " \t\r\n") }

// unpreservingTexts: the texts with leading or trailing white space that the case hands to those entry points. The
// table of contents repeats the heading texts, so with a toc op in the history the heading texts count too.
func unpreservingTexts(c Case) map[string]bool {
	out := map[string]bool{}
	hasTOC := false
	for _, o := range c.Ops {
		if o.K == "toc" {
			hasTOC = true
			out["\x00toc"] = true // the generated entries separate title and page number by a tab in a w:t of its own
		}
	}
	for _, o := range c.Ops {
		switch {
		case o.K == "bigcelltext":
			if s := bigText(opI(o, 3), opI(o, 4), opI(o, 5)); edgeWS(s) {
				out[s] = true
			}
		case unpreservingKinds[o.K] == "S" || (hasTOC && (o.K == "heading" || o.K == "headingbm" || o.K == "headingbm2")):
			for i, s := range o.S {
				if (o.K == "headingbm" || o.K == "headingbm2") && i > 0 {
					break
				}
				if edgeWS(s) {
					out[s] = true
				}
			}
		case unpreservingKinds[o.K] == "G":
			for _, r := range o.Grid {
				for _, s := range r {
					if edgeWS(s) {
						out[s] = true
					}
				}
			}
		}
	}
	return out
}

package c03

// Widening of the history generator (round "narrow sub-domains").
//
// (1) Public entry points of the anchored files that build or edit a document and that no op kind reached:
//
//	imgresize     I:[isel,mode] F:[w,h]                     Document.ResizeImage
//	imgpos        I:[isel,pos] F:[offX,offY]                Document.SetImagePosition
//	imgwrap       I:[isel,wrap]                             Document.SetImageWrapText
//	cellimgcfg    I:[tsel,row,col,fmtMode,keep] F:[w,h] S:[alt,title] Img   Document.AddCellImage (Data, explicit or detected format)
//	cellimgfile   I:[tsel,row,col,viaCfg] F:[w] Img         Document.AddCellImageFromFile / AddCellImage{FilePath}
//	tblpagebreak  I:[tsel] B:[4]                            Table.SetTablePageBreak
//	rowkeepnext   I:[tsel,row] B:[1]                        Table.SetRowKeepWithNext
//	rowprops      I:[tsel,rowsel] B:[cant,hdr,doCant,doHdr] TableRowProperties.SetCantSplit / SetTblHeader
//	tbllayout     I:[tsel,align,wrap,pos]                   Table.SetTableLayout (full config)
//	delrows       I:[tsel,a,b]                              Table.DeleteRows
//	delcols       I:[tsel,a,b]                              Table.DeleteColumns
//	cleartable    I:[tsel]                                  Table.ClearTable
//	copytable     I:[tsel]                                  Table.CopyTable + Body.AddElement
//	createtable   I:[rows,cols,width] Grid B:[editFirst]    Document.CreateTable + Body.AddElement
//	customtblstyle I:[tsel,w,sp] S:[id,name,bstyle,bcolor,pat,fg,bg] B:[border,shading,bold]  Table.CreateCustomTableStyle
//	tblread       I:[tsel,row,col,row2,col2] S:[needle]     every read accessor / iterator of Table (must change nothing)
//	docread                                                 read accessors of Document / Body (must change nothing)
//	multilist     I:[level,type,bullet,start]* S:[text]*    Document.CreateMultiLevelList
//	restartnum    S:[numID]                                 Document.RestartNumbering
//	pagesettings  I:[size,grid,pitch,charSpace] F:[cw,ch,top,right,bottom,left,hdr,ftr,gutter] B:[landscape]  Document.SetPageSettings
//	savefile                                                Document.Save(path) of the live document (intermediate save)
//	fieldruns     I:[psel,which] S:[anchor,display]         CreateHyperlinkField / CreatePageRefField: the field's runs (begin, instruction,
//	                                                        separate, result, end) appended to a body paragraph through Paragraph.Runs, as the TOC builder does
//	structprops   I:[tsel,row,col,indW] S:[indType,noWrap,hideMark] B:[ind,noWrap,hide]   formatting that has no setter, through the exported
//	                                                        fields TableProperties.TableInd, TableCellProperties.NoWrap / HideMark
//	vmergefields  I:[tsel,row1,row2,col] S:[contVal]         a vertical merge set through the exported field TableCellProperties.VMerge (as
//	                                                        the library's own MergeCellsVertical does): "restart" on the first cell, and on
//	                                                        the cells below it a VMerge whose Val is "continue" or left empty (w:val is
//	                                                        optional, absent means continue: the form <w:vMerge/> that the struct writes then)
//
// plus the kind "reopen" of internal/ops (save, Open, continue editing the opened document).
//
// (2) value classes of text at the edges (tab / newline / CR / non-ASCII blanks rather than spaces, astral and
// combining characters at the first and last position, whitespace-only, strings that look like markup of the format).
//
// None of these kinds has an oracle clause of its own: the calls take part in the history and the document that
// results is judged by the round-trip clauses.

import (
	"fmt"
	"os"
	"path/filepath"
	"strings"

	"github.com/zerx-lab/wordZero/pkg/document"
	"pgregory.net/rapid"

	"wzverif/internal/gen"
	"wzverif/internal/ops"
)

var wideKinds = map[string]bool{"imgresize": true, "imgpos": true, "imgwrap": true, "cellimgcfg": true, "cellimgfile": true,
	"tblpagebreak": true, "rowkeepnext": true, "rowprops": true, "tbllayout": true, "delrows": true, "delcols": true, "cleartable": true,
	"copytable": true, "createtable": true, "customtblstyle": true, "tblread": true, "docread": true, "multilist": true, "restartnum": true,
	"pagesettings": true, "savefile": true, "fieldruns": true, "structprops": true, "vmergefields": true}

func isWide(k string) bool { return wideKinds[k] }

// wideWeights join the weights of c03_test.go.
var wideWeights = map[string]int{"imgresize": 2, "imgpos": 2, "imgwrap": 2, "cellimgcfg": 2, "cellimgfile": 1,
	"tblpagebreak": 1, "rowkeepnext": 1, "rowprops": 3, "tbllayout": 2, "delrows": 2, "delcols": 2, "cleartable": 1,
	"copytable": 2, "createtable": 2, "customtblstyle": 2, "tblread": 3, "docread": 2, "multilist": 2, "restartnum": 1,
	"pagesettings": 3, "savefile": 5, "fieldruns": 2, "structprops": 2, "vmergefields": 4}

func init() {
	for k, w := range wideWeights {
		weights[k] = w
	}
	kindList = nil
	for k, w := range weights {
		for i := 0; i < w; i++ {
			kindList = append(kindList, k)
		}
	}
	sortStr(kindList)
	for _, k := range []string{"imgresize", "imgpos", "imgwrap"} {
		imageTarget[k] = true
	}
	for _, k := range []string{"cellimgcfg", "cellimgfile", "tblpagebreak", "rowkeepnext", "rowprops", "tbllayout", "delrows", "delcols", "cleartable",
		"copytable", "customtblstyle", "tblread"} {
		tableTarget[k] = true
	}
	tableTarget["structprops"] = true
	tableTarget["vmergefields"] = true
	paraTarget["fieldruns"] = true
	for _, k := range []string{"rowprops", "tbllayout", "customtblstyle", "pagesettings", "structprops"} {
		formatSetters[k] = true
	}
	inPlaceKinds = append(inPlaceKinds, "imgresize", "imgpos", "imgwrap", "cellimgcfg", "rowprops", "rowprops", "tbllayout", "delrows", "cleartable",
		"customtblstyle", "tblread", "tblread", "docread", "pagesettings", "rowkeepnext", "tblpagebreak", "fieldruns", "structprops", "vmergefields")
}

func sortStr(s []string) {
	for i := 1; i < len(s); i++ {
		for j := i; j > 0 && s[j] < s[j-1]; j-- {
			s[j], s[j-1] = s[j-1], s[j]
		}
	}
}

// wideState is what the run remembers about the widened ops it executed.
type wideState struct {
	copies   int  // successful copytable calls (a copied table shows the pictures of its source a second time)
	reopened int  // successful reopen ops
	imgOps   int  // successful picture ops
	afterRe  bool // a picture was added to a document that had been reopened
}

var imgPositions = []document.ImagePosition{document.ImagePositionInline, document.ImagePositionFloatLeft, document.ImagePositionFloatRight}
var imgWraps = []document.ImageWrapText{"", document.ImageWrapNone, document.ImageWrapSquare, document.ImageWrapTight, document.ImageWrapTopAndBottom}
var tblWraps = []document.TableTextWrap{"", document.TextWrapNone, document.TextWrapAround}
var tblPositions = []document.TablePosition{"", document.PositionInline, document.PositionFloating}
var gridTypes = []document.DocGridType{"", document.DocGridDefault, document.DocGridLines, document.DocGridSnapToChars, document.DocGridSnapToLines}
var pageSizesAll = []document.PageSize{document.PageSizeA4, document.PageSizeLetter, document.PageSizeLegal, document.PageSizeA3, document.PageSizeA5, document.PageSizeCustom}

func doWide(x *ops.Exec, o ops.Op, ws *wideState) error {
	x.NOps++
	err := doWide1(x, o, ws)
	if err != nil {
		x.Errs++
	}
	return err
}

func wideTable(x *ops.Exec, o ops.Op) *document.Table {
	if len(x.Tables) == 0 {
		return nil
	}
	return x.Tables[pick(len(x.Tables), opI(o, 0))]
}

func opB(o ops.Op, i int) bool { return i < len(o.B) && o.B[i] }

func doWide1(x *ops.Exec, o ops.Op, ws *wideState) error {
	d := x.Doc
	switch o.K {
	case "imgresize":
		if len(x.Images) == 0 {
			return nil
		}
		var sz *document.ImageSize
		switch opI(o, 1) % 4 {
		case 1:
			sz = &document.ImageSize{Width: opF(o, 0), Height: opF(o, 1)}
		case 2:
			sz = &document.ImageSize{Width: opF(o, 0), KeepAspectRatio: true}
		case 3:
			sz = &document.ImageSize{Height: opF(o, 1), KeepAspectRatio: true}
		}
		return d.ResizeImage(x.Images[pick(len(x.Images), opI(o, 0))], sz)
	case "imgpos":
		if len(x.Images) == 0 {
			return nil
		}
		return d.SetImagePosition(x.Images[pick(len(x.Images), opI(o, 0))], imgPositions[pick(3, opI(o, 1))], opF(o, 0), opF(o, 1))
	case "imgwrap":
		if len(x.Images) == 0 {
			return nil
		}
		return d.SetImageWrapText(x.Images[pick(len(x.Images), opI(o, 0))], imgWraps[pick(len(imgWraps), opI(o, 1))])
	case "cellimgcfg":
		t := wideTable(x, o)
		if t == nil || o.Img == nil {
			return nil
		}
		cfg := &document.CellImageConfig{Data: o.Img.Bytes(), Width: opF(o, 0), Height: opF(o, 1), KeepAspectRatio: opI(o, 4) != 0, AltText: opS(o, 0), Title: opS(o, 1)}
		if opI(o, 3) != 0 {
			cfg.Format = ops.ImgFormats[o.Img.Fmt]
		}
		info, err := d.AddCellImage(t, opI(o, 1), opI(o, 2), cfg)
		if err == nil {
			x.Images = append(x.Images, info)
		}
		return err
	case "cellimgfile":
		t := wideTable(x, o)
		if t == nil || o.Img == nil {
			return nil
		}
		p := filepath.Join(x.Dir, "img", "cell-"+filepath.Base(o.Img.Name))
		os.MkdirAll(filepath.Dir(p), 0o755)
		if werr := os.WriteFile(p, o.Img.Bytes(), 0o644); werr != nil {
			return nil // scratch problem, not an API result
		}
		var info *document.ImageInfo
		var err error
		if opI(o, 3) != 0 {
			info, err = d.AddCellImage(t, opI(o, 1), opI(o, 2), &document.CellImageConfig{FilePath: p, Width: opF(o, 0)})
		} else {
			info, err = d.AddCellImageFromFile(t, opI(o, 1), opI(o, 2), p, opF(o, 0))
		}
		if err == nil {
			x.Images = append(x.Images, info)
		}
		return err
	case "tblpagebreak":
		if t := wideTable(x, o); t != nil {
			return t.SetTablePageBreak(&document.TablePageBreakConfig{KeepWithNext: opB(o, 0), KeepLines: opB(o, 1), PageBreakBefore: opB(o, 2), WidowControl: opB(o, 3)})
		}
	case "rowkeepnext":
		if t := wideTable(x, o); t != nil {
			return t.SetRowKeepWithNext(opI(o, 1), opB(o, 0))
		}
	case "rowprops":
		if t := wideTable(x, o); t != nil && len(t.Rows) > 0 {
			row := &t.Rows[pick(len(t.Rows), opI(o, 1))]
			if row.Properties == nil {
				row.Properties = &document.TableRowProperties{}
			}
			if opB(o, 2) {
				row.Properties.SetCantSplit(opB(o, 0))
			}
			if opB(o, 3) {
				row.Properties.SetTblHeader(opB(o, 1))
			}
		}
	case "tbllayout":
		if t := wideTable(x, o); t != nil {
			cfg := &document.TableLayoutConfig{TextWrap: tblWraps[pick(len(tblWraps), opI(o, 2))], Position: tblPositions[pick(len(tblPositions), opI(o, 3))]}
			if a := opI(o, 1); a > 0 {
				cfg.Alignment = ops.TableAligns[pick(len(ops.TableAligns), a)]
			}
			if cfg.Position == document.PositionFloating {
				cfg.Positioning = &document.TablePositioning{LeftFromText: "180", RightFromText: "180", VertAnchor: "text", HorzAnchor: "margin", TblpX: "720", TblpY: "360"}
			}
			return t.SetTableLayout(cfg)
		}
	case "delrows":
		if t := wideTable(x, o); t != nil {
			return t.DeleteRows(opI(o, 1), opI(o, 2))
		}
	case "delcols":
		if t := wideTable(x, o); t != nil {
			return t.DeleteColumns(opI(o, 1), opI(o, 2))
		}
	case "cleartable":
		if t := wideTable(x, o); t != nil {
			t.ClearTable()
		}
	case "copytable":
		if t := wideTable(x, o); t != nil {
			cp := t.CopyTable()
			if cp == nil {
				return fmt.Errorf("CopyTable returned nil")
			}
			d.Body.AddElement(cp)
			x.Tables = append(x.Tables, cp)
			ws.copies++
		}
	case "createtable":
		t, err := d.CreateTable(&document.TableConfig{Rows: opI(o, 0), Cols: opI(o, 1), Width: opI(o, 2), Data: o.Grid})
		if err != nil {
			return err
		}
		if opB(o, 0) { // the table is edited before it joins the body
			t.SetCellText(0, 0, "set before AddElement")
			t.SetTableAlignment(document.TableAlignRight)
		}
		d.Body.AddElement(t)
		x.Tables = append(x.Tables, t)
	case "customtblstyle":
		if t := wideTable(x, o); t != nil {
			var bc *document.TableBorderConfig
			if opB(o, 0) {
				b := &document.BorderConfig{Style: document.BorderStyle(opS(o, 2)), Width: opI(o, 1), Color: opS(o, 3), Space: opI(o, 2)}
				bc = &document.TableBorderConfig{Top: b, Left: b, Bottom: b, Right: b, InsideH: b, InsideV: b}
			}
			var sc *document.ShadingConfig
			if opB(o, 1) {
				sc = &document.ShadingConfig{Pattern: document.ShadingPattern(opS(o, 4)), ForegroundColor: opS(o, 5), BackgroundColor: opS(o, 6)}
			}
			return t.CreateCustomTableStyle(opS(o, 0), opS(o, 1), bc, sc, opB(o, 2))
		}
	case "tblread":
		if t := wideTable(x, o); t != nil {
			readTable(t, opI(o, 1), opI(o, 2), opI(o, 3), opI(o, 4), opS(o, 0))
		}
	case "docread":
		_ = d.GetPageSettings()
		_ = d.Body.GetParagraphs()
		_ = d.Body.GetTables()
		_ = d.GetParts()
		_ = d.GetStyleManager()
		for _, e := range d.Body.Elements {
			if be, ok := e.(document.BodyElement); ok {
				_ = be.ElementType()
			}
		}
	case "multilist":
		var items []document.ListItem
		for i := range o.S {
			items = append(items, document.ListItem{Text: o.S[i], Level: opI(o, 4*i), Type: ops.ListTypes[pick(len(ops.ListTypes), opI(o, 4*i+1))],
				BulletSymbol: ops.Bullets[pick(len(ops.Bullets), opI(o, 4*i+2))], StartNumber: opI(o, 4*i+3)})
		}
		err := d.CreateMultiLevelList(items)
		x.Paras = d.Body.GetParagraphs()
		return err
	case "restartnum":
		d.RestartNumbering(opS(o, 0))
	case "pagesettings":
		ps := &document.PageSettings{Size: pageSizesAll[pick(len(pageSizesAll), opI(o, 0))], CustomWidth: opF(o, 0), CustomHeight: opF(o, 1),
			Orientation: document.OrientationPortrait, MarginTop: opF(o, 2), MarginRight: opF(o, 3), MarginBottom: opF(o, 4), MarginLeft: opF(o, 5),
			HeaderDistance: opF(o, 6), FooterDistance: opF(o, 7), GutterWidth: opF(o, 8),
			DocGridType: gridTypes[pick(len(gridTypes), opI(o, 1))], DocGridLinePitch: opI(o, 2), DocGridCharSpace: opI(o, 3)}
		if opB(o, 0) {
			ps.Orientation = document.OrientationLandscape
		}
		return d.SetPageSettings(ps)
	case "fieldruns":
		if len(x.Paras) == 0 {
			return nil
		}
		p := x.Paras[pick(len(x.Paras), opI(o, 0))]
		var begin, sep, end document.FieldChar
		var instr document.InstrText
		if opI(o, 1)%2 == 0 {
			f := document.CreateHyperlinkField(opS(o, 0))
			begin, instr, sep, end = f.BeginChar, f.InstrText, f.SeparateChar, f.EndChar
		} else {
			f := document.CreatePageRefField(opS(o, 0))
			begin, instr, sep, end = f.BeginChar, f.InstrText, f.SeparateChar, f.EndChar
		}
		p.Runs = append(p.Runs, document.Run{FieldChar: &begin}, document.Run{InstrText: &instr}, document.Run{FieldChar: &sep},
			document.Run{Text: document.Text{Content: opS(o, 1), Space: "preserve"}}, document.Run{FieldChar: &end})
	case "structprops":
		if t := wideTable(x, o); t != nil {
			if opB(o, 0) {
				if t.Properties == nil {
					t.Properties = &document.TableProperties{}
				}
				t.Properties.TableInd = &document.TableIndentation{W: fmt.Sprint(opI(o, 3)), Type: opS(o, 0)}
			}
			if cell, err := t.GetCell(opI(o, 1), opI(o, 2)); err == nil && cell != nil {
				if cell.Properties == nil {
					cell.Properties = &document.TableCellProperties{}
				}
				if opB(o, 1) {
					cell.Properties.NoWrap = &document.NoWrap{Val: opS(o, 1)}
				}
				if opB(o, 2) {
					cell.Properties.HideMark = &document.HideMark{Val: opS(o, 2)}
				}
			}
		}
	case "vmergefields":
		if t := wideTable(x, o); t != nil {
			r1, r2, col := opI(o, 1), opI(o, 2), opI(o, 3)
			if r1 < 0 || r2 <= r1 || r2 >= t.GetRowCount() {
				return fmt.Errorf("vmergefields: rows %d-%d out of range", r1, r2)
			}
			var cells []*document.TableCell
			for r := r1; r <= r2; r++ {
				cell, err := t.GetCell(r, col)
				if err != nil || cell == nil {
					return fmt.Errorf("vmergefields: no cell (%d,%d)", r, col)
				}
				cells = append(cells, cell)
			}
			for i, cell := range cells {
				if cell.Properties == nil {
					cell.Properties = &document.TableCellProperties{}
				}
				if i == 0 {
					cell.Properties.VMerge = &document.VMerge{Val: "restart"}
				} else {
					cell.Properties.VMerge = &document.VMerge{Val: opS(o, 0)}
				}
			}
		}
	case "savefile":
		// the file the final save of the built document goes to as well (Case.SaveAPI): a user who saves the document
		// he is working on again and again under one name
		return d.Save(filepath.Join(x.Dir, "saved", "first.docx"))
	default:
		panic("c03: unknown wide op kind " + o.K)
	}
	return nil
}

// readTable calls every read accessor of a table. None of them may change the table (the history goes on afterwards
// and the document is judged as usual); their results are not judged here.
func readTable(t *document.Table, row, col, row2, col2 int, needle string) {
	_, _ = t.GetCell(row, col)
	_, _ = t.GetCellText(row, col)
	_ = t.GetRowCount()
	_ = t.GetColumnCount()
	_, _ = t.IsCellMerged(row, col)
	_, _ = t.GetMergedCellInfo(row, col)
	_, _ = t.GetCellTextDirection(row, col)
	_, _ = t.GetCellFormat(row, col)
	_, _ = t.GetRowHeight(row)
	_ = t.GetTableLayout()
	_, _ = t.IsRowHeader(row)
	_, _ = t.IsRowKeepTogether(row)
	_ = t.GetTableBreakInfo()
	_, _ = t.GetCellParagraphs(row, col)
	_, _ = t.GetNestedTables(row, col)
	_, _ = t.GetCellRange(row, col, row2, col2)
	_, _ = t.FindCellsByText(needle, row%2 == 0)
	_, _ = t.FindCells(func(r, c int, cell *document.TableCell, text string) bool { return (r+c)%2 == 0 })
	n := 0
	it := t.NewCellIterator()
	for it.HasNext() && n < 5000 {
		if _, err := it.Next(); err != nil {
			break
		}
		_, _ = it.Current()
		_ = it.Progress()
		n++
	}
	_ = it.Total()
	it.Reset()
	_ = t.ForEach(func(r, c int, cell *document.TableCell, text string) error { return nil })
	_ = t.ForEachInRow(row, func(c int, cell *document.TableCell, text string) error { return nil })
	_ = t.ForEachInColumn(col, func(r int, cell *document.TableCell, text string) error { return nil })
}

// ---------------------------------------------------------------------------------------------
// generator

func drawWide(t *rapid.T, k string) ops.Op {
	o := ops.Op{K: k}
	sel := func() int { return rapid.IntRange(0, 50).Draw(t, "sel") }
	pos := func() int { return rapid.IntRange(-1, 7).Draw(t, "pos") }
	bl := func() bool { return rapid.Bool().Draw(t, "b") }
	mm := func(label string) float64 {
		return rapid.SampledFrom([]float64{0, 0, 10, 25.4, 0.1, 33.3, 50.5, 500, -3}).Draw(t, label)
	}
	txt := func(label string) string {
		s, cls := gen.Text(t, label, gen.Expressible...)
		o.Cls = append(o.Cls, cls)
		return fix(s)
	}
	switch k {
	case "imgresize":
		o.I = []int{sel(), rapid.IntRange(0, 3).Draw(t, "mode")}
		o.F = []float64{mm("w"), mm("h")}
	case "imgpos":
		o.I = []int{sel(), rapid.IntRange(0, 2).Draw(t, "ipos")}
		o.F = []float64{rapid.SampledFrom([]float64{0, 0, 5, 12.5, -4}).Draw(t, "ox"), rapid.SampledFrom([]float64{0, 0, 5, 12.5, -4}).Draw(t, "oy")}
	case "imgwrap":
		o.I = []int{sel(), rapid.IntRange(0, 4).Draw(t, "wrap")}
	case "cellimgcfg":
		im := gen.Image(t, "img")
		o.Img = &im
		o.I = []int{sel(), pos(), pos(), rapid.IntRange(0, 1).Draw(t, "fmtmode"), rapid.IntRange(0, 1).Draw(t, "keep")}
		o.F = []float64{mm("w"), mm("h")}
		o.S = []string{txt("alt"), txt("title")}
	case "cellimgfile":
		im := gen.Image(t, "img")
		o.Img = &im
		o.I = []int{sel(), pos(), pos(), rapid.IntRange(0, 1).Draw(t, "viacfg")}
		o.F = []float64{mm("w")}
	case "tblpagebreak":
		o.I = []int{sel()}
		o.B = []bool{bl(), bl(), bl(), bl()}
	case "rowkeepnext":
		o.I = []int{sel(), pos()}
		o.B = []bool{bl()}
	case "rowprops":
		o.I = []int{sel(), sel()}
		o.B = []bool{bl(), bl(), bl(), bl()}
	case "tbllayout":
		o.I = []int{sel(), rapid.IntRange(0, 5).Draw(t, "al"), rapid.IntRange(0, 2).Draw(t, "wrap"), rapid.IntRange(0, 2).Draw(t, "tpos")}
	case "delrows", "delcols":
		o.I = []int{sel(), pos(), pos()}
	case "cleartable", "copytable":
		o.I = []int{sel()}
	case "createtable":
		rows, cols := rapid.IntRange(0, 5).Draw(t, "rows"), rapid.IntRange(0, 5).Draw(t, "cols")
		o.I = []int{rows, cols, rapid.SampledFrom([]int{0, 1000, 9000, -5}).Draw(t, "w")}
		o.B = []bool{rapid.IntRange(0, 2).Draw(t, "editfirst") == 0}
		if rapid.IntRange(0, 2).Draw(t, "hasgrid") != 0 {
			g := make([][]string, rapid.IntRange(0, rows+1).Draw(t, "gr"))
			for i := range g {
				for j := rapid.IntRange(0, cols+1).Draw(t, "gc"); j > 0; j-- {
					g[i] = append(g[i], txt("gcell"))
				}
			}
			o.Grid = g
		}
	case "customtblstyle":
		o.I = []int{sel(), rapid.IntRange(-1, 50).Draw(t, "w"), rapid.IntRange(-1, 10).Draw(t, "sp")}
		o.S = []string{rapid.SampledFrom([]string{"MyTable", "TableGrid", "", "a\"<b", "mytable", "MyTable2", "表"}).Draw(t, "sid"),
			rapid.SampledFrom([]string{"My Table", "", "Table Grid", "名 <&>"}).Draw(t, "sname"),
			rapid.SampledFrom([]string{"single", "double", "dashed", "none", "nil"}).Draw(t, "bs"), rapid.SampledFrom([]string{"FF0000", "auto", "", "00ff00"}).Draw(t, "bc"),
			rapid.SampledFrom([]string{"clear", "solid", "pct25", ""}).Draw(t, "pat"), rapid.SampledFrom([]string{"auto", "000000", ""}).Draw(t, "fg"), rapid.SampledFrom([]string{"EEEEEE", "auto", ""}).Draw(t, "bg")}
		o.B = []bool{bl(), bl(), bl()}
	case "tblread":
		o.I = []int{sel(), pos(), pos(), pos(), pos()}
		o.S = []string{rapid.SampledFrom([]string{"", "a", "Hello", " ", "中"}).Draw(t, "needle")}
	case "docread", "savefile":
	case "fieldruns":
		o.I = []int{sel(), rapid.IntRange(0, 1).Draw(t, "which")}
		o.S = []string{rapid.SampledFrom([]string{"_Toc1", "bm", "a b", "", "_Toc10", "名", "x\"y"}).Draw(t, "anchor"), txt("display")}
	case "structprops":
		o.I = []int{sel(), pos(), pos(), rapid.SampledFrom([]int{0, 108, 720, -360}).Draw(t, "indw")}
		o.S = []string{rapid.SampledFrom([]string{"dxa", "auto", "nil", ""}).Draw(t, "indt"), rapid.SampledFrom([]string{"", "1", "0", "true"}).Draw(t, "nowrap"),
			rapid.SampledFrom([]string{"", "1", "0"}).Draw(t, "hide")}
		o.B = []bool{bl(), bl(), bl()}
	case "vmergefields":
		o.I = []int{sel(), pos(), pos(), pos()}
		o.S = []string{rapid.SampledFrom([]string{"", "", "continue"}).Draw(t, "contval")}
	case "multilist":
		n := rapid.SampledFrom([]int{0, 1, 2, 2, 3, 3, 4, 5, 11, 12}).Draw(t, "nitems")
		for i := 0; i < n; i++ {
			o.S = append(o.S, txt("item"))
			o.I = append(o.I, rapid.IntRange(-1, 10).Draw(t, "lvl"), sel(), sel(), rapid.IntRange(-1, 12).Draw(t, "start"))
		}
	case "restartnum":
		o.S = []string{rapid.SampledFrom([]string{"1", "2", "9", "10", "99", "", "x"}).Draw(t, "numid")}
	case "pagesettings":
		// every field on its own; the documented defaults (A4, 25.4 / 12.7 mm, lines / 312) are drawn as often as other values
		mar := func(label string, def float64) float64 {
			return rapid.SampledFrom([]float64{def, def, 0, 10, 12.7, 20.5, 31.75, 72.3, -1}).Draw(t, label)
		}
		o.I = []int{rapid.IntRange(0, 5).Draw(t, "size"), rapid.IntRange(0, 4).Draw(t, "grid"), rapid.SampledFrom([]int{312, 312, 0, 1, 400, -1}).Draw(t, "pitch"),
			rapid.SampledFrom([]int{0, 0, 1, 210, -105}).Draw(t, "cs")}
		o.F = []float64{rapid.SampledFrom([]float64{210, 100, 148.5, 297, 30, 600}).Draw(t, "cw"), rapid.SampledFrom([]float64{297, 100, 210, 200.25, 30, 600}).Draw(t, "ch"),
			mar("mt", 25.4), mar("mr", 25.4), mar("mb", 25.4), mar("ml", 25.4), mar("hd", 12.7), mar("fd", 12.7), mar("g", 0)}
		o.B = []bool{bl()}
	default:
		panic("c03: unknown wide kind " + k)
	}
	return o
}

// ---------------------------------------------------------------------------------------------
// text classes at the edges

var edgeBlanks = []string{"\t", "\n", "\r", "\r\n", "\t\t", "\n\n", " \n", "\n ", "\t ", "\u00a0", "\u3000", "\u2028", "\u0085", "\u200b", "\u2003", "\ufeff"}
var astral = []string{"😀", "𝔘", "\U00020000", "🇩🇪", "e\u0301", "\u0301", "👨\u200d👩\u200d👧", "\U0010FFFD", "\ufffd", ""}
var lookalikes = []string{"<w:t xml:space=\"preserve\"> x </w:t>", "&#10;", "&#x9;x", "]]>", "<![CDATA[ x ]]>", "preserve", "0", "false", "null", "</w:t></w:r>", "xml:space", "&amp;amp;"}

// edgeText draws a text of one of the edge classes and returns it with the class name.
func edgeText(t *rapid.T, label string) (string, string) {
	core := rapid.SampledFrom([]string{"x", "Hello world", "a b", "中文", "1.5", "tab\tinside", "line\nbreak"}).Draw(t, label+"core")
	bl := func(l string) string { return rapid.SampledFrom(edgeBlanks).Draw(t, label+l) }
	as := func(l string) string { return rapid.SampledFrom(astral).Draw(t, label+l) }
	switch rapid.IntRange(0, 9).Draw(t, label+"cls") {
	case 0:
		return bl("l") + core, "lead-nonspace-blank"
	case 1:
		return core + bl("r"), "trail-nonspace-blank"
	case 2:
		return bl("l") + core + bl("r"), "both-nonspace-blank"
	case 3:
		n := rapid.IntRange(1, 3).Draw(t, label+"n")
		var b strings.Builder
		for i := 0; i < n; i++ {
			b.WriteString(bl("w"))
		}
		return b.String(), "blank-only"
	case 4:
		return as("l") + core, "lead-astral"
	case 5:
		return core + as("r"), "trail-astral"
	case 6:
		return as("l") + as("r"), "astral-only"
	case 7:
		return rapid.SampledFrom(lookalikes).Draw(t, label+"look"), "markup-lookalike"
	case 8:
		// a longer text whose last character before / first character after a round length is multi-byte
		n := rapid.SampledFrom([]int{63, 64, 127, 128, 255, 256, 511, 1023, 1024}).Draw(t, label+"len")
		return strings.Repeat("a", n-1) + as("cut") + "z", "multibyte-at-round-length"
	}
	return " " + core + "\t", "space-then-tab"
}

// textKinds: op kinds whose S[0] is document text
var textKinds = map[string]bool{"para": true, "fpara": true, "heading": true, "headingbm": true, "headingbm2": true, "addtext": true, "celltext": true,
	"cellftext": true, "celladdtext": true, "cellpara": true, "cellfpara": true, "listitem": true, "bullet": true, "numbered": true}

// rowTextKinds: op kinds whose S entries are cell texts
var rowTextKinds = map[string]bool{"insrow": true, "approw": true, "inscol": true, "appcol": true, "celllist": true, "multilist": true}

// widenText replaces, in about one op in five that carries document text, one text by a text of an edge class.
func widenText(t *rapid.T, o *ops.Op) {
	switch {
	case textKinds[o.K] && len(o.S) > 0:
		if rapid.IntRange(0, 4).Draw(t, "wtext") != 0 {
			return
		}
		s, cls := edgeText(t, "wt")
		o.S[0] = s
		o.Cls = append(o.Cls, "edge:"+cls)
	case rowTextKinds[o.K] && len(o.S) > 0:
		if rapid.IntRange(0, 3).Draw(t, "wtext") != 0 {
			return
		}
		s, cls := edgeText(t, "wt")
		o.S[rapid.IntRange(0, len(o.S)-1).Draw(t, "wti")] = s
		o.Cls = append(o.Cls, "edge:"+cls)
	case (o.K == "table" || o.K == "nested" || o.K == "nestedh" || o.K == "createtable") && len(o.Grid) > 0:
		if rapid.IntRange(0, 3).Draw(t, "wtext") != 0 {
			return
		}
		r := rapid.IntRange(0, len(o.Grid)-1).Draw(t, "wtr")
		if len(o.Grid[r]) == 0 {
			return
		}
		s, cls := edgeText(t, "wt")
		o.Grid[r][rapid.IntRange(0, len(o.Grid[r])-1).Draw(t, "wtc")] = s
		o.Cls = append(o.Cls, "edge:"+cls)
	}
}

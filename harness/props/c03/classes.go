package c03

// Loss classes: the elements the design phase saw the reader drop on Open (ledger D07). Each class
// names exactly one element path of the main part (XML) and the matching field path of the in-memory
// body (Mem). The general clauses RT1/RT2 are evaluated with these paths skipped on both sides, and every
// class is judged separately ("C03.lost:<class>/RT1|RT2"), so that a loss of one of them is attributed to
// its own known finding (when open) while a loss of anything else is a plain RT1/RT2 failure.

import (
	"regexp"

	"wzverif/internal/canon"
	"wzverif/internal/ops"
)

type lossClass struct {
	ID      string
	XML     func(n *canon.Node) bool // n is the root of a subtree of this class
	Mem     *regexp.Regexp           // field path (below a body element) of this class
	Trigger func(o ops.Op) bool      // the op can put such an element into the document
}

func wKidOf(local, parent string) func(n *canon.Node) bool {
	return func(n *canon.Node) bool { return n.Is(canon.W, local) && n.Parent.Is(canon.W, parent) }
}

func ob(o ops.Op, i int) bool { return i < len(o.B) && o.B[i] }
func oi(o ops.Op, i int) int {
	if i < len(o.I) {
		return o.I[i]
	}
	return 0
}
func os_(o ops.Op, i int) string {
	if i < len(o.S) {
		return o.S[i]
	}
	return ""
}

var anchorKids = map[string]bool{"simplePos": true, "positionH": true, "positionV": true, "effectExtent": true, "wrapTight": true,
	"wrapThrough": true, "wrapTopAndBottom": true, "cNvGraphicFramePr": true}

func isHF(k string) bool {
	switch k {
	case "header", "footer", "headerpn", "footerpn", "fheader", "ffooter", "difffirst":
		return true
	}
	return false
}

func isImageOp(k string) bool {
	switch k {
	case "image", "imagefile", "imagefloat", "cellimg", "cellimgcfg", "cellimgfile":
		return true
	}
	return false
}

var classes = []lossClass{
	{"keepNext", wKidOf("keepNext", "pPr"), regexp.MustCompile(`\.Properties\.KeepNext$`),
		func(o ops.Op) bool { return (o.K == "keepnext" || o.K == "pformat") && ob(o, 0) }},
	{"keepLines", wKidOf("keepLines", "pPr"), regexp.MustCompile(`\.Properties\.KeepLines$`),
		func(o ops.Op) bool { return (o.K == "keeplines" && ob(o, 0)) || (o.K == "pformat" && ob(o, 1)) }},
	{"pageBreakBefore", wKidOf("pageBreakBefore", "pPr"), regexp.MustCompile(`\.Properties\.PageBreakBefore$`),
		func(o ops.Op) bool { return (o.K == "pbb" && ob(o, 0)) || (o.K == "pformat" && ob(o, 2)) }},
	{"widowControl", wKidOf("widowControl", "pPr"), regexp.MustCompile(`\.Properties\.WidowControl$`),
		func(o ops.Op) bool { return o.K == "widow" || o.K == "pformat" }},
	{"outlineLvl", wKidOf("outlineLvl", "pPr"), regexp.MustCompile(`\.Properties\.OutlineLevel$`),
		func(o ops.Op) bool { return o.K == "outline" || (o.K == "pformat" && oi(o, 5) >= 0 && oi(o, 5) <= 8) }},
	{"snapToGrid", wKidOf("snapToGrid", "pPr"), regexp.MustCompile(`\.Properties\.SnapToGrid$`),
		func(o ops.Op) bool {
			return (o.K == "snap" && !ob(o, 0)) || (o.K == "pformat" && ob(o, 4) && !ob(o, 5))
		}},
	{"pBdr", wKidOf("pBdr", "pPr"), regexp.MustCompile(`\.Properties\.ParagraphBorder$`),
		func(o ops.Op) bool {
			return o.K == "hrule" || ((o.K == "pborder" || o.K == "pborder4" || o.K == "cellpborder4") && (ob(o, 0) || ob(o, 1) || ob(o, 2) || ob(o, 3)))
		}},
	{"runBreak", wKidOf("br", "r"), regexp.MustCompile(`\.Runs\[\d+\]\.Break$`),
		func(o ops.Op) bool { return o.K == "pagebreak" || o.K == "ppagebreak" }},
	{"bookmark", func(n *canon.Node) bool {
		return (n.Is(canon.W, "bookmarkStart") || n.Is(canon.W, "bookmarkEnd")) && n.Parent.Is(canon.W, "body")
	}, regexp.MustCompile(`^body-level:bookmark$`),
		// AddHeadingWithBookmark (headingbm2) appends a w:bookmarkEnd whatever the name is
		func(o ops.Op) bool { return o.K == "headingbm2" || (o.K == "headingbm" && os_(o, 1) != "") }},
	{"nestedTable", wKidOf("tbl", "tc"), regexp.MustCompile(`\.Cells\[\d+\]\.Tables($|\[)`),
		func(o ops.Op) bool { return o.K == "nested" || o.K == "nestedh" }},
	{"sdt", wKidOf("sdt", "body"), regexp.MustCompile(`^body-level:sdt$`),
		func(o ops.Op) bool { return o.K == "toc" }},
	{"math", func(n *canon.Node) bool {
		return (n.Is(canon.M, "oMathPara") || n.Is(canon.M, "oMath")) && n.Parent.Is(canon.W, "p")
	}, regexp.MustCompile(`^body-level:math$`),
		func(o ops.Op) bool { return o.K == "math" || o.K == "mathlatex" }},
	{"anchor", func(n *canon.Node) bool {
		return n.Space == canon.WP && anchorKids[n.Local] && n.Parent.Is(canon.WP, "anchor")
	},
		regexp.MustCompile(`\.Drawing\.Anchor\.(SimplePosition|PositionH|PositionV|EffectExtent|WrapTight|WrapThrough|WrapTopAndBottom|CNvGraphicFramePr)$`),
		func(o ops.Op) bool {
			if o.K == "imagefloat" {
				return true
			}
			// ops.imgConfig: mode 0 = nil config (inline); position selector I[1] mod 3: 1,2 = floating
			return (o.K == "image" || o.K == "imagefile") && oi(o, 0) != 0 && ops.In(oi(o, 1), 3) != 0
		}},
	{"picLocks", func(n *canon.Node) bool { return n.Is(canon.A, "picLocks") && n.Parent.Is(canon.PIC, "cNvPicPr") },
		regexp.MustCompile(`\.CNvPicPr\.PicLocks$`),
		func(o ops.Op) bool { return isImageOp(o.K) }},
	{"titlePg", wKidOf("titlePg", "sectPr"), regexp.MustCompile(`\.TitlePage$`),
		func(o ops.Op) bool { return o.K == "difffirst" && ob(o, 0) }},
	{"pgNumType", wKidOf("pgNumType", "sectPr"), regexp.MustCompile(`\.PageNumType$`),
		func(o ops.Op) bool { return isHF(o.K) }},
}

func classOfNode(n *canon.Node) string {
	for i := range classes {
		if classes[i].XML(n) {
			return classes[i].ID
		}
	}
	return ""
}

// classOfPath: the innermost class wins (a lock lost inside a nested table is a picLocks loss).
func classOfPath(p string) string {
	for i := range classes {
		if classes[i].ID != "nestedTable" && classes[i].Mem.MatchString(p) {
			return classes[i].ID
		}
	}
	if classByID("nestedTable").Mem.MatchString(p) {
		return "nestedTable"
	}
	return ""
}

func classByID(id string) *lossClass {
	for i := range classes {
		if classes[i].ID == id {
			return &classes[i]
		}
	}
	return nil
}

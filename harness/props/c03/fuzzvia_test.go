package c03

import (
	"testing"

	"wzverif/internal/kit"
)

// FuzzC03: coverage-guided search over the generator and oracle of TestC03 (thorough tier; see internal/kit/fuzz.go).
func FuzzC03(f *testing.F) { kit.FuzzVia(f, TestC03) }

package c03

// Second source of documents for the stability clause ("further open/save cycles change nothing"): packages
// written by the independent foreign-package generator (internal/foreign), i.e. documents the library did not
// build itself.
//
//	D1 = open(P); B1 = save(D1); D2 = open(B1); B2 = save(D2); D3 = open(B2); B3 = save(D3); ...
//
// The FIRST cycle may normalise a foreign document (what the reader does not model of somebody else's package is
// C04's business, and B1 vs B2 is the loss question RT1 asks of API-built documents), but from B1 on the library
// reads its own output: every further cycle must be a fixpoint. Demanded, for every k >= 2:
//
//	RT3f  canon(Bk.document) == canon(Bk+1.document)   (no mask)
//	      DeepEqualNorm(Dk.Body, Dk+1.Body)             (the two reopened bodies)
//	      the bytes behind every a:blip of Bk == of Bk+1
//
// A package the library refuses to open, or whose first save fails, is discarded (C04/C09 judge that).

import (
	"fmt"
	"sort"
	"strings"

	"github.com/zerx-lab/wordZero/pkg/document"
	"pgregory.net/rapid"

	"wzverif/internal/foreign"
	"wzverif/internal/kit"
)

func genForeignCase(t *rapid.T) Case {
	p := foreign.Gen(t)
	if rapid.SampledFrom([]bool{false, true, false}).Draw(t, "math") {
		foreign.AddMath(t, &p)
	}
	return Case{Foreign: &p, Cycles: rapid.SampledFrom([]int{2, 2, 3, 4}).Draw(t, "cycles"), File: rapid.IntRange(0, 3).Draw(t, "file") == 0}
}

// bodyFeatures: the feature flags that say something about the body (what the cycles have to keep stable)
var bodyFeatures = map[string]bool{foreign.FPicture: true, foreign.FHyperlink: true, foreign.FSmartTag: true, foreign.FIns: true, foreign.FInlineSdt: true,
	foreign.FFldSimple: true, foreign.FDeepNest: true, foreign.FDel: true, foreign.FMultiT: true, foreign.FTabBr: true, foreign.FParaSectPr: true,
	foreign.FBodySectPr: true, foreign.FTable: true, foreign.FNestedTable: true, foreign.FBlockSdt: true, foreign.FMath: true}

func runForeign(c Case) *kit.Result {
	res := &kit.Result{}
	document.VerifResetGlobals()
	dir, _ := mkScratch()
	defer rmScratch(dir)

	p := *c.Foreign
	feats := append(p.Features(), p.MathFeatures()...)
	sort.Strings(feats)
	nBody := 0
	for _, f := range feats {
		res.Label("pkg:" + f)
		if bodyFeatures[f] {
			nBody++
		}
	}
	res.Label("source:foreign")
	cycles := c.Cycles
	if cycles < 2 {
		cycles = 2
	}
	res.Label(fmt.Sprintf("foreign-cycles:%d", cycles))
	if c.File {
		res.Label("via:file")
	} else {
		res.Label("via:memory")
	}
	res.Nontrivial = nBody >= 2
	res.Shape = fmt.Sprintf("foreign|%s|c%d", strings.Join(feats, ","), cycles)

	pb := p.BytesMath()
	var prevDoc *document.Document
	var prevSaved *saved
	raw := pb
	// cycle k: Dk = open(B(k-1)) (B0 = P), Bk = save(Dk)
	for k := 1; k <= cycles+1; k++ {
		var Dk *document.Document
		var err error
		pn, st := kit.Try(func() { Dk, err = reopen(raw, c.File, dir, k) })
		if k == 1 {
			if pn != nil || err != nil || Dk == nil || Dk.Body == nil {
				res.Count("discarded:foreign-open-failed", 1)
				res.Label("discard:foreign-open-failed")
				res.Nontrivial = false
				return res
			}
		} else {
			res.Eval("C03.RT3f")
			if pn != nil || err != nil || Dk == nil || Dk.Body == nil {
				res.Fail("C03.RT3f", "foreign package, cycle %d: the library cannot reopen its own output: %v %v [%s]", k, err, pn, st)
				return res
			}
		}
		var bb []byte
		pn, st = kit.Try(func() { bb, err = Dk.ToBytes() })
		if pn != nil || err != nil {
			if k == 1 {
				res.Count("discarded:foreign-save-failed", 1)
				res.Label("discard:foreign-save-failed")
				res.Nontrivial = false
				return res
			}
			res.Fail("C03.RT3f", "foreign package, cycle %d: saving the reopened document failed: %v %v [%s]", k, err, pn, st)
			return res
		}
		sk, oerr := observe(bb)
		if oerr != nil {
			if k == 1 {
				res.Count("discarded:unreadable-output", 1) // C01/C04 judge this
				res.Label("discard:unreadable-output")
				res.Nontrivial = false
				return res
			}
			res.Fail("C03.RT3f", "foreign package, cycle %d: the saved package is unreadable: %v", k, oerr)
			return res
		}
		if k >= 3 {
			// Dk-1 = open(B(k-2)) and Dk = open(B(k-1)) are both readings of the library's own output
			if ds := DeepDiffNorm(prevDoc.Body.Elements, Dk.Body.Elements, "Body.Elements", 5); len(ds) > 0 {
				res.Fail("C03.RT3f", "foreign package: in-memory body of open(B%d) differs from that of open(B%d): %s: %s", k-1, k-2, ds[0].Path, ds[0].Detail)
			}
			if d := canonDiffNoMask(prevSaved, sk); d != "" {
				res.Fail("C03.RT3f", "foreign package: main part of save %d differs from that of save %d (both written from the library's own output, no mask): %s", k, k-1, d)
			}
			if d := seqDiff(blips(prevSaved, false), blips(sk, false)); d != "" {
				res.Fail("C03.RT3f", "foreign package: pictures of save %d differ from those of save %d: %s", k, k-1, d)
			}
		}
		prevDoc, prevSaved, raw = Dk, sk, bb
	}
	return res
}

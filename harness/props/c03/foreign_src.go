package c03

// Second source of documents for the stability clause ("further open/save cycles change nothing"): packages
// written by the independent foreign-package generator (internal/foreign), i.e. documents the library did not
// build itself.
//
//	D1 = open(P); B1 = save(D1); D2 = open(B1); B2 = save(D2); D3 = open(B2); B3 = save(D3); ...
//
// The FIRST cycle may normalise a foreign document (what the reader does not model of somebody else's package is
// C04's business, and B1 vs B2 is the loss question RT1 asks of API-built documents), but from B1 on the library
// reads its own output: every further cycle must be a fixpoint. Demanded, for every k >= 2:
//
//	RT3f  canon(Bk.document) == canon(Bk+1.document)   (no mask)
//	      DeepEqualNorm(Dk.Body, Dk+1.Body)             (the two reopened bodies)
//	      the bytes behind every a:blip of Bk == of Bk+1
//
// A package the library refuses to open, or whose first save fails, is discarded (C04/C09 judge that).

import (
	"fmt"
	"sort"
	"strings"

	"github.com/zerx-lab/wordZero/pkg/document"
	"pgregory.net/rapid"

	"wzverif/internal/foreign"
	"wzverif/internal/gen"
	"wzverif/internal/kit"
	"wzverif/internal/ops"
)

func genForeignCase(t *rapid.T) Case {
	p := foreign.Gen(t)
	if rapid.SampledFrom([]bool{false, true, false}).Draw(t, "math") {
		foreign.AddMath(t, &p)
	}
	// media numbered past one digit (image9 | image10, image99 | image100, more than 10 / 16 / 32 / 64 media parts)
	if rapid.IntRange(0, 3).Draw(t, "numbered") == 0 {
		foreign.AddNumberedMedia(t, &p)
	}
	c := Case{Foreign: &p, Cycles: rapid.SampledFrom([]int{2, 2, 3, 4}).Draw(t, "cycles"), File: rapid.IntRange(0, 3).Draw(t, "file") == 0,
		SaveAPI: rapid.IntRange(0, 3).Draw(t, "saveapi") == 0}
	// the opened foreign document is edited through the API before its first save (1 case in 3)
	if rapid.IntRange(0, 2).Draw(t, "edit") == 0 {
		im := gen.Image(t, "editimg")
		c.ForeignEdit = &im
	}
	return c
}

// bodyFeatures: the feature flags that say something about the body (what the cycles have to keep stable)
var bodyFeatures = map[string]bool{foreign.FPicture: true, foreign.FHyperlink: true, foreign.FSmartTag: true, foreign.FIns: true, foreign.FInlineSdt: true,
	foreign.FFldSimple: true, foreign.FDeepNest: true, foreign.FDel: true, foreign.FMultiT: true, foreign.FTabBr: true, foreign.FParaSectPr: true,
	foreign.FBodySectPr: true, foreign.FTable: true, foreign.FNestedTable: true, foreign.FBlockSdt: true, foreign.FMath: true}

func runForeign(c Case) *kit.Result {
	res := &kit.Result{}
	document.VerifResetGlobals()
	dir, _ := mkScratch()
	defer rmScratch(dir)

	p := *c.Foreign
	feats := append(p.Features(), p.MathFeatures()...)
	sort.Strings(feats)
	nBody := 0
	for _, f := range feats {
		res.Label("pkg:" + f)
		if bodyFeatures[f] {
			nBody++
		}
	}
	res.Label("source:foreign")
	cycles := c.Cycles
	if cycles < 2 {
		cycles = 2
	}
	res.Label(fmt.Sprintf("foreign-cycles:%d", cycles))
	if c.File {
		res.Label("via:file")
	} else {
		res.Label("via:memory")
	}
	res.Nontrivial = nBody >= 2
	res.Shape = fmt.Sprintf("foreign|%s|c%d", strings.Join(feats, ","), cycles)

	pb := p.BytesMath()
	var prevDoc *document.Document
	var prevSaved *saved
	raw := pb
	// cycle k: Dk = open(B(k-1)) (B0 = P), Bk = save(Dk)
	for k := 1; k <= cycles+1; k++ {
		var Dk *document.Document
		var err error
		pn, st := kit.Try(func() { Dk, err = reopen(raw, c.File, dir, k) })
		if k == 1 {
			if pn != nil || err != nil || Dk == nil || Dk.Body == nil {
				res.Count("discarded:foreign-open-failed", 1)
				res.Label("discard:foreign-open-failed")
				res.Nontrivial = false
				return res
			}
		} else {
			res.Eval("C03.RT3f")
			if pn != nil || err != nil || Dk == nil || Dk.Body == nil {
				res.Fail("C03.RT3f", "foreign package, cycle %d: the library cannot reopen its own output: %v %v [%s]", k, err, pn, st)
				return res
			}
		}
		edited := false
		if k == 1 && c.ForeignEdit != nil {
			// an API edit of the opened foreign document: a paragraph and a picture at the end of the body
			im := *c.ForeignEdit
			if pe, _ := kit.Try(func() {
				Dk.AddParagraph(" added after Open\t")
				_, e := Dk.AddImageFromData(im.Bytes(), im.Name, ops.ImgFormats[im.Fmt], im.W, im.H, nil)
				edited = e == nil
			}); pe != nil {
				res.Count("discarded:foreign-edit-panic", 1)
				res.Label("discard:foreign-edit-panic")
				res.Nontrivial = false
				return res
			}
			res.Label("foreign:edited-after-open")
		}
		var bb []byte
		pn, st = kit.Try(func() { bb, err = saveDoc(Dk, c, dir, fmt.Sprintf("f%d", k)) })
		if pn != nil || err != nil {
			if k == 1 {
				res.Count("discarded:foreign-save-failed", 1)
				res.Label("discard:foreign-save-failed")
				res.Nontrivial = false
				return res
			}
			res.Fail("C03.RT3f", "foreign package, cycle %d: saving the reopened document failed: %v %v [%s]", k, err, pn, st)
			return res
		}
		sk, oerr := observe(bb)
		if oerr != nil {
			if k == 1 {
				res.Count("discarded:unreadable-output", 1) // C01/C04 judge this
				res.Label("discard:unreadable-output")
				res.Nontrivial = false
				return res
			}
			res.Fail("C03.RT3f", "foreign package, cycle %d: the saved package is unreadable: %v", k, oerr)
			return res
		}
		if k == 1 && edited {
			// the picture handed to the API shows exactly once in the saved document, whatever names and ids the foreign
			// package uses for its own media (unless the package happens to hold the very same bytes)
			key, own := blipKey(c.ForeignEdit.Bytes()), false
			for _, m := range p.MediaParts() {
				if blipKey(m.Data) == key {
					own = true
				}
			}
			if !own {
				n := 0
				for _, b := range blips(sk, false) {
					if b == key {
						n++
					}
				}
				res.Eval("C03.RT4")
				if n != 1 {
					res.Fail("C03.RT4", "foreign package edited after Open: the picture added through AddImageFromData (%s) shows %d time(s) in the saved document (expected once; %d drawing(s) in all): a picture of the document resolves to another picture's bytes",
						key, n, len(blips(sk, false)))
				}
			}
		}
		if k >= 3 {
			// Dk-1 = open(B(k-2)) and Dk = open(B(k-1)) are both readings of the library's own output
			if ds := DeepDiffNorm(prevDoc.Body.Elements, Dk.Body.Elements, "Body.Elements", 5); len(ds) > 0 {
				res.Fail("C03.RT3f", "foreign package: in-memory body of open(B%d) differs from that of open(B%d): %s: %s", k-1, k-2, ds[0].Path, ds[0].Detail)
			}
			if d := canonDiffNoMask(prevSaved, sk); d != "" {
				res.Fail("C03.RT3f", "foreign package: main part of save %d differs from that of save %d (both written from the library's own output, no mask): %s", k, k-1, d)
			}
			if d := seqDiff(blips(prevSaved, false), blips(sk, false)); d != "" {
				res.Fail("C03.RT3f", "foreign package: pictures of save %d differ from those of save %d: %s", k, k-1, d)
			}
		}
		prevDoc, prevSaved, raw = Dk, sk, bb
	}
	return res
}

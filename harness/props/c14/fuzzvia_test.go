package c14

import (
	"testing"

	"wzverif/internal/kit"
)

// FuzzC14: coverage-guided search over the generator and oracle of TestC14 (thorough tier; see internal/kit/fuzz.go).
func FuzzC14(f *testing.F) { kit.FuzzVia(f, TestC14) }

package c14

import (
	"fmt"
	"strings"

	"wzverif/internal/kit"
)

const (
	kfCycle = "KF-C14-cycle"
	kfSnap  = "KF-C14-snaptogrid"
)

var findings = []kit.Finding[Case]{
	{
		ID:     kfCycle,
		Clause: "C14.V1.terminates",
		Desc:   "a based-on cycle (self-loop, A<->B, longer) makes GetStyleWithInheritance / ApplyStyleToXML recurse without bound: fatal error: stack overflow kills the process",
		// input class: some queried id whose based-on chain comes back to a style already passed
		Trigger: func(c Case, f kit.Failure) bool {
			reg := modelOf(c)
			if reg == nil {
				return false
			}
			return reachesCycle(c, reg)
		},
	},
	{
		ID:     kfSnap,
		Clause: "C14.V1.snapToGrid",
		Desc:   "snapToGrid is not part of the paragraph-property merge: whenever two styles of a based-on chain both have paragraph properties, the resolved style has no snapToGrid (neither inherited nor the style's own)",
		// input class: the failing query expects a snapToGrid (defined by style D of its chain) and another style of the
		// chain than D has paragraph properties; the resolved style shows none
		Trigger: func(c Case, f kit.Failure) bool {
			if !strings.Contains(f.Detail, ": got none, should be") {
				return false
			}
			var qi int
			if _, err := fmt.Sscanf(f.Detail, "[q=%d ", &qi); err != nil || qi < 0 || qi >= len(c.allQueries()) {
				return false
			}
			reg := modelOf(c)
			if reg == nil {
				return false
			}
			// a query of a later round ("[q=3 r=2 ...") is judged against the registry of that round
			var r int
			if _, err := fmt.Sscanf(f.Detail, "[q=%d r=%d ", &qi, &r); err == nil && r >= 0 && r <= len(c.Edits) {
				regs, _ := reg.rounds(c.Edits)
				reg = regs[r]
			}
			want := reg.resolve(c.allQueries()[qi])
			if want == nil {
				return false
			}
			d, ok := want.From["snapToGrid"]
			if !ok {
				return false
			}
			for k, id := range want.Chain {
				if k != d && reg[id].HasPPr {
					return true
				}
			}
			return false
		},
	},
}

package c14

// Case data, the builders that turn a case into library values, the observers that turn library
// values into comparable strings, and the reference resolver. Nothing in this file calls the
// resolution / merge / clone code under test.

import (
	"fmt"
	"reflect"
	"sort"
	"strconv"
	"strings"
	"sync"

	"github.com/zerx-lab/wordZero/pkg/style"
)

// StyleDef is one generated style. The values of its formatting elements are a function of Idx,
// so that a resolved element tells which style it was taken from.
type StyleDef struct {
	ID      string   `json:"id"`
	Idx     int      `json:"idx"` // value code (0..11), distinct per style of a case
	Type    string   `json:"type"`
	BasedOn string   `json:"based_on,omitempty"` // "" = no w:basedOn
	Elems   []string `json:"elems"`              // subset of ElemNames
	// Attrs: for the elements that have several attributes (MultiAttr), which of them this definition populates
	// (bit k = k-th name of MultiAttr[element]); an element without an entry carries the pattern legacyMask derives
	// from Idx (the cases saved before this field existed keep their meaning).
	Attrs  map[string]int `json:"attrs,omitempty"`
	EmptyP bool           `json:"empty_ppr,omitempty"` // paragraph properties present although no paragraph element is set
	EmptyR bool           `json:"empty_rpr,omitempty"`
	Via    string         `json:"via"` // add: literal + AddStyle; custom: CreateCustomStyle then properties; quick: QuickStyleAPI.CreateQuickStyle
	// Vals: the value class of every attribute value of this definition ("" = the plain encoding of Idx); see val.
	// CreateQuickStyle takes numbers and flags only, so a quick definition ignores it.
	Vals string `json:"vals,omitempty"`
	// Extra: the parts of a style definition that are not formatting elements of this property (w:next, w:default, a
	// missing w:name, a built-in style, table / row / cell property blocks, an explicit empty w:basedOn); they take part
	// in purity and clone independence. Ignored by CreateQuickStyle.
	Extra *StyleExtra `json:"extra,omitempty"`
}

// StyleExtra: see StyleDef.Extra.
type StyleExtra struct {
	Next         string `json:"next,omitempty"`
	Default      bool   `json:"default,omitempty"`
	NoName       bool   `json:"no_name,omitempty"`
	Builtin      bool   `json:"builtin,omitempty"`        // no w:customStyle
	EmptyBasedOn bool   `json:"empty_based_on,omitempty"` // <w:basedOn w:val=""/> on a style that names no parent
	// Tbl: table properties. bit 0 w:tblInd, bits 1-6 the six w:tblBorders sides, bits 7-10 the four w:tblCellMar
	// sides, bit 11 a w:tblPr element although nothing else is set.
	Tbl  int  `json:"tbl,omitempty"`
	TrPr bool `json:"trpr,omitempty"` // an (empty) w:trPr block
	TcPr bool `json:"tcpr,omitempty"` // an (empty) w:tcPr block
}

type Case struct {
	Predefined bool       `json:"predefined"` // keep the predefined registry (else it is emptied first)
	Styles     []StyleDef `json:"styles"`     // in registration order
	Queries    []string   `json:"queries"`
	// Edits: changes made to the registry after it has been queried; every query is repeated after every edit (the
	// registry a query sees is the one that is registered at that moment, however it came about)
	Edits []Edit `json:"edits,omitempty"`
	// Load: the registry is first handed a styles part through LoadStylesFromDocument, as Open does (shape as for the xml
	// edits, written from Styles; only drawn on top of the predefined registry). A part that is empty or refused leaves the
	// default styles, which is what the registry held before; see setup.
	Load     string  `json:"load,omitempty"`
	Probes   []Probe `json:"probes,omitempty"`
	Twin     *Twin   `json:"twin,omitempty"`
	Excluded string  `json:"excluded,omitempty"` // generator note: the cyclic graph mode that was drawn but replaced while the cycle finding is open
}

// Edit is one change of the registry between two rounds of queries.
//
//	put:    register Def (AddStyle / CreateCustomStyle / CreateQuickStyle as Def.Via says); an id that is registered is
//	        replaced (CreateQuickStyle refuses a registered id, so Via "quick" acts as "add" there)
//	remove: RemoveStyle(ID)
//	modify: the registered style object (GetStyle) gets the property blocks and the based-on of Def assigned in place,
//	        the way CreateQuickStyle fills the object CreateCustomStyle has registered; no-op for an unregistered id
//	quick-dup: CreateQuickStyle(Def) for an id that is registered: the call is refused and nothing changes (for an id
//	        that is not registered it is an ordinary "put" through CreateQuickStyle)
//	xml-parse / xml-merge: ParseStylesFromXML / MergeStylesFromXML with a styles part written by the harness from Defs in
//	        the flavour Shape. What the call amounts to (refused with an error and nothing changed, or the registry replaced
//	        by / extended with the parsed definitions) is read from the same call on a scratch registry: see xmlOutcome.
type Edit struct {
	Op    string     `json:"op"`
	ID    string     `json:"id,omitempty"`
	Def   *StyleDef  `json:"def,omitempty"`
	Defs  []StyleDef `json:"defs,omitempty"`
	Shape string     `json:"shape,omitempty"`
}

func (e Edit) target() string {
	if e.Def != nil {
		return e.Def.ID
	}
	if e.ID == "" && len(e.Defs) > 0 {
		return e.Defs[0].ID
	}
	return e.ID
}

// targets: every id the edit names.
func (e Edit) targets() []string {
	if len(e.Defs) == 0 {
		return []string{e.target()}
	}
	var out []string
	for _, d := range e.Defs {
		out = append(out, d.ID)
	}
	return out
}

// Probe is a call of one of the read-only entry points of the registry, made in every round just before query number
// At (At = number of queries: after the last one). It takes part in the history; the clauses judge what follows.
type Probe struct {
	At   int    `json:"at"`
	Kind string `json:"kind"` // bytype | headings | all | allinfo | headinginfo | parainfo | charinfo | names | configs | exists | get
	Arg  string `json:"arg,omitempty"`
}

// Twin asks for a second registry that is queried alternately with the first one, query by query, in every round, and
// is never edited: "fresh" = another StyleManager holding the same ids and based-on graph with other values (value codes
// shifted by Shift); "clone" = Clone() of the first registry taken before the first query (its reference is the
// registry as first registered, whatever happens to the source afterwards).
type Twin struct {
	Kind  string `json:"kind"`
	Shift int    `json:"shift,omitempty"`
}

// allQueries: the ids asked in every round: the case's queries and every id an edit names.
func (c Case) allQueries() []string {
	out := append([]string{}, c.Queries...)
	seen := map[string]bool{}
	for _, q := range out {
		seen[q] = true
	}
	for _, e := range c.Edits {
		for _, id := range e.targets() {
			if !seen[id] {
				seen[id] = true
				out = append(out, id)
			}
		}
	}
	return out
}

var ParaElems = []string{"spacing", "indentation", "alignment", "borders", "shading", "keepNext", "keepLines", "pageBreak", "outlineLevel", "snapToGrid"}
var RunElems = []string{"bold", "italic", "underline", "strike", "size", "colour", "font", "highlight"}
var ElemNames = append(append([]string{}, ParaElems...), RunElems...)

// elements CreateQuickStyle can express
var QuickElems = []string{"spacing", "indentation", "alignment", "snapToGrid", "bold", "italic", "underline", "strike", "size", "colour", "font", "highlight"}

func isPara(e string) bool {
	for _, p := range ParaElems {
		if p == e {
			return true
		}
	}
	return false
}

var jcVals = []string{"left", "center", "right", "both", "distribute", "start", "end", "mediumKashida", "highKashida", "lowKashida", "thaiDistribute", "numTab"}
var ulVals = []string{"single", "double", "thick", "dotted", "dash", "dotDash", "dotDotDash", "wave", "words", "dottedHeavy", "dashedHeavy", "wavyDouble"}
var hlVals = []string{"yellow", "green", "cyan", "magenta", "blue", "red", "darkBlue", "darkCyan", "darkGreen", "darkMagenta", "darkRed", "darkYellow"}

func (d StyleDef) has(e string) bool {
	for _, x := range d.Elems {
		if x == e {
			return true
		}
	}
	return false
}

func (d StyleDef) hasAnyPara() bool {
	for _, x := range d.Elems {
		if isPara(x) {
			return true
		}
	}
	return false
}

func (d StyleDef) hasAnyRun() bool {
	for _, x := range d.Elems {
		if !isPara(x) {
			return true
		}
	}
	return false
}

// MultiAttr names, per element with more than one attribute (or one optional attribute), the attributes a definition
// may or may not populate. For borders the first four are the sides present and the last four the attributes every
// present side populates. For underline and snapToGrid (one optional attribute) the second bit means "the bare element".
var MultiAttr = map[string][]string{
	"spacing":     {"before", "after", "line", "lineRule"},
	"indentation": {"firstLine", "left", "right"},
	"borders":     {"top", "left", "bottom", "right", "val", "color", "sz", "space"},
	"shading":     {"fill", "val"},
	"font":        {"ascii", "eastAsia", "hAnsi", "cs"},
	"underline":   {"val", "bare"},
	"snapToGrid":  {"val", "bare"},
}

// MultiElems in a fixed order (labels and generator draws must not depend on map iteration).
var MultiElems = []string{"spacing", "indentation", "borders", "shading", "font", "underline", "snapToGrid"}

// fullMask: every attribute populated.
func fullMask(e string) int {
	switch e {
	case "underline", "snapToGrid":
		return 1
	}
	return 1<<len(MultiAttr[e]) - 1
}

// legacyMask is the attribute pattern the definitions had before Attrs existed (a function of the value code).
func legacyMask(e string, i int) int {
	m := 0
	bit := func(k int, on bool) {
		if on {
			m |= 1 << k
		}
	}
	switch e {
	case "spacing":
		bit(0, true)
		bit(1, i%2 == 0)
		bit(2, i%3 == 0)
		bit(3, i%3 == 0)
	case "indentation":
		bit(0, i%2 == 1)
		bit(1, true)
		bit(2, i%3 == 1)
	case "borders":
		bit(0, true)
		bit(1, i&1 != 0)
		bit(2, i&2 != 0)
		bit(3, i&4 != 0)
		m |= 0xF0
	case "font":
		bit(0, true)
		bit(1, i%2 == 0)
		bit(2, i%3 == 0)
		bit(3, i%3 == 0)
	default:
		m = fullMask(e)
	}
	return m
}

// mask gives the attribute set of element e in this definition, normalised to a usable one.
func (d StyleDef) mask(e string) int {
	m, ok := d.Attrs[e]
	if !ok {
		return legacyMask(e, d.Idx)
	}
	if m&emptyElem != 0 && canBeEmpty[e] && d.Via != "quick" {
		return 0 // the element without any attribute (w:pBdr: without any side)
	}
	switch e {
	case "underline", "snapToGrid":
		if m&1 != 0 {
			return 1
		}
		return 2
	case "borders":
		m &= 0xFF
		if m&0x0F == 0 {
			m |= 0x01
		}
		if m&0xF0 == 0 {
			m |= 0xF0
		}
		return m
	}
	m &= fullMask(e)
	if m == 0 {
		m = fullMask(e)
	}
	return m
}

// emptyElem in Attrs[e]: the element is present and populates nothing (<w:spacing/>, <w:ind/>, <w:rFonts/>, <w:pBdr/>: all
// their attributes / children are optional in the schema).
const emptyElem = 0x100

var canBeEmpty = map[string]bool{"spacing": true, "indentation": true, "font": true, "borders": true}

// val turns the plain encoding enc of an attribute value into the value class of the definition. typ: num (a number),
// hex (a colour), enum (a token), name / name1 (free text; name1 = the one slot that the class "long" makes long);
// def = the value the schema (or the application) assumes when the attribute is absent.
func (d StyleDef) val(typ, enc, def string) string {
	if d.Via == "quick" {
		return enc
	}
	switch d.Vals {
	case "default":
		return def
	case "zero":
		switch typ {
		case "num":
			return "0"
		case "hex":
			return "000000"
		}
	case "neg":
		if typ == "num" {
			return "-" + enc
		}
	case "frac":
		if typ == "num" {
			return enc + ".5"
		}
	case "pad": // leading / trailing blank, TAB, newline
		if d.Idx%2 == 0 {
			return " " + enc + " "
		}
		return "\t" + enc + "\n"
	case "upper": // differs only in case from the plain encoding another style may carry
		return strings.ToUpper(enc)
	case "astral":
		if typ == "name" || typ == "name1" {
			return "𝔘" + enc + "😀"
		}
	case "long": // one value longer than 64 KiB
		if typ == "name1" {
			return strings.Repeat("长x", 17000) + enc
		}
	}
	return enc
}

var (
	lineRules = []string{"auto", "exact", "atLeast"}
	bdrVals   = []string{"single", "double", "dashed", "dotted"}
	shdVals   = []string{"clear", "solid", "pct10"}
)

// pick returns v when bit k of m is set, "" otherwise.
func pick(m, k int, v string) string {
	if m&(1<<k) != 0 {
		return v
	}
	return ""
}

// line builds one border side; i encodes the defining style and the side, am (4 bits) the populated attributes.
func (d StyleDef) line(i, am int) *style.ParagraphBorderLine {
	return &style.ParagraphBorderLine{
		Val:   pick(am, 0, d.val("enum", bdrVals[(i/16)%len(bdrVals)], "none")),
		Color: pick(am, 1, d.val("hex", fmt.Sprintf("00%02X00", i), "auto")),
		Sz:    pick(am, 2, d.val("num", fmt.Sprint(4+i), "0")),
		Space: pick(am, 3, d.val("num", fmt.Sprint(1+i%16), "0")),
	}
}

// props builds the property blocks of a definition (fresh values on every call). Every populated attribute value is a
// function of Idx, so a resolved attribute tells which style it came from.
func (d StyleDef) props() (*style.ParagraphProperties, *style.RunProperties) {
	i := d.Idx
	var p *style.ParagraphProperties
	var r *style.RunProperties
	if d.hasAnyPara() || d.EmptyP {
		p = &style.ParagraphProperties{}
	}
	if d.hasAnyRun() || d.EmptyR {
		r = &style.RunProperties{}
	}
	for _, e := range d.Elems {
		m := d.mask(e)
		switch e {
		case "spacing":
			p.Spacing = &style.Spacing{
				Before:   pick(m, 0, d.val("num", fmt.Sprint(100+i), "0")),
				After:    pick(m, 1, d.val("num", fmt.Sprint(200+i), "0")),
				Line:     pick(m, 2, d.val("num", fmt.Sprint(240+i), "240")),
				LineRule: pick(m, 3, d.val("enum", lineRules[i%len(lineRules)], "auto")),
			}
		case "indentation":
			p.Indentation = &style.Indentation{
				FirstLine: pick(m, 0, d.val("num", fmt.Sprint(300+i), "0")),
				Left:      pick(m, 1, d.val("num", fmt.Sprint(400+i), "0")),
				Right:     pick(m, 2, d.val("num", fmt.Sprint(500+i), "0")),
			}
		case "alignment":
			p.Justification = &style.Justification{Val: d.val("enum", jcVals[i%len(jcVals)], "left")}
		case "borders":
			b := &style.ParagraphBorder{}
			am := m >> 4
			if m&1 != 0 {
				b.Top = d.line(i, am)
			}
			if m&2 != 0 {
				b.Left = d.line(i+16, am)
			}
			if m&4 != 0 {
				b.Bottom = d.line(i+32, am)
			}
			if m&8 != 0 {
				b.Right = d.line(i+48, am)
			}
			p.ParagraphBorder = b
		case "shading":
			p.Shading = &style.Shading{Fill: pick(m, 0, d.val("hex", fmt.Sprintf("%02XEEEE", i), "auto")), Val: pick(m, 1, d.val("enum", shdVals[i%len(shdVals)], "clear"))}
		case "keepNext":
			p.KeepNext = &style.KeepNext{}
		case "keepLines":
			p.KeepLines = &style.KeepLines{}
		case "pageBreak":
			p.PageBreak = &style.PageBreak{}
		case "outlineLevel":
			p.OutlineLevel = &style.OutlineLevel{Val: d.val("num", fmt.Sprint(i%10), "9")}
		case "snapToGrid":
			p.SnapToGrid = &style.SnapToGrid{Val: pick(m, 0, d.val("num", fmt.Sprint(i%2), "1"))}
		case "bold":
			r.Bold = &style.Bold{}
		case "italic":
			r.Italic = &style.Italic{}
		case "underline":
			r.Underline = &style.Underline{Val: pick(m, 0, d.val("enum", ulVals[i%len(ulVals)], "none"))}
		case "strike":
			r.Strike = &style.Strike{}
		case "size":
			r.FontSize = &style.FontSize{Val: d.val("num", fmt.Sprint(20+2*i), "20")}
		case "colour":
			r.Color = &style.Color{Val: d.val("hex", fmt.Sprintf("0000%02X", i), "auto")}
		case "font":
			r.FontFamily = &style.FontFamily{
				ASCII:    pick(m, 0, d.val("name1", fmt.Sprintf("Font%d", i), "Times New Roman")),
				EastAsia: pick(m, 1, d.val("name", fmt.Sprintf("東%d", i), "Times New Roman")),
				HAnsi:    pick(m, 2, d.val("name", fmt.Sprintf("H%d", i), "Times New Roman")),
				CS:       pick(m, 3, d.val("name", fmt.Sprintf("C%d", i), "Times New Roman")),
			}
		case "highlight":
			r.Highlight = &style.Highlight{Val: d.val("enum", hlVals[i%len(hlVals)], "none")}
		}
	}
	return p, r
}

// literal builds the complete definition as a struct literal (the README's "advanced custom style" path).
func (d StyleDef) literal() *style.Style {
	s := &style.Style{Type: d.Type, StyleID: d.ID, CustomStyle: true, Name: &style.StyleName{Val: "name of " + d.ID}}
	if d.BasedOn != "" {
		s.BasedOn = &style.BasedOn{Val: d.BasedOn}
	}
	s.ParagraphPr, s.RunPr = d.props()
	d.applyExtra(s)
	return s
}

// quickConfig expresses the definition through QuickStyleConfig (only QuickElems are expressible).
func (d StyleDef) quickConfig() style.QuickStyleConfig {
	i := d.Idx
	cfg := style.QuickStyleConfig{ID: d.ID, Name: "name of " + d.ID, Type: style.StyleType(d.Type), BasedOn: d.BasedOn}
	if d.hasAnyPara() || d.EmptyP {
		cfg.ParagraphConfig = &style.QuickParagraphConfig{}
	}
	if d.hasAnyRun() || d.EmptyR {
		cfg.RunConfig = &style.QuickRunConfig{}
	}
	for _, e := range d.Elems {
		switch e {
		case "spacing":
			if m, drawn := d.Attrs[e]; drawn && m&15 != 0 {
				// the drawn attribute set, as far as the configuration can say it (a line spacing always brings its rule)
				if m&1 != 0 {
					cfg.ParagraphConfig.SpaceBefore = 1 + i
				}
				if m&2 != 0 {
					cfg.ParagraphConfig.SpaceAfter = 21 + i
				}
				if m&12 != 0 {
					cfg.ParagraphConfig.LineSpacing = 1 + float64(i)/4
				}
				break
			}
			cfg.ParagraphConfig.SpaceBefore = 1 + i
			if i%2 == 0 {
				cfg.ParagraphConfig.LineSpacing = 1 + float64(i)/4
			}
		case "indentation":
			if m, drawn := d.Attrs[e]; drawn && m&7 != 0 {
				if m&1 != 0 {
					cfg.ParagraphConfig.FirstLineIndent = 41 + i
				}
				if m&2 != 0 {
					cfg.ParagraphConfig.LeftIndent = 1 + i
				}
				if m&4 != 0 {
					cfg.ParagraphConfig.RightIndent = 61 + i
				}
				break
			}
			cfg.ParagraphConfig.LeftIndent = 1 + i
		case "alignment":
			cfg.ParagraphConfig.Alignment = jcVals[i%len(jcVals)]
		case "snapToGrid":
			f := false
			cfg.ParagraphConfig.SnapToGrid = &f
		case "bold":
			cfg.RunConfig.Bold = true
		case "italic":
			cfg.RunConfig.Italic = true
		case "underline":
			cfg.RunConfig.Underline = true
		case "strike":
			cfg.RunConfig.Strike = true
		case "size":
			cfg.RunConfig.FontSize = 8 + i
		case "colour":
			cfg.RunConfig.FontColor = fmt.Sprintf("0000%02X", i)
		case "font":
			cfg.RunConfig.FontName = fmt.Sprintf("Font%d", i)
		case "highlight":
			cfg.RunConfig.Highlight = hlVals[i%len(hlVals)]
		}
	}
	return cfg
}

// ---------------------------------------------------------------------------------------------
// observers

type fieldInfo struct {
	idx  int
	name string
}

var fieldCache sync.Map // reflect.Type -> []fieldInfo (XMLName left out)

func fieldsOf(t reflect.Type) []fieldInfo {
	if f, ok := fieldCache.Load(t); ok {
		return f.([]fieldInfo)
	}
	var out []fieldInfo
	for i := 0; i < t.NumField(); i++ {
		if n := t.Field(i).Name; n != "XMLName" {
			out = append(out, fieldInfo{i, n})
		}
	}
	fieldCache.Store(t, out)
	return out
}

// render gives a canonical text of a value: XMLName fields are ignored, nil pointers are "nil".
func render(v reflect.Value, sb *strings.Builder) {
	switch v.Kind() {
	case reflect.Ptr, reflect.Interface:
		if v.IsNil() {
			sb.WriteString("nil")
			return
		}
		sb.WriteByte('&')
		render(v.Elem(), sb)
	case reflect.Struct:
		sb.WriteByte('{')
		for _, f := range fieldsOf(v.Type()) {
			sb.WriteString(f.name)
			sb.WriteByte(':')
			render(v.Field(f.idx), sb)
			sb.WriteByte(' ')
		}
		sb.WriteByte('}')
	case reflect.String:
		sb.WriteString(strconv.Quote(v.String()))
	case reflect.Bool:
		sb.WriteString(strconv.FormatBool(v.Bool()))
	case reflect.Slice, reflect.Array:
		sb.WriteByte('[')
		for i := 0; i < v.Len(); i++ {
			render(v.Index(i), sb)
			sb.WriteByte(' ')
		}
		sb.WriteByte(']')
	case reflect.Map:
		keys := v.MapKeys()
		sort.Slice(keys, func(a, b int) bool { return fmt.Sprint(keys[a]) < fmt.Sprint(keys[b]) })
		sb.WriteString("map[")
		for _, k := range keys {
			fmt.Fprintf(sb, "%v=", k)
			render(v.MapIndex(k), sb)
			sb.WriteByte(' ')
		}
		sb.WriteByte(']')
	default:
		fmt.Fprintf(sb, "%v", v)
	}
}

func Render(x interface{}) string {
	var sb strings.Builder
	render(reflect.ValueOf(x), &sb)
	return sb.String()
}

func put(m map[string]string, name string, ptr interface{}) {
	v := reflect.ValueOf(ptr)
	if v.Kind() == reflect.Ptr && !v.IsNil() {
		m[name] = Render(v.Elem().Interface())
	}
}

// Observe lists the formatting elements a style value carries (element name -> canonical value).
func Observe(s *style.Style) map[string]string {
	m := map[string]string{}
	if s == nil {
		return m
	}
	if p := s.ParagraphPr; p != nil {
		put(m, "spacing", p.Spacing)
		put(m, "indentation", p.Indentation)
		put(m, "alignment", p.Justification)
		put(m, "borders", p.ParagraphBorder)
		put(m, "shading", p.Shading)
		put(m, "keepNext", p.KeepNext)
		put(m, "keepLines", p.KeepLines)
		put(m, "pageBreak", p.PageBreak)
		put(m, "outlineLevel", p.OutlineLevel)
		put(m, "snapToGrid", p.SnapToGrid)
	}
	if r := s.RunPr; r != nil {
		put(m, "bold", r.Bold)
		put(m, "italic", r.Italic)
		put(m, "underline", r.Underline)
		put(m, "strike", r.Strike)
		put(m, "size", r.FontSize)
		put(m, "colour", r.Color)
		put(m, "font", r.FontFamily)
		put(m, "highlight", r.Highlight)
	}
	return m
}

// elemOf gives the pointer a style value holds for a formatting element (an invalid or nil Value when it has none).
func elemOf(s *style.Style, e string) reflect.Value {
	if s == nil {
		return reflect.Value{}
	}
	if isPara(e) {
		p := s.ParagraphPr
		if p == nil {
			return reflect.Value{}
		}
		switch e {
		case "spacing":
			return reflect.ValueOf(p.Spacing)
		case "indentation":
			return reflect.ValueOf(p.Indentation)
		case "alignment":
			return reflect.ValueOf(p.Justification)
		case "borders":
			return reflect.ValueOf(p.ParagraphBorder)
		case "shading":
			return reflect.ValueOf(p.Shading)
		case "keepNext":
			return reflect.ValueOf(p.KeepNext)
		case "keepLines":
			return reflect.ValueOf(p.KeepLines)
		case "pageBreak":
			return reflect.ValueOf(p.PageBreak)
		case "outlineLevel":
			return reflect.ValueOf(p.OutlineLevel)
		case "snapToGrid":
			return reflect.ValueOf(p.SnapToGrid)
		}
		return reflect.Value{}
	}
	r := s.RunPr
	if r == nil {
		return reflect.Value{}
	}
	switch e {
	case "bold":
		return reflect.ValueOf(r.Bold)
	case "italic":
		return reflect.ValueOf(r.Italic)
	case "underline":
		return reflect.ValueOf(r.Underline)
	case "strike":
		return reflect.ValueOf(r.Strike)
	case "size":
		return reflect.ValueOf(r.FontSize)
	case "colour":
		return reflect.ValueOf(r.Color)
	case "font":
		return reflect.ValueOf(r.FontFamily)
	case "highlight":
		return reflect.ValueOf(r.Highlight)
	}
	return reflect.Value{}
}

// fieldDiff walks two values of one type in step and lists every leaf where they differ ("path: a vs b"); nothing is
// skipped except, when xmlNames is false, the XMLName bookkeeping fields. It stops after max entries.
func fieldDiff(a, b reflect.Value, path string, xmlNames bool, out *[]string, max int) {
	if len(*out) >= max {
		return
	}
	add := func(f string, x ...interface{}) { *out = append(*out, path+": "+fmt.Sprintf(f, x...)) }
	if a.IsValid() != b.IsValid() {
		add("present on one side only")
		return
	}
	if !a.IsValid() {
		return
	}
	if a.Type() != b.Type() {
		add("type %s vs %s", a.Type(), b.Type())
		return
	}
	switch a.Kind() {
	case reflect.Ptr, reflect.Interface:
		if a.IsNil() || b.IsNil() {
			if a.IsNil() != b.IsNil() {
				x, y := "nil", "nil"
				if !a.IsNil() {
					x = Render(a.Interface())
				}
				if !b.IsNil() {
					y = Render(b.Interface())
				}
				add("%s vs %s", x, y)
			}
			return
		}
		fieldDiff(a.Elem(), b.Elem(), path, xmlNames, out, max)
	case reflect.Struct:
		t := a.Type()
		for i := 0; i < t.NumField(); i++ {
			if t.Field(i).Name == "XMLName" && !xmlNames {
				continue
			}
			fieldDiff(a.Field(i), b.Field(i), path+"."+t.Field(i).Name, xmlNames, out, max)
		}
	case reflect.Slice, reflect.Array:
		if a.Len() != b.Len() {
			add("length %d vs %d", a.Len(), b.Len())
			return
		}
		for i := 0; i < a.Len(); i++ {
			fieldDiff(a.Index(i), b.Index(i), fmt.Sprintf("%s[%d]", path, i), xmlNames, out, max)
		}
	case reflect.Map:
		if a.IsNil() != b.IsNil() || a.Len() != b.Len() {
			add("map of %d (nil=%v) vs map of %d (nil=%v)", a.Len(), a.IsNil(), b.Len(), b.IsNil())
			return
		}
		keys := a.MapKeys()
		sort.Slice(keys, func(x, y int) bool { return fmt.Sprint(keys[x]) < fmt.Sprint(keys[y]) })
		for _, k := range keys {
			bv := b.MapIndex(k)
			if !bv.IsValid() {
				add("key %v on one side only", k)
				continue
			}
			fieldDiff(a.MapIndex(k), bv, fmt.Sprintf("%s[%v]", path, k), xmlNames, out, max)
		}
	case reflect.String:
		if a.String() != b.String() {
			add("%q vs %q", a.String(), b.String())
		}
	case reflect.Bool:
		if a.Bool() != b.Bool() {
			add("%v vs %v", a.Bool(), b.Bool())
		}
	default:
		if x, y := fmt.Sprintf("%#v", a), fmt.Sprintf("%#v", b); x != y {
			add("%s vs %s", x, y)
		}
	}
}

// attrsOf lists the populated attributes of a multi-attribute element of a definition (name -> value; the sides of
// borders are flattened to "top.val" ...). Used for labels and messages only.
func attrsOf(s *style.Style, e string) map[string]string {
	out := map[string]string{}
	set := func(k, v string) {
		if v != "" {
			out[k] = v
		}
	}
	v := elemOf(s, e)
	if !v.IsValid() || v.IsNil() {
		return nil
	}
	switch x := v.Interface().(type) {
	case *style.Spacing:
		set("before", x.Before)
		set("after", x.After)
		set("line", x.Line)
		set("lineRule", x.LineRule)
	case *style.Indentation:
		set("firstLine", x.FirstLine)
		set("left", x.Left)
		set("right", x.Right)
	case *style.ParagraphBorder:
		for _, sd := range []struct {
			n string
			l *style.ParagraphBorderLine
		}{{"top", x.Top}, {"left", x.Left}, {"bottom", x.Bottom}, {"right", x.Right}} {
			if sd.l != nil {
				set(sd.n, "present")
				set(sd.n+".val", sd.l.Val)
				set(sd.n+".color", sd.l.Color)
				set(sd.n+".sz", sd.l.Sz)
				set(sd.n+".space", sd.l.Space)
			}
		}
	case *style.Shading:
		set("fill", x.Fill)
		set("val", x.Val)
	case *style.FontFamily:
		set("ascii", x.ASCII)
		set("eastAsia", x.EastAsia)
		set("hAnsi", x.HAnsi)
		set("cs", x.CS)
	case *style.Underline:
		set("val", x.Val)
	case *style.SnapToGrid:
		set("val", x.Val)
	}
	return out
}

// attrTotal: how many attributes attrsOf can report for a fully populated element.
var attrTotal = map[string]int{"spacing": 4, "indentation": 3, "borders": 20, "shading": 2, "font": 4, "underline": 1, "snapToGrid": 1}

// pointers collects the addresses of everything reachable from v through pointers (zero-size targets skipped).
// Paths are recorded only when withPaths is set (the second, explaining pass).
func pointers(v reflect.Value, out map[uintptr]string, path string, withPaths bool) {
	sub := func(p, f string) string {
		if withPaths {
			return p + f
		}
		return ""
	}
	switch v.Kind() {
	case reflect.Ptr:
		if v.IsNil() {
			return
		}
		if v.Type().Elem().Size() > 0 {
			if _, seen := out[v.Pointer()]; seen {
				return
			}
			out[v.Pointer()] = path
		}
		pointers(v.Elem(), out, path, withPaths)
	case reflect.Interface:
		if !v.IsNil() {
			pointers(v.Elem(), out, path, withPaths)
		}
	case reflect.Struct:
		for _, f := range fieldsOf(v.Type()) {
			pointers(v.Field(f.idx), out, sub(path, "."+f.name), withPaths)
		}
	case reflect.Slice:
		if v.IsNil() {
			return
		}
		if v.Len() > 0 {
			out[v.Pointer()] = sub(path, "[]")
		}
		for i := 0; i < v.Len(); i++ {
			pointers(v.Index(i), out, sub(path, "[i]"), withPaths)
		}
	case reflect.Map:
		if v.IsNil() {
			return
		}
		out[v.Pointer()] = sub(path, "{}")
		for _, k := range v.MapKeys() {
			pointers(v.MapIndex(k), out, sub(path, "[k]"), withPaths)
		}
	}
}

// deepCopy copies a value with everything reachable from it.
func deepCopy(v reflect.Value) reflect.Value {
	switch v.Kind() {
	case reflect.Ptr:
		if v.IsNil() {
			return reflect.Zero(v.Type())
		}
		n := reflect.New(v.Type().Elem())
		n.Elem().Set(deepCopy(v.Elem()))
		return n
	case reflect.Struct:
		n := reflect.New(v.Type()).Elem()
		for i := 0; i < v.NumField(); i++ {
			if n.Field(i).CanSet() {
				n.Field(i).Set(deepCopy(v.Field(i)))
			}
		}
		return n
	case reflect.Slice:
		if v.IsNil() {
			return reflect.Zero(v.Type())
		}
		n := reflect.MakeSlice(v.Type(), v.Len(), v.Len())
		for i := 0; i < v.Len(); i++ {
			n.Index(i).Set(deepCopy(v.Index(i)))
		}
		return n
	case reflect.Map:
		if v.IsNil() {
			return reflect.Zero(v.Type())
		}
		n := reflect.MakeMapWithSize(v.Type(), v.Len())
		for _, k := range v.MapKeys() {
			n.SetMapIndex(k, deepCopy(v.MapIndex(k)))
		}
		return n
	case reflect.Interface:
		if v.IsNil() {
			return reflect.Zero(v.Type())
		}
		n := reflect.New(v.Type()).Elem()
		n.Set(deepCopy(v.Elem()))
		return n
	default:
		return v
	}
}

// mutate changes every settable string and bool reachable from v.
func mutate(v reflect.Value, seen map[uintptr]bool) {
	switch v.Kind() {
	case reflect.Ptr:
		if v.IsNil() || seen[v.Pointer()] {
			return
		}
		seen[v.Pointer()] = true
		mutate(v.Elem(), seen)
	case reflect.Struct:
		for i := 0; i < v.NumField(); i++ {
			mutate(v.Field(i), seen)
		}
	case reflect.String:
		if v.CanSet() {
			v.SetString(v.String() + "~mutated")
		}
	case reflect.Bool:
		if v.CanSet() {
			v.SetBool(!v.Bool())
		}
	}
}

// ---------------------------------------------------------------------------------------------
// reference model

type mStyle struct {
	ID      string
	Type    string
	BasedOn string // "" none
	HasPPr  bool
	Elems   map[string]string
	Def     *style.Style // private copy of the definition
}

type registry map[string]*mStyle

// snapshotStyle reads a definition (not a resolution) into the model.
func snapshotStyle(s *style.Style) *mStyle {
	s = deepCopy(reflect.ValueOf(s)).Interface().(*style.Style)
	m := &mStyle{ID: s.StyleID, Type: s.Type, HasPPr: s.ParagraphPr != nil, Elems: Observe(s), Def: s}
	if s.BasedOn != nil {
		m.BasedOn = s.BasedOn.Val
	}
	return m
}

type resolved struct {
	Elems map[string]string       // element -> expected value
	Src   map[string]*style.Style // element -> (copy of) the defining style
	From  map[string]int          // element -> depth of the defining style on the chain (0 = the style itself)
	Chain []string                // ids visited, nearest first
	End   string                  // "root" | "missing" | "cycle"
}

// resolve is the reference: walk basedOn with a visited set; per element the first definition met.
func (reg registry) resolve(id string) *resolved {
	cur, ok := reg[id]
	if !ok {
		return nil
	}
	r := &resolved{Elems: map[string]string{}, From: map[string]int{}, Src: map[string]*style.Style{}}
	visited := map[string]bool{}
	for depth := 0; ; depth++ {
		visited[cur.ID] = true
		r.Chain = append(r.Chain, cur.ID)
		for _, e := range ElemNames {
			if v, has := cur.Elems[e]; has {
				if _, already := r.Elems[e]; !already {
					r.Elems[e] = v
					r.From[e] = depth
					r.Src[e] = cur.Def
				}
			}
		}
		if cur.BasedOn == "" {
			r.End = "root"
			return r
		}
		next, ok := reg[cur.BasedOn]
		if !ok {
			r.End = "missing"
			return r
		}
		if visited[next.ID] {
			r.End = "cycle"
			return r
		}
		cur = next
	}
}

// clone gives a registry that can be edited without touching reg (the entries themselves are never written to).
func (reg registry) clone() registry {
	out := make(registry, len(reg))
	for k, v := range reg {
		out[k] = v
	}
	return out
}

// applyModel makes the edit in the reference registry and says what it amounted to there:
// replace | add | remove | remove-absent | modify | modify-absent | refused | xml-refused | xml-parse | xml-merge.
func (reg registry) applyModel(e Edit) string {
	switch e.Op {
	case "remove":
		if _, had := reg[e.ID]; !had {
			return "remove-absent"
		}
		delete(reg, e.ID)
		return "remove"
	case "xml-parse", "xml-merge":
		parsed, ok := xmlOutcome(e)
		if !ok {
			return "xml-refused"
		}
		if e.Op == "xml-parse" {
			for id := range reg {
				delete(reg, id)
			}
		}
		for _, st := range parsed {
			if _, had := reg[st.StyleID]; !had {
				reg[st.StyleID] = snapshotStyle(st)
			}
		}
		return e.Op
	case "put", "quick-dup":
		d := *e.Def
		_, had := reg[d.ID]
		if e.Op == "quick-dup" {
			if had {
				return "refused" // CreateQuickStyle checks the id first and returns an error for a registered one
			}
			d.Via = "quick"
		}
		if d.Via == "quick" && !had {
			// the model takes a quick definition as CreateQuickStyle creates it (definitions are inputs of this property)
			reg[d.ID] = snapshotStyle(quickDef(d))
		} else {
			reg[d.ID] = snapshotStyle(d.literal())
		}
		if had {
			return "replace"
		}
		return "add"
	case "modify":
		d := *e.Def
		old, had := reg[d.ID]
		if !had {
			return "modify-absent"
		}
		nd := deepCopy(reflect.ValueOf(old.Def)).Interface().(*style.Style)
		nd.ParagraphPr, nd.RunPr = d.props()
		nd.BasedOn = nil
		if d.BasedOn != "" {
			nd.BasedOn = &style.BasedOn{Val: d.BasedOn}
		}
		reg[d.ID] = snapshotStyle(nd)
		return "modify"
	}
	return "noop"
}

var quickScratch *style.StyleManager

// quickDef: the definition CreateQuickStyle creates for d, made in a scratch registry of its own (the literal when the
// call fails there; the real call then fails as well and is reported as a set-up failure).
func quickDef(d StyleDef) *style.Style {
	if quickScratch == nil {
		quickScratch = style.NewStyleManager()
		for _, s := range quickScratch.GetAllStyles() {
			quickScratch.RemoveStyle(s.StyleID)
		}
	}
	st, err := style.NewQuickStyleAPI(quickScratch).CreateQuickStyle(d.quickConfig())
	quickScratch.RemoveStyle(d.ID)
	if err != nil || st == nil {
		return d.literal()
	}
	return st
}

// rounds gives the reference registry of every round: [0] as registered, [k] after the first k edits; kinds[k-1] says
// what edit k amounted to.
func (reg registry) rounds(edits []Edit) (regs []registry, kinds []string) {
	regs = []registry{reg}
	cur := reg
	for _, e := range edits {
		cur = cur.clone()
		kinds = append(kinds, cur.applyModel(e))
		regs = append(regs, cur)
	}
	return
}

// reachesCycle reports whether following basedOn from id comes back to a style already passed.
func (reg registry) reachesCycle(id string) bool {
	r := reg.resolve(id)
	return r != nil && r.End == "cycle"
}

func sortedIDs(reg registry) []string {
	ids := make([]string, 0, len(reg))
	for id := range reg {
		ids = append(ids, id)
	}
	sort.Strings(ids)
	return ids
}

package c14

import (
	"bytes"
	"context"
	"encoding/json"
	"fmt"
	"io"
	"os"
	"os/exec"
	"reflect"
	"runtime/debug"
	"sort"
	"strconv"
	"strings"
	"sync"
	"testing"
	"time"

	"github.com/zerx-lab/wordZero/pkg/document"
	"github.com/zerx-lab/wordZero/pkg/style"
	"pgregory.net/rapid"

	"wzverif/internal/kit"
)

const childEnv = "VERIF_C14_CHILD"

func TestMain(m *testing.M) {
	document.SetGlobalLevel(document.LogLevelSilent)
	if os.Getenv(childEnv) != "" {
		childMain()
		return
	}
	debug.SetGCPercent(400) // many small short-lived values per case; the heap stays small
	kit.TestMain(m, 6500, 120000)
}

func TestC14(t *testing.T) {
	kit.Main(t, kit.Spec[Case]{
		ID:    "C14",
		Level: "exploration",
		Rule: "a case is a style registry (1-10 generated styles, optionally on top of the predefined registry; every style carries a drawn subset of the 18 formatting " +
			"elements with values that encode the defining style, and every element that has several attributes - spacing before/after/line/lineRule, indentation firstLine/left/right, " +
			"border sides and their val/color/sz/space, shading fill/val, font ascii/eastAsia/hAnsi/cs, the optional value of underline and snapToGrid - populates all of them or a drawn " +
			"non-empty subset, independently at every level; based-on edges drawn as chains, trees, diamonds, missing parents, links into the predefined styles and - unless the " +
			"cycle finding is open - self-loops and cycles) plus queried ids (every generated id, predefined ids, unknown ids) plus, in three cases of eight, 1-4 later changes of the " +
			"registry (a style - mostly one that others are based on - is registered again under its id with another definition and now and then another parent, removed, added - also under an id " +
			"that was a missing parent -, or modified in place), every id being resolved again after every change against the registry as it is then. Non-trivial: some query has a based-on chain of length >= 2 " +
			"on which an element is inherited from an ancestor or an ancestor's element is overridden. Distinct: based-on vector + per-query (chain length, chain end, inherited, overridden, " +
			"elements whose nearest definition lacks an attribute a farther one has) + per edit what it amounted to. " +
			"Widened domain: one case in sixteen holds 11-70 styles (mostly one chain, every element defined at one to three places so that nearest definitions lie up to 69 levels away); " +
			"one in eight draws its ids from a pool of ids that are prefixes of one another, differ only in case, padding (blank, TAB, newline) or Unicode composition, are astral, or are the " +
			"ids of the predefined styles (which the generated style then replaces); based-on values and queries that miss a registered id by case / padding / one character; per style now and then a value " +
			"class for every attribute value (the schema default, zero, negative, fractional, padded with blank/TAB/newline, upper case, astral characters, one value longer than 64 KiB), elements present without any attribute " +
			"(w:spacing, w:ind, w:rFonts, w:pBdr), a style type left empty, and parts of a definition outside the 18 elements (w:next, w:default, no w:name, a built-in style, an explicit empty w:basedOn, table / row / cell property blocks); " +
			"edits also through CreateQuickStyle on a registered id (refused) and ParseStylesFromXML / MergeStylesFromXML with a styles part written by the harness (own prefix, another prefix, truncated, empty); " +
			"on the predefined registry, in one case of four, LoadStylesFromDocument is called first with such a styles part (as Open does); " +
			"read-only calls (GetStylesByType, GetHeadingStyles, GetAllStyles, the five StyleInfo listings, GetPredefinedStyleNames/Configs, StyleExists, GetStyle) between the queries of every round; " +
			"in one case of eight a second registry (another manager with the same ids and other values, or a Clone of the first taken before the first query) is queried alternately with the first; " +
			"every id is resolved again on the final Clone, on the source next to it and on the source after the clone has been overwritten.",
		Gen:       genCase,
		Run:       run,
		Findings:  findings,
		CaseLimit: 90 * time.Second,
		Assumptions: []string{
			"style ids are non-empty and distinct; an empty based-on means no parent",
			"formatting elements are inherited whole (a child's w:spacing replaces the parent's w:spacing), as the statement says",
			"in a based-on cycle every member is an ancestor of every other; the walk stops at the first style met twice",
			"the registry a query is answered from is what is registered at the time of the query: AddStyle under a registered id replaces, RemoveStyle makes the id unknown (a missing parent for its children), fields assigned to a registered style object (as CreateQuickStyle does after CreateCustomStyle) belong to its definition",
			"style ids are compared as exact strings: ids that differ in case, padding or Unicode composition are different styles",
			"an element that is present counts as the style's own setting whatever it holds (no attribute at all, a value equal to the schema default, zero, negative)",
			"CreateQuickStyle for a registered id is refused and changes nothing; ParseStylesFromXML / MergeStylesFromXML that return an error change nothing, otherwise the registry is replaced by / extended (absent ids only) with the definitions they parsed (read from the same call on a scratch registry)",
			"the read-only calls of the registry change nothing",
			"LoadStylesFromDocument on a registry that holds the default styles: no data or data it cannot parse leave the default styles (its doc comment); definitions it does parse are taken as loaded",
		},
		MustSee: map[string]float64{
			"depth>=3": 0.15, "depth>=6": 0.02, "missing-parent": 0.05, "inherit:depth>=2": 0.10, "override": 0.20,
			"predefined": 0.15, "into-predefined": 0.05, "via:quick": 0.10, "via:custom": 0.10, "shared-parent": 0.05, "query:unknown": 0.20,
			"partial-element": 0.50, "full-element": 0.50, "bare-element": 0.05,
			"partial:spacing": 0.15, "partial:indentation": 0.15, "partial:borders": 0.15, "partial:shading": 0.10, "partial:font": 0.15,
			"partial-over-ancestor": 0.25, "partial-over-ancestor:spacing": 0.05, "partial-over-ancestor:indentation": 0.05,
			"partial-over-ancestor:borders": 0.05, "partial-over-ancestor:shading": 0.03, "partial-over-ancestor:font": 0.05,
			"partial-over-ancestor:underline": 0.01, "partial-over-ancestor:snapToGrid": 0.01,
			"edit": 0.25, "edit:replace": 0.10, "edit:remove": 0.05, "edit:add": 0.03, "edit:modify": 0.05, "edit:ancestor-of-resolved": 0.12,
			"edit:changes-descendant": 0.08, "edit:far-ancestor-of-resolved": 0.03, "edit:rebase": 0.02, "edit:fills-missing-parent": 0.005,
			"partial-over-full-parent": 0.10, "partial-spacing-over-full-parent": 0.02, "inherit-partial-element": 0.20,
			"styles>=11": 0.03, "styles>=33": 0.01, "styles>=65": 0.003, "depth>=17": 0.01, "depth>=33": 0.004, "depth>=65": 0.001,
			"inherit:depth>=16": 0.008, "inherit:depth>=32": 0.003, "inherit:depth>=64": 0.001, "registered>=65": 0.005,
			"ids:differ-in-case-only": 0.01, "ids:differ-in-padding-only": 0.01, "ids:prefix-of-another": 0.03, "ids:predefined-replaced": 0.005,
			"based-on:near-miss": 0.05, "query:near-miss": 0.03, "vals": 0.15, "vals:default": 0.03, "vals:zero": 0.02, "vals:pad": 0.01, "vals:long": 0.005,
			"empty-element": 0.10, "extra": 0.25, "extra:tblPr": 0.10, "extra:trPr/tcPr": 0.05, "extra:empty-basedOn": 0.01,
			"edit:refused": 0.01, "edit:xml-refused": 0.01, "load": 0.03, "probe": 0.20, "twin:fresh": 0.03, "twin:clone": 0.03,
		},
		Fixed: fixedCases,
	})
}

// ---------------------------------------------------------------------------------------------
// generator

var (
	cycOnce sync.Once
	cycOpen bool
)

// cycleOpen: while the cycle finding is listed open the library dies on cycles, so the generator keeps to acyclic graphs.
func cycleOpen() bool {
	cycOnce.Do(func() {
		cycOpen = kit.OpenFindings("C14")[kfCycle]
		if os.Getenv("VERIF_C14_FORCE_CYCLES") != "" { // building aid: generate cycles although the finding is listed open
			cycOpen = false
		}
	})
	return cycOpen
}

var predefinedIDs = []string{"Normal", "Heading1", "Heading2", "Heading9", "Title", "Subtitle", "Quote", "ListParagraph", "CodeBlock", "Emphasis", "Strong", "CodeChar", "a1", "ab", "12", "13"}

// eighths draws true with probability k/8 (rapid's integer ranges are biased towards small values, SampledFrom over a
// short slice is close to uniform); false first so that shrinking removes.
func eighths(t *rapid.T, label string, k int) bool {
	return rapid.SampledFrom(coins[k]).Draw(t, label)
}

// bigCoin: one case in sixteen
var bigCoin = []bool{false, false, false, false, false, false, false, false, false, false, false, false, false, false, false, true}

var coins = func() [9][]bool {
	var c [9][]bool
	for k := range c {
		c[k] = make([]bool, 8)
		for i := 8 - k; i < 8; i++ {
			c[k][i] = true
		}
	}
	return c
}()

func genCase(t *rapid.T) Case {
	cycles := !cycleOpen()
	c := Case{Predefined: eighths(t, "predefined", 2)}
	n := rapid.SampledFrom([]int{1, 2, 3, 4, 5, 6, 7, 8, 9, 10, 2, 3, 4, 10}).Draw(t, "n")
	mode := rapid.SampledFrom([]string{"chain", "tree", "tree", "mixed", "mixed", "free", "free", "ring"}).Draw(t, "mode")
	// now and then a registry past the usual sizes (more than 10 / 16 / 32 / 64 styles, mostly one long chain)
	big := rapid.SampledFrom(bigCoin).Draw(t, "big")
	breakAt := -1
	if big {
		n = rapid.SampledFrom([]int{11, 12, 16, 17, 20, 32, 33, 40, 64, 65, 65, 70, 70}).Draw(t, "bign")
		mode = rapid.SampledFrom([]string{"chain", "chain", "chain", "chain", "mixed", "ring"}).Draw(t, "bigmode")
		if rapid.Bool().Draw(t, "bigbreak") { // a long chain is broken at most once
			breakAt = rapid.IntRange(1, n-1).Draw(t, "breakat")
		}
	}
	if !cycles && (mode == "free" || mode == "ring") {
		// the cyclic shapes are kept out of the main run while the stack-overflow finding is open (counted in Run)
		c.Excluded = mode
		mode = map[string]string{"free": "mixed", "ring": "chain"}[mode]
	}
	density := rapid.SampledFrom([]int{1, 2, 4, 7}).Draw(t, "density") // eighths
	fancy := eighths(t, "fancy", 2)
	// ids that are prefixes of one another, differ in case / padding / composition only, or are the library's own
	tricky := !fancy && n <= len(trickyIDs) && eighths(t, "tricky", 1)
	ids := make([]string, n)
	for i := range ids {
		ids[i] = fmt.Sprintf("S%d", i)
		if fancy {
			ids[i] = []string{"样式 %d", "my style %d", "a&b<%d>", "%d", "Überschrift-%d"}[i%5]
			ids[i] = fmt.Sprintf(ids[i], i)
		}
	}
	if tricky {
		copy(ids, rapid.Permutation(trickyIDs).Draw(t, "trickyids"))
	}
	defs := make([]StyleDef, n)
	for i := 0; i < n; i++ {
		d := StyleDef{ID: ids[i], Idx: i}
		d.Type = rapid.SampledFrom([]string{"paragraph", "paragraph", "paragraph", "paragraph", "character", "character", "table", "numbering", ""}).Draw(t, "type")
		d.Via = rapid.SampledFrom([]string{"add", "add", "add", "add", "add", "custom", "custom", "custom", "quick", "quick"}).Draw(t, "via")
		// based-on
		kind := "lower"
		switch mode {
		case "chain":
			if (!big && eighths(t, "chainbreak", 1)) || i == breakAt {
				kind = rapid.SampledFrom([]string{"none", "missing", "predef"}).Draw(t, "kind")
			} else {
				kind = "prev"
			}
		case "tree":
			kind = rapid.SampledFrom([]string{"lower", "lower", "lower", "prev", "none", "missing", "predef", "near"}).Draw(t, "kind")
		case "mixed":
			kind = rapid.SampledFrom([]string{"lower", "prev", "prev", "none", "missing", "predef", "zero", "near"}).Draw(t, "kind")
		case "free":
			kind = rapid.SampledFrom([]string{"any", "any", "any", "prev", "self", "none", "missing", "predef", "near"}).Draw(t, "kind")
		case "ring":
			kind = "next"
		}
		switch kind {
		case "prev":
			if i > 0 {
				d.BasedOn = ids[i-1]
			}
		case "lower":
			if i > 0 {
				d.BasedOn = rapid.SampledFrom(ids[:i]).Draw(t, "parent")
			}
		case "zero":
			if i > 0 {
				d.BasedOn = ids[0]
			}
		case "any":
			d.BasedOn = rapid.SampledFrom(ids).Draw(t, "parent")
		case "self":
			d.BasedOn = ids[i]
		case "next":
			d.BasedOn = ids[(i+1)%n]
		case "missing":
			d.BasedOn = rapid.SampledFrom([]string{"NoSuchStyle", "s0", "normal", " ", "S99"}).Draw(t, "missing")
		case "predef":
			// an id of the predefined registry: a real parent when the case keeps that registry, a missing one otherwise
			d.BasedOn = rapid.SampledFrom(predefinedIDs).Draw(t, "predef")
		case "near":
			// almost the id of a generated style (a missing parent, unless the case happens to hold that id as well)
			d.BasedOn = nearMiss(t, rapid.SampledFrom(ids).Draw(t, "nearof"))
			if !cycles {
				for _, id := range ids {
					if id == d.BasedOn {
						d.BasedOn = "NoSuchStyle"
					}
				}
			}
		}
		if !big {
			drawElems(t, &d, density)
		}
		if d.Via != "quick" && eighths(t, "extra", 2) {
			drawExtra(t, &d, ids)
		}
		defs[i] = d
	}
	if big {
		sparseElems(t, defs)
	}
	// registration order is independent of the graph (parents may be registered after their children)
	order := rapid.Permutation(defs).Draw(t, "order")
	if rapid.Bool().Draw(t, "inorder") {
		order = defs
	}
	c.Styles = order
	for _, d := range defs {
		c.Queries = append(c.Queries, d.ID)
	}
	extra := rapid.SampledFrom([]int{0, 1, 2, 3}).Draw(t, "extraq")
	for k := 0; k < extra; k++ {
		if rapid.Bool().Draw(t, "qkind") {
			c.Queries = append(c.Queries, rapid.SampledFrom(predefinedIDs).Draw(t, "qpre"))
		} else {
			c.Queries = append(c.Queries, rapid.SampledFrom([]string{"NoSuchStyle", "", "S10", "heading1", "Normal ", "near"}).Draw(t, "qunk"))
			if k := len(c.Queries) - 1; c.Queries[k] == "near" {
				c.Queries[k] = nearMiss(t, rapid.SampledFrom(ids).Draw(t, "qnearof"))
			}
		}
	}
	if c.Predefined && eighths(t, "load", 2) {
		c.Load = rapid.SampledFrom([]string{"empty", "own", "prefix", "truncated"}).Draw(t, "loadshape")
	}
	if eighths(t, "probes", 3) {
		c.Probes = genProbes(t, len(c.Queries), ids)
	}
	if eighths(t, "twin", 1) {
		c.Twin = &Twin{Kind: rapid.SampledFrom([]string{"fresh", "clone"}).Draw(t, "twinkind"), Shift: 100}
	}
	// the registry changes after it has been queried, and is queried again after every change
	if eighths(t, "edits", 3) {
		c.Edits = genEdits(t, c.Predefined, defs, density, cycles)
		if big && len(c.Edits) > 1 { // a long registry is resolved over again after one edit only
			c.Edits = c.Edits[:1]
		}
	}
	return c
}

// genEdits draws 1-4 changes of a registered registry: a style is registered again under its id (another definition,
// now and then another parent), removed, added (also under an id that so far was somebody's missing parent) or
// modified in place. Targets are mostly styles other styles are based on.
func genEdits(t *rapid.T, predefined bool, defs []StyleDef, density int, cycles bool) []Edit {
	cur := map[string]string{} // id -> based-on of what is registered now, as far as the generator can tell
	var generated []string
	for _, d := range defs {
		cur[d.ID] = d.BasedOn
		generated = append(generated, d.ID)
	}
	if predefined {
		pm := predefinedModel()
		for _, id := range sortedIDs(pm) {
			if _, ok := cur[id]; !ok {
				cur[id] = pm[id].BasedOn
			}
		}
	}
	k := rapid.SampledFrom([]int{1, 1, 2, 2, 3, 4}).Draw(t, "nedits")
	var edits []Edit
	for j := 0; j < k; j++ {
		// candidates: every based-on target named by a generated style three times (registered or not), the generated ids once
		var cand []string
		for _, id := range generated {
			if p, ok := cur[id]; ok && p != "" {
				cand = append(cand, p, p, p)
			}
		}
		cand = append(cand, generated...)
		if predefined {
			cand = append(cand, "Normal", "Heading1")
		}
		id := rapid.SampledFrom(cand).Draw(t, "target")
		_, present := cur[id]
		op := rapid.SampledFrom([]string{"put", "put", "put", "put", "put", "put", "remove", "remove", "remove", "remove", "modify", "modify", "modify", "modify", "quick-dup", "xml"}).Draw(t, "op")
		if op == "xml" {
			// the XML entry points (what they amount to is decided by the call itself, see xmlOutcome; the generator goes on
			// as if nothing had changed)
			e := genXMLEdit(t, generated, len(defs)+j, density)
			if !cycles {
				for k := range e.Defs {
					e.Defs[k].BasedOn = ""
				}
			}
			edits = append(edits, e)
			continue
		}
		if !present && op != "quick-dup" {
			op = "put" // nothing to remove or to modify: the id gets registered
		}
		if op == "remove" {
			edits = append(edits, Edit{Op: "remove", ID: id})
			delete(cur, id)
			continue
		}
		d := StyleDef{ID: id, Idx: len(defs) + j}
		d.Type = rapid.SampledFrom([]string{"paragraph", "paragraph", "paragraph", "character"}).Draw(t, "etype")
		d.Via = "add"
		if op == "put" {
			d.Via = rapid.SampledFrom([]string{"add", "add", "custom", "quick"}).Draw(t, "evia")
			if present && d.Via == "quick" {
				d.Via = "add" // CreateQuickStyle refuses a registered id
			}
		}
		if op == "quick-dup" {
			d.Via = "quick" // on a registered id: refused, nothing changes
		}
		switch rapid.SampledFrom([]string{"keep", "keep", "keep", "keep", "keep", "none", "other", "missing", "predef"}).Draw(t, "ebase") {
		case "keep":
			d.BasedOn = cur[id]
		case "other":
			d.BasedOn = rapid.SampledFrom(generated).Draw(t, "eparent")
		case "missing":
			d.BasedOn = rapid.SampledFrom([]string{"NoSuchStyle", "S99"}).Draw(t, "emissing")
		case "predef":
			d.BasedOn = rapid.SampledFrom(predefinedIDs).Draw(t, "epredef")
		}
		if !cycles {
			// while the cycle finding is open no edit may close a cycle: does the new parent lead back to the style?
			seen := map[string]bool{}
			for p := d.BasedOn; p != "" && !seen[p]; p = cur[p] {
				if p == id {
					d.BasedOn = ""
					break
				}
				seen[p] = true
			}
		}
		drawElems(t, &d, density)
		if d.Via != "quick" && op == "put" && eighths(t, "eextra", 1) {
			drawExtra(t, &d, generated)
		}
		dd := d
		if op == "quick-dup" && present {
			edits = append(edits, Edit{Op: op, Def: &dd})
			continue
		}
		cur[id] = d.BasedOn
		if !present {
			generated = append(generated, id)
		}
		edits = append(edits, Edit{Op: op, Def: &dd})
	}
	return edits
}

// drawElems draws which formatting elements a definition carries and, for the elements that have several attributes,
// which of them it populates.
func drawElems(t *rapid.T, d *StyleDef, density int) {
	pool := ElemNames
	if d.Via == "quick" {
		pool = QuickElems
	}
	for _, e := range pool {
		if eighths(t, e, density) {
			d.Elems = append(d.Elems, e)
		}
	}
	drawAttrs(t, d)
	d.EmptyP = eighths(t, "emptyP", 1)
	d.EmptyR = eighths(t, "emptyR", 1)
	if d.Via != "quick" && eighths(t, "vals", 1) {
		d.Vals = rapid.SampledFrom(valClasses).Draw(t, "valclass")
	}
}

// drawAttrs draws which attributes the multi-attribute elements populate: all of them, a drawn non-empty subset, none at
// all (the bare element, where the schema allows it) or the pattern tied to the value code (no entry). CreateQuickStyle
// can only say it for spacing and indentation.
func drawAttrs(t *rapid.T, d *StyleDef) {
	for _, e := range d.Elems {
		if _, multi := MultiAttr[e]; !multi || (d.Via == "quick" && e != "spacing" && e != "indentation") {
			continue
		}
		m := -1
		switch e {
		case "underline", "snapToGrid":
			m = rapid.SampledFrom([]int{1, 1, 1, 2, -1}).Draw(t, "attrs:"+e)
		case "borders":
			switch rapid.SampledFrom(attrModes).Draw(t, "attrs:"+e) {
			case "full":
				m = 0xFF
			case "subset":
				sides := rapid.SampledFrom(masks4).Draw(t, "sides")
				la := rapid.SampledFrom(append([]int{15, 15, 15, 15}, masks4...)).Draw(t, "lineattrs")
				m = sides | la<<4
			case "empty":
				m = emptyElem
			}
		default:
			switch rapid.SampledFrom(attrModes).Draw(t, "attrs:"+e) {
			case "full":
				m = fullMask(e)
			case "subset":
				m = rapid.SampledFrom(masks4[:fullMask(e)]).Draw(t, "mask")
			case "empty":
				if canBeEmpty[e] && d.Via != "quick" {
					m = emptyElem
				}
			}
		}
		if m >= 0 {
			if d.Attrs == nil {
				d.Attrs = map[string]int{}
			}
			d.Attrs[e] = m
		}
	}
}

var (
	attrModes = []string{"full", "full", "full", "subset", "subset", "subset", "subset", "legacy", "empty"}
	masks4    = []int{1, 2, 3, 4, 5, 6, 7, 8, 9, 10, 11, 12, 13, 14, 15}
)

func fixedCases() []Case {
	if os.Getenv("VERIF_C14_NOFIXED") != "" { // building aid: what does the generator find on its own?
		return nil
	}
	all := ElemNames
	return append(widenedFixed(), []Case{
		// the predefined registry alone
		{Predefined: true, Queries: append(append([]string{}, predefinedIDs...), "Heading3", "nope")},
		// three-level chain, each level defines a third of the elements
		{Styles: []StyleDef{
			{ID: "A", Idx: 0, Type: "paragraph", Elems: all, Via: "add"},
			{ID: "B", Idx: 1, Type: "paragraph", BasedOn: "A", Elems: all[6:12], Via: "custom"},
			{ID: "C", Idx: 2, Type: "paragraph", BasedOn: "B", Elems: all[9:15], Via: "add"},
		}, Queries: []string{"A", "B", "C", "D"}},
		// partially populated elements over fuller ancestors, at three levels: the result is the nearest element as it is
		// (a line height without its rule over a parent that has a rule; one indent over three; one border side with two
		// attributes over four full sides; a fill over fill+pattern; one font slot over four; bare w:u / w:snapToGrid over valued ones)
		{Styles: []StyleDef{
			{ID: "Base", Idx: 1, Type: "paragraph", Elems: []string{"spacing", "indentation", "borders", "shading", "snapToGrid", "underline", "font"}, Via: "add",
				Attrs: map[string]int{"spacing": 15, "indentation": 7, "borders": 0xFF, "shading": 3, "snapToGrid": 1, "underline": 1, "font": 15}},
			{ID: "Mid", Idx: 2, Type: "paragraph", BasedOn: "Base", Elems: []string{"spacing", "indentation", "borders", "shading", "snapToGrid", "underline", "font"}, Via: "add",
				Attrs: map[string]int{"spacing": 4, "indentation": 2, "borders": 0x52, "shading": 1, "snapToGrid": 2, "underline": 2, "font": 2}},
			{ID: "Leaf", Idx: 3, Type: "paragraph", BasedOn: "Mid", Elems: []string{"spacing", "alignment", "font"}, Via: "custom",
				Attrs: map[string]int{"spacing": 10, "font": 8}},
			{ID: "Leaf2", Idx: 4, Type: "paragraph", BasedOn: "Mid", Elems: []string{"alignment"}, Via: "add"},
			{ID: "Q", Idx: 5, Type: "paragraph", BasedOn: "Base", Elems: []string{"spacing", "indentation"}, Via: "quick",
				Attrs: map[string]int{"spacing": 2, "indentation": 1}},
		}, Queries: []string{"Base", "Mid", "Leaf", "Leaf2", "Q", "Mid", "Base"}},
		// grid flag inherited through a parent without paragraph properties (the path that works today)
		{Styles: []StyleDef{
			{ID: "P", Idx: 1, Type: "paragraph", Elems: []string{"bold"}, Via: "add"},
			{ID: "K", Idx: 2, Type: "paragraph", BasedOn: "P", Elems: []string{"snapToGrid", "italic"}, Via: "quick"},
		}, Queries: []string{"K", "P"}},
		// a registry that changes between the queries: the root of a chain is registered again with another definition,
		// the middle style is removed and comes back, the root is modified in place, a missing parent appears, the leaf moves
		// to another parent; every id is resolved again after every step
		{Styles: []StyleDef{
			{ID: "Base", Idx: 0, Type: "paragraph", Elems: []string{"spacing", "alignment", "colour", "size"}, Via: "add"},
			{ID: "Mid", Idx: 1, Type: "paragraph", BasedOn: "Base", Elems: []string{"indentation", "bold", "size"}, Via: "custom"},
			{ID: "Leaf", Idx: 2, Type: "paragraph", BasedOn: "Mid", Elems: []string{"italic", "keepNext"}, Via: "add"},
			{ID: "Sib", Idx: 3, Type: "paragraph", BasedOn: "Ghost", Elems: []string{"underline"}, Via: "add"},
		}, Queries: []string{"Base", "Mid", "Leaf", "Sib", "Ghost"}, Edits: []Edit{
			{Op: "put", Def: &StyleDef{ID: "Base", Idx: 4, Type: "paragraph", Elems: []string{"spacing", "colour", "highlight"}, Via: "add"}},
			{Op: "remove", ID: "Mid"},
			{Op: "put", Def: &StyleDef{ID: "Mid", Idx: 5, Type: "paragraph", BasedOn: "Base", Elems: []string{"alignment", "strike"}, Via: "quick"}},
			{Op: "modify", Def: &StyleDef{ID: "Base", Idx: 6, Type: "paragraph", Elems: []string{"shading", "font", "colour"}, Via: "add"}},
			{Op: "put", Def: &StyleDef{ID: "Ghost", Idx: 7, Type: "paragraph", BasedOn: "Base", Elems: []string{"borders", "size"}, Via: "custom"}},
			{Op: "put", Def: &StyleDef{ID: "Leaf", Idx: 8, Type: "paragraph", BasedOn: "Ghost", Elems: []string{"italic"}, Via: "add"}},
			{Op: "remove", ID: "Base"},
		}},
	}...)
}

// widenedFixed: one hand-written case per area of the widened domain (so that every run meets each of them whatever the seed).
func widenedFixed() []Case {
	all := ElemNames
	// a chain of 70 styles: the root defines every element, three styles in between define a few
	var long []StyleDef
	for i := 0; i < 70; i++ {
		d := StyleDef{ID: fmt.Sprintf("S%d", i), Idx: i, Type: "paragraph", Via: "add"}
		if i > 0 {
			d.BasedOn = fmt.Sprintf("S%d", i-1)
		}
		switch i {
		case 0:
			d.Elems = all
		case 9, 31, 63:
			d.Elems = []string{"alignment", "size", "borders"}
		case 17:
			d.Via, d.Elems = "quick", []string{"bold", "spacing"}
		}
		long = append(long, d)
	}
	var longQ []string
	for _, i := range []int{0, 9, 10, 11, 15, 16, 17, 31, 32, 33, 34, 48, 63, 64, 65, 66, 69} {
		longQ = append(longQ, fmt.Sprintf("S%d", i))
	}
	return []Case{
		{Styles: long, Queries: longQ},
		// ids that differ in case, padding, composition; the library's own ids supplied by the caller; near-miss parents
		{Predefined: true, Styles: []StyleDef{
			{ID: "Normal", Idx: 1, Type: "paragraph", Elems: []string{"colour", "alignment"}, Via: "add"},
			{ID: "normal", Idx: 2, Type: "paragraph", BasedOn: "Normal ", Elems: []string{"bold"}, Via: "custom"},
			{ID: "Normal ", Idx: 3, Type: "paragraph", BasedOn: "NORMAL", Elems: []string{"italic", "size"}, Via: "add"},
			{ID: "A", Idx: 4, Type: "paragraph", BasedOn: "a", Elems: []string{"strike"}, Via: "add"},
			{ID: "a", Idx: 5, Type: "character", BasedOn: "A\t", Elems: []string{"highlight"}, Via: "quick"},
			{ID: "A\t", Idx: 6, Type: "paragraph", BasedOn: "A1", Elems: []string{"keepNext"}, Via: "add"},
			{ID: "A10", Idx: 7, Type: "paragraph", BasedOn: "A1", Elems: []string{"spacing"}, Via: "add"},
			{ID: "\u00c4", Idx: 8, Type: "paragraph", BasedOn: "A\u0308", Elems: []string{"font"}, Via: "add"},
			{ID: "Heading1", Idx: 9, Type: "paragraph", BasedOn: "heading1", Elems: []string{"underline"}, Via: "quick"},
		}, Queries: []string{"Normal", "normal", "Normal ", "NORMAL", "A", "a", "A\t", "A1", "A10", "A ", "\u00c4", "A\u0308", "Heading1", "Heading2", "heading1", ""}},
		// value classes and elements without attributes over ordinary parents, and the other way round
		{Styles: []StyleDef{
			{ID: "Base", Idx: 1, Type: "paragraph", Elems: all, Via: "add"},
			{ID: "Dflt", Idx: 2, Type: "paragraph", BasedOn: "Base", Elems: all, Via: "add", Vals: "default"},
			{ID: "Zero", Idx: 3, Type: "paragraph", BasedOn: "Base", Elems: all, Via: "custom", Vals: "zero"},
			{ID: "Bare", Idx: 4, Type: "", BasedOn: "Base", Elems: []string{"spacing", "indentation", "borders", "font", "underline", "snapToGrid"}, Via: "add",
				Attrs: map[string]int{"spacing": emptyElem, "indentation": emptyElem, "borders": emptyElem, "font": emptyElem, "underline": 2, "snapToGrid": 2}},
			{ID: "Kid", Idx: 5, Type: "paragraph", BasedOn: "Bare", Elems: []string{"bold"}, Via: "add"},
			{ID: "Pad", Idx: 6, Type: "paragraph", BasedOn: "Zero", Elems: []string{"alignment", "colour", "font"}, Via: "add", Vals: "pad"},
			{ID: "Neg", Idx: 7, Type: "paragraph", BasedOn: "Dflt", Elems: []string{"indentation", "size", "outlineLevel"}, Via: "add", Vals: "neg"},
			{ID: "Long", Idx: 8, Type: "character", BasedOn: "Neg", Elems: []string{"font", "highlight"}, Via: "add", Vals: "long"},
			{ID: "Plain", Idx: 9, Type: "paragraph", BasedOn: "Dflt", Elems: []string{"alignment", "size", "spacing"}, Via: "add"},
		}, Queries: []string{"Base", "Dflt", "Zero", "Bare", "Kid", "Pad", "Neg", "Long", "Plain"},
			Probes: []Probe{{At: 0, Kind: "bytype", Arg: "paragraph"}, {At: 4, Kind: "all"}, {At: 9, Kind: "get", Arg: "Bare"}}},
		// parts of a definition outside the 18 elements, read-only calls in between, a refused CreateQuickStyle, refused XML
		// registrations, the registry first handed to LoadStylesFromDocument
		{Predefined: true, Load: "own", Styles: []StyleDef{
			{ID: "T", Idx: 1, Type: "table", Elems: []string{"alignment"}, Via: "add", Extra: &StyleExtra{Tbl: 0x7FF, TrPr: true, TcPr: true, Next: "T"}},
			{ID: "R", Idx: 2, Type: "table", BasedOn: "T", Elems: []string{"bold"}, Via: "custom", Extra: &StyleExtra{TrPr: true, NoName: true, Builtin: true}},
			{ID: "C", Idx: 3, Type: "paragraph", BasedOn: "R", Elems: []string{"size"}, Via: "add", Extra: &StyleExtra{TcPr: true, Default: true, Tbl: 0x800}},
			{ID: "E", Idx: 4, Type: "paragraph", Elems: []string{"italic"}, Via: "add", Extra: &StyleExtra{EmptyBasedOn: true, NoName: true}},
			{ID: "F", Idx: 5, Type: "paragraph", BasedOn: "E", Elems: []string{"colour"}, Via: "custom", Extra: &StyleExtra{EmptyBasedOn: true, Next: "Normal"}},
		}, Queries: []string{"T", "R", "C", "E", "F", "Normal", "Title", "a1", "X0"},
			Probes: []Probe{{At: 0, Kind: "allinfo"}, {At: 1, Kind: "bytype", Arg: "table"}, {At: 2, Kind: "headings"}, {At: 3, Kind: "parainfo"}, {At: 4, Kind: "charinfo"}, {At: 5, Kind: "headinginfo"}, {At: 9, Kind: "bytype", Arg: ""}},
			Edits: []Edit{
				{Op: "quick-dup", Def: &StyleDef{ID: "E", Idx: 6, Type: "paragraph", BasedOn: "T", Elems: []string{"bold", "spacing"}, Via: "quick"}},
				{Op: "xml-parse", Shape: "own", Defs: []StyleDef{{ID: "X0", Idx: 7, Type: "paragraph", BasedOn: "E", Elems: []string{"strike"}, Via: "add"}}},
				{Op: "xml-merge", Shape: "truncated", Defs: []StyleDef{{ID: "E", Idx: 8, Type: "paragraph", Elems: []string{"strike"}, Via: "add"}, {ID: "X0", Idx: 9, Type: "paragraph", Elems: []string{"bold"}, Via: "add"}}},
				{Op: "quick-dup", Def: &StyleDef{ID: "X1", Idx: 10, Type: "paragraph", BasedOn: "F", Elems: []string{"bold"}, Via: "quick"}},
			}},
		// two registries used alternately: a clone taken before the source is edited, and a second manager with other values
		{Styles: []StyleDef{
			{ID: "Base", Idx: 0, Type: "paragraph", Elems: []string{"spacing", "colour"}, Via: "add"},
			{ID: "Kid", Idx: 1, Type: "paragraph", BasedOn: "Late", Elems: []string{"bold"}, Via: "custom"},
			{ID: "Leaf", Idx: 2, Type: "paragraph", BasedOn: "Kid", Elems: []string{"size"}, Via: "quick"},
		}, Queries: []string{"Base", "Kid", "Leaf", "Late", "Other"}, Twin: &Twin{Kind: "clone", Shift: 100}, Edits: []Edit{
			{Op: "put", Def: &StyleDef{ID: "Late", Idx: 3, Type: "paragraph", BasedOn: "Base", Elems: []string{"italic", "alignment"}, Via: "add"}},
			{Op: "put", Def: &StyleDef{ID: "Other", Idx: 4, Type: "character", Elems: []string{"underline"}, Via: "custom"}},
			{Op: "modify", Def: &StyleDef{ID: "Base", Idx: 5, Type: "paragraph", Elems: []string{"highlight"}, Via: "add"}},
			{Op: "remove", ID: "Kid"},
		}},
		{Predefined: true, Styles: []StyleDef{
			{ID: "Base", Idx: 0, Type: "paragraph", BasedOn: "Heading1", Elems: []string{"spacing", "colour"}, Via: "add"},
			{ID: "Kid", Idx: 1, Type: "paragraph", BasedOn: "Base", Elems: []string{"bold", "colour"}, Via: "quick"},
		}, Queries: []string{"Base", "Kid", "Heading1", "Normal"}, Twin: &Twin{Kind: "fresh", Shift: 100}, Edits: []Edit{
			{Op: "put", Def: &StyleDef{ID: "Base", Idx: 2, Type: "paragraph", Elems: []string{"italic"}, Via: "add"}},
		}},
	}
}

// ---------------------------------------------------------------------------------------------
// execution

// setup builds the registry of a case through the public API and, independently, the reference model.
func setup(c Case) (sm *style.StyleManager, reg registry, err error) {
	sm = style.NewStyleManager()
	if !c.Predefined {
		for _, s := range sm.GetAllStyles() {
			sm.RemoveStyle(s.StyleID)
		}
	}
	reg = registry{}
	if c.Predefined {
		for id, m := range predefinedModel() {
			reg[id] = m
		}
	}
	if c.Load != "" {
		// the way a registry of an opened document comes about. The doc comment: no data, or data that cannot be parsed =
		// the default styles; otherwise the parsed definitions (taken as loaded: definitions are inputs of this property)
		data := stylesXML(c.Styles, c.Load)
		if err := sm.LoadStylesFromDocument(data); err != nil || len(data) == 0 {
			for id := range reg {
				delete(reg, id)
			}
			for id, m := range predefinedModel() {
				reg[id] = m
			}
		} else {
			for id := range reg {
				delete(reg, id)
			}
			for _, st := range sm.GetAllStyles() {
				reg[st.StyleID] = snapshotStyle(st)
			}
		}
	}
	api := style.NewQuickStyleAPI(sm)
	for _, d := range c.Styles {
		if err := register(sm, api, reg, d, d.Via); err != nil {
			return nil, nil, err
		}
	}
	return sm, reg, nil
}

// register puts one definition into the registry through the public API (via: add | custom | quick) and into the model.
func register(sm *style.StyleManager, api *style.QuickStyleAPI, reg registry, d StyleDef, via string) error {
	if _, had := reg[d.ID]; had && via == "quick" {
		via = "add" // CreateQuickStyle refuses a registered id (a generated style under the id of a predefined one)
	}
	switch via {
	case "custom":
		st := sm.CreateCustomStyle(d.ID, "name of "+d.ID, style.StyleType(d.Type), d.BasedOn)
		st.ParagraphPr, st.RunPr = d.props()
		d.applyExtra(st) // fields assigned to the registered object, as CreateQuickStyle does
		reg[d.ID] = snapshotStyle(d.literal())
	case "quick":
		st, e := api.CreateQuickStyle(d.quickConfig())
		if e != nil {
			return fmt.Errorf("CreateQuickStyle(%q): %v", d.ID, e)
		}
		// the model takes the definition as created (definitions are inputs of this property, not its subject)
		reg[d.ID] = snapshotStyle(st)
	default:
		sm.AddStyle(d.literal())
		reg[d.ID] = snapshotStyle(d.literal())
	}
	return nil
}

// applyEdit makes one edit in the real registry (the model is edited separately: registry.applyModel).
func applyEdit(sm *style.StyleManager, api *style.QuickStyleAPI, e Edit, kind string) error {
	switch kind {
	case "remove", "remove-absent":
		sm.RemoveStyle(e.ID)
	case "refused":
		// CreateQuickStyle for a registered id: whatever it answers, the reference says nothing changes
		api.CreateQuickStyle(e.Def.quickConfig())
	case "xml-refused", "xml-parse", "xml-merge":
		data := stylesXML(e.Defs, e.Shape)
		if e.Op == "xml-parse" {
			sm.ParseStylesFromXML(data)
		} else {
			sm.MergeStylesFromXML(data)
		}
	case "replace", "add":
		d := *e.Def
		via := d.Via
		if via == "quick" && kind == "replace" {
			via = "add"
		}
		if e.Op == "quick-dup" {
			via, d.Via = "quick", "quick"
		}
		return register(sm, api, registry{}, d, via)
	case "modify":
		d := *e.Def
		st := sm.GetStyle(d.ID)
		if st == nil {
			return fmt.Errorf("GetStyle(%q) = nil for a registered style", d.ID)
		}
		st.ParagraphPr, st.RunPr = d.props()
		st.BasedOn = nil
		if d.BasedOn != "" {
			st.BasedOn = &style.BasedOn{Val: d.BasedOn}
		}
	}
	return nil
}

var (
	preOnce  sync.Once
	preModel registry
)

// predefinedModel: the definitions of the predefined registry, read once from a fresh manager (NewStyleManager is
// deterministic; the entries are never written to afterwards).
func predefinedModel() registry {
	preOnce.Do(func() {
		preModel = registry{}
		for _, s := range style.NewStyleManager().GetAllStyles() {
			preModel[s.StyleID] = snapshotStyle(s)
		}
	})
	return preModel
}

func snapshotAll(sm *style.StyleManager) map[string]string {
	out := map[string]string{}
	for _, s := range sm.GetAllStyles() {
		out[s.StyleID] = Render(s)
	}
	return out
}

func diffSnap(before, after map[string]string) string {
	var keys []string
	for k := range before {
		keys = append(keys, k)
	}
	for k := range after {
		if _, ok := before[k]; !ok {
			keys = append(keys, k)
		}
	}
	sort.Strings(keys)
	for _, k := range keys {
		b, okb := before[k]
		a, oka := after[k]
		switch {
		case !oka:
			return fmt.Sprintf("style %q disappeared", k)
		case !okb:
			return fmt.Sprintf("style %q appeared", k)
		case a != b:
			return fmt.Sprintf("style %q changed: before %s, after %s", k, b, a)
		}
	}
	return ""
}

// copyAll deep-copies every registered style (nothing shared with the registry).
func copyAll(sm *style.StyleManager) map[string]*style.Style {
	out := map[string]*style.Style{}
	for _, s := range sm.GetAllStyles() {
		out[s.StyleID] = deepCopy(reflect.ValueOf(s)).Interface().(*style.Style)
	}
	return out
}

// diffDeep compares the registry with a deep copy taken earlier, field by field, XMLName fields included.
func diffDeep(before map[string]*style.Style, sm *style.StyleManager) string {
	now := map[string]*style.Style{}
	for _, s := range sm.GetAllStyles() {
		now[s.StyleID] = s
	}
	var ids []string
	for id := range before {
		ids = append(ids, id)
	}
	for id := range now {
		if _, ok := before[id]; !ok {
			ids = append(ids, id)
		}
	}
	sort.Strings(ids)
	var out []string
	for _, id := range ids {
		b, okb := before[id]
		n, okn := now[id]
		switch {
		case !okn:
			out = append(out, fmt.Sprintf("style %q disappeared", id))
		case !okb:
			out = append(out, fmt.Sprintf("style %q appeared", id))
		default:
			fieldDiff(reflect.ValueOf(b), reflect.ValueOf(n), fmt.Sprintf("style %q", id), true, &out, 6)
		}
		if len(out) >= 6 {
			break
		}
	}
	if len(out) == 0 {
		return ""
	}
	return "(before vs after) " + strings.Join(out, "; ")
}

func show(v string, ok bool) string {
	if !ok {
		return "none"
	}
	return v
}

// run decides where the case is executed: in this process, or - for registries with a reachable based-on cycle while
// the stack-overflow finding is open - in a child process whose death is the clause failure.
func run(c Case) *kit.Result {
	res := &kit.Result{}
	var sm *style.StyleManager
	var reg registry
	var err error
	if p, st := kit.Try(func() { sm, reg, err = setup(c) }); p != nil {
		res.Fail("C14.V0.setup", "registering the styles panicked: %v [%s]", p, st)
		return res
	}
	if err != nil {
		res.Fail("C14.V0.setup", "%v", err)
		return res
	}
	lastCase, lastReg = c, reg
	if c.Excluded != "" {
		res.Count("excluded:"+kfCycle, 1)
	}
	if os.Getenv(childEnv) == "" && cycleOpen() && reachesCycle(c, reg) {
		return runInChild(c, res)
	}
	return runHere(c, sm, reg, res)
}

var (
	lastCase Case
	lastReg  registry
)

// modelOf gives the reference registry of a case (memoised for the case that ran last: triggers ask right after Run).
func modelOf(c Case) registry {
	if lastReg != nil && reflect.DeepEqual(c, lastCase) {
		return lastReg
	}
	var reg registry
	var err error
	if p, _ := kit.Try(func() { _, reg, err = setup(c) }); p != nil || err != nil {
		return nil
	}
	return reg
}

// reachesCycle: in some round some queried id has a based-on chain that comes back to a style already passed.
func reachesCycle(c Case, reg registry) bool {
	regs, _ := reg.rounds(c.Edits)
	for _, rg := range regs {
		for _, q := range c.allQueries() {
			if rg.reachesCycle(q) {
				return true
			}
		}
	}
	return false
}

func runInChild(c Case, r0 *kit.Result) *kit.Result {
	js, _ := json.Marshal(c)
	ctx, cancel := context.WithTimeout(context.Background(), 60*time.Second)
	defer cancel()
	cmd := exec.CommandContext(ctx, os.Args[0])
	cmd.Env = append(os.Environ(), childEnv+"=1")
	cmd.Stdin = bytes.NewReader(js)
	var stdout, stderr bytes.Buffer
	cmd.Stdout = &stdout
	cmd.Stderr = &limitWriter{w: &stderr, n: 64 << 10}
	err := cmd.Run()
	var res kit.Result
	if err == nil {
		if i := bytes.LastIndex(stdout.Bytes(), []byte(childMarker)); i >= 0 {
			if e := json.Unmarshal(stdout.Bytes()[i+len(childMarker):], &res); e == nil {
				res.Label("cycle:subprocess")
				res.Count("subprocess_runs", 1)
				for k, v := range r0.Counts {
					res.Count(k, v)
				}
				return &res
			}
		}
		err = fmt.Errorf("child printed no result")
	}
	// the child died or hung: that is the violated clause
	r := r0
	r.Nontrivial, r.Shape = true, "cycle-death"
	r.Label("cycle:subprocess")
	r.Label("has-cycle")
	r.Count("subprocess_runs", 1)
	r.Eval("C14.V1.terminates")
	why := err.Error()
	if ctx.Err() != nil {
		why = "no answer within 60s"
	}
	for _, l := range strings.Split(stderr.String(), "\n") {
		if strings.HasPrefix(l, "fatal error:") || strings.HasPrefix(l, "runtime: goroutine stack exceeds") {
			why += "; " + strings.TrimSpace(l)
		}
	}
	r.Fail("C14.V1.terminates", "resolving the queries %q in a separate process did not return: %s", c.Queries, why)
	return r
}

type limitWriter struct {
	w io.Writer
	n int
}

func (l *limitWriter) Write(p []byte) (int, error) {
	if l.n > 0 {
		k := len(p)
		if k > l.n {
			k = l.n
		}
		l.w.Write(p[:k])
		l.n -= k
	}
	return len(p), nil
}

const childMarker = "\nC14-CHILD-RESULT:"

func childMain() {
	// unbounded recursion exhausts any stack; a smaller limit than the default 1 GB only makes the verdict arrive sooner
	// (a terminating resolution of a chain of a dozen styles needs a few KB)
	debug.SetMaxStack(128 << 20)
	js, _ := io.ReadAll(os.Stdin)
	var c Case
	if err := json.Unmarshal(js, &c); err != nil {
		fmt.Fprintln(os.Stderr, "child: bad case:", err)
		os.Exit(3)
	}
	res := run(c)
	out, _ := json.Marshal(res)
	fmt.Printf("%s%s\n", childMarker, out)
	os.Exit(0)
}

func runHere(c Case, sm *style.StyleManager, reg registry, res *kit.Result) *kit.Result {
	api := style.NewQuickStyleAPI(sm)
	regs, kinds := reg.rounds(c.Edits) // the reference registry of every round
	queries := c.allQueries()

	// ---- labels from the case and the model
	if c.Predefined {
		res.Label("predefined")
	} else {
		res.Label("empty-base")
	}
	children := map[string]int{}
	for _, d := range c.Styles {
		res.Label("via:" + d.Via)
		if d.BasedOn != "" {
			children[d.BasedOn]++
			if _, ok := reg[d.BasedOn]; !ok {
				res.Label("missing-parent")
			} else if d.BasedOn == d.ID {
				res.Label("self-loop")
			}
		}
		if d.EmptyP || d.EmptyR {
			res.Label("empty-props-block")
		}
		if len(d.Elems) == 0 {
			res.Label("style-without-elements")
		}
		if len(d.Elems) == len(ElemNames) {
			res.Label("style-with-all-elements")
		}
		// attribute population of the multi-attribute elements, read from the definition as registered
		if def := reg[d.ID]; def != nil {
			for _, e := range MultiElems {
				a := attrsOf(def.Def, e)
				if a == nil {
					continue
				}
				switch {
				case len(a) == attrTotal[e]:
					res.Label("full-element")
					res.Label("full:" + e)
				case len(a) == 0:
					res.Label("bare-element") // w:u / w:snapToGrid without a value
				default:
					res.Label("partial-element")
					res.Label("partial:" + e)
				}
				if e == "spacing" && a["line"] != "" && a["lineRule"] == "" {
					res.Label("spacing:line-without-rule")
				}
			}
		}
	}
	for p, k := range children {
		if _, ok := reg[p]; ok && k >= 2 {
			res.Label("shared-parent")
		}
	}
	gen := map[string]bool{}
	for _, d := range c.Styles {
		gen[d.ID] = true
	}
	for _, d := range c.Styles {
		if d.BasedOn != "" && !gen[d.BasedOn] {
			if _, ok := reg[d.BasedOn]; ok {
				res.Label("into-predefined")
			}
		}
	}

	labelWidened(res, c, reg)
	if c.Load != "" {
		res.Label("load")
		res.Label("load:" + c.Load)
	}
	var twin *twinState
	if c.Twin != nil {
		var err error
		if p, st := kit.Try(func() { twin, err = setupTwin(c, sm, reg) }); p != nil {
			res.Fail("C14.V0.setup", "setting up the second registry (%s) panicked: %v [%s]", c.Twin.Kind, p, st)
			return res
		} else if err != nil {
			res.Fail("C14.V0.setup", "setting up the second registry (%s): %v", c.Twin.Kind, err)
			return res
		}
		res.Label("twin")
		res.Label("twin:" + twin.kind)
	}

	// ---- V1 / V2 per query
	var shape []string
	for _, d := range c.Styles {
		pi := "-"
		if d.BasedOn != "" {
			pi = "?"
			for _, o := range c.Styles {
				if o.ID == d.BasedOn {
					pi = fmt.Sprint(o.Idx)
				}
			}
			if pi == "?" {
				if _, ok := reg[d.BasedOn]; ok {
					pi = "P"
				}
			}
		}
		shape = append(shape, fmt.Sprintf("%d<%s", d.Idx, pi))
	}
	sort.Strings(shape)
	var after map[string]string
	for round := 0; round <= len(c.Edits); round++ {
		if round > 0 {
			// ---- the registry changes: edit round-1, in the model (done above) and through the public API
			e, kind := c.Edits[round-1], kinds[round-1]
			labelEdit(res, e, kind, regs[round-1], regs[round], queries)
			var err error
			if p, st := kit.Try(func() { err = applyEdit(sm, api, e, kind) }); p != nil {
				res.Fail("C14.V0.setup", "edit %d (%s %q) panicked: %v [%s]", round, kind, e.target(), p, st)
				return res
			} else if err != nil {
				res.Fail("C14.V0.setup", "edit %d (%s %q): %v", round, kind, e.target(), err)
				return res
			}
			shape = append(shape, fmt.Sprintf("e%d:%s", round, kind))
		}
		reg := regs[round]
		before := snapshotAll(sm)
		beforeDeep := copyAll(sm)
		for qi, q := range queries {
			for _, p := range c.Probes {
				if p.At == qi {
					probe(res, sm, api, p)
				}
			}
			tag := fmt.Sprintf("[q=%d %q]", qi, q)
			if round > 0 {
				tag = fmt.Sprintf("[q=%d r=%d %q after %s]", qi, round, q, describeEdits(c.Edits[:round], kinds))
			}
			if tok := judgeQuery(res, sm, api, reg, q, tag, true); tok != "" {
				shape = append(shape, tok)
			}
			if twin != nil {
				// the other registry, alternately: its answers follow its own definitions, whatever the first one holds
				judgeQuery(res, twin.sm, twin.api, twin.reg, q, fmt.Sprintf("[q=%d r=%d twin(%s) %q]", qi, round, twin.kind, q), false)
			}
		}
		for _, p := range c.Probes {
			if p.At >= len(queries) {
				probe(res, sm, api, p)
			}
		}
		// ---- V3: the queries of this round changed nothing that is registered
		res.Eval("C14.V3")
		after = snapshotAll(sm)
		if d := diffDeep(beforeDeep, sm); d != "" {
			res.Fail("C14.V3", "[r=%d] the registry differs from the deep copy taken before the queries %q: %s", round, queries, d)
		} else if d := diffSnap(before, after); d != "" {
			res.Fail("C14.V3", "[r=%d] the registry differs after the queries %q: %s", round, queries, d)
		}
		if twin != nil {
			// the second registry is never edited: neither its own queries nor anything done to the first one may show in it
			clause := "C14.V3"
			if twin.kind == "clone" {
				clause = "C14.V4.source-to-clone"
			}
			res.Eval(clause)
			if d := diffSnap(twin.before, snapshotAll(twin.sm)); d != "" {
				res.Fail(clause, "[r=%d] the second registry (%s), which nobody edits, differs from what it was when it was set up: %s", round, twin.kind, d)
			}
		}
	}
	res.Shape = strings.Join(shape, " ")

	// ---- V4: clone independence (against the registry as it is now, so that a V3 failure is not reported twice)
	checkClone(res, sm, after, queries, regs[len(regs)-1])
	return res
}

// probe makes a read-only call of the history; a panic is a failure of the set-up (the clauses judge what follows).
func probe(res *kit.Result, sm *style.StyleManager, api *style.QuickStyleAPI, p Probe) {
	res.Label("probe")
	res.Label("probe:" + p.Kind)
	if pv, st := kit.Try(func() { runProbe(sm, api, p) }); pv != nil {
		res.Fail("C14.V0.setup", "the read-only call %s(%q) panicked: %v [%s]", p.Kind, p.Arg, pv, st)
	}
}

// labelWidened names the input classes of the widened domain a case belongs to.
func labelWidened(res *kit.Result, c Case, reg registry) {
	n := len(c.Styles)
	for _, k := range []int{11, 17, 33, 65} {
		if n >= k {
			res.Label(fmt.Sprintf("styles>=%d", k))
		}
		if len(reg) >= k {
			res.Label(fmt.Sprintf("registered>=%d", k))
		}
	}
	lower := map[string]int{}
	trimmed := map[string]int{}
	ids := map[string]bool{}
	for _, d := range c.Styles {
		ids[d.ID] = true
		lower[strings.ToLower(d.ID)]++
		trimmed[strings.TrimSpace(d.ID)]++
	}
	pm := predefinedModel()
	for _, d := range c.Styles {
		if lower[strings.ToLower(d.ID)] > 1 {
			res.Label("ids:differ-in-case-only")
		}
		if trimmed[strings.TrimSpace(d.ID)] > 1 {
			res.Label("ids:differ-in-padding-only")
		}
		for _, o := range c.Styles {
			if o.ID != d.ID && strings.HasPrefix(o.ID, d.ID) {
				res.Label("ids:prefix-of-another")
				break
			}
		}
		if _, ok := pm[d.ID]; ok {
			res.Label("ids:predefined-id-supplied")
			if c.Predefined {
				res.Label("ids:predefined-replaced")
			}
		}
		if d.BasedOn != "" && !ids[d.BasedOn] {
			for id := range ids {
				if strings.EqualFold(strings.TrimSpace(id), strings.TrimSpace(d.BasedOn)) {
					res.Label("based-on:near-miss")
					break
				}
			}
		}
		if d.Vals != "" && d.Via != "quick" && len(d.Elems) > 0 {
			res.Label("vals")
			res.Label("vals:" + d.Vals)
		}
		for _, e := range d.Elems {
			if d.Via != "quick" && canBeEmpty[e] && d.Attrs[e]&emptyElem != 0 {
				res.Label("empty-element")
				res.Label("empty-element:" + e)
			}
		}
		if x := d.Extra; x != nil && d.Via != "quick" {
			res.Label("extra")
			if x.Tbl != 0 {
				res.Label("extra:tblPr")
			}
			if x.TrPr || x.TcPr {
				res.Label("extra:trPr/tcPr")
			}
			if x.Next != "" {
				res.Label("extra:next")
			}
			if x.EmptyBasedOn && d.BasedOn == "" {
				res.Label("extra:empty-basedOn")
			}
			if x.NoName || x.Builtin || x.Default {
				res.Label("extra:flags")
			}
		}
	}
	for _, q := range c.Queries {
		if _, ok := reg[q]; ok {
			continue
		}
		for id := range ids {
			if q != id && strings.EqualFold(strings.TrimSpace(id), strings.TrimSpace(q)) {
				res.Label("query:near-miss")
				break
			}
		}
	}
}

// judgeQuery resolves one id in one registry through the three entry points and compares with the reference registry reg
// (V1, V2). primary: the query belongs to the registry of the case itself (labels, the non-trivial rule and the shape
// token are taken from it); the queries of the twin, of a clone and the repeated ones are judged only.
func judgeQuery(res0 *kit.Result, sm *style.StyleManager, api *style.QuickStyleAPI, reg registry, q, tag string, primary bool) (tok string) {
	res := res0
	if !primary {
		// judged, not described: failures and clause counts go to the real result, labels and the rest are dropped
		res = &kit.Result{}
		defer func() {
			res0.Failures = append(res0.Failures, res.Failures...)
			for k, n := range res.Clauses {
				for i := 0; i < n; i++ {
					res0.Eval(k)
				}
			}
		}()
	}
	want := reg.resolve(q)

	// V1: GetStyleWithInheritance
	var got *style.Style
	res.Eval("C14.V1.terminates")
	if p, st := kit.Try(func() { got = sm.GetStyleWithInheritance(q) }); p != nil {
		res.Fail("C14.V1.terminates", "%s GetStyleWithInheritance panicked: %v [%s]", tag, p, st)
		return ""
	}
	if want == nil {
		res.Label("query:unknown")
		res.Eval("C14.V1.unknown")
		if got != nil {
			res.Fail("C14.V1.unknown", "%s no such style is registered, yet GetStyleWithInheritance returned %s", tag, Render(got))
		}
	} else {
		res.Eval("C14.V1.found")
		if got == nil {
			res.Fail("C14.V1.found", "%s the style is registered, yet GetStyleWithInheritance returned nil", tag)
		} else {
			obs := Observe(got)
			for _, e := range ElemNames {
				res.Eval("C14.V1." + e)
				w, okw := want.Elems[e]
				g, okg := obs[e]
				// field by field against the element of the defining style (every attribute, nested sides included)
				var fd []string
				if okw && okg && w != g { // (equal canonical texts leave nothing for the field walk: it names the attributes that differ)
					fieldDiff(elemOf(got, e), elemOf(want.Src[e], e), e, false, &fd, 6)
				}
				if okw != okg || w != g || len(fd) > 0 {
					from := "no style on the chain defines it"
					if okw {
						from = fmt.Sprintf("defined by %q at depth %d", want.Chain[want.From[e]], want.From[e])
					}
					attrs := ""
					if len(fd) > 0 {
						attrs = "; differing attributes (got vs reference): " + strings.Join(fd, ", ")
					}
					res.Fail("C14.V1."+e, "%s element %s: got %s, should be %s (%s)%s; chain %q ends in %s", tag, e, show(g, okg), show(w, okw), from, attrs, want.Chain, want.End)
				}
			}
		}
		// labels of what this query exercised
		depth := len(want.Chain)
		inh, ovr, maxFrom := 0, 0, 0
		for e, k := range want.From {
			if k > 0 {
				inh++
				if k > maxFrom {
					maxFrom = k
				}
			}
			// overridden: a farther style on the chain also defines the element
			for _, id := range want.Chain[k+1:] {
				if _, has := reg[id].Elems[e]; has {
					ovr++
					break
				}
			}
		}
		if depth >= 2 {
			res.Label("depth>=2")
		}
		if depth >= 3 {
			res.Label("depth>=3")
		}
		if depth >= 6 {
			res.Label("depth>=6")
		}
		if depth >= 10 {
			res.Label("depth>=10")
		}
		for _, k := range []int{11, 17, 33, 65} {
			if depth >= k {
				res.Label(fmt.Sprintf("depth>=%d", k))
			}
			if maxFrom >= k-1 {
				res.Label(fmt.Sprintf("inherit:depth>=%d", k-1))
			}
		}
		if inh > 0 {
			res.Label("inherit")
		}
		if maxFrom >= 2 {
			res.Label("inherit:depth>=2")
		}
		if ovr > 0 {
			res.Label("override")
		}
		if want.End == "cycle" {
			res.Label("has-cycle")
			if depth == 2 {
				res.Label("cycle:2")
			} else if depth > 2 {
				res.Label("cycle:n")
			}
		}
		if k, ok := want.From["snapToGrid"]; ok {
			res.Label("snapToGrid-defined")
			if k > 0 {
				res.Label("snapToGrid-inherited")
			}
		}
		// attribute-level classes: the nearest definition of a multi-attribute element lacks an attribute that a
		// farther definition on the chain has (an attribute-wise merge would leak it into the result)
		leak := 0
		for _, e := range MultiElems {
			k, ok := want.From[e]
			if !ok {
				continue
			}
			near := attrsOf(reg[want.Chain[k]].Def, e)
			partial := len(near) < attrTotal[e]
			if k > 0 && partial {
				res.Label("inherit-partial-element")
			}
			first := true
			for _, id := range want.Chain[k+1:] {
				far := attrsOf(reg[id].Def, e)
				if far == nil {
					continue
				}
				missing := false
				for a := range far {
					if _, has := near[a]; !has {
						missing = true
					}
				}
				if missing {
					leak++
					res.Label("partial-over-ancestor")
					res.Label("partial-over-ancestor:" + e)
					if k > 0 {
						res.Label("partial-over-ancestor:inherited") // the partial element is itself inherited
					}
					if first && len(far) == attrTotal[e] {
						res.Label("partial-over-full-parent")
						res.Label("partial-" + e + "-over-full-parent")
					}
					if e == "spacing" && near["line"] != "" && near["lineRule"] == "" && far["lineRule"] != "" {
						res.Label("spacing:line-without-rule-over-rule")
					}
					break
				}
				if first && partial && len(far) < attrTotal[e] {
					res.Label("partial-over-partial-parent")
				}
				first = false
			}
		}
		if depth >= 2 && (inh > 0 || ovr > 0) {
			res.Nontrivial = true
		}
		tok = fmt.Sprintf("q%d:%s:%d:%d:%d", depth, want.End, inh, ovr, leak)
	}

	if !primary {
		return tok // the derived views are judged on the queries of the case's own registry
	}

	// V2: the two derived views
	var m map[string]interface{}
	var aerr error
	res.Eval("C14.V2.apply")
	if p, st := kit.Try(func() { m, aerr = sm.ApplyStyleToXML(q) }); p != nil {
		res.Fail("C14.V2.apply", "%s ApplyStyleToXML panicked: %v [%s]", tag, p, st)
	} else if want == nil {
		if aerr == nil {
			res.Fail("C14.V2.apply", "%s no such style, yet ApplyStyleToXML returned no error (%v)", tag, m)
		}
	} else if aerr != nil {
		res.Fail("C14.V2.apply", "%s ApplyStyleToXML failed for a registered style: %v", tag, aerr)
	} else {
		checkApply(res, tag, q, reg[q], want, m)
	}
	var info *style.StyleInfo
	var ierr error
	res.Eval("C14.V2.info")
	if p, st := kit.Try(func() { info, ierr = api.GetStyleInfo(q) }); p != nil {
		res.Fail("C14.V2.info", "%s GetStyleInfo panicked: %v [%s]", tag, p, st)
	} else if want == nil {
		if ierr == nil {
			res.Fail("C14.V2.info", "%s no such style, yet GetStyleInfo returned no error (%+v)", tag, info)
		}
	} else if ierr != nil || info == nil {
		res.Fail("C14.V2.info", "%s GetStyleInfo failed for a registered style: %v", tag, ierr)
	} else if info.ID != q || string(info.Type) != reg[q].Type || info.BasedOn != reg[q].BasedOn {
		res.Fail("C14.V2.info", "%s GetStyleInfo says id=%q type=%q basedOn=%q, registered is id=%q type=%q basedOn=%q", tag, info.ID, info.Type, info.BasedOn, q, reg[q].Type, reg[q].BasedOn)
	}
	return tok
}

func describeEdits(edits []Edit, kinds []string) string {
	var out []string
	for i, e := range edits {
		d := kinds[i] + " " + strconv.Quote(e.target())
		if e.Def != nil && kinds[i] != "modify-absent" {
			d += fmt.Sprintf("(code %d, basedOn %q)", e.Def.Idx, e.Def.BasedOn)
		}
		out = append(out, d)
	}
	return strings.Join(out, ", ")
}

// labelEdit names the classes an edit belongs to, from the reference registries before and after it.
func labelEdit(res *kit.Result, e Edit, kind string, prev, next registry, queries []string) {
	id := e.target()
	res.Label("edit")
	res.Label("edit:" + kind)
	if kind == "replace" || kind == "modify" {
		if prev[id].BasedOn != next[id].BasedOn {
			res.Label("edit:rebase")
		}
	}
	for _, q := range queries {
		a, b := prev.resolve(q), next.resolve(q)
		if (a == nil) != (b == nil) {
			res.Label("edit:query-appears-or-disappears")
		}
		if a == nil {
			continue
		}
		// the edited id is a proper ancestor of a style that has been resolved before the edit ...
		for _, anc := range a.Chain[1:] {
			if anc == id {
				res.Label("edit:ancestor-of-resolved")
				res.Label("edit:ancestor-of-resolved:" + kind)
				if len(a.Chain) >= 3 && a.Chain[1] != id {
					res.Label("edit:far-ancestor-of-resolved")
				}
			}
		}
		// ... or the missing parent its chain ended in
		if a.End == "missing" && prev[a.Chain[len(a.Chain)-1]].BasedOn == id && kind == "add" {
			res.Label("edit:fills-missing-parent")
		}
		// the resolution of a style other than the edited one is different afterwards
		if b != nil && q != id && !reflect.DeepEqual(a.Elems, b.Elems) {
			res.Label("edit:changes-descendant")
			res.Label("edit:changes-descendant:" + kind)
		}
	}
}

// checkApply compares the map of ApplyStyleToXML with the reference on the elements that map exposes.
func checkApply(res *kit.Result, tag, q string, def *mStyle, want *resolved, m map[string]interface{}) {
	if id, _ := m["styleId"].(string); id != q {
		res.Fail("C14.V2.apply", "%s ApplyStyleToXML styleId = %v", tag, m["styleId"])
	}
	if ty, _ := m["type"].(string); ty != def.Type {
		res.Fail("C14.V2.apply", "%s ApplyStyleToXML type = %v, registered %q", tag, m["type"], def.Type)
	}
	nonEmpty := func(kv ...string) map[string]string {
		out := map[string]string{}
		for i := 0; i+1 < len(kv); i += 2 {
			if kv[i+1] != "" {
				out[kv[i]] = kv[i+1]
			}
		}
		return out
	}
	// what the two property blocks should show, read from the (copies of the) defining styles
	expP, expR := map[string]interface{}{}, map[string]interface{}{}
	if s := want.Src["spacing"]; s != nil {
		x := s.ParagraphPr.Spacing
		expP["spacing"] = nonEmpty("before", x.Before, "after", x.After, "line", x.Line, "lineRule", x.LineRule)
	}
	if s := want.Src["alignment"]; s != nil {
		expP["justification"] = s.ParagraphPr.Justification.Val
	}
	if s := want.Src["indentation"]; s != nil {
		x := s.ParagraphPr.Indentation
		expP["indentation"] = nonEmpty("firstLine", x.FirstLine, "left", x.Left, "right", x.Right)
	}
	if s := want.Src["outlineLevel"]; s != nil {
		expP["outlineLevel"] = s.ParagraphPr.OutlineLevel.Val
	}
	for _, f := range []string{"bold", "italic", "strike"} {
		if want.Src[f] != nil {
			expR[f] = true
		}
	}
	if s := want.Src["underline"]; s != nil {
		expR["underline"] = s.RunPr.Underline.Val
	}
	if s := want.Src["size"]; s != nil {
		expR["fontSize"] = s.RunPr.FontSize.Val
	}
	if s := want.Src["colour"]; s != nil {
		expR["color"] = s.RunPr.Color.Val
	}
	if s := want.Src["font"]; s != nil {
		x := s.RunPr.FontFamily
		expR["fontFamily"] = nonEmpty("ascii", x.ASCII, "eastAsia", x.EastAsia, "hAnsi", x.HAnsi, "cs", x.CS)
	}
	if s := want.Src["highlight"]; s != nil {
		expR["highlight"] = s.RunPr.Highlight.Val
	}
	for _, blk := range []struct {
		name string
		exp  map[string]interface{}
	}{{"paragraphProperties", expP}, {"runProperties", expR}} {
		got, _ := m[blk.name].(map[string]interface{})
		if got == nil {
			got = map[string]interface{}{} // an absent block shows nothing
		}
		// The property demands agreement on the elements the view exposes, not a particular set of keys: every key the
		// view is known to expose must be there with the resolved value; a further key is accepted when it names an
		// element that the resolved style (by the reference) really has - a view that reports MORE of the resolved style
		// still satisfies the property - and is a failure when it names an element the resolved style lacks. Keys the
		// model does not know are not judged. (Found by the benign-change round: C14-B3.)
		bad := false
		for k, v := range blk.exp {
			if gv, ok := got[k]; !ok || !reflect.DeepEqual(gv, v) {
				bad = true
			}
		}
		for k := range got {
			if _, ok := blk.exp[k]; ok {
				continue
			}
			if el, known := applyExtraKeys[k]; known && want.Src[el] == nil {
				bad = true
			}
		}
		if bad {
			res.Fail("C14.V2.apply", "%s chain %q: ApplyStyleToXML %s = %s, reference %s", tag, want.Chain, blk.name, Render(got), Render(blk.exp))
		}
	}
}

// applyExtraKeys maps keys a wider ApplyStyleToXML view may report to the model's element names.
var applyExtraKeys = map[string]string{
	"keepNext": "keepNext", "keepLines": "keepLines", "pageBreakBefore": "pageBreak", "snapToGrid": "snapToGrid",
	"shading": "shading", "borders": "borders", "spacing": "spacing", "justification": "alignment",
	"indentation": "indentation", "outlineLevel": "outlineLevel", "bold": "bold", "italic": "italic",
	"strike": "strike", "underline": "underline", "fontSize": "size", "color": "colour", "fontFamily": "font",
	"highlight": "highlight",
}

func checkClone(res *kit.Result, sm *style.StyleManager, before map[string]string, queries []string, reg registry) {
	var cl *style.StyleManager
	res.Eval("C14.V4.equal")
	if p, st := kit.Try(func() { cl = sm.Clone() }); p != nil || cl == nil {
		res.Fail("C14.V4.equal", "Clone panicked or returned nil: %v [%s]", p, st)
		return
	}
	if d := diffSnap(before, snapshotAll(cl)); d != "" {
		res.Fail("C14.V4.equal", "the clone differs from its source: %s", d)
	}
	// no pointer target reachable from both
	res.Eval("C14.V4.noshare")
	var shared []string
	for pass := 0; pass < 2 && (pass == 0 || len(shared) > 0); pass++ {
		shared = nil
		src := map[uintptr]string{}
		for _, s := range sm.GetAllStyles() {
			pointers(reflect.ValueOf(s), src, s.StyleID, pass == 1)
		}
		dst := map[uintptr]string{}
		for _, s := range cl.GetAllStyles() {
			pointers(reflect.ValueOf(s), dst, s.StyleID, pass == 1)
		}
		for p, where := range dst {
			if w2, ok := src[p]; ok {
				shared = append(shared, where+" == source "+w2)
			}
		}
	}
	sort.Strings(shared)
	if len(shared) > 0 {
		if len(shared) > 4 {
			shared = shared[:4]
		}
		res.Fail("C14.V4.noshare", "clone and source share storage: %s", strings.Join(shared, "; "))
	}
	// the clone is a registry like any other: it resolves every id as the reference registry of the source says (the source
	// is asked in between: two registries used alternately)
	api, apiCl := style.NewQuickStyleAPI(sm), style.NewQuickStyleAPI(cl)
	for qi, q := range queries {
		judgeQuery(res, cl, apiCl, reg, q, fmt.Sprintf("[q=%d clone %q]", qi, q), false)
		if qi%4 == 1 {
			judgeQuery(res, sm, api, reg, q, fmt.Sprintf("[q=%d source-next-to-clone %q]", qi, q), false)
		}
	}
	// mutate the whole clone (values, plus one removal and one addition): the source must not move
	res.Eval("C14.V4.clone-to-source")
	wreck(cl)
	if d := diffSnap(before, snapshotAll(sm)); d != "" {
		res.Fail("C14.V4.clone-to-source", "changing the clone changed the source: %s", d)
	}
	// ... and resolves as before
	for qi, q := range queries {
		if qi < 3 || qi == len(queries)-1 {
			judgeQuery(res, sm, api, reg, q, fmt.Sprintf("[q=%d source-after-clone-changed %q]", qi, q), false)
		}
	}
	// and the other way round (last: the source is unusable afterwards)
	res.Eval("C14.V4.source-to-clone")
	var cl2 *style.StyleManager
	if p, _ := kit.Try(func() { cl2 = sm.Clone() }); p != nil || cl2 == nil {
		return
	}
	snap2 := snapshotAll(cl2)
	wreck(sm)
	if d := diffSnap(snap2, snapshotAll(cl2)); d != "" {
		res.Fail("C14.V4.source-to-clone", "changing the source changed the clone: %s", d)
	}
}

func wreck(sm *style.StyleManager) {
	all := sm.GetAllStyles()
	sort.Slice(all, func(i, j int) bool { return all[i].StyleID < all[j].StyleID })
	seen := map[uintptr]bool{}
	for _, s := range all {
		id := s.StyleID
		mutate(reflect.ValueOf(s), seen)
		s.StyleID = id // keep the key and the id in step; everything else is changed
		if s.ParagraphPr == nil {
			s.ParagraphPr = &style.ParagraphProperties{KeepNext: &style.KeepNext{}}
		} else {
			s.ParagraphPr.Spacing = nil
		}
		s.RunPr = nil
	}
	if len(all) > 0 {
		sm.RemoveStyle(all[0].StyleID)
	}
	sm.AddStyle(&style.Style{Type: "paragraph", StyleID: "added-after-clone"})
}

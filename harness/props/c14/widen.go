package c14

// Widened input domain of C14: parts of a style definition outside the 18 formatting elements (StyleExtra), the styles
// part written by the harness for the XML entry points, the read-only probes, the second (twin) registry and the id /
// count classes of the generator. Nothing here calls the resolution / merge / clone code under test, except where a
// comment says that the outcome of a registration call is read from a scratch registry (xmlOutcome, as quickDef does).

import (
	"bytes"
	"encoding/xml"
	"fmt"
	"reflect"
	"sort"
	"strings"
	"unicode/utf8"

	"github.com/zerx-lab/wordZero/pkg/style"
	"pgregory.net/rapid"

	"wzverif/internal/kit"
)

// ---------------------------------------------------------------------------------------------
// definitions: the parts outside the formatting elements

func (d StyleDef) tblBorder(k int) *style.TblBorder {
	i := d.Idx + 7*k
	return &style.TblBorder{Val: bdrVals[i%len(bdrVals)], Sz: fmt.Sprint(2 + i), Space: fmt.Sprint(i % 5), Color: fmt.Sprintf("%02X%02X00", d.Idx, k)}
}

func (d StyleDef) tblSpace(k int) *style.TblCellSpace {
	return &style.TblCellSpace{W: fmt.Sprint(10*d.Idx + k), Type: "dxa"}
}

// applyExtra sets the fields of Extra on a style value (fresh values on every call).
func (d StyleDef) applyExtra(s *style.Style) {
	x := d.Extra
	if x == nil || d.Via == "quick" {
		return
	}
	if x.Next != "" {
		s.Next = &style.Next{Val: x.Next}
	}
	s.Default = x.Default
	if x.NoName {
		s.Name = nil
	}
	if x.Builtin {
		s.CustomStyle = false
	}
	if x.EmptyBasedOn && d.BasedOn == "" {
		s.BasedOn = &style.BasedOn{}
	}
	if x.Tbl != 0 {
		t := &style.TableProperties{}
		if x.Tbl&1 != 0 {
			t.TblInd = &style.TblIndent{W: fmt.Sprint(d.Idx), Type: "dxa"}
		}
		if x.Tbl&0x7E != 0 {
			b := &style.TblBorders{}
			for k, dst := range []**style.TblBorder{&b.Top, &b.Left, &b.Bottom, &b.Right, &b.InsideH, &b.InsideV} {
				if x.Tbl&(2<<k) != 0 {
					*dst = d.tblBorder(k)
				}
			}
			t.TblBorders = b
		}
		if x.Tbl&0x780 != 0 {
			m := &style.TblCellMargin{}
			for k, dst := range []**style.TblCellSpace{&m.Top, &m.Left, &m.Bottom, &m.Right} {
				if x.Tbl&(0x80<<k) != 0 {
					*dst = d.tblSpace(k)
				}
			}
			t.TblCellMar = m
		}
		s.TablePr = t
	}
	if x.TrPr {
		s.TableRowPr = &style.TableRowProperties{}
	}
	if x.TcPr {
		s.TableCellPr = &style.TableCellProperties{}
	}
}

// ---------------------------------------------------------------------------------------------
// the XML entry points

const wNS = "http://schemas.openxmlformats.org/wordprocessingml/2006/main"

// stylesXML writes a styles part holding the definitions, the way a producer would: shape "own" = prefix w, elements in
// schema order; "prefix" = another prefix for the same namespace; "truncated" = cut in the middle (not well-formed);
// "empty" = no bytes.
func stylesXML(defs []StyleDef, shape string) []byte {
	if shape == "empty" {
		return nil
	}
	px := "w"
	if shape == "prefix" {
		px = "ns0"
	}
	var b bytes.Buffer
	esc := func(s string) string {
		var e bytes.Buffer
		xml.EscapeText(&e, []byte(s))
		return e.String()
	}
	attr := func(name, v string) {
		if v != "" {
			fmt.Fprintf(&b, ` %s:%s="%s"`, px, name, esc(v))
		}
	}
	leaf := func(name string, kv ...string) { // kv: attribute name, value, ...
		fmt.Fprintf(&b, "<%s:%s", px, name)
		for i := 0; i+1 < len(kv); i += 2 {
			attr(kv[i], kv[i+1])
		}
		b.WriteString("/>")
	}
	open := func(name string) { fmt.Fprintf(&b, "<%s:%s>", px, name) }
	end := func(name string) { fmt.Fprintf(&b, "</%s:%s>", px, name) }
	fmt.Fprintf(&b, `<?xml version="1.0" encoding="UTF-8" standalone="yes"?>`+"\n"+`<%s:styles xmlns:%s="%s">`, px, px, wNS)
	for _, d := range defs {
		s := d.literal()
		fmt.Fprintf(&b, "<%s:style", px)
		attr("type", s.Type)
		if s.Default {
			attr("default", "1")
		}
		if s.CustomStyle {
			attr("customStyle", "1")
		}
		attr("styleId", s.StyleID)
		b.WriteString(">")
		if s.Name != nil {
			leaf("name", "val", s.Name.Val)
		}
		if s.BasedOn != nil {
			leaf("basedOn", "val", s.BasedOn.Val)
		}
		if s.Next != nil {
			leaf("next", "val", s.Next.Val)
		}
		if p := s.ParagraphPr; p != nil {
			open("pPr")
			if p.KeepNext != nil {
				leaf("keepNext")
			}
			if p.KeepLines != nil {
				leaf("keepLines")
			}
			if p.PageBreak != nil {
				leaf("pageBreakBefore")
			}
			if bd := p.ParagraphBorder; bd != nil {
				open("pBdr")
				for _, sd := range []struct {
					n string
					l *style.ParagraphBorderLine
				}{{"top", bd.Top}, {"left", bd.Left}, {"bottom", bd.Bottom}, {"right", bd.Right}} {
					if sd.l != nil {
						leaf(sd.n, "val", sd.l.Val, "sz", sd.l.Sz, "space", sd.l.Space, "color", sd.l.Color)
					}
				}
				end("pBdr")
			}
			if p.Shading != nil {
				leaf("shd", "val", p.Shading.Val, "fill", p.Shading.Fill)
			}
			if p.SnapToGrid != nil {
				leaf("snapToGrid", "val", p.SnapToGrid.Val)
			}
			if x := p.Spacing; x != nil {
				leaf("spacing", "before", x.Before, "after", x.After, "line", x.Line, "lineRule", x.LineRule)
			}
			if x := p.Indentation; x != nil {
				leaf("ind", "left", x.Left, "right", x.Right, "firstLine", x.FirstLine)
			}
			if p.Justification != nil {
				leaf("jc", "val", p.Justification.Val)
			}
			if p.OutlineLevel != nil {
				leaf("outlineLvl", "val", p.OutlineLevel.Val)
			}
			end("pPr")
		}
		if r := s.RunPr; r != nil {
			open("rPr")
			if x := r.FontFamily; x != nil {
				leaf("rFonts", "ascii", x.ASCII, "hAnsi", x.HAnsi, "eastAsia", x.EastAsia, "cs", x.CS)
			}
			if r.Bold != nil {
				leaf("b")
			}
			if r.Italic != nil {
				leaf("i")
			}
			if r.Strike != nil {
				leaf("strike")
			}
			if r.Color != nil {
				leaf("color", "val", r.Color.Val)
			}
			if r.FontSize != nil {
				leaf("sz", "val", r.FontSize.Val)
			}
			if r.Highlight != nil {
				leaf("highlight", "val", r.Highlight.Val)
			}
			if r.Underline != nil {
				leaf("u", "val", r.Underline.Val)
			}
			end("rPr")
		}
		end("style")
	}
	end("styles")
	out := b.Bytes()
	if shape == "truncated" {
		cut := len(out) * 2 / 3
		for cut > 0 && !utf8.RuneStart(out[cut]) {
			cut--
		}
		out = out[:cut]
	}
	return out
}

// xmlOutcome says what ParseStylesFromXML makes of the styles part of an xml edit: the definitions it registers, or
// ok=false when it returns an error. Read from the call on a scratch registry of its own (the definitions a registration
// call creates are inputs of this property, not its subject: the same stance as quickDef). The reference then holds that
// a refused call leaves the registry as it was, that xml-parse replaces the registry by the parsed definitions and that
// xml-merge adds those whose id is not registered (the doc comments of the two functions).
func xmlOutcome(e Edit) (parsed []*style.Style, ok bool) {
	key := e.Shape + "\x00" + fmt.Sprintf("%+v", e.Defs)
	if xmlMemo.key == key {
		return xmlMemo.parsed, xmlMemo.ok
	}
	sm := style.NewStyleManager()
	for _, s := range sm.GetAllStyles() {
		sm.RemoveStyle(s.StyleID)
	}
	var err error
	if p, _ := kit.Try(func() { err = sm.ParseStylesFromXML(stylesXML(e.Defs, e.Shape)) }); p != nil || err != nil {
		xmlMemo.key, xmlMemo.parsed, xmlMemo.ok = key, nil, false
		return nil, false
	}
	all := sm.GetAllStyles()
	sort.Slice(all, func(i, j int) bool { return all[i].StyleID < all[j].StyleID })
	for _, s := range all {
		parsed = append(parsed, deepCopy(reflect.ValueOf(s)).Interface().(*style.Style))
	}
	xmlMemo.key, xmlMemo.parsed, xmlMemo.ok = key, parsed, true
	return parsed, true
}

var xmlMemo struct {
	key    string
	parsed []*style.Style
	ok     bool
}

// ---------------------------------------------------------------------------------------------
// read-only probes

var probeKinds = []string{"bytype", "bytype", "headings", "all", "allinfo", "headinginfo", "parainfo", "charinfo", "names", "configs", "exists", "get"}

// runProbe makes one read-only call. What it returns is not judged here (the listing functions belong to other
// properties); what it may do to the registry, or to later resolutions, is.
func runProbe(sm *style.StyleManager, api *style.QuickStyleAPI, p Probe) {
	switch p.Kind {
	case "bytype":
		for _, s := range sm.GetStylesByType(style.StyleType(p.Arg)) {
			_ = s.StyleID
		}
	case "headings":
		_ = sm.GetHeadingStyles()
	case "all":
		_ = sm.GetAllStyles()
	case "allinfo":
		_ = api.GetAllStylesInfo()
	case "headinginfo":
		_ = api.GetHeadingStylesInfo()
	case "parainfo":
		_ = api.GetParagraphStylesInfo()
	case "charinfo":
		_ = api.GetCharacterStylesInfo()
	case "names":
		_ = style.GetPredefinedStyleNames()
	case "configs":
		_ = style.GetPredefinedStyleConfigs()
	case "exists":
		_ = sm.StyleExists(p.Arg)
	case "get":
		_ = sm.GetStyle(p.Arg)
	}
}

// ---------------------------------------------------------------------------------------------
// the twin registry

type twinState struct {
	kind   string
	sm     *style.StyleManager
	api    *style.QuickStyleAPI
	reg    registry
	before map[string]string
}

// setupTwin builds the second registry of a case (after the first one has been registered, before its first query).
func setupTwin(c Case, sm *style.StyleManager, reg registry) (*twinState, error) {
	tw := &twinState{kind: c.Twin.Kind}
	if c.Twin.Kind == "clone" {
		tw.sm = sm.Clone()
		if tw.sm == nil {
			return nil, fmt.Errorf("Clone returned nil")
		}
		tw.reg = reg // the entries of a reference registry are never written to; edits work on copies of the map
	} else {
		c2 := Case{Predefined: c.Predefined, Load: c.Load}
		for i := len(c.Styles) - 1; i >= 0; i-- { // the other registration order
			d := c.Styles[i]
			d.Idx += c.Twin.Shift
			c2.Styles = append(c2.Styles, d)
		}
		var err error
		if tw.sm, tw.reg, err = setup(c2); err != nil {
			return nil, err
		}
	}
	tw.api = style.NewQuickStyleAPI(tw.sm)
	tw.before = snapshotAll(tw.sm)
	return tw, nil
}

// ---------------------------------------------------------------------------------------------
// generator: id classes, counts, sparse elements, extras, probes, xml edits

// trickyIDs: ids that are prefixes of one another, differ only in case, in leading / trailing blank, TAB or newline, in
// Unicode composition, astral characters, and ids the library itself uses for its predefined styles (with near misses).
var trickyIDs = []string{"A", "a", "AB", "Ab", "ab", "A ", "A\t", " A", "A\n", "A1", "A10", "A100", "A1 ", "Ä", "Ä", "𝔸", "𝔸𝔹",
	"Normal", "normal", "NORMAL", "Normal ", "Heading1", "Heading10", "heading 1", "a1", "1", "01", "1.0", "S0", "S00", "12", "TOC1"}

// nearMiss gives an id that differs from id in one of the ways lookups get wrong: case, padding, one character less or more.
func nearMiss(t *rapid.T, id string) string {
	switch rapid.SampledFrom([]string{"lower", "upper", "space", "tab", "lead", "chop", "zero", "nl"}).Draw(t, "nearmiss") {
	case "lower":
		return strings.ToLower(id)
	case "upper":
		return strings.ToUpper(id)
	case "space":
		return id + " "
	case "tab":
		return id + "\t"
	case "lead":
		return " " + id
	case "chop":
		_, n := utf8.DecodeLastRuneInString(id)
		return id[:len(id)-n]
	case "zero":
		return id + "0"
	}
	return id + "\n"
}

var valClasses = []string{"default", "default", "default", "zero", "zero", "zero", "neg", "neg", "frac", "frac", "pad", "pad", "pad", "upper", "upper", "astral", "astral", "long"}

func drawExtra(t *rapid.T, d *StyleDef, ids []string) {
	x := &StyleExtra{}
	if rapid.Bool().Draw(t, "x:next") {
		x.Next = rapid.SampledFrom(append([]string{"Normal", "NoSuchStyle", d.ID}, ids...)).Draw(t, "x:nextid")
	}
	x.Default = eighths(t, "x:default", 2)
	x.NoName = eighths(t, "x:noname", 2)
	x.Builtin = eighths(t, "x:builtin", 3)
	x.EmptyBasedOn = eighths(t, "x:emptybase", 2)
	if d.Type == "table" || eighths(t, "x:tbl", 2) {
		x.Tbl = rapid.SampledFrom([]int{0, 0, 0x800, 1, 0x7E, 0x780, 0x7FF, 0x002, 0x040, 0x080, 0x400, 0x155, 0x6AA}).Draw(t, "x:tblbits")
		x.TrPr = rapid.Bool().Draw(t, "x:trpr")
		x.TcPr = rapid.Bool().Draw(t, "x:tcpr")
	}
	d.Extra = x
}

// sparseElems replaces the element sets of a long chain: every element is defined by one to three styles only, so that
// nearest definitions lie far up the chain (a resolution that gives up after k levels shows for every k below the length).
func sparseElems(t *rapid.T, defs []StyleDef) {
	n := len(defs)
	has := make([]map[string]bool, n)
	for i := range has {
		has[i] = map[string]bool{}
	}
	for _, e := range ElemNames {
		k := rapid.SampledFrom([]int{1, 1, 2, 3}).Draw(t, "sparse:k")
		for j := 0; j < k; j++ {
			// the root end of a chain is index 0
			i := rapid.SampledFrom([]int{0, 0, 1, n / 4, n / 2, n - 1, -1}).Draw(t, "sparse:at")
			if i < 0 {
				i = rapid.IntRange(0, n-1).Draw(t, "sparse:any")
			}
			has[i][e] = true
		}
	}
	for i := range defs {
		pool := ElemNames
		if defs[i].Via == "quick" {
			pool = QuickElems
		}
		defs[i].Elems, defs[i].Attrs = nil, nil
		for _, e := range pool {
			if has[i][e] {
				defs[i].Elems = append(defs[i].Elems, e)
			}
		}
		drawAttrs(t, &defs[i])
	}
}

func genProbes(t *rapid.T, nq int, ids []string) []Probe {
	k := rapid.SampledFrom([]int{1, 2, 3, 4}).Draw(t, "nprobes")
	var out []Probe
	for j := 0; j < k; j++ {
		p := Probe{At: rapid.IntRange(0, nq).Draw(t, "probe:at"), Kind: rapid.SampledFrom(probeKinds).Draw(t, "probe:kind")}
		switch p.Kind {
		case "bytype":
			p.Arg = rapid.SampledFrom([]string{"paragraph", "character", "table", "numbering", "", "Paragraph"}).Draw(t, "probe:type")
		case "exists", "get":
			p.Arg = rapid.SampledFrom(append([]string{"Normal", "NoSuchStyle", ""}, ids...)).Draw(t, "probe:id")
		}
		out = append(out, p)
	}
	return out
}

// genXMLEdit draws an xml-parse / xml-merge edit: one to three definitions under registered and new ids.
func genXMLEdit(t *rapid.T, generated []string, idx, density int) Edit {
	e := Edit{Op: rapid.SampledFrom([]string{"xml-parse", "xml-merge", "xml-merge"}).Draw(t, "xmlop")}
	e.Shape = rapid.SampledFrom([]string{"own", "own", "prefix", "truncated", "empty"}).Draw(t, "xmlshape")
	k := rapid.SampledFrom([]int{1, 2, 3}).Draw(t, "xmldefs")
	used := map[string]bool{}
	for j := 0; j < k; j++ {
		id := rapid.SampledFrom(append([]string{"X0", "X1", "Normal"}, generated...)).Draw(t, "xmlid")
		if used[id] {
			continue
		}
		used[id] = true
		d := StyleDef{ID: id, Idx: idx + 20 + j, Type: "paragraph", Via: "add"}
		if rapid.Bool().Draw(t, "xmlbased") {
			d.BasedOn = rapid.SampledFrom(generated).Draw(t, "xmlparent")
		}
		drawElems(t, &d, density)
		e.Defs = append(e.Defs, d)
	}
	return e
}

// Template AST, data values and serialiser: copied from props/c16 (test packages cannot import each other).
package c17

import (
	"strconv"
	"strings"

	"wzverif/internal/gen"
)

// ---------------------------------------------------------------------------------------------
// Template nodes and data values, all plain JSON.

// Node kinds.
const (
	KLit   = "lit"   // S = literal text
	KVar   = "var"   // S = global variable name                  {{name}}
	KIf    = "if"    // S = condition, A = then, B = else (Else)  {{#if c}}..{{else}}..{{/if}}
	KEach  = "each"  // S = list (top level) / list field (nested), A = body
	KField = "field" // S = field of the current (or an enclosing) item  {{name}}
	KThis  = "this"  // {{this}}
	KIndex = "index" // {{@index}}
	KFirst = "first" // {{@first}}
	KLast  = "last"  // {{@last}}
	KBlock = "block" // S = block name, A = default content       {{#block "n"}}..{{/block}}
	KImage = "image" // S = image name, on a line of its own      {{#image n}}
)

type Node struct {
	K    string `json:"k"`
	S    string `json:"s,omitempty"`
	A    []Node `json:"a,omitempty"`
	Else bool   `json:"else,omitempty"`
	B    []Node `json:"b,omitempty"`
}

// Val is one data value with its Go type made explicit (JSON numbers would lose int / int64 / float64).
//
//	s string | i int | l int64 | f float64 (S = its decimal text) | b bool | n nil | m map | a list
//
// Values of other Go types (item fields, variables and list items are interface{}: the API takes any value):
//
//	i32 int32 | u uint | f32 float32 (S = decimal text) | as []string | ai []int | af []float64 (L = elements)
//	am []map[string]interface{} (L = elements of type m) | ms map[string]string (M = entries of type s)
type Val struct {
	T string         `json:"t"`
	S string         `json:"s,omitempty"`
	B bool           `json:"b,omitempty"`
	M map[string]Val `json:"m,omitempty"`
	L []Val          `json:"l,omitempty"`
}

// Override is one block redefinition of a derived template.
type Override struct {
	Name string `json:"name"`
	Body []Node `json:"body"`
}

type Data struct {
	Vars   map[string]Val     `json:"vars,omitempty"`
	Conds  map[string]bool    `json:"conds,omitempty"`
	Lists  map[string][]Val   `json:"lists,omitempty"`
	Images map[string]gen.Img `json:"images,omitempty"`
}

// ---------------------------------------------------------------------------------------------
// Serialiser: AST -> template text in the documented concrete syntax.

func serialise(ns []Node) string {
	var sb strings.Builder
	for _, n := range ns {
		switch n.K {
		case KLit:
			sb.WriteString(n.S)
		case KVar, KField:
			sb.WriteString("{{" + n.S + "}}")
		case KIf:
			sb.WriteString("{{#if " + n.S + "}}")
			sb.WriteString(serialise(n.A))
			if n.Else {
				sb.WriteString("{{else}}")
				sb.WriteString(serialise(n.B))
			}
			sb.WriteString("{{/if}}")
		case KEach:
			sb.WriteString("{{#each " + n.S + "}}")
			sb.WriteString(serialise(n.A))
			sb.WriteString("{{/each}}")
		case KThis:
			sb.WriteString("{{this}}")
		case KIndex:
			sb.WriteString("{{@index}}")
		case KFirst:
			sb.WriteString("{{@first}}")
		case KLast:
			sb.WriteString("{{@last}}")
		case KBlock:
			sb.WriteString(`{{#block "` + n.S + `"}}`)
			sb.WriteString(serialise(n.A))
			sb.WriteString("{{/block}}")
		case KImage:
			sb.WriteString("{{#image " + n.S + "}}")
		}
	}
	return sb.String()
}

// ---------------------------------------------------------------------------------------------
// Data -> the Go values the API takes, and -> the text a value stands for.

func (v Val) goValue() interface{} {
	switch v.T {
	case "s":
		return v.S
	case "i":
		n, _ := strconv.Atoi(v.S)
		return n
	case "l":
		n, _ := strconv.ParseInt(v.S, 10, 64)
		return n
	case "f":
		f, _ := strconv.ParseFloat(v.S, 64)
		return f
	case "b":
		return v.B
	case "m":
		m := make(map[string]interface{}, len(v.M))
		for k, x := range v.M {
			m[k] = x.goValue()
		}
		return m
	case "a":
		return goList(v.L)
	case "i32":
		n, _ := strconv.ParseInt(v.S, 10, 32)
		return int32(n)
	case "u":
		n, _ := strconv.ParseUint(v.S, 10, 32)
		return uint(n)
	case "f32":
		f, _ := strconv.ParseFloat(v.S, 32)
		return float32(f)
	case "as":
		out := make([]string, 0, len(v.L))
		for _, x := range v.L {
			out = append(out, x.S)
		}
		return out
	case "ai":
		out := make([]int, 0, len(v.L))
		for _, x := range v.L {
			n, _ := strconv.Atoi(x.S)
			out = append(out, n)
		}
		return out
	case "af":
		out := make([]float64, 0, len(v.L))
		for _, x := range v.L {
			f, _ := strconv.ParseFloat(x.S, 64)
			out = append(out, f)
		}
		return out
	case "am":
		out := make([]map[string]interface{}, 0, len(v.L))
		for _, x := range v.L {
			m := make(map[string]interface{}, len(x.M))
			for k, y := range x.M {
				m[k] = y.goValue()
			}
			out = append(out, m)
		}
		return out
	case "ms":
		out := make(map[string]string, len(v.M))
		for k, x := range v.M {
			out[k] = x.S
		}
		return out
	}
	return nil // "n"
}

// typed reports whether the value (or a value inside it) has a Go type beyond string / int / int64 / float64 /
// bool / map[string]interface{} / []interface{}.
func (v Val) typed() bool {
	switch v.T {
	case "i32", "u", "f32", "as", "ai", "af", "am", "ms":
		return true
	}
	for _, x := range v.M {
		if x.typed() {
			return true
		}
	}
	for _, x := range v.L {
		if x.typed() {
			return true
		}
	}
	return false
}

func goList(l []Val) []interface{} {
	out := make([]interface{}, 0, len(l))
	for _, x := range l {
		out = append(out, x.goValue())
	}
	return out
}

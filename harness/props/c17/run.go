package c17

import (
	"fmt"
	"reflect"
	"runtime"
	"sort"
	"strconv"
	"strings"
	"sync"
	"sync/atomic"
	"unsafe"

	"github.com/zerx-lab/wordZero/pkg/document"

	"wzverif/internal/gen"
	"wzverif/internal/kit"
)

// ---------------------------------------------------------------------------------------------
// Model of the engine: which version of which name is loaded, and to which ancestors each version was bound
// when it was loaded. The model never predicts a render result; it only says WHICH loads a fresh engine needs
// to reproduce the template under test.

type tplVer struct {
	id      int
	name    string
	kind    string // text | doc
	src     string
	doc     *DocSpec
	extends string  // name the source refers to ("" = none)
	parent  *tplVer // version loaded under that name at load time (nil = none / absent)
	blocks  []string
	op      int // index of the load op (-1: loaded by the concurrent phase)

	tpl  *document.Template // as returned by the engine under test
	base *document.Document // base document handed to the engine under test

	// versions bound (directly or transitively) below this one, in load order
	descendants []*tplVer
	rendered    bool                      // some render went through this version (itself or a descendant was rendered)
	imgSig      string                    // doc template: placeholder:format of the pictures of its latest render
	bodyStorage map[unsafe.Pointer]string // storage reachable from the body of base (filled on first use)
}

// chain returns the ancestors of v, root first, followed by v.
func (v *tplVer) chain() []*tplVer {
	var out []*tplVer
	for a := v; a != nil; a = a.parent {
		out = append(out, a)
		if len(out) > 64 {
			break
		}
	}
	for i, j := 0, len(out)-1; i < j; i, j = i+1, j-1 {
		out[i], out[j] = out[j], out[i]
	}
	return out
}

type model struct {
	cache map[string]*tplVer
	all   []*tplVer
}

func newModel() *model { return &model{cache: map[string]*tplVer{}} }

// bind registers a new version under its name (the engine call is made by the caller).
func (m *model) bind(v *tplVer) {
	v.id = len(m.all)
	if v.extends != "" {
		v.parent = m.cache[v.extends]
	}
	for a := v.parent; a != nil; a = a.parent {
		a.descendants = append(a.descendants, v)
	}
	m.cache[v.name] = v
	m.all = append(m.all, v)
}

// stale: binding the chain of v again now would pick other ancestors than it has (an ancestor was re-loaded
// or removed, or the absent parent of an unbound template has been loaded since).
func (m *model) stale(v *tplVer) bool {
	for _, a := range v.chain() {
		if a.extends != "" && m.cache[a.extends] != a.parent {
			return true
		}
	}
	return false
}

// foreignOverride reports whether, when v is rendered, some version OUTSIDE the chain of v was ever bound
// below a member A of that chain and defines a block that A defines too (the situation in which loading that
// version wrote its block text into A: D46).
func foreignOverride(v *tplVer) (bool, string) {
	ch := v.chain()
	in := map[*tplVer]bool{}
	for _, a := range ch {
		in[a] = true
	}
	for _, a := range ch {
		for _, d := range a.descendants {
			if in[d] {
				continue
			}
			for _, bn := range d.blocks {
				for _, an := range a.blocks {
					if bn == an {
						return true, fmt.Sprintf("%s#%d (extends %s) overrides block %q of %s#%d", d.name, d.id, d.extends, bn, a.name, a.id)
					}
				}
			}
		}
	}
	return false, ""
}

// ---------------------------------------------------------------------------------------------
// Data -> document.TemplateData

var imgBytes sync.Map // gen.Img -> []byte

func imageData(im gen.Img) []byte {
	if im.Fmt == "broken" { // a payload that is no picture at all
		return []byte("this is not a picture " + strconv.Itoa(im.Pat))
	}
	if b, ok := imgBytes.Load(im); ok {
		return b.([]byte)
	}
	b := im.Bytes()
	imgBytes.Store(im, b)
	return b
}

func (d *Data) templateData() *document.TemplateData {
	td := document.NewTemplateData()
	names := make([]string, 0, len(d.Vars))
	for k := range d.Vars {
		names = append(names, k)
	}
	sort.Strings(names)
	for _, k := range names {
		td.SetVariable(k, d.Vars[k].goValue())
	}
	for k, v := range d.Conds {
		td.SetCondition(k, v)
	}
	for k, l := range d.Lists {
		td.SetList(k, goList(l))
	}
	for k, im := range d.Images {
		if im.Fmt == "nofile" { // a picture given by the path of a file that does not exist
			td.SetImage(k, "/nonexistent/wz-c17/"+im.Name+".png", nil)
			continue
		}
		// the engine gets its own copy of the payload: the cached encoding stays pristine
		payload := append([]byte(nil), imageData(im)...)
		switch im.Pat % 4 {
		case 0:
			// a caller-owned configuration object together with alternative text and title (SetImageWithDetails):
			// rendering has to leave that object alone like every other piece of the data (U3.data follows the
			// pointer), and concurrent renders of the same data must not write to it (U4.race)
			cfg := &document.ImageConfig{Position: document.ImagePositionInline, Alignment: document.AlignCenter}
			td.SetImageWithDetails(k, "", payload, cfg, "alt "+im.Name, "title "+im.Name)
		case 1:
			td.SetImageFromData(k, payload, &document.ImageConfig{Position: document.ImagePositionInline, Alignment: document.AlignLeft, AltText: "own alt"})
		default:
			td.SetImageFromData(k, payload, nil)
		}
	}
	return td
}

// ---------------------------------------------------------------------------------------------
// One render and what is observed of it.

type result struct {
	outcome string // ok | error | panic: <value>
	stack   string
	doc     *document.Document
	body    string // fingerprint of the body of the returned document
	mem     string // fingerprint of the rest of the returned document (parts, relationships, content types, styles, counters)
	snap    *pkgSnap
}

// in-memory part table: the core-properties part carries the wall-clock time of document.New(); a styles part is
// there only as the left-over of an earlier save (written in map-iteration order, regenerated by every save)
// the numbering and notes parts of a document with list items / notes are written in map-iteration order whenever
// the library serialises them (compared as multisets through the saved package)
var skipClockPart = map[string]bool{"docProps/core.xml": true, "word/styles.xml": true, "word/numbering.xml": true, "word/footnotes.xml": true, "word/endnotes.xml": true}

// the body has its own fingerprint; the style registry of a returned document (a clone of the base document's or
// the default one, ~14 KB as XML) is compared through the saved package where that is observed
var skipBody = map[string]bool{"Document.Body": true, "Document.styleManager": true}

func renderOn(eng *document.TemplateEngine, name string, entry int, td *document.TemplateData) *result {
	r := &result{}
	var err error
	p, st := kit.Try(func() {
		if entry&1 == 1 {
			r.doc, err = eng.RenderTemplateToDocument(name, td)
		} else {
			r.doc, err = eng.RenderToDocument(name, td)
		}
	})
	switch {
	case p != nil:
		r.outcome, r.stack, r.doc = fmt.Sprintf("panic: %v", p), st, nil
	case err != nil || r.doc == nil:
		r.outcome, r.doc = "error", nil
	default:
		r.outcome = "ok"
	}
	return r
}

// observe records what is compared of a render. The in-memory state is always recorded; the saved package
// (one zip write + read per document, by far the most expensive observation) only when withPackage is set.
// The fingerprints are taken first: saving serialises into the document's part table.
func (r *result) observe(withPackage bool) *result {
	if r.doc != nil && r.body == "" {
		r.body = fingerprint(r.doc.Body, nil)
		r.mem = fingerprintKeys(r.doc, skipBody, skipClockPart)
	}
	if r.doc != nil && withPackage && r.snap == nil {
		r.snap = snapshot(r.doc)
	}
	return r
}

// diffResult returns "" when the two observed renders are equal.
func diffResult(a, b *result) string {
	if a.outcome != b.outcome {
		return fmt.Sprintf("outcome %q vs %q", a.outcome, b.outcome)
	}
	if a.doc == nil || b.doc == nil {
		return ""
	}
	if a.body != b.body {
		return "body differs " + firstDiff(a.body, b.body)
	}
	if a.mem != b.mem {
		return "returned document differs outside the body " + firstDiff(a.mem, b.mem)
	}
	if a.snap != nil && b.snap != nil {
		if d := diffSnap(a.snap, b.snap); d != "" {
			return "saved package differs: " + d
		}
	}
	return ""
}

var entryName = []string{"RenderToDocument", "RenderTemplateToDocument"}

var skipBaseDoc = map[string]bool{"Template.BaseDoc": true}

// ---------------------------------------------------------------------------------------------
// Interpreter.

type runner struct {
	c   *Case
	res *kit.Result
	eng *document.TemplateEngine
	m   *model
	// the other engine of the process (op "other"), created on first use
	other      *document.TemplateEngine
	otherCalls int
	// observations for labels / the non-trivial rule
	renders, rendersAfterChange, boundLoads, loads, reloads                                 int
	sawBaseAfterChild, sawSibling, sawChain3, sawStale, sawUnbound, sawAbsent, sawDocRender bool
	sawDocExt, sawRemoveLive, sawClearLive, sawReloadOtherSrc, sawHfSkip                    bool
	broken                                                                                  bool // purity / repeatability failed: sharing values between goroutines is not safe
	tainted                                                                                 bool
	// results the caller keeps (retain.go)
	kept                                                   []*kept
	rechecks, edits                                        int
	sawImgFmtChange, sawSpareRels, sawSpareCT, sawKeptSame bool
	sawDocDerived                                          bool // LoadTemplateFromDocument of a document with {{extends}} bound to a loaded parent
	maxLive                                                int  // largest number of names alive on the engine at once
}

// loadOn issues the load of v on an engine; the base document of a doc template is built anew.
func loadOn(eng *document.TemplateEngine, v *tplVer) (tpl *document.Template, base *document.Document, outcome string) {
	var err error
	p, _ := kit.Try(func() {
		if v.kind == "doc" {
			base = v.doc.build()
			tpl, err = eng.LoadTemplateFromDocument(v.name, base)
		} else {
			tpl, err = eng.LoadTemplate(v.name, v.src)
		}
	})
	switch {
	case p != nil:
		return nil, nil, fmt.Sprintf("panic: %v", p)
	case err != nil || tpl == nil:
		return nil, nil, "error"
	}
	return tpl, base, "ok"
}

func verOf(op Op, idx int) *tplVer {
	v := &tplVer{name: op.Name, op: idx}
	if op.K == "loaddoc" {
		v.kind, v.doc = "doc", op.Doc
		if v.doc == nil {
			v.doc = &DocSpec{}
		}
		txt := v.doc.contentText()
		v.extends, v.blocks = extendsOf(txt), blocksOf(txt)
	} else {
		v.kind, v.src = "text", op.Src
		v.extends, v.blocks = extendsOf(op.Src), blocksOf(op.Src)
	}
	return v
}

// contentText is the text in which the engine looks for directives of a document template: the paragraph
// texts (tables are skipped) and header / footer text.
func (d *DocSpec) contentText() string {
	var sb strings.Builder
	for _, e := range d.Elems {
		if e.Table != nil {
			continue
		}
		for _, r := range e.Runs {
			sb.WriteString(r.T)
		}
		sb.WriteString("\n")
	}
	sb.WriteString(d.Header + "\n" + d.Footer)
	for _, h := range d.HF {
		sb.WriteString("\n" + h.Text)
	}
	return sb.String()
}

func (x *runner) load(i int, op Op) {
	v := verOf(op, i)
	old := x.m.cache[op.Name]
	tpl, base, out := loadOn(x.eng, v)
	if out != "ok" {
		// loading a grammar source / an API-built document does not fail; if it does the history has no defined
		// continuation (C16.T0 judges loads); stop here
		x.res.Count("tainted:load-"+strings.SplitN(out, ":", 2)[0], 1)
		x.tainted = true
		return
	}
	v.tpl, v.base = tpl, base
	x.m.bind(v)
	x.loads++
	if old != nil {
		x.reloads++
		if old.src != v.src || old.kind != v.kind {
			x.sawReloadOtherSrc = true
		}
	}
	if len(x.m.cache) > x.maxLive {
		x.maxLive = len(x.m.cache)
	}
	if v.parent != nil {
		x.boundLoads++
		if v.parent.kind == "doc" {
			x.sawDocExt = true
		}
		if v.kind == "doc" {
			x.sawDocDerived = true
		}
	} else if v.extends != "" {
		x.sawUnbound = true
	}
}

// hfParts: number of header/footer parts of the base document that carry text.
func (d *DocSpec) hfParts() int {
	n := 0
	if d.HasHeader {
		n++
	}
	if d.HasFooter {
		n++
	}
	return n + len(d.HF)
}

// freshRender renders (v, entry, data) on a new engine that loaded only the chain of v.
func (x *runner) freshRender(v *tplVer, name string, entry int, d *Data, withPackage bool) *result {
	fresh := document.NewTemplateEngine()
	if v != nil {
		for _, a := range v.chain() {
			if _, _, out := loadOn(fresh, a); out != "ok" {
				return &result{outcome: "fresh load " + out}
			}
		}
	}
	return renderOn(fresh, name, entry, d.templateData()).observe(withPackage)
}

// ambiguousContent: a render that uses the Content of a document template (of the rendered template or of an
// ancestor) whose base has both a header and a footer part:
// the engine collects header/footer text into the template content in map-iteration order when the document
// is loaded, so two loads of one document are two different templates. Comparing across loads would blame
// rendering for what loading does; U1/U3 (same loaded template) still apply.
func ambiguousContent(v *tplVer, entry int) bool {
	if v == nil || (entry&1 == 1 && v.kind == "doc") {
		return false // RenderTemplateToDocument of a document template works on the base document, not on Content
	}
	for _, a := range v.chain() {
		if a.kind == "doc" && a.doc.hfParts() >= 2 {
			return true
		}
	}
	return false
}

func (x *runner) render(i int, op Op) {
	res := x.res
	v := x.m.cache[op.Name]
	d := x.c.data(op.Data)
	td := d.templateData()
	what := fmt.Sprintf("op=%d %s(%q, data %d)", i, entryName[op.Entry&1], op.Name, op.Data)

	fpData := fingerprint(td, nil)
	var fpTpl string
	var bases []*tplVer
	var fpBase []string
	if v != nil {
		fpTpl = fingerprint(v.tpl, skipBaseDoc)
		for _, a := range v.chain() {
			if a.base != nil {
				bases = append(bases, a)
				fpBase = append(fpBase, fingerprint(a.base, nil))
			}
		}
	}

	r1 := renderOn(x.eng, op.Name, op.Entry, td)
	r2 := renderOn(x.eng, op.Name, op.Entry, td)
	if v != nil {
		for _, a := range v.chain() {
			a.rendered = true
		}
	}

	// U3 purity: data, template (with its ancestors), base document
	res.Eval("C17.U3.data")
	if after := fingerprint(td, nil); after != fpData {
		res.Fail("C17.U3.data", "%s changed the data: %s", what, firstDiff(fpData, after))
		x.broken = true
	}
	if v != nil {
		res.Eval("C17.U3.template")
		if after := fingerprint(v.tpl, skipBaseDoc); after != fpTpl {
			res.Fail("C17.U3.template", "%s changed the Template value (or an ancestor): %s", what, firstDiff(fpTpl, after))
			x.broken = true
		}
		for k, a := range bases {
			res.Eval("C17.U3.basedoc")
			if after := fingerprint(a.base, nil); after != fpBase[k] {
				res.Fail("C17.U3.basedoc", "%s changed the base document of %q: %s", what, a.name, firstDiff(fpBase[k], after))
				x.broken = true
			}
		}
	}

	// U3, structurally: the bodies of the returned documents share no storage with the body of a base document,
	// nor with each other
	if v != nil {
		for _, a := range bases {
			if a.base.Body == nil {
				continue
			}
			if a.bodyStorage == nil {
				a.bodyStorage = storageSet(a.base.Body)
			}
			for k, r := range []*result{r1, r2} {
				if r.doc == nil || r.doc.Body == nil {
					continue
				}
				res.Eval("C17.U3.shared")
				x.reportShared(fmt.Sprintf("%s (call %d of 2)", what, k+1), fmt.Sprintf("the base document of %q", a.name), sharedWith(a.bodyStorage, r.doc.Body))
			}
		}
	}
	if r1.doc != nil && r2.doc != nil && r1.doc.Body != nil && r2.doc.Body != nil {
		res.Eval("C17.U3.shared")
		x.reportShared(what+" twice in a row, second call", "the document the first call returned", sharedWith(storageSet(r1.doc.Body), r2.doc.Body))
	}

	// U1 repeatability
	// What is compared: always the complete in-memory state of the returned documents (every field, exported or
	// not); the saved packages as well for the first two renders of a history and whenever a document template
	// is involved (parts beyond the body travel through the clone).
	withPkg := x.renders < 2
	if v != nil {
		for _, a := range v.chain() {
			if a.kind == "doc" {
				withPkg = true
			}
		}
	}
	r1.observe(withPkg)
	r2.observe(withPkg)
	res.Eval("C17.U1")
	if df := diffResult(r1, r2); df != "" {
		res.Fail("C17.U1", "%s twice in a row, first vs second: %s", what, df)
		x.broken = true
	}
	if strings.HasPrefix(r1.outcome, "panic") {
		res.Count("render-panics", 1)
	}

	// U2 history independence
	if ambiguousContent(v, op.Entry) {
		res.Count("skipped:U2-header+footer-content-order", 1)
		x.sawHfSkip = true
	} else {
		r3 := x.freshRender(v, op.Name, op.Entry, d, withPkg)
		res.Eval("C17.U2")
		if strings.HasPrefix(r3.outcome, "fresh load") {
			res.Count("tainted:"+r3.outcome, 1)
		} else if df := diffResult(r3, r1); df != "" {
			chain := "nothing loaded under that name"
			if v != nil {
				var cs []string
				for _, a := range v.chain() {
					cs = append(cs, fmt.Sprintf("%s#%d", a.name, a.id))
				}
				chain = strings.Join(cs, " <- ")
			}
			res.Fail("C17.U2", "%s: fresh engine that loaded only [%s] vs this engine: %s", what, chain, df)
		}
	}

	// results returned earlier are still what they were; then this render's results are kept as well
	x.recheck(what, nil)
	x.keep(what, r1)
	if k2 := x.keep(what+" (the second time)", r2); k2 != nil {
		k2.snap = nil // one saved package per render is observed again at the end
	}

	// bookkeeping
	x.renders++
	if v == nil {
		x.sawAbsent = true
		return
	}
	if v.kind == "doc" {
		x.sawDocRender = true
		x.noteDocRender(v, d)
	}
	changed := false
	for k := v.op + 1; k < i && k < len(x.c.Ops); k++ {
		if kk := x.c.Ops[k].K; kk != "render" {
			changed = true
		}
	}
	if changed {
		x.rendersAfterChange++
	}
	if len(v.descendants) > 0 {
		x.sawBaseAfterChild = true
	}
	if v.parent != nil {
		siblings := 0
		for _, d := range v.parent.descendants {
			if d.parent == v.parent && d != v {
				siblings++
			}
		}
		if siblings > 0 {
			x.sawSibling = true
		}
	}
	if len(v.chain()) >= 3 {
		x.sawChain3 = true
	}
	if x.m.stale(v) {
		x.sawStale = true
	}
}

func (x *runner) step(i int, op Op) {
	switch op.K {
	case "load", "loaddoc":
		x.load(i, op)
	case "render":
		if kit.RaceMode() && x.c.Conc != nil {
			// the -race twin only sets the stage for the concurrent phase; U1-U3 are the other binary's business
			x.res.Count("race-twin:sequential-render-not-judged", 1)
			return
		}
		x.render(i, op)
	case "edit":
		if kit.RaceMode() {
			return
		}
		x.edit(i, op)
	case "other":
		if x.other == nil {
			x.other = document.NewTemplateEngine()
		}
		x.otherCalls++
		// nothing is judged here: whatever this does to the engine under test shows in the renders that follow
		kit.Try(func() {
			switch op.Sub {
			case "load":
				x.other.LoadTemplate(op.Name, op.Src)
			case "render":
				renderOn(x.other, op.Name, op.Entry, x.c.data(op.Data).templateData())
			case "remove":
				x.other.RemoveTemplate(op.Name)
			case "clear":
				x.other.ClearCache()
			}
		})
	case "remove":
		if x.m.cache[op.Name] != nil {
			x.sawRemoveLive = true
		}
		if p, _ := kit.Try(func() { x.eng.RemoveTemplate(op.Name) }); p != nil {
			x.res.Fail("C17.U2", "op=%d RemoveTemplate(%q) panicked: %v", i, op.Name, p)
			x.tainted = true
		}
		delete(x.m.cache, op.Name)
	case "clear":
		if len(x.m.cache) > 0 {
			x.sawClearLive = true
		}
		if p, _ := kit.Try(func() { x.eng.ClearCache() }); p != nil {
			x.res.Fail("C17.U2", "op=%d ClearCache panicked: %v", i, p)
			x.tainted = true
		}
		x.m.cache = map[string]*tplVer{}
	}
}

// ---------------------------------------------------------------------------------------------
// Concurrent phase.

type concPlan struct {
	ok       bool
	why      string
	rendered map[string]bool
	extLoads int
}

// planConc checks the side conditions under which the concurrent phase has ONE defined outcome: nobody loads
// or removes a name somebody renders, every mutated name is mutated by exactly one job, a concurrent load
// extends only names no concurrent job mutates.
func planConc(cc *Conc) concPlan {
	p := concPlan{rendered: map[string]bool{}}
	touched := map[string]int{}
	for _, w := range cc.Workers {
		for _, j := range w {
			switch j.K {
			case "render":
				p.rendered[j.Name] = true
			case "load", "loaddoc", "remove":
				touched[j.Name]++
			default:
				p.why = "job kind " + j.K
				return p
			}
		}
	}
	for n, k := range touched {
		if k > 1 {
			p.why = "name " + n + " mutated by several jobs"
			return p
		}
		if p.rendered[n] {
			p.why = "name " + n + " rendered and mutated"
			return p
		}
	}
	for _, w := range cc.Workers {
		for _, j := range w {
			if j.K == "load" || j.K == "loaddoc" {
				if e := verOf(j, -1).extends; e != "" {
					p.extLoads++
					if touched[e] > 0 {
						p.why = "concurrent load extends the concurrently mutated name " + e
						return p
					}
				}
			}
		}
	}
	p.ok = true
	return p
}

type concKey struct {
	name        string
	entry, data int
}

func (x *runner) concurrent() {
	res := x.res
	cc := x.c.Conc
	plan := planConc(cc)
	if !plan.ok {
		res.Count("conc-invalid", 1)
		return
	}
	if plan.extLoads > 0 && openKF[kfParent] {
		// D46: such a load writes into the parent that other goroutines render (data race by design)
		res.Count("excluded:"+kfParent, 1)
		return
	}

	// what every render job produces alone (sequentially, same engine, before the phase)
	alone := map[concKey]*result{}
	tds := map[int]*document.TemplateData{}
	// gated phase: every variable value is a Stringer (on both sides of every comparison); the first render of a
	// goroutine gets a data value of its own whose values meet the other goroutines' inside the render
	mkData := func(di, slot int) *document.TemplateData {
		td := x.c.data(di).templateData()
		if cc.Gate {
			gated(td, slot)
		}
		return td
	}
	armed := make([]bool, len(cc.Workers))
	gtds := make([]*document.TemplateData, len(cc.Workers))
	for wi, w := range cc.Workers {
		if cc.Gate && len(w) > 0 && w[0].K == "render" {
			armed[wi] = true
			gtds[wi] = mkData(w[0].Data, wi)
		}
	}
	needPkg := map[concKey]bool{} // the saved package is compared for the first job of the first two goroutines
	for wi, w := range cc.Workers {
		if wi < 2 && len(w) > 0 && w[0].K == "render" && !kit.RaceMode() {
			needPkg[concKey{w[0].Name, w[0].Entry & 1, w[0].Data}] = true
		}
	}
	for _, w := range cc.Workers {
		for _, j := range w {
			if j.K != "render" {
				continue
			}
			k := concKey{j.Name, j.Entry & 1, j.Data}
			if alone[k] == nil {
				alone[k] = renderOn(x.eng, j.Name, j.Entry, mkData(j.Data, -1)).observe(needPkg[k])
				x.keep(fmt.Sprintf("%s(%q, data %d) before the concurrent phase", entryName[j.Entry&1], j.Name, j.Data), alone[k])
				if v := x.m.cache[j.Name]; v != nil {
					for _, a := range v.chain() {
						a.rendered = true
					}
				}
			}
			if tds[j.Data] == nil {
				tds[j.Data] = mkData(j.Data, -1) // ONE data value shared by all goroutines that use it
			}
		}
	}
	// purity under concurrency: every loaded template, base document and shared data value
	type watched struct {
		what string
		val  interface{}
		skip map[string]bool
		fp   string
	}
	var watch []*watched
	names := make([]string, 0, len(x.m.cache))
	for n := range x.m.cache {
		names = append(names, n)
	}
	sort.Strings(names)
	for _, n := range names {
		v := x.m.cache[n]
		watch = append(watch, &watched{what: "template " + n, val: v.tpl, skip: skipBaseDoc})
		if v.base != nil {
			watch = append(watch, &watched{what: "base document of " + n, val: v.base})
		}
	}
	for di, td := range tds {
		watch = append(watch, &watched{what: fmt.Sprintf("data %d", di), val: td})
	}
	for wi, td := range gtds {
		if td != nil {
			watch = append(watch, &watched{what: fmt.Sprintf("data of the first render of worker %d", wi), val: td})
		}
	}
	if kit.RaceMode() {
		watch = nil // the race detector reports the write itself
	}
	for _, w := range watch {
		w.fp = fingerprint(w.val, w.skip)
	}

	// mutator jobs: versions prepared outside the goroutines (base documents built here)
	type job struct {
		op  Op
		v   *tplVer
		r   *result
		out string
	}
	jobs := make([][]*job, len(cc.Workers))
	for wi, w := range cc.Workers {
		for _, j := range w {
			jb := &job{op: j}
			if j.K == "load" || j.K == "loaddoc" {
				jb.v = verOf(j, -1)
				if jb.v.kind == "doc" {
					jb.v.base = jb.v.doc.build()
				}
			}
			jobs[wi] = append(jobs[wi], jb)
		}
	}

	kit.RaceDelta() // reports up to here belong to the sequential part (none expected)
	procs := cc.Procs
	if procs < 2 {
		procs = 2
	}
	prev := runtime.GOMAXPROCS(procs)
	var steps int64
	foreign := make([]int64, len(jobs))
	var ready, done sync.WaitGroup
	start := make(chan struct{})
	ready.Add(len(jobs))
	done.Add(len(jobs))
	eng := x.eng
	var grp *gateGroup
	var gates []*gateState
	if cc.Gate {
		grp, gates = newGates(armed)
		defer dropGates()
	}
	for wi := range jobs {
		go func(wi int) {
			defer done.Done()
			ready.Done()
			<-start
			first := atomic.AddInt64(&steps, 1)
			for ji, jb := range jobs[wi] {
				switch jb.op.K {
				case "render":
					if ji == 0 && armed[wi] {
						jb.r = renderOn(eng, jb.op.Name, jb.op.Entry, gtds[wi])
						gates[wi].hit(false) // returned without printing a variable: do not keep the others waiting
						break
					}
					jb.r = renderOn(eng, jb.op.Name, jb.op.Entry, tds[jb.op.Data])
				case "load", "loaddoc":
					var err error
					p, _ := kit.Try(func() {
						if jb.v.kind == "doc" {
							jb.v.tpl, err = eng.LoadTemplateFromDocument(jb.v.name, jb.v.base)
						} else {
							jb.v.tpl, err = eng.LoadTemplate(jb.v.name, jb.v.src)
						}
					})
					if p != nil {
						jb.out = fmt.Sprintf("panic: %v", p)
					} else if err != nil {
						jb.out = "error"
					}
				case "remove":
					if p, _ := kit.Try(func() { eng.RemoveTemplate(jb.op.Name) }); p != nil {
						jb.out = fmt.Sprintf("panic: %v", p)
					}
				}
				atomic.AddInt64(&steps, 1)
			}
			last := atomic.AddInt64(&steps, 1)
			foreign[wi] = (last - first) - int64(len(jobs[wi])+1)
		}(wi)
	}
	ready.Wait()
	close(start)
	done.Wait()
	runtime.GOMAXPROCS(prev)
	race := kit.RaceDelta()

	overlapped := 0
	for _, f := range foreign {
		if f > 0 {
			overlapped++
		}
	}
	if overlapped >= 2 {
		res.Label("conc:overlapped")
	}
	res.Label("conc:ran")
	if cc.Gate {
		dropGates()
		res.Label("conc:gated")
		inFlight, levels := 0, 0
		for wi, g := range gates {
			if g != nil && atomic.LoadInt32(&g.in) == 1 {
				inFlight++
				if v := x.m.cache[cc.Workers[wi][0].Name]; v != nil {
					levels += len(v.chain()) - 1
				}
			}
		}
		if atomic.LoadInt32(&grp.timeouts) > 0 {
			res.Label("conc:gate-timeout")
		} else {
			// nobody gave up waiting: the renders that waited were all in flight when the last one arrived
			for _, n := range []int{2, 9, 17, 33} {
				if inFlight >= n {
					res.Label(fmt.Sprintf("conc:renders-in-flight-at-once>=%d", n))
				}
			}
			for _, n := range []int{16, 32, 64, 128} {
				if levels > n {
					res.Label(fmt.Sprintf("conc:inheritance-levels-in-flight-at-once>%d", n))
				}
			}
		}
		res.Count("conc-gated-renders-in-flight", inFlight)
	}

	// U4: every concurrent render equals what it produces alone
	nr := 0
	for wi, w := range jobs {
		for ji, jb := range w {
			if jb.op.K != "render" {
				if jb.out != "" {
					res.Fail("C17.U4", "worker %d job %d %s(%q) in the concurrent phase: %s", wi, ji, jb.op.K, jb.op.Name, jb.out)
				}
				continue
			}
			nr++
			res.Eval("C17.U4")
			// in-memory state of every returned document; the saved package too for the first job of the first two
			// goroutines (they render the same name at the same time)
			withPkg := ji == 0 && wi < 2 && !kit.RaceMode()
			jb.r.observe(withPkg)
			want := alone[concKey{jb.op.Name, jb.op.Entry & 1, jb.op.Data}].observe(withPkg)
			if df := diffResult(want, jb.r); df != "" {
				res.Fail("C17.U4", "worker %d job %d %s(%q, data %d): alone vs concurrently with %d other goroutines: %s", wi, ji, entryName[jb.op.Entry&1], jb.op.Name, jb.op.Data, len(jobs)-1, df)
			}
		}
	}
	res.Count("conc-renders", nr)
	// U3 under concurrency
	for _, w := range watch {
		res.Eval("C17.U3.concurrent")
		if after := fingerprint(w.val, w.skip); after != w.fp {
			res.Fail("C17.U3.concurrent", "the concurrent phase changed %s: %s", w.what, firstDiff(w.fp, after))
		}
	}
	// documents returned before the phase are untouched by it; the documents the phase returned are kept too
	x.recheck("the concurrent phase", nil)
	for wi, w := range jobs {
		for ji, jb := range w {
			if jb.op.K == "render" && jb.r != nil {
				if k := x.keep(fmt.Sprintf("worker %d job %d %s(%q, data %d) of the concurrent phase", wi, ji, entryName[jb.op.Entry&1], jb.op.Name, jb.op.Data), jb.r); k != nil && !(ji == 0 && wi < 2) {
					k.snap = nil
				}
			}
		}
	}
	if kit.RaceMode() {
		res.Eval("C17.U4.race")
		if race != "" {
			if len(race) > 1200 {
				race = race[:1200]
			}
			res.Fail("C17.U4.race", "data race reported during the concurrent phase:\n%s", race)
		}
	}

	// the loads / removals of the phase took effect (any order gives the same state: distinct names)
	var mutated []string
	for _, w := range jobs {
		for _, jb := range w {
			switch jb.op.K {
			case "load", "loaddoc":
				if jb.out == "" && jb.v.tpl != nil {
					x.m.bind(jb.v)
					mutated = append(mutated, jb.v.name)
				}
			case "remove":
				delete(x.m.cache, jb.op.Name)
				mutated = append(mutated, jb.op.Name)
			}
		}
	}
	sort.Strings(mutated)
	if kit.RaceMode() {
		return // the sequential after-checks are made by the other binary
	}
	for _, n := range mutated {
		v := x.m.cache[n]
		if ambiguousContent(v, 0) {
			continue
		}
		d := x.c.data(0)
		got := renderOn(x.eng, n, 0, d.templateData()).observe(false)
		want := x.freshRender(v, n, 0, d, false)
		res.Eval("C17.U2")
		if strings.HasPrefix(want.outcome, "fresh load") {
			continue
		}
		if df := diffResult(want, got); df != "" {
			res.Fail("C17.U2", "conc: after the concurrent phase RenderToDocument(%q, data 0): fresh engine vs this engine: %s", n, df)
		}
	}
	// ... and left what the rendered names produce untouched
	keys := make([]concKey, 0, len(alone))
	for k := range alone {
		keys = append(keys, k)
	}
	sort.Slice(keys, func(a, b int) bool {
		return fmt.Sprint(keys[a]) < fmt.Sprint(keys[b])
	})
	for _, k := range keys {
		got := renderOn(x.eng, k.name, k.entry, mkData(k.data, -1)).observe(false)
		res.Eval("C17.U2")
		if df := diffResult(alone[k], got); df != "" {
			res.Fail("C17.U2", "conc: %s(%q, data %d) before vs after the concurrent phase: %s", entryName[k.entry], k.name, k.data, df)
		}
	}
}

// ---------------------------------------------------------------------------------------------

func run(c Case) *kit.Result {
	res := &kit.Result{}
	snaps0 := nSnapshots
	defer func() { res.Count("package-snapshots", nSnapshots-snaps0) }()
	x := &runner{c: &c, res: res, eng: document.NewTemplateEngine(), m: newModel()}
	for i, op := range c.Ops {
		x.step(i, op)
		if x.tainted {
			break
		}
	}
	ranConc := false
	if c.Conc != nil && !x.tainted {
		if x.broken {
			res.Count("conc-skipped-after-purity-failure", 1)
		} else {
			x.concurrent()
			ranConc = true
		}
	}
	// every document a render of this history returned is still what it was when it was returned
	if !kit.RaceMode() {
		x.recheck("end of the history", nil)
		x.recheckPackages()
	}
	// the base documents, saved, equal untouched twins built from the same description
	if !x.tainted && !kit.RaceMode() {
		for _, v := range x.m.all {
			if v.base == nil || !v.rendered {
				continue // never handed to a render: nothing this property speaks about could have touched it
			}
			res.Eval("C17.U3.basedoc")
			if df := diffSnap(snapshot(v.doc.build()), snapshot(v.base)); df != "" {
				res.Fail("C17.U3.basedoc", "end: base document of %q (loaded by op=%d), saved, vs an untouched twin: %s", v.name, v.op, df)
			}
		}
	}
	describe(res, &c, x, ranConc)
	return res
}

// ---------------------------------------------------------------------------------------------
// Observations for the labels (reflection reads lengths and capacities only).

// spare reports whether the slice found under the given field path of the document has unused capacity.
func spare(doc *document.Document, path ...string) bool {
	v := reflect.ValueOf(doc)
	for _, f := range path {
		for v.Kind() == reflect.Ptr || v.Kind() == reflect.Interface {
			if v.IsNil() {
				return false
			}
			v = v.Elem()
		}
		if v.Kind() != reflect.Struct {
			return false
		}
		v = v.FieldByName(f)
		if !v.IsValid() {
			return false
		}
	}
	return v.Kind() == reflect.Slice && v.Cap() > v.Len()
}

// imagePlaceholders: names of the {{#image x}} paragraphs of a document description.
func (d *DocSpec) imagePlaceholders() []string {
	var out []string
	for _, e := range d.Elems {
		for _, r := range e.Runs {
			if m := reImage.FindStringSubmatch(r.T); m != nil {
				out = append(out, m[1])
			}
		}
	}
	return out
}

func (x *runner) noteDocRender(v *tplVer, d *Data) {
	if v.base != nil {
		if spare(v.base, "documentRelationships", "Relationships") {
			x.sawSpareRels = true
		}
		if spare(v.base, "contentTypes", "Defaults") || spare(v.base, "contentTypes", "Overrides") {
			x.sawSpareCT = true
		}
	}
	sig := ""
	for _, n := range v.doc.imagePlaceholders() {
		if im, ok := d.Images[n]; ok {
			sig += n + ":" + im.Fmt + ";"
		}
	}
	if sig == "" {
		return
	}
	if v.imgSig != "" && v.imgSig != sig {
		x.sawImgFmtChange = true
	}
	v.imgSig = sig
}

package c17

import (
	"testing"

	"wzverif/internal/kit"
)

// FuzzC17: coverage-guided search over the generator and oracle of TestC17 (thorough tier; see internal/kit/fuzz.go).
func FuzzC17(f *testing.F) { kit.FuzzVia(f, TestC17) }

// Template / data generator: the grammar generator of props/c16 (copied: test packages cannot import each
// other) without the known-finding hazards of C16; the history generator of C17 is in history.go.
package c17

import (
	"strconv"
	"strings"

	"pgregory.net/rapid"

	"wzverif/internal/gen"
	"wzverif/internal/kit"
)

// ---------------------------------------------------------------------------------------------
// Name pools: pairwise disjoint, ASCII \w+, none of this / else / index / first / last, and disjoint from
// every word used as literal text or as a data value.

var (
	varNames   = []string{"customer", "title", "city", "qty", "price", "owner", "memo", "code"}
	condNames  = []string{"isVip", "hasNote", "showSum", "enabled", "urgent"}
	blockNames = []string{"header", "summary", "content", "footer"}
	imageNames = []string{"logo", "chart"}
)

// schema of the items of one list; field names are unique over all schemas so that an inner body can
// refer to a field of an enclosing item without shadowing.
type schema struct {
	name   string
	scalar bool
	fields []string
	bools  []string
	subs   []*schema
}

var topLists = []*schema{
	{name: "items", fields: []string{"label", "amount", "sku"}, bools: []string{"active", "done"}, subs: []*schema{
		{name: "subs", fields: []string{"sname", "sval"}, bools: []string{"okSub"}, subs: []*schema{
			{name: "leafs", fields: []string{"lname", "lval"}, bools: []string{"finLeaf"}},
			{name: "bits", scalar: true},
		}},
		{name: "parts", scalar: true},
	}},
	{name: "people", fields: []string{"pname", "role"}, bools: []string{"lead"}, subs: []*schema{
		{name: "tasks", fields: []string{"tname", "prio"}, bools: []string{"tdone"}},
	}},
	{name: "rows", fields: []string{"colA", "colB"}, bools: []string{"bold"}},
	{name: "tags", scalar: true},
	{name: "nums", scalar: true},
}

// ---------------------------------------------------------------------------------------------
// Literal tokens. Rules that make "no concatenation of literals (and brace-safe values) forms a directive"
// hold by construction: no token ends with '{' or starts with '}', and inside a token "{{" is followed by a
// blank and "}}" is preceded by a blank. (A lone "{" is only ever placed directly before a directive and a
// lone "}" directly after one, see braceWrap.)

var litWords = []string{"Hello", "Total:", "Dear", "Report", "No.", "报告", "日期：", "Zürich", "x-1", "und", "#if", "@index", "/each", "else", "this",
	"#", "@", "/", "\"q\"", "[x]", "100%", "a&b", "<b>", "é", "😀"}
var litPunct = []string{" ", " ", " ", "  ", ", ", ". ", ": ", " - ", "\t", "; "}
var litBrace = []string{"{ ", " }", "a{b", "c}d", "{ { ", " } }", "{{ x }}", "{}", "{ x }", " }."}
var litNL = []string{"\n", "\n", "\n", "\n\n", " \n", "\n  ", "\n\t\n"}

type g struct {
	t *rapid.T
	// The C16 defects (else branch, nested loop context, nested absent list) are deterministic and hit the engine
	// with a history and the fresh engine alike, so their shapes are ordinary shapes here. Data strings never
	// contain "{{": re-scanned values (C16 KF-C16-rescan) are substituted in map-iteration order.
	elseAny   bool // else branches may be selected
	ctxAny    bool // nested loops may use this / @index / @first / @last
	absentAny bool // items may lack the list field a nested loop runs over without having another list field
	// collected while generating the template
	usedVars   map[string]bool
	usedConds  map[string]bool
	trueConds  map[string]bool // conditions that must be true (an If-Else over them while else is restricted)
	trueBools  map[string]bool // same for item bool fields
	usedLists  map[string]bool
	usedImgs   map[string]bool
	mustVars   map[string]bool // variables every data set supplies (the root of a deep chain prints them: see deepChain)
	names      []string // the template names of this history (tplNames or exoticNames)
	twoEngines bool     // calls on another engine are mixed into the history
	n          int      // label counter
	seed       uint64   // see salt
	nData      int      // data sets drawn so far
}

func (x *g) lbl(s string) string { x.n++; return s + strconv.Itoa(x.n) }

// intn is a plain rapid draw (biased towards small values and the bounds: used for counts and kind
// selection, where "small" is also "simple" for shrinking).
func (x *g) intn(lo, hi int, l string) int { return rapid.IntRange(lo, hi).Draw(x.t, x.lbl(l)) }

// salt is a per-case, per-draw pseudo-random offset derived from one drawn seed; rotating a biased rapid
// draw by it gives choices that are uniform over the run (the shares below mean what they say).
func (x *g) salt() uint64 {
	z := x.seed + uint64(x.n)*0x9E3779B97F4A7C15
	z = (z ^ (z >> 30)) * 0xBF58476D1CE4E5B9
	z = (z ^ (z >> 27)) * 0x94D049BB133111EB
	return z ^ (z >> 31)
}
func (x *g) uniform(n int, l string) int {
	v := x.intn(0, n-1, l)
	return int((uint64(v) + x.salt()) % uint64(n))
}
func (x *g) pick(ws []string, l string) string { return ws[x.uniform(len(ws), l)] }
func (x *g) chance(pct int, l string) bool     { return x.uniform(100, l) < pct }

// lit draws a literal made of 1-4 tokens.
func (x *g) lit(nl bool) Node {
	s := ""
	for i, n := 0, x.intn(1, 4, "litn"); i < n; i++ {
		switch k := x.intn(0, 9, "litk"); {
		case k < 4:
			s += x.pick(litWords, "w")
		case k < 7:
			s += x.pick(litPunct, "p")
		case k < 8:
			s += x.pick(litBrace, "b")
		default:
			if nl {
				s += x.pick(litNL, "nl")
			} else {
				s += x.pick(litPunct, "p")
			}
		}
	}
	return Node{K: KLit, S: s}
}

// braceWrap: {{{name}}} — a lone brace directly around a directive.
func braceWrap(n Node) []Node { return []Node{{K: KLit, S: "{"}, n, {K: KLit, S: "}"}} }

func (x *g) variable() Node {
	v := x.pick(varNames, "var")
	x.usedVars[v] = true
	return Node{K: KVar, S: v}
}

// flat parts for conditional branches at top level: literals and variables (and, rarely, a loop without
// inner conditionals: conditionals do not nest in the documented grammar).
func (x *g) topBranch() []Node {
	var out []Node
	for i, n := 0, x.intn(0, 3, "brn"); i < n; i++ {
		switch k := x.intn(0, 9, "brk"); {
		case k < 5:
			out = append(out, x.lit(true))
		case k < 9:
			out = append(out, x.variable())
		default:
			out = append(out, x.each(topLists[x.intn(0, len(topLists)-1, "lst")], 1, false))
		}
	}
	return out
}

func (x *g) topIf() Node {
	c := x.pick(condNames, "cond")
	x.usedConds[c] = true
	n := Node{K: KIf, S: c, A: x.topBranch()}
	if len(n.A) == 0 {
		n.A = []Node{x.lit(false)}
	}
	if x.chance(45, "else") {
		n.Else = true
		n.B = x.topBranch()
		if !x.elseAny {
			x.trueConds[c] = true
		}
	}
	return n
}

// ctxAllowed: may a body at this loop depth use {{this}} / {{@index}} / {{@first}} / {{@last}}?
func (x *g) ctxAllowed(depth int) bool { return depth == 1 || x.ctxAny }

// item-level placeholder usable in a body of schema s at loop depth d (anc = enclosing map schemas).
func (x *g) itemPart(s *schema, anc []*schema, depth int) Node {
	for try := 0; ; try++ {
		switch k := x.intn(0, 9, "ipk"); {
		case k < 4 && !s.scalar:
			return Node{K: KField, S: x.pick(s.fields, "fld")}
		case k < 4 && s.scalar && x.ctxAllowed(depth):
			return Node{K: KThis}
		case k == 4 && !s.scalar && len(s.bools) > 0:
			return Node{K: KField, S: x.pick(s.bools, "bfld")}
		case k == 5 && len(anc) > 0:
			a := anc[x.intn(0, len(anc)-1, "anc")]
			return Node{K: KField, S: x.pick(a.fields, "afld")}
		case k == 6 && x.ctxAllowed(depth):
			return Node{K: KIndex}
		case k == 7 && x.ctxAllowed(depth):
			return Node{K: KFirst}
		case k == 8 && x.ctxAllowed(depth):
			return Node{K: KLast}
		case k == 9:
			return x.variable()
		}
		if try > 8 {
			return x.lit(false)
		}
	}
}

func (x *g) loopBranch(s *schema, anc []*schema, depth int) []Node {
	var out []Node
	for i, n := 0, x.intn(0, 3, "lbn"); i < n; i++ {
		if x.chance(50, "lbk") {
			out = append(out, x.lit(true))
		} else {
			out = append(out, x.itemPart(s, anc, depth))
		}
	}
	return out
}

// each draws a loop over schema s at loop depth `depth` (1 = top level loop). allowIf=false inside a
// conditional branch.
func (x *g) each(s *schema, depth int, allowIf bool) Node {
	if depth == 1 {
		x.usedLists[s.name] = true
	}
	return Node{K: KEach, S: s.name, A: x.body(s, nil, depth, allowIf)}
}

func (x *g) body(s *schema, anc []*schema, depth int, allowIf bool) []Node {
	var out []Node
	for i, n := 0, x.intn(1, 5, "bodyn"); i < n; i++ {
		switch k := x.intn(0, 11, "bodyk"); {
		case k < 4:
			out = append(out, x.lit(true))
		case k < 8:
			p := x.itemPart(s, anc, depth)
			if x.chance(8, "wrap") && p.K != KLit {
				out = append(out, braceWrap(p)...)
			} else {
				out = append(out, p)
			}
		case k < 10 && allowIf && !s.scalar && len(s.bools) > 0:
			b := x.pick(s.bools, "ifb")
			nd := Node{K: KIf, S: b, A: x.loopBranch(s, anc, depth)}
			if len(nd.A) == 0 {
				nd.A = []Node{x.lit(false)}
			}
			if x.chance(40, "lelse") {
				nd.Else = true
				nd.B = x.loopBranch(s, anc, depth)
				if !x.elseAny {
					x.trueBools[b] = true
				}
			}
			out = append(out, nd)
		case k >= 10 && !s.scalar && len(s.subs) > 0 && depth < 3:
			sub := s.subs[x.intn(0, len(s.subs)-1, "sub")]
			out = append(out, Node{K: KEach, S: sub.name, A: x.body(sub, append(anc[:len(anc):len(anc)], s), depth+1, allowIf)})
		default:
			out = append(out, x.lit(true))
		}
	}
	// a separator at the end of most bodies so that items are told apart
	if x.chance(70, "sep") {
		out = append(out, Node{K: KLit, S: x.pick([]string{"\n", "; ", "|", ", ", "\n"}, "sepv")})
	}
	return out
}

// top draws a sequence of top-level parts (also used for block bodies; blocks=false there).
func (x *g) top(min, max int, blocks []string, images bool) []Node {
	var out []Node
	bi := 0
	for i, n := 0, x.intn(min, max, "topn"); i < n; i++ {
		switch k := x.intn(0, 19, "topk"); {
		case k < 6:
			out = append(out, x.lit(true))
		case k < 10:
			v := x.variable()
			if x.chance(10, "wrap") {
				out = append(out, braceWrap(v)...)
			} else {
				out = append(out, v)
			}
		case k < 13:
			out = append(out, x.topIf())
		case k < 17:
			out = append(out, x.each(topLists[x.intn(0, len(topLists)-1, "lst")], 1, true))
		case k < 18 && images:
			im := x.pick(imageNames, "img")
			x.usedImgs[im] = true
			out = append(out, Node{K: KLit, S: "\n"}, Node{K: KImage, S: im}, Node{K: KLit, S: "\n"})
		default:
			out = append(out, Node{K: KLit, S: x.pick(litNL, "nl")})
		}
		// interleave the blocks of the base template
		if bi < len(blocks) && x.chance(50, "blk") {
			out = append(out, x.block(blocks[bi]))
			bi++
		}
	}
	for ; bi < len(blocks); bi++ {
		out = append(out, x.block(blocks[bi]))
	}
	return out
}

func (x *g) block(name string) Node {
	b := Node{K: KBlock, S: name, A: x.top(0, 3, nil, false)}
	if x.chance(60, "blknl") { // the documented layout: markers on their own lines
		b.A = append([]Node{{K: KLit, S: "\n"}}, append(b.A, Node{K: KLit, S: "\n"})...)
		return b
	}
	return b
}

// ---------------------------------------------------------------------------------------------
// Data.

var valWords = []string{"Alice", "Bob", "ACME Ltd.", "東京", "München", "N/A", "x", "42nd", "a b  c", " lead", "trail ", "O'Neil", "<tag>", "&amp;", "50%", "#1", "@home", "😀 ok",
	"if", "each done", "[1]", "$5.00", "\\n"}

// brace-safe values obey the same rules as literal tokens (no trailing '{', no leading '}', no "{{" / "}}")
var valBraceSafe = []string{"a{b", "c}d", "x { y } z", "{ }", "{k}", "q}", "{ {x} }", "{x"}
var valMultiline = []string{"line1\nline2", "\nlead", "trail\n", "a\n\nb", " \n "}

func (x *g) scalar() Val {
	k := x.intn(0, 22, "valk")
	switch {
	case k == 20: // numbers of other Go types, and the corners of the usual ones
		switch x.uniform(6, "vnum") {
		case 0:
			return Val{T: "i32", S: strconv.Itoa(x.intn(-40, 40, "vi32") * 1000)}
		case 1:
			return Val{T: "u", S: strconv.Itoa(x.intn(0, 300, "vu"))}
		case 2:
			return Val{T: "f32", S: x.float().S}
		case 3:
			return Val{T: "i", S: x.pick([]string{"0", "-1", "-0", "2147483647", "-2147483648"}, "vi0")}
		case 4:
			return Val{T: "l", S: x.pick([]string{"0", "-1", "9223372036854775807", "-9223372036854775808"}, "vl0")}
		}
		return Val{T: "f", S: x.pick([]string{"0", "-0", "1e21", "-1e-7", "NaN", "+Inf", "0.1"}, "vf0")}
	case k == 21: // values that are slices / maps of a concrete type (printed as Go prints them)
		return x.typedSeq(x.pick([]string{"as", "as", "ai", "af", "ms", "am"}, "vseqk"))
	case k == 22: // long texts, and a multi-byte character at every position a cut could fall on
		return Val{T: "s", S: strings.Repeat(x.pick([]string{"0123456789", "é", "東京", "😀a", "x "}, "vlongw"), []int{7, 11, 26, 33, 103}[x.uniform(5, "vlongn")])}
	case k < 8:
		return Val{T: "s", S: x.pick(valWords, "vw")}
	case k < 9:
		return Val{T: "s", S: ""}
	case k < 10:
		return Val{T: "s", S: x.pick([]string{" ", "  ", "\t"}, "vblank")}
	case k < 11:
		return Val{T: "s", S: x.pick(valBraceSafe, "vb")}
	case k < 12:
		return Val{T: "s", S: x.pick(valMultiline, "vm")}
	case k < 14:
		return Val{T: "i", S: strconv.Itoa(x.intn(-50, 5000, "vi"))}
	case k < 15:
		return Val{T: "l", S: strconv.FormatInt(int64(x.intn(-9, 9, "vl"))*1000000007+int64(x.intn(0, 999, "vl2")), 10)}
	case k < 17:
		return x.float()
	case k < 18:
		return Val{T: "b", B: x.chance(50, "vbool")}
	case k < 19:
		return Val{T: "n"}
	}
	return Val{T: "s", S: x.pick(valWords, "vw") + " " + x.pick(valWords, "vw2")}
}

// typedSeq draws a value of one of the typed kinds: as / ai / af (0-3 elements), am (0-2 small maps), ms (0-2 entries).
func (x *g) typedSeq(kind string) Val {
	v := Val{T: kind}
	n := x.intn(0, 3, "tseqn")
	switch kind {
	case "ms":
		v.M = map[string]Val{}
		for i := 0; i < n && i < 2; i++ {
			v.M[[]string{"k", "z", "a"}[i]] = Val{T: "s", S: x.pick(valWords, "tseqw")}
		}
	case "am":
		for i := 0; i < n && i < 2; i++ {
			v.L = append(v.L, Val{T: "m", M: map[string]Val{"n": {T: "s", S: x.pick(valWords, "tseqw")}, "v": {T: "i", S: strconv.Itoa(x.intn(-5, 50, "tseqi"))}}})
		}
	case "ai":
		for i := 0; i < n; i++ {
			v.L = append(v.L, Val{T: "i", S: strconv.Itoa(x.intn(-5, 50, "tseqi"))})
		}
	case "af":
		for i := 0; i < n; i++ {
			v.L = append(v.L, x.float())
		}
	default:
		for i := 0; i < n; i++ {
			v.L = append(v.L, Val{T: "s", S: x.pick(valWords, "tseqw")})
		}
	}
	return v
}

// typedList turns a drawn list ([]interface{} for the API) into the slice of a concrete type a caller may hold
// instead: []map[string]interface{} for items that are maps, []string for scalar items (each as its text).
func typedList(s *schema, l []Val) Val {
	if !s.scalar {
		return Val{T: "am", L: l}
	}
	out := Val{T: "as"}
	for _, e := range l {
		t := e.S
		if e.T == "b" {
			t = strconv.FormatBool(e.B)
		}
		out.L = append(out.L, Val{T: "s", S: t})
	}
	return out
}

// float draws a float64 through a decimal text with 1-3 fractional digits whose last digit is not 0: that text
// is the shortest decimal denoting the float, hence "its value" as text without any formatting convention
// (trailing zeros, ".0" for whole numbers and exponent forms never arise).
func (x *g) float() Val {
	ip := x.intn(0, 999, "fi")
	dec := x.intn(1, 3, "fd")
	s := ""
	for i := 0; i < dec; i++ {
		lo := 0
		if i == dec-1 {
			lo = 1
		}
		s += strconv.Itoa(x.intn(lo, 9, "fdig"))
	}
	t := strconv.Itoa(ip) + "." + s
	if x.chance(20, "fneg") {
		t = "-" + t
	}
	return Val{T: "f", S: t}
}

func (x *g) item(s *schema, depth int) Val {
	if s.scalar {
		if s.name == "nums" {
			if x.chance(50, "numk") {
				return Val{T: "i", S: strconv.Itoa(x.intn(-9, 99, "num"))}
			}
			return x.float()
		}
		v := x.scalar()
		if v.T == "n" { // nil items are not in the documented data shapes
			v = Val{T: "s", S: ""}
		}
		return v
	}
	if x.chance(2, "itemms") { // an item that is a map of another type: no field access, {{this}} prints it
		v := Val{T: "ms", M: map[string]Val{}}
		for _, f := range s.fields {
			v.M[f] = Val{T: "s", S: x.pick(valWords, "itemmsw")}
		}
		return v
	}
	m := map[string]Val{}
	for _, f := range s.fields {
		if x.chance(88, "fpres") {
			m[f] = x.scalar()
		}
	}
	for _, b := range s.bools {
		switch {
		case x.trueBools[b]:
			m[b] = Val{T: "b", B: true}
		case x.chance(85, "bpres"):
			m[b] = Val{T: "b", B: x.chance(50, "bval")}
		}
	}
	nlists := 0
	for i, sub := range s.subs {
		absent := false
		switch {
		case x.absentAny:
			absent = x.chance(40, "sabs")
		case i > 0 && nlists > 0: // may be left out: the item has another list-valued field
			absent = x.chance(15, "sabs")
		}
		if absent {
			continue
		}
		nlists++
		m[sub.name] = Val{T: "a", L: x.list(sub, depth+1)}
		if x.chance(9, "styped") { // the caller's own slice type in place of []interface{}
			m[sub.name] = typedList(sub, m[sub.name].L)
		}
	}
	return Val{T: "m", M: m}
}

func (x *g) list(s *schema, depth int) []Val {
	n := []int{0, 1, 2, 2, 3, 3, 4}[x.intn(0, 6, "listn")]
	if depth >= 2 && n > 3 {
		n = 2
	}
	if depth == 1 && !kit.RaceMode() && x.chance(kit.Scale(1, 2), "listlong") { // lists past 10 / 16 / 32 / 64 items
		n = []int{10, 11, 11, 17, 17, 33, 65}[x.uniform(7, "listlongn")]
	}
	out := make([]Val, 0, n)
	for i := 0; i < n; i++ {
		out = append(out, x.item(s, depth))
	}
	return out
}

func (x *g) data() Data {
	d := Data{Vars: map[string]Val{}, Conds: map[string]bool{}, Lists: map[string][]Val{}, Images: map[string]gen.Img{}}
	for _, v := range varNames {
		if x.mustVars[v] || (x.usedVars[v] && x.chance(72, "vpres")) || (!x.usedVars[v] && x.chance(15, "vextra")) {
			d.Vars[v] = x.scalar()
		}
	}
	for _, c := range condNames {
		switch {
		case x.trueConds[c]:
			d.Conds[c] = true
		case x.usedConds[c]:
			if k := x.intn(0, 9, "ck"); k < 4 {
				d.Conds[c] = true
			} else if k < 7 {
				d.Conds[c] = false
			}
		case x.chance(10, "cextra"):
			d.Conds[c] = x.chance(50, "cval")
		}
	}
	for _, s := range topLists {
		if (x.usedLists[s.name] && x.chance(88, "lpres")) || (!x.usedLists[s.name] && x.chance(8, "lextra")) {
			d.Lists[s.name] = x.list(s, 1)
		}
	}
	i := 0
	for _, im := range imageNames {
		i++
		if x.usedImgs[im] { // always supplied: the documents do not say what a missing image renders as
			// the format is rotated by the number of the data set: the simplest draw gives every data set another format
			img := gen.Img{Fmt: []string{"png", "jpeg", "gif"}[(x.intn(0, 2, "imf")+x.nData)%3], W: 3 + 4*i, H: 2 + 3*i, Pat: x.intn(0, 1000, "imp"), Name: im}
			if x.chance(6, "imbad") { // a picture the render cannot use: the payload is no picture, or the file is not there
				img.Fmt = x.pick([]string{"broken", "nofile"}, "imbadk")
			}
			d.Images[im] = img
		}
	}
	x.nData++
	return d
}

package c17

import (
	"fmt"
	"strconv"

	"github.com/zerx-lab/wordZero/pkg/document"
	"github.com/zerx-lab/wordZero/pkg/style"

	"wzverif/internal/kit"
)

// ---------------------------------------------------------------------------------------------
// Results that stay alive.
//
// "Rendering the same template with the same data always gives the same result, regardless of which other
// templates were loaded, rendered or removed in between" and "each render equal to what it would produce alone"
// speak about results the caller HOLDS: a document a render returned is that render's result for as long as the
// caller keeps it. So every document the history's renders return is kept, and what is observable of it (body,
// remaining in-memory state, saved package) is taken again after every later render, after the concurrent phase
// and at the end of the history: it must be what it was when the render returned. A result that shares a
// slice, map or pointer with the base document or with another result shows up here, and only here when the
// shared storage is written by a LATER call.
//
// The caller also goes on working with the documents (op "edit": a picture, a header, a list item, a note, a
// style...). An edit of one result is no engine call at all, so it changes neither the template's base document
// (U3) nor any other result.

// keepCap: the caller holds on to the first keepCap documents of a history (every kept document is observed again
// after every later call: histories with dozens of renders would spend their time there).
const keepCap = 32

type kept struct {
	what string // the call that returned it
	doc  *document.Document
	body string
	mem  string
	snap *pkgSnap // nil: the saved package of this result is not observed
}

// record takes the fingerprints of the in-memory state (after the package snapshot, if one is taken: saving
// serialises into the document's part table).
func (k *kept) record() {
	k.body = fingerprint(k.doc.Body, nil)
	k.mem = fingerprintKeys(k.doc, skipBody, skipClockPart)
}

// keep registers the document of a render result. Call it when the comparisons of the render are done.
func (x *runner) keep(what string, r *result) *kept {
	if r == nil || r.doc == nil || kit.RaceMode() {
		return nil
	}
	if len(x.kept) >= keepCap {
		x.res.Count("kept:beyond-cap-not-kept", 1)
		return nil
	}
	k := &kept{what: what, doc: r.doc, body: r.body, mem: r.mem, snap: r.snap}
	if k.snap != nil || k.body == "" {
		k.record()
	}
	x.kept = append(x.kept, k)
	return k
}

// recheck compares the in-memory state of every kept result (but `except`) with what was recorded.
func (x *runner) recheck(when string, except *kept) {
	for _, k := range x.kept {
		if k == except {
			continue
		}
		x.res.Eval("C17.U2.retained")
		body := fingerprint(k.doc.Body, nil)
		mem := fingerprintKeys(k.doc, skipBody, skipClockPart)
		switch {
		case body != k.body:
			x.res.Fail("C17.U2.retained", "%s: the document returned earlier by %s is no longer what it was: body differs %s", when, k.what, firstDiff(k.body, body))
		case mem != k.mem:
			x.res.Fail("C17.U2.retained", "%s: the document returned earlier by %s is no longer what it was: it differs outside the body %s", when, k.what, firstDiff(k.mem, mem))
		default:
			continue
		}
		x.broken = true
		k.body, k.mem = body, mem // every change is reported once
	}
	x.rechecks++
}

// recheckPackages saves kept results whose package was observed once more (the two earliest ones: every later
// call had the chance to reach them): same package.
func (x *runner) recheckPackages() {
	n := 0
	for _, k := range x.kept {
		if k.snap == nil || n >= 2 {
			continue
		}
		n++
		x.res.Eval("C17.U2.retained")
		if df := diffSnap(k.snap, snapshot(k.doc)); df != "" {
			x.res.Fail("C17.U2.retained", "end: the document returned earlier by %s, saved when it was returned vs saved now: %s", k.what, df)
		}
	}
}

// ---------------------------------------------------------------------------------------------
// Edits.

func applyEdit(doc *document.Document, e *EditSpec) (outcome string) {
	var err error
	p, _ := kit.Try(func() {
		switch e.K {
		case "image":
			if e.Img != nil {
				im := *e.Img
				_, err = doc.AddImageFromData(append([]byte(nil), imageData(im)...), im.Name, document.ImageFormat(im.Fmt), im.W, im.H, nil)
			}
		case "header":
			err = doc.AddHeader(hfType(e.Type), e.Text)
		case "footer":
			err = doc.AddFooter(hfType(e.Type), e.Text)
		case "para":
			doc.AddParagraph(e.Text)
		case "list":
			doc.AddBulletList(e.Text, 0, document.BulletTypeDot)
		case "numlist":
			doc.AddNumberedList(e.Text, 0, document.ListTypeDecimal)
		case "footnote":
			err = doc.AddFootnote(e.Text, "note: "+e.Text)
		case "title":
			err = doc.SetTitle(e.Text)
		case "style":
			if sm := doc.GetStyleManager(); sm != nil {
				if st := sm.GetStyle("Normal"); st != nil && st.Name != nil {
					st.Name.Val = e.Text
				}
				sm.CreateCustomStyle("Edit"+strconv.Itoa(len(e.Text)), e.Text, style.StyleTypeParagraph, "Normal")
			}
		case "runtext":
			for _, el := range doc.Body.Elements {
				if para, ok := el.(*document.Paragraph); ok && para != nil && len(para.Runs) > 0 {
					para.Runs[0].Text.Content = e.Text
					break
				}
			}
		case "toc":
			doc.AddHeadingParagraph(e.Text, 1)
			doc.AddHeadingParagraph(e.Text+" 2", 2)
			err = doc.UpdateTOC()
		case "autotoc":
			doc.AddHeadingParagraph(e.Text, 1)
			err = doc.AutoGenerateTOC(document.DefaultTOCConfig())
		case "formula":
			for _, el := range doc.Body.Elements {
				if mp, ok := el.(*document.MathParagraph); ok && mp != nil {
					if mp.Math != nil {
						mp.Math.RawXML = "<m:r><m:t>" + strconv.Itoa(len(e.Text)) + "</m:t></m:r>"
					}
					if mp.MathPara != nil && mp.MathPara.Math != nil {
						mp.MathPara.Math.RawXML = "<m:r><m:t>" + strconv.Itoa(len(e.Text)) + "</m:t></m:r>"
					}
					break
				}
			}
		case "bookmark":
			for _, el := range doc.Body.Elements {
				if bs, ok := el.(*document.BookmarkStart); ok && bs != nil {
					bs.Name = "edited_" + strconv.Itoa(len(e.Text))
					break
				}
			}
		case "celltext":
			for _, el := range doc.Body.Elements {
				if tb, ok := el.(*document.Table); ok && tb != nil {
					err = tb.SetCellText(0, 0, e.Text)
					break
				}
			}
		}
	})
	switch {
	case p != nil:
		return "panic"
	case err != nil:
		return "error"
	}
	return "ok"
}

func (x *runner) edit(i int, op Op) {
	if op.Edit == nil || len(x.kept) == 0 {
		x.res.Count("edit:no-result-to-edit", 1)
		return
	}
	ref := op.Ref
	if ref < 0 {
		ref = -ref
	}
	k := x.kept[ref%len(x.kept)]
	when := fmt.Sprintf("op=%d edit %s of the document returned by %s", i, op.Edit.K, k.what)

	// base documents that took part in a render, before
	var bases []*tplVer
	var fpBase []string
	for _, v := range x.m.all {
		if v.base != nil && v.rendered {
			bases = append(bases, v)
			fpBase = append(fpBase, fingerprint(v.base, nil))
		}
	}
	out := applyEdit(k.doc, op.Edit)
	x.res.Count("edit:"+op.Edit.K+":"+out, 1)
	x.edits++
	if k.snap != nil {
		k.snap = snapshot(k.doc)
	}
	k.record()
	k.what += " (edited by op=" + strconv.Itoa(i) + ")"

	for j, v := range bases {
		x.res.Eval("C17.U3.basedoc")
		if after := fingerprint(v.base, nil); after != fpBase[j] {
			x.res.Fail("C17.U3.basedoc", "%s changed the base document of %q (loaded by op=%d): %s", when, v.name, v.op, firstDiff(fpBase[j], after))
			x.broken = true
		}
	}
	x.recheck(when, k)
}

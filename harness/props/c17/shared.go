package c17

import (
	"fmt"
	"reflect"
	"regexp"
	"unsafe"
)

// ---------------------------------------------------------------------------------------------
// Shared storage.
//
// The body of a document is a tree of exported structures the caller is meant to work on (runs, cells, content
// controls, bookmarks, formula paragraphs...). If the body of a document a render returned reaches storage - a
// pointer target, the backing array of a slice, a map - that the body of the template's base document (or of the
// document another render returned) reaches too, then whatever the caller does to its document there, through the
// API or through the exported fields, is done to the base document (to the other result) as well: the base document
// is only "unchanged" (U3) as long as nobody touches the result. So the bodies must be disjoint.

// storageOf calls fn for every piece of storage reachable from v: targets of non-nil pointers (of non-zero size),
// backing arrays of non-empty slices, maps; what lies behind a piece is visited only if fn returns true. seen
// guards against cycles and repeated subtrees.
func storageOf(v reflect.Value, path string, seen map[unsafe.Pointer]bool, fn func(p unsafe.Pointer, path string) bool) {
	switch v.Kind() {
	case reflect.Ptr:
		if v.IsNil() {
			return
		}
		p := v.UnsafePointer()
		if v.Type().Elem().Size() > 0 {
			if seen[p] {
				return
			}
			seen[p] = true
			if !fn(p, path) {
				return
			}
		}
		storageOf(v.Elem(), path, seen, fn)
	case reflect.Slice:
		if v.Len() == 0 {
			return
		}
		if v.Type().Elem().Size() > 0 {
			p := v.UnsafePointer()
			if !seen[p] {
				seen[p] = true
				if !fn(p, path+"[]") {
					return
				}
			}
		}
		if k := v.Type().Elem().Kind(); k == reflect.Uint8 || k == reflect.String || (k >= reflect.Bool && k <= reflect.Complex128) {
			return // no storage behind the elements
		}
		for i := 0; i < v.Len(); i++ {
			storageOf(v.Index(i), fmt.Sprintf("%s[%d]", path, i), seen, fn)
		}
	case reflect.Array:
		for i := 0; i < v.Len(); i++ {
			storageOf(v.Index(i), fmt.Sprintf("%s[%d]", path, i), seen, fn)
		}
	case reflect.Struct:
		t := v.Type()
		if pk := t.PkgPath(); pk == "sync" || pk == "time" {
			return
		}
		for i := 0; i < v.NumField(); i++ {
			storageOf(v.Field(i), path+"."+t.Field(i).Name, seen, fn)
		}
	case reflect.Map:
		if v.IsNil() {
			return
		}
		p := v.UnsafePointer()
		if seen[p] {
			return
		}
		seen[p] = true
		if !fn(p, path) {
			return
		}
		it := v.MapRange()
		for it.Next() {
			storageOf(it.Value(), fmt.Sprintf("%s[%v]", path, it.Key()), seen, fn)
		}
	case reflect.Interface:
		if !v.IsNil() {
			storageOf(v.Elem(), path+"("+v.Elem().Type().String()+")", seen, fn)
		}
	}
}

// storageSet returns the storage reachable from v with the path under which it was met first.
func storageSet(v interface{}) map[unsafe.Pointer]string {
	out := map[unsafe.Pointer]string{}
	storageOf(reflect.ValueOf(v), "", map[unsafe.Pointer]bool{}, func(p unsafe.Pointer, path string) bool {
		out[p] = path
		return true
	})
	return out
}

// sharedPlace: storage reachable from both values; path in the second value, owner = path in the first one. Only the
// topmost shared pieces are listed (everything behind a shared pointer is shared, too).
type sharedPlace struct{ path, owner string }

func sharedWith(owned map[unsafe.Pointer]string, v interface{}) []sharedPlace {
	var out []sharedPlace
	storageOf(reflect.ValueOf(v), "", map[unsafe.Pointer]bool{}, func(p unsafe.Pointer, path string) bool {
		if op, ok := owned[p]; ok {
			out = append(out, sharedPlace{path, op})
			return false
		}
		return true
	})
	return out
}

// Run members the engine's copy of a run takes over by reference (` + "`open:`" + ` finding kfRunRefs): reported apart from
// every other shared place, so that the finding absorbs exactly these.
var reRunRef = regexp.MustCompile(`\.Runs\[\d+\]\.(Drawing|FieldChar|InstrText)$`)

const runRefMark = "run members Drawing / FieldChar / InstrText"

// reportShared turns the shared places into failures: one for the run members of kfRunRefs, one for the rest.
func (x *runner) reportShared(what, other string, places []sharedPlace) {
	var refs, rest []sharedPlace
	for _, p := range places {
		if reRunRef.MatchString(p.path) {
			refs = append(refs, p)
		} else {
			rest = append(rest, p)
		}
	}
	if len(refs) > 0 {
		x.res.Fail("C17.U3.shared", "%s: the body of the returned document shares %s with %s in %d places (working on the one modifies the other), first: Body%s is the same storage as Body%s there", what, runRefMark, other, len(refs), refs[0].path, refs[0].owner)
	}
	if len(rest) > 0 {
		x.res.Fail("C17.U3.shared", "%s: the body of the returned document shares storage with %s in %d places (working on the one modifies the other), first: Body%s is the same storage as Body%s there", what, other, len(rest), rest[0].path, rest[0].owner)
		x.broken = true
	}
}

package c17

import (
	"regexp"
	"strconv"

	"wzverif/internal/kit"
)

const kfParent = "KF-C17-parent-mutation"

var reOpIdx = regexp.MustCompile(`^op=(\d+) `)

// replayModel rebuilds the harness model of the sequential history up to (not including) op n. It is a pure
// function of the case: no engine is involved.
func replayModel(c *Case, n int) *model {
	m := newModel()
	for i, op := range c.Ops {
		if i >= n {
			break
		}
		switch op.K {
		case "load", "loaddoc":
			m.bind(verOf(op, i))
		case "remove":
			delete(m.cache, op.Name)
		case "clear":
			m.cache = map[string]*tplVer{}
		}
	}
	return m
}

var findings = []kit.Finding[Case]{
	{
		ID: kfParent, Clause: "C17.U2",
		Desc: "loading a template that extends another writes its block contents into the shared parent Template (IsOverridden, Content): afterwards the base renders the child's text, and a sibling (or a template loaded later below the same ancestor) renders blocks of the other child",
		// Trigger: the failing call is the render (sequential history) of a template version whose chain contains a
		// template A below which ANOTHER version, not in that chain, was loaded earlier with a block that A defines.
		Trigger: func(c Case, f kit.Failure) bool {
			mm := reOpIdx.FindStringSubmatch(f.Detail)
			if mm == nil {
				return false
			}
			i, _ := strconv.Atoi(mm[1])
			if i < 0 || i >= len(c.Ops) || c.Ops[i].K != "render" {
				return false
			}
			v := replayModel(&c, i).cache[c.Ops[i].Name]
			if v == nil {
				return false
			}
			hit, _ := foreignOverride(v)
			return hit
		},
	},
}

package c17

import (
	"regexp"
	"strconv"
	"strings"

	"wzverif/internal/kit"
)

const (
	kfParent  = "KF-C17-parent-mutation"
	kfRunRefs = "KF-C17-run-members-by-reference"
)

var reOpIdx = regexp.MustCompile(`^op=(\d+) `)

// replayModel rebuilds the harness model of the sequential history up to (not including) op n. It is a pure
// function of the case: no engine is involved.
func replayModel(c *Case, n int) *model {
	m := newModel()
	for i, op := range c.Ops {
		if i >= n {
			break
		}
		switch op.K {
		case "load", "loaddoc":
			m.bind(verOf(op, i))
		case "remove":
			delete(m.cache, op.Name)
		case "clear":
			m.cache = map[string]*tplVer{}
		}
	}
	return m
}

// hasRefRuns: the base document has runs with a drawing (a picture of its own) or with field characters /
// instruction text (the field paragraphs of a generated table of contents).
func (d *DocSpec) hasRefRuns() bool {
	return d != nil && (d.Image != nil || d.TOC > 0)
}

var findings = []kit.Finding[Case]{
	{
		ID: kfRunRefs, Clause: "C17.U3.shared",
		Desc: "the engine's copy of a run (cloneRun) takes over Run.Drawing, Run.FieldChar and Run.InstrText by reference: a document rendered from a document template shares the pictures and field runs of its body with the template's base document and with every other render of it; resizing / re-describing the picture of one rendered document through its exported fields changes the base document and the sibling renders",
		// Trigger: the failure is the report about exactly these three run members (every other shared place is
		// reported apart), raised by a render (sequential history) of a template whose chain holds a base
		// document with a picture of its own or with the field paragraphs of AutoGenerateTOC.
		Trigger: func(c Case, f kit.Failure) bool {
			if !strings.Contains(f.Detail, runRefMark) {
				return false
			}
			mm := reOpIdx.FindStringSubmatch(f.Detail)
			if mm == nil {
				return false
			}
			i, _ := strconv.Atoi(mm[1])
			if i < 0 || i >= len(c.Ops) || c.Ops[i].K != "render" {
				return false
			}
			v := replayModel(&c, i).cache[c.Ops[i].Name]
			if v == nil {
				return false
			}
			for _, a := range v.chain() {
				if a.kind == "doc" && a.doc.hasRefRuns() {
					return true
				}
			}
			return false
		},
	},
	{
		ID: kfParent, Clause: "C17.U2",
		Desc: "loading a template that extends another writes its block contents into the shared parent Template (IsOverridden, Content): afterwards the base renders the child's text, and a sibling (or a template loaded later below the same ancestor) renders blocks of the other child",
		// Trigger: the failing call is the render (sequential history) of a template version whose chain contains a
		// template A below which ANOTHER version, not in that chain, was loaded earlier with a block that A defines.
		Trigger: func(c Case, f kit.Failure) bool {
			mm := reOpIdx.FindStringSubmatch(f.Detail)
			if mm == nil {
				return false
			}
			i, _ := strconv.Atoi(mm[1])
			if i < 0 || i >= len(c.Ops) || c.Ops[i].K != "render" {
				return false
			}
			v := replayModel(&c, i).cache[c.Ops[i].Name]
			if v == nil {
				return false
			}
			hit, _ := foreignOverride(v)
			return hit
		},
	},
}

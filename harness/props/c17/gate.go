package c17

import (
	"fmt"
	"sort"
	"sync"
	"sync/atomic"
	"time"

	"github.com/zerx-lab/wordZero/pkg/document"
)

// Rendezvous INSIDE the renders of a concurrent phase (Conc.Gate).
//
// A barrier in front of the goroutines only makes them start together; how many renders are in flight at the same
// moment is then up to the scheduler (on a loaded machine: mostly one or two, each render taking microseconds).
// State that renders in flight share on the engine (a counter, a scratch table, a pool) shows only when enough of them
// overlap. The data values of the API are interface{}: a value may be a fmt.Stringer, and a Stringer may take its
// time. In a gated phase every variable value is such a Stringer (printing the text of the value it stands for); the
// first time the first render of a goroutine prints one of them it waits until the first render of every other
// goroutine has reached the same point (or has returned, or gateTimeout has passed: an engine that serialises
// renders is slower, not wrong). At that moment all these renders are in flight, whatever the scheduler does.
// What a render returns does not depend on the waiting: the text is fixed when the value is made.

const gateTimeout = 3 * time.Second

// gateVal is the data value. Slot < 0 (or a slot no phase is using): never waits.
type gateVal struct {
	Slot int
	Text string
}

func (g gateVal) String() string {
	if s := gateSlot(g.Slot); s != nil {
		s.hit(true)
	}
	return g.Text
}

type gateGroup struct {
	need     int32
	arrived  int32
	atGate   int32 // renders that were waiting inside the render when the last one arrived
	open     chan struct{}
	timeouts int32
}

type gateState struct {
	once sync.Once
	grp  *gateGroup
	in   int32 // 1 while waiting inside a render
}

func (s *gateState) hit(wait bool) {
	s.once.Do(func() {
		g := s.grp
		if wait {
			atomic.StoreInt32(&s.in, 1)
			atomic.AddInt32(&g.atGate, 1)
		}
		if atomic.AddInt32(&g.arrived, 1) == g.need {
			close(g.open)
			return
		}
		if !wait {
			return
		}
		select {
		case <-g.open:
		case <-time.After(gateTimeout):
			atomic.AddInt32(&g.timeouts, 1)
		}
	})
}

var (
	gateMu    sync.RWMutex
	gateSlots []*gateState
)

func gateSlot(i int) *gateState {
	if i < 0 {
		return nil
	}
	gateMu.RLock()
	defer gateMu.RUnlock()
	if i < len(gateSlots) {
		return gateSlots[i]
	}
	return nil
}

// newGates arms one gate per marked goroutine (slot = number of the goroutine), all of one group; dropGates disarms them (values that are printed later - kept
// data, renders after the phase - return their text at once).
func newGates(armed []bool) (*gateGroup, []*gateState) {
	g := &gateGroup{open: make(chan struct{})}
	slots := make([]*gateState, len(armed))
	for i, on := range armed {
		if on {
			slots[i] = &gateState{grp: g}
			g.need++
		}
	}
	gateMu.Lock()
	gateSlots = slots
	gateMu.Unlock()
	return g, slots
}

func dropGates() {
	gateMu.Lock()
	gateSlots = nil
	gateMu.Unlock()
}

// gated replaces every variable value of td by a gateVal of the given slot that prints as the value does under
// fmt's default format. Both sides of every comparison of a gated phase are rendered with such values.
func gated(td *document.TemplateData, slot int) *document.TemplateData {
	names := make([]string, 0, len(td.Variables))
	for k := range td.Variables {
		names = append(names, k)
	}
	sort.Strings(names)
	for _, k := range names {
		if v := td.Variables[k]; v != nil {
			td.SetVariable(k, gateVal{Slot: slot, Text: fmt.Sprint(v)})
		}
	}
	return td
}

package c17

import (
	"sort"
	"strconv"
	"strings"

	"pgregory.net/rapid"

	"wzverif/internal/gen"
	"wzverif/internal/kit"
)

// Names: a small pool, so that re-loading, removing and extending the same names happens all the time.
var (
	tplNames = []string{"t0", "t1", "t2", "t3", "t4"}
	// names that differ in case only, that are a prefix of one another, with a blank and non-ASCII characters: a
	// template name is any string (a map key)
	exoticNames = []string{"t0", "T0", "t1", "t10", "模板 1"}
	concNames   = []string{"m0", "m1", "m2", "m3", "m4"} // loaded / removed only by the concurrent phase
	roomyName   = "d0"                                   // the document template loaded after the drawn part of the history
)

type gstate struct {
	loaded  map[string]string // name -> kind (text | doc), as the history leaves it
	renders int               // render ops so far (each keeps two results)
	kids    map[string]int    // name -> derived templates loaded below its current version
	depth   map[string]int    // name -> number of ancestors its current version was bound to (approximately: for the bias only)
}

func (st *gstate) names() []string {
	out := make([]string, 0, len(st.loaded))
	for n := range st.loaded {
		out = append(out, n)
	}
	sort.Strings(out)
	return out
}

func newG(t *rapid.T) *g {
	x := &g{t: t, usedVars: map[string]bool{}, usedConds: map[string]bool{}, trueConds: map[string]bool{}, trueBools: map[string]bool{},
		usedLists: map[string]bool{}, usedImgs: map[string]bool{}}
	x.seed = rapid.Uint64().Draw(t, "seed")
	x.elseAny = true
	x.ctxAny = x.chance(40, "ctxfree")
	x.absentAny = x.chance(30, "absfree")
	x.twoEngines = x.chance(10, "twoengines")
	x.names = tplNames
	if x.chance(12, "exoticnames") {
		x.names = exoticNames
	}
	return x
}

// ---------------------------------------------------------------------------------------------
// Template sources.

func (x *g) plainSource() string {
	var blocks []string
	if x.chance(70, "hasblocks") {
		blocks = append(blocks, blockNames[:x.intn(1, len(blockNames), "nblocks")]...)
	}
	return serialise(x.top(1, 4, blocks, true))
}

func (x *g) childSource(parent string) string {
	var sb strings.Builder
	sb.WriteString(`{{extends "` + parent + `"}}`)
	n := 0
	for _, b := range blockNames {
		if x.chance(50, "ovr") {
			n++
			sb.WriteString("\n")
			sb.WriteString(serialise([]Node{x.overrideBlock(b)}))
		}
	}
	if n == 0 {
		sb.WriteString("\n")
		sb.WriteString(serialise([]Node{x.overrideBlock(blockNames[0])}))
	}
	if x.chance(12, "childtail") { // text outside the blocks of a derived template
		sb.WriteString("\n" + x.pick(litWords, "tailw"))
	}
	return sb.String()
}

func (x *g) overrideBlock(name string) Node {
	b := Node{K: KBlock, S: name, A: x.top(0, 3, nil, false)}
	if len(b.A) == 0 || x.chance(50, "ovmark") {
		// a word that tells the overrides apart in a failure report
		b.A = append(b.A, Node{K: KLit, S: x.pick([]string{"CHILD", "SIB", "OVR", "子"}, "mark") + strconv.Itoa(x.intn(0, 9, "markn"))})
	}
	if x.chance(50, "blknl") {
		b.A = append([]Node{{K: KLit, S: "\n"}}, append(b.A, Node{K: KLit, S: "\n"})...)
	}
	return b
}

// ---------------------------------------------------------------------------------------------
// Base documents.

func (x *g) fmtRun(text string) DocRun {
	r := DocRun{T: text}
	switch x.intn(0, 5, "rfmt") {
	case 1:
		r.B = true
	case 2:
		r.I = true
	case 3:
		r.Size = 10 + x.intn(0, 8, "rsz")
	case 4:
		r.Color = x.pick([]string{"FF0000", "1F4E79", "00AA55"}, "rcol")
	case 5:
		r.B, r.I, r.Size = true, true, 14
	}
	return r
}

func (x *g) litText() string { return x.lit(false).S }

func (x *g) docVar() string {
	v := x.pick(varNames, "dvar")
	x.usedVars[v] = true
	return v
}

// nestedVars draws a table for cell (r, c) of an enclosing table: variables, sometimes a conditional, sometimes a
// loop row over a list (present, empty or absent in the data), and in a third of the cases one more table inside.
func (x *g) nestedVars(r, c int) DocNested {
	n := DocNested{R: r, C: c, Table: [][]string{{x.litText(), "{{" + x.docVar() + "}}"}, {"{{" + x.docVar() + "}}", x.litText() + "{{" + x.docVar() + "}}"}}}
	switch x.intn(0, 5, "nk") {
	case 0:
		cn := x.pick(condNames, "ncond")
		x.usedConds[cn] = true
		n.Table[1][1] = "{{#if " + cn + "}}" + x.litText() + "{{" + x.docVar() + "}}{{/if}}"
	case 1:
		s := []*schema{topLists[0], topLists[1], topLists[2]}[x.intn(0, 2, "nlist")]
		x.usedLists[s.name] = true
		n.Table = append(n.Table, []string{"{{#each " + s.name + "}}{{" + s.fields[0] + "}}", "{{" + s.fields[1] + "}}{{/each}}"})
	}
	if x.chance(33, "ninner") {
		n.Inner = &DocNested{R: x.intn(0, 1, "nir"), C: x.intn(0, 1, "nic"), Table: [][]string{{"{{" + x.docVar() + "}}", x.litText()}, {x.litText(), "{{" + x.docVar() + "}}"}}}
	}
	return n
}

// docSpec draws a base document. withPicture: it has a picture placeholder for sure.
func (x *g) docSpec() *DocSpec { return x.docSpecP(false) }

func (x *g) docSpecP(withPicture bool) *DocSpec {
	d := &DocSpec{}
	mapLists := []*schema{topLists[0], topLists[1], topLists[2]} // items, people, rows: lists of maps
	for i, n := 0, x.intn(1, 5, "delems"); i < n; i++ {
		switch k := x.uniform(18, "dkind"); { // 5 of 18 kinds are tables
		case k < 4: // text with variables, possibly one placeholder split over two runs
			v := x.docVar()
			if x.chance(25, "splitvar") {
				cut := 2 + x.intn(0, len(v)-1, "cut")
				ph := "{{" + v + "}}"
				d.Elems = append(d.Elems, DocElem{Runs: []DocRun{x.fmtRun(x.litText() + ph[:cut]), x.fmtRun(ph[cut:] + x.litText())}})
			} else {
				runs := []DocRun{x.fmtRun(x.litText()), x.fmtRun("{{" + v + "}}")}
				if x.chance(60, "tailrun") {
					runs = append(runs, x.fmtRun(x.litText()+"{{"+x.docVar()+"}}"))
				}
				d.Elems = append(d.Elems, DocElem{Runs: runs})
			}
		case k < 6: // conditional
			c := x.pick(condNames, "dcond")
			x.usedConds[c] = true
			s := "{{#if " + c + "}}" + x.litText() + "{{" + x.docVar() + "}}"
			if x.chance(40, "delse") {
				s += "{{else}}" + x.litText()
			}
			s += "{{/if}}"
			runs := []DocRun{x.fmtRun(s)}
			if x.chance(40, "dcondtail") {
				runs = append(runs, x.fmtRun(x.litText()))
			}
			d.Elems = append(d.Elems, DocElem{Runs: runs})
		case k < 7: // inline loop
			s := mapLists[x.intn(0, 2, "dlist")]
			x.usedLists[s.name] = true
			d.Elems = append(d.Elems, DocElem{Runs: []DocRun{x.fmtRun(x.litText() + "{{#each " + s.name + "}}{{" + s.fields[0] + "}}: {{" + s.fields[1] + "}}; {{/each}}")}})
		case k < 9: // loop over several paragraphs
			s := mapLists[x.intn(0, 2, "dlist")]
			x.usedLists[s.name] = true
			d.Elems = append(d.Elems,
				DocElem{Runs: []DocRun{{T: "{{#each " + s.name + "}}"}}},
				DocElem{Runs: []DocRun{x.fmtRun("{{" + s.fields[0] + "}}"), x.fmtRun(" (" + "{{" + s.fields[1] + "}})")}},
				DocElem{Runs: []DocRun{{T: "{{/each}}"}}})
		case k < 12: // table with a template row (and, often, tables nested in its cells)
			s := mapLists[x.intn(0, 2, "dlist")]
			x.usedLists[s.name] = true
			f := s.fields
			last := f[len(f)-1]
			row := []string{"{{#each " + s.name + "}}{{" + f[0] + "}}", "{{" + f[1] + "}}", "{{" + last + "}}{{/each}}"}
			if len(s.bools) > 0 && x.chance(40, "drowif") {
				row[1] = "{{#if " + s.bools[0] + "}}" + x.litText() + "{{/if}}{{" + f[1] + "}}"
			}
			tb := [][]string{{x.litText(), "{{" + x.docVar() + "}}", x.litText()}, row}
			if x.chance(50, "dfootrow") {
				tb = append(tb, []string{"{{" + x.docVar() + "}}", "", x.litText()})
			}
			e := DocElem{Table: tb}
			if x.chance(55, "dnest") {
				// in the header row, in the template row (placeholders of the item) or in the row after it
				r := x.intn(0, len(tb)-1, "dnestrow")
				n := x.nestedVars(r, x.intn(0, 2, "dnestcol"))
				if r == 1 {
					n.Table = [][]string{{x.litText(), "{{" + f[0] + "}}"}, {"{{" + f[1] + "}}", "{{" + x.docVar() + "}}"}}
				}
				e.Nested = append(e.Nested, n)
			}
			if x.chance(30, "dcellfmt") {
				cf := x.fmtRun("")
				e.CellFmt = &cf
			}
			d.Elems = append(d.Elems, e)
		case k < 14: // plain table with variables, tables nested in its cells (depth 1-2) with variables of their own
			e := DocElem{Table: [][]string{{x.litText(), "{{" + x.docVar() + "}}"}, {"{{" + x.docVar() + "}}" + x.litText(), ""}}}
			for i, n := 0, []int{0, 1, 1, 1, 2}[x.uniform(5, "dnestn")]; i < n; i++ {
				e.Nested = append(e.Nested, x.nestedVars(x.intn(0, 1, "dnr"), x.intn(0, 1, "dnc")))
			}
			if x.chance(30, "dcellfmt") {
				cf := x.fmtRun("")
				e.CellFmt = &cf
			}
			d.Elems = append(d.Elems, e)
		case k < 15: // picture
			im := x.pick(imageNames, "dimg")
			x.usedImgs[im] = true
			d.Elems = append(d.Elems, DocElem{Runs: []DocRun{{T: "{{#image " + im + "}}"}}})
		case k < 16:
			d.Elems = append(d.Elems, DocElem{Runs: []DocRun{{T: x.litText()}}, Heading: x.intn(1, 3, "dh")})
		case k < 17: // heading with a bookmark around it
			d.Elems = append(d.Elems, DocElem{Runs: []DocRun{{T: x.litText()}}, Heading: x.intn(1, 3, "dh"), Bookmark: "bm_" + strconv.Itoa(len(d.Elems))})
		default: // formula paragraph
			d.Elems = append(d.Elems, DocElem{Formula: x.pick([]string{"x+1", "<m:r><m:t>a=b</m:t></m:r>", "E=mc^2", "a<b"}, "dformula"), Block: x.chance(50, "dblock")})
		}
	}
	// a generated table of contents (it lists the headings: there is one at least)
	if x.chance(15, "dtoc") {
		d.TOC = 1 + x.uniform(2, "dtock")
		hasHeading := false
		for _, e := range d.Elems {
			hasHeading = hasHeading || (e.Heading > 0 && len(e.Runs) > 0)
		}
		if !hasHeading {
			d.Elems = append(d.Elems, DocElem{Runs: []DocRun{{T: x.litText()}}, Heading: 1})
		}
	}
	hf := func(l string) string {
		s := x.litText() + "{{" + x.docVar() + "}}"
		if x.chance(30, l+"if") {
			c := x.pick(condNames, l+"cond")
			x.usedConds[c] = true
			s += "{{#if " + c + "}}" + x.pick(litWords, l+"w") + "{{/if}}"
		}
		return s
	}
	if x.chance(40, "dheader") {
		d.HasHeader, d.Header = true, hf("hdr")
	}
	if x.chance(35, "dfooter") {
		d.HasFooter, d.Footer = true, hf("ftr")
	}
	if len(d.imagePlaceholders()) == 0 && (withPicture || x.chance(15, "dimgx")) {
		im := x.pick(imageNames, "dimg")
		x.usedImgs[im] = true
		at := x.intn(0, len(d.Elems), "dimgat")
		d.Elems = append(d.Elems[:at:at], append([]DocElem{{Runs: []DocRun{{T: "{{#image " + im + "}}"}}}}, d.Elems[at:]...)...)
	}
	// further header / footer parts, a picture, list items, a note: every one of them is an entry in the
	// document's relationship / content-type / part tables
	extra := []DocHF{{Type: "first"}, {Footer: true, Type: "first"}, {Type: "even"}, {Footer: true, Type: "even"}}
	for i := range extra { // a drawn order
		j := i + x.uniform(len(extra)-i, "hfperm")
		extra[i], extra[j] = extra[j], extra[i]
	}
	for _, h := range extra[:[]int{0, 0, 0, 1, 1, 2, 2, 3, 4}[x.uniform(9, "nhf")]] {
		h.Text = hf("hfx")
		d.HF = append(d.HF, h)
	}
	if x.chance(20, "dbaseimg") {
		d.Image = x.smallImg("dbi")
	}
	if x.chance(15, "dlist") {
		d.ListItems = x.intn(1, 3, "dlistn")
	}
	d.Footnote = x.chance(12, "dnote")
	d.Landscape = x.chance(15, "dland")
	d.Reopen = []int{0, 0, 0, 0, 0, 0, 1, 2}[x.uniform(8, "dreopen")]
	d.Saved = x.chance(50, "dsaved")
	return d
}

// roomySpec draws a base document with a picture placeholder whose relationship table, by the number of its
// entries, is likely to have room to spare (tables that grow by appending double: 3, 5, 6, 7 entries leave room).
func (x *g) roomySpec() *DocSpec {
	d := x.docSpecP(true)
	hfs := func(n int) {
		d.HasHeader, d.HasFooter, d.HF = false, false, nil
		all := []DocHF{{Type: "default"}, {Footer: true, Type: "default"}, {Type: "first"}, {Footer: true, Type: "first"}, {Type: "even"}, {Footer: true, Type: "even"}}
		for _, h := range all[:n] {
			h.Text = x.litText() + "{{" + x.docVar() + "}}"
			switch {
			case h.Type == "default" && !h.Footer:
				d.HasHeader, d.Header = true, h.Text
			case h.Type == "default":
				d.HasFooter, d.Footer = true, h.Text
			default:
				d.HF = append(d.HF, h)
			}
		}
	}
	switch x.uniform(5, "roomy") {
	case 0:
		hfs(3)
		d.Image, d.Reopen = nil, 0
	case 1:
		hfs(2)
		d.Image, d.Reopen = x.smallImg("rbi"), 0
	case 2:
		hfs(1 + x.uniform(3, "rhf"))
		d.Reopen = 2 // opened, then extended
	case 3:
		hfs(5 + x.uniform(2, "rhf"))
	}
	if x.chance(30, "rlist") {
		d.ListItems = x.intn(1, 3, "rlistn")
	}
	if x.chance(30, "rnote") {
		d.Footnote = true
	}
	if d.TOC == 0 && x.chance(25, "rtoc") {
		d.TOC = 1 + x.uniform(2, "rtock")
		d.Elems = append(d.Elems, DocElem{Runs: []DocRun{{T: x.litText()}}, Heading: 1})
	}
	return d
}

// editFor: an edit of a document rendered from the given base document that adds to what the base has already.
func (x *g) editFor(st *gstate, d *DocSpec) Op {
	op := x.editOp(st)
	kinds := []string{"image", "header", "footer"}
	if d.ListItems > 0 {
		kinds = append(kinds, "list", "numlist")
	}
	if d.Footnote {
		kinds = append(kinds, "footnote", "footnote")
	}
	if d.TOC > 0 {
		kinds = append(kinds, "toc", "toc", "autotoc")
	}
	for _, e := range d.Elems {
		if e.Formula != "" {
			kinds = append(kinds, "formula")
		}
		if e.Bookmark != "" {
			kinds = append(kinds, "bookmark")
		}
	}
	if x.chance(60, "editfor") {
		op.Edit.K = x.pick(kinds, "editfork")
		switch op.Edit.K {
		case "image":
			op.Edit.Img = x.smallImg("eim")
		case "header", "footer":
			op.Edit.Type = x.pick([]string{"default", "first", "even"}, "edtype")
		}
	}
	return op
}

func (x *g) smallImg(l string) *gen.Img {
	return &gen.Img{Fmt: x.pick([]string{"png", "jpeg", "gif"}, l+"f"), W: 1 + x.intn(0, 5, l+"w"), H: 1 + x.intn(0, 5, l+"h"), Pat: x.intn(0, 50, l+"p"),
		Name: x.pick([]string{"a.png", "b.jpg", "d.gif", "noext", "image0.png"}, l+"n")}
}

// editOp draws what the caller does next with a document an earlier render returned.
func (x *g) editOp(st *gstate) Op {
	e := &EditSpec{K: x.pick([]string{"image", "image", "header", "footer", "para", "list", "numlist", "footnote", "title", "style", "runtext", "celltext",
		"toc", "autotoc", "formula", "bookmark"}, "editk")}
	switch e.K {
	case "image":
		e.Img = x.smallImg("eim")
	case "header", "footer":
		e.Type = x.pick([]string{"default", "first", "even"}, "edtype")
		e.Text = x.litText()
	default:
		e.Text = x.litText()
	}
	hi := 2*st.renders - 1
	if hi < 0 {
		hi = 0
	}
	return Op{K: "edit", Ref: x.intn(0, hi, "editref"), Edit: e}
}

// ---------------------------------------------------------------------------------------------
// History.

func (x *g) nameFor(st *gstate, wantNew bool) string {
	if wantNew {
		for _, n := range x.names {
			if _, ok := st.loaded[n]; !ok {
				return n
			}
		}
	}
	return x.names[x.uniform(len(x.names), "name")]
}

func (x *g) loadedName(st *gstate, l string) string {
	ns := st.names()
	return ns[x.uniform(len(ns), l)]
}

func (x *g) plainLoad(st *gstate) Op {
	op := Op{K: "load", Name: x.nameFor(st, x.chance(65, "newname")), Src: x.plainSource()}
	st.loaded[op.Name] = "text"
	delete(st.kids, op.Name)
	delete(st.depth, op.Name)
	return op
}

func (x *g) docLoad(st *gstate) Op {
	op := Op{K: "loaddoc", Name: x.nameFor(st, x.chance(65, "newname")), Doc: x.docSpec()}
	st.loaded[op.Name] = "doc"
	delete(st.kids, op.Name)
	delete(st.depth, op.Name)
	return op
}

// parentFor draws the name a derived template (loaded under `name`) extends.
func (x *g) parentFor(st *gstate, name string) string {
	switch k := x.uniform(100, "parentk"); {
	case k < 6: // a name that is not loaded: the template stays without parent
		return x.pick([]string{"zz", "t4", "base"}, "absparent")
	case k < 12: // its own name: the previous version (if any) becomes the parent
		return name
	}
	// prefer text templates (they carry the blocks)
	ns := st.names()
	var txt []string
	for _, n := range ns {
		if st.loaded[n] == "text" && n != name {
			txt = append(txt, n)
		}
	}
	// a parent that has a child already gets a second one in a third of the cases (siblings)
	var withKid []string
	for _, n := range txt {
		if st.kids[n] > 0 {
			withKid = append(withKid, n)
		}
	}
	var derived []string // ... and a derived template gets a child of its own in a fifth (chains)
	for _, n := range txt {
		if st.depth[n] >= 1 {
			derived = append(derived, n)
		}
	}
	switch {
	case len(withKid) > 0 && x.chance(45, "sibling"):
		return withKid[x.uniform(len(withKid), "parent")]
	case len(derived) > 0 && x.chance(40, "chain"):
		return derived[x.uniform(len(derived), "parent")]
	case len(txt) > 0 && x.chance(90, "textparent"):
		return txt[x.uniform(len(txt), "parent")]
	}
	return ns[x.uniform(len(ns), "parent")]
}

// bound does the bookkeeping of a load of `name` that extends `parent`.
func (st *gstate) bound(name, parent, kind string) {
	st.loaded[name] = kind
	delete(st.kids, name) // a new version: nothing is bound below it yet
	st.kids[parent]++
	if _, ok := st.loaded[parent]; ok && parent != name {
		st.depth[name] = st.depth[parent] + 1
	} else {
		delete(st.depth, name)
	}
}

func (x *g) childLoad(st *gstate) Op {
	name := x.nameFor(st, x.chance(75, "newname"))
	parent := x.parentFor(st, name)
	op := Op{K: "load", Name: name, Src: x.childSource(parent)}
	st.bound(name, parent, "text")
	return op
}

// derivedDoc makes a base document a derived template: its first paragraph is {{extends "parent"}}, followed by
// paragraphs that override one or two blocks (markers and content in one paragraph, or in three).
func (x *g) derivedDoc(d *DocSpec, parent string) *DocSpec {
	head := []DocElem{{Runs: []DocRun{{T: `{{extends "` + parent + `"}}`}}}}
	n := 1 + x.uniform(2, "dovn")
	at := x.uniform(len(blockNames), "dovat")
	for i := 0; i < n; i++ {
		b := blockNames[(at+i)%len(blockNames)]
		body := x.pick([]string{"DOC", "DERIVED", "文"}, "dovmark") + strconv.Itoa(x.intn(0, 9, "dovmarkn")) + " {{" + x.docVar() + "}}"
		if x.chance(50, "dov3") {
			head = append(head, DocElem{Runs: []DocRun{{T: `{{#block "` + b + `"}}`}}}, DocElem{Runs: []DocRun{x.fmtRun(body)}}, DocElem{Runs: []DocRun{{T: "{{/block}}"}}})
		} else {
			head = append(head, DocElem{Runs: []DocRun{x.fmtRun(`{{#block "` + b + `"}}` + body + "{{/block}}")}})
		}
	}
	d.Elems = append(head, d.Elems...)
	return d
}

// docChildLoad: LoadTemplateFromDocument of a document whose text starts with {{extends ...}}.
func (x *g) docChildLoad(st *gstate) Op {
	name := x.nameFor(st, x.chance(75, "newname"))
	parent := x.parentFor(st, name)
	op := Op{K: "loaddoc", Name: name, Doc: x.derivedDoc(x.docSpec(), parent)}
	st.bound(name, parent, "doc")
	return op
}

func (x *g) renderOp(st *gstate) Op {
	op := Op{K: "render", Entry: x.uniform(2, "entry"), Data: x.intn(0, 2, "dataidx")}
	st.renders++
	if len(st.loaded) > 0 && x.chance(92, "rloaded") {
		op.Name = x.loadedName(st, "rname")
	} else {
		op.Name = x.names[x.uniform(len(x.names), "rname")]
	}
	return op
}

// otherOp: a call on another engine, under the names of this history (same names, other sources).
func (x *g) otherOp(st *gstate) Op {
	op := Op{K: "other", Name: x.names[x.uniform(len(x.names), "oname")]}
	if len(st.loaded) > 0 && x.chance(70, "oloaded") {
		op.Name = x.loadedName(st, "oname2")
	}
	switch k := x.uniform(100, "osub"); {
	case k < 50:
		op.Sub, op.Src = "load", "OTHER"+strconv.Itoa(x.intn(0, 9, "omark"))+" "+x.plainSource()
	case k < 75:
		op.Sub, op.Entry, op.Data = "render", x.uniform(2, "oentry"), x.intn(0, 2, "odata")
	case k < 90:
		op.Sub = "remove"
	default:
		op.Sub = "clear"
	}
	return op
}

func (x *g) op(st *gstate) Op {
	if x.twoEngines && x.chance(25, "other") {
		return x.otherOp(st)
	}
	if len(st.loaded) == 0 {
		switch k := x.uniform(100, "opk0"); {
		case k < 70:
			return x.plainLoad(st)
		case k < 88:
			return x.docLoad(st)
		case k < 94:
			return x.renderOp(st)
		case k < 97:
			return Op{K: "remove", Name: x.names[x.uniform(len(x.names), "rmname")]}
		default:
			return Op{K: "clear"}
		}
	}
	switch k := x.uniform(100, "opk"); {
	case k < 17:
		return x.plainLoad(st)
	case k < 38:
		return x.childLoad(st)
	case k < 41:
		return x.docChildLoad(st)
	case k < 42:
		return x.childLoad(st)
	case k < 50:
		return x.docLoad(st)
	case k < 87 && !kit.RaceMode():
		return x.renderOp(st)
	case k < 87:
		return x.childLoad(st) // race twin: the sequential part only sets the stage
	case k < 96:
		op := Op{K: "remove"}
		if x.chance(85, "rmloaded") {
			op.Name = x.loadedName(st, "rmname")
		} else {
			op.Name = x.names[x.uniform(len(x.names), "rmname")]
		}
		delete(st.loaded, op.Name)
		delete(st.kids, op.Name)
		delete(st.depth, op.Name)
		return op
	default:
		st.loaded, st.kids, st.depth = map[string]string{}, map[string]int{}, map[string]int{}
		return Op{K: "clear"}
	}
}

// bulk draws the loads (and a few removals) that bring the number of names alive on the engine past a power of
// two or ten: names b0, b1, ... b10, ... (prefixes of one another), short sources of their own; in a third of the
// cases they form inheritance chains of up to 12 levels whose root defines 12 blocks k0..k11 and whose n-th
// level overrides block k<n>.
func (x *g) bulk(st *gstate) []Op {
	n := []int{11, 17, 33, 65, 65, 66, 66, 70, 70, kit.Scale(66, 130)}[x.uniform(10, "bulkn")]
	chains := x.chance(35, "bulkchains")
	var ops []Op
	for i := 0; i < n; i++ {
		name := "b" + strconv.Itoa(i)
		lvl := i % 12
		var src string
		switch {
		case chains && lvl == 0:
			src = "R" + strconv.Itoa(i) + " {{" + x.variable().S + "}}"
			for k := 0; k < 12; k++ {
				src += "\n{{#block \"k" + strconv.Itoa(k) + "\"}}d" + strconv.Itoa(k) + "{{/block}}"
			}
		case chains:
			parent := "b" + strconv.Itoa(i-1)
			src = "{{extends \"" + parent + "\"}}\n{{#block \"k" + strconv.Itoa(lvl) + "\"}}L" + strconv.Itoa(i) + " {{" + x.variable().S + "}}{{/block}}"
			st.kids[parent]++
			st.depth[name] = lvl
		case i%7 == 3:
			src = "B" + strconv.Itoa(i) + ": {{#each tags}}{{this}},{{/each}}"
			x.usedLists["tags"] = true
		default:
			src = "B" + strconv.Itoa(i) + " {{" + x.variable().S + "}}"
		}
		ops = append(ops, Op{K: "load", Name: name, Src: src})
		st.loaded[name] = "text"
	}
	// a few of them go again (b1 is not b10)
	for i, k := 0, x.intn(0, 2, "bulkrm"); i < k; i++ {
		name := "b" + strconv.Itoa(x.intn(0, minInt(n-1, 12), "bulkrmi"))
		if _, ok := st.loaded[name]; ok {
			ops = append(ops, Op{K: "remove", Name: name}, Op{K: "render", Name: name, Entry: x.uniform(2, "bulkrmentry")})
			st.renders++
			delete(st.loaded, name)
			delete(st.kids, name)
			delete(st.depth, name)
		}
	}
	return ops
}

// conc draws the concurrent phase: renders of a few loaded names (equal and different names in different
// goroutines), plus loads / removals of names nobody renders.
func (x *g) conc(st *gstate) *Conc {
	race := kit.RaceMode()
	cc := &Conc{Procs: x.intn(2, 8, "procs")}
	loaded := st.names()
	// the rendered names
	var R []string
	if len(loaded) > 0 {
		perm := append([]string(nil), loaded...)
		for i := range perm { // rotate-pick without replacement
			j := i + x.uniform(len(perm)-i, "rperm")
			perm[i], perm[j] = perm[j], perm[i]
		}
		R = perm[:1+x.uniform(minInt(3, len(perm)), "nr")]
	} else {
		R = []string{"t0"} // nothing loaded: every render reports an error
	}
	inR := map[string]bool{}
	for _, n := range R {
		inR[n] = true
	}
	// names the mutators may use, each at most once
	var free []string
	for _, n := range loaded {
		if !inR[n] {
			free = append(free, n)
		}
	}
	free = append(free, concNames...)
	reserved := map[string]bool{}
	takeFree := func() string {
		for i, n := range free {
			if !reserved[n] {
				free = append(free[:i:i], free[i+1:]...)
				return n
			}
		}
		return ""
	}
	nw := x.intn(2, 4, "nworkers")
	if race {
		nw = x.intn(2, 6, "nworkers")
	}
	many := x.chance(3, "manyworkers") // past 8 / 16 goroutines, one or two calls each
	if many {
		nw = []int{9, 10, 17}[x.uniform(3, "nworkersmany")]
		if race && nw > 10 {
			nw = 10
		}
	}
	for w := 0; w < nw; w++ {
		var jobs []Op
		nj := x.intn(1, 4, "njobs")
		if many {
			nj = x.intn(1, 2, "njobs")
		}
		for j := 0; j < nj; j++ {
			if (w < 2 && j == 0) || x.chance(68, "jrender") {
				name := R[x.uniform(len(R), "jname")]
				if w < 2 && j == 0 {
					name = R[0] // two goroutines start with the same template
				}
				jobs = append(jobs, Op{K: "render", Name: name, Entry: x.uniform(2, "jentry"), Data: x.intn(0, 2, "jdata")})
				continue
			}
			k := x.uniform(100, "jmut")
			switch {
			case k < 40:
				if n := takeFree(); n != "" {
					jobs = append(jobs, Op{K: "load", Name: n, Src: x.plainSource()})
				}
			case k < 50:
				if n := takeFree(); n != "" {
					jobs = append(jobs, Op{K: "loaddoc", Name: n, Doc: x.docSpec()})
				}
			case k < 70:
				if n := takeFree(); n != "" {
					jobs = append(jobs, Op{K: "remove", Name: n})
				}
			default:
				// a derived template of a name that is being rendered (or of another loaded name). While D46 is
				// open such a load writes into the shared parent: kept out by construction.
				if openKF[kfParent] {
					if n := takeFree(); n != "" {
						jobs = append(jobs, Op{K: "load", Name: n, Src: x.plainSource()})
					}
					continue
				}
				var parents []string
				parents = append(parents, R...)
				for _, n := range free {
					if _, ok := st.loaded[n]; ok && !reserved[n] {
						parents = append(parents, n)
					}
				}
				p := parents[x.uniform(len(parents), "jparent")]
				reserved[p] = true
				if n := takeFree(); n != "" {
					if k >= 85 { // ... loaded from a document
						jobs = append(jobs, Op{K: "loaddoc", Name: n, Doc: x.derivedDoc(x.docSpec(), p)})
					} else {
						jobs = append(jobs, Op{K: "load", Name: n, Src: x.childSource(p)})
					}
				}
			}
		}
		if len(jobs) == 0 {
			jobs = append(jobs, Op{K: "render", Name: R[0], Entry: 0, Data: 0})
		}
		cc.Workers = append(cc.Workers, jobs)
	}
	return cc
}

// deepChain draws the loads of ONE inheritance chain h0 <- h1 <- .. <- h<links>: the root is a source of the grammar
// with all four blocks that prints a variable every data set supplies; every further level is a derived source
// of the grammar (overriding some of the blocks). Returns the names, root first.
func (x *g) deepChain(st *gstate) ([]Op, []string) {
	links := []int{1, 2, 3, 6, 6, 8, 12, 12}[x.uniform(8, "deeplinks")]
	v := x.variable().S
	if x.mustVars == nil {
		x.mustVars = map[string]bool{}
	}
	x.mustVars[v] = true
	root := "H {{" + v + "}} " + serialise(x.top(1, 3, blockNames, false))
	ops := []Op{{K: "load", Name: "h0", Src: root}}
	names := []string{"h0"}
	st.loaded["h0"] = "text"
	for i := 1; i <= links; i++ {
		name, parent := "h"+strconv.Itoa(i), "h"+strconv.Itoa(i-1)
		ops = append(ops, Op{K: "load", Name: name, Src: x.childSource(parent)})
		names = append(names, name)
		st.loaded[name] = "text"
		st.kids[parent]++
		st.depth[name] = i
	}
	return ops, names
}

// deepConc draws a gated concurrent phase of many goroutines (past 8 / 16 / 32) whose first renders - of the deepest
// template of the chain mostly - are all in flight at the same moment; a few second jobs: further renders, loads of
// derived templates of chain members / removals under names nobody renders.
func (x *g) deepConc(st *gstate, chain []string) *Conc {
	cc := &Conc{Procs: x.intn(2, 8, "procs"), Gate: true}
	nw := []int{6, 9, 12, 17, 17, 24, 33}[x.uniform(7, "deepworkers")]
	if kit.RaceMode() && nw > 12 {
		nw = 12
	}
	leaf := chain[len(chain)-1]
	free := append([]string(nil), concNames...)
	for w := 0; w < nw; w++ {
		name := leaf
		if w >= 2 && x.chance(30, "deepname") {
			name = chain[x.uniform(len(chain), "deeplevel")]
		}
		jobs := []Op{{K: "render", Name: name, Entry: x.uniform(2, "jentry"), Data: x.intn(0, 2, "jdata")}}
		if x.chance(25, "deepjob2") {
			switch k := x.uniform(100, "deepjob2k"); {
			case k < 50:
				jobs = append(jobs, Op{K: "render", Name: chain[x.uniform(len(chain), "deeplevel2")], Entry: x.uniform(2, "jentry"), Data: x.intn(0, 2, "jdata")})
			case k < 85 && len(free) > 0:
				jobs = append(jobs, Op{K: "load", Name: free[0], Src: x.childSource(chain[x.uniform(len(chain), "deepparent")])})
				free = free[1:]
			case len(free) > 0:
				jobs = append(jobs, Op{K: "remove", Name: free[0]})
				free = free[1:]
			}
		}
		cc.Workers = append(cc.Workers, jobs)
	}
	return cc
}

func minInt(a, b int) int {
	if a < b {
		return a
	}
	return b
}

func genCase(t *rapid.T) Case {
	x := newG(t)
	race := kit.RaceMode()
	st := &gstate{loaded: map[string]string{}, kids: map[string]int{}, depth: map[string]int{}}
	var c Case
	maxOps := kit.Scale(11, 16)
	if race {
		maxOps = 6
	}
	for i, n := 0, x.intn(2, maxOps, "nops"); i < n; i++ {
		op := x.op(st)
		c.Ops = append(c.Ops, op)
		if op.K == "render" && x.chance(10, "edit") { // the caller goes on working with a document it was given
			c.Ops = append(c.Ops, x.editOp(st))
		}
	}
	// a document template with pictures, rendered several times in a row with different data (the results of
	// the earlier renders stay with the caller, who may go on working with the later ones)
	minDatas := 1
	if x.chance(kit.Scale(30, 25), "roomy") {
		name := roomyName
		spec := x.roomySpec()
		c.Ops = append(c.Ops, Op{K: "loaddoc", Name: name, Doc: spec})
		st.loaded[name] = "doc"
		if !race {
			d0 := x.intn(0, 2, "rdata")
			for i, n := 0, x.intn(2, 3, "rrenders"); i < n; i++ {
				c.Ops = append(c.Ops, Op{K: "render", Name: name, Entry: x.uniform(2, "rentry"), Data: d0 + i})
				st.renders++
				if x.chance(30, "redit") {
					c.Ops = append(c.Ops, x.editFor(st, spec))
				}
			}
			minDatas = 2
		}
	}
	// the same call many times in a row (past the 10th / 16th / 32nd time)
	if !race && len(st.loaded) > 0 && x.chance(2, "burst") {
		op := Op{K: "render", Name: x.loadedName(st, "burstname"), Entry: x.uniform(2, "burstentry"), Data: x.intn(0, 2, "burstdata")}
		n := []int{10, 11, 17, kit.Scale(11, 33)}[x.uniform(4, "burstn")]
		if st.loaded[op.Name] == "doc" { // every render of a document template is observed through its saved package
			n = 10 + x.uniform(2, "burstn2")
		}
		for i := 0; i < n; i++ {
			c.Ops = append(c.Ops, op)
			st.renders++
		}
	}
	// many templates alive on the engine at once (past 10 / 16 / 32 / 64 / 128 names)
	bulk := map[string]bool{}
	if (!race && x.chance(4, "bulk")) || (race && x.chance(1, "bulk")) {
		for _, op := range x.bulk(st) {
			c.Ops = append(c.Ops, op)
			bulk[op.Name] = true
		}
	}
	// one deep inheritance chain, rendered by many goroutines at once further down
	var deep []string
	if x.chance(kit.Scale(6, 4), "deep") {
		var ops []Op
		ops, deep = x.deepChain(st)
		c.Ops = append(c.Ops, ops...)
	}
	// closing renders: what does every loaded name produce after all that happened?
	for _, n := range st.names() {
		pc := 75
		if st.depth[n] >= 1 { // derived templates: what they render depends on the most
			pc = 92
		}
		if len(bulk) > 0 && pc > 60 { // most of the many: which of them a defect hits is anybody's guess
			pc = 60
		}
		if !race && x.chance(pc, "closing") {
			op := Op{K: "render", Name: n, Entry: x.uniform(2, "centry"), Data: x.intn(0, 2, "cdata")}
			c.Ops = append(c.Ops, op)
			st.renders++
			if st.loaded[n] == "doc" && x.chance(35, "closing2") { // once more, with other data
				op.Data++
				op.Entry = x.uniform(2, "centry2")
				c.Ops = append(c.Ops, op)
				st.renders++
				minDatas = 2
			}
			if x.chance(12, "cedit") {
				c.Ops = append(c.Ops, x.editOp(st))
			}
		}
	}
	var conc *Conc
	switch {
	case deep != nil:
		conc = x.deepConc(st, deep)
	case race || x.chance(40, "conc"):
		conc = x.conc(st)
		conc.Gate = x.chance(25, "gate") // the first renders of the goroutines meet inside the render
	}
	nd := x.intn(1, 3, "ndatas")
	if nd < minDatas {
		nd = minDatas
	}
	for i := 0; i < nd; i++ {
		c.Datas = append(c.Datas, x.data())
	}
	c.Conc = conc
	return c
}

// ---------------------------------------------------------------------------------------------
// Labels, non-triviality, structural signature.

func describe(res *kit.Result, c *Case, x *runner, ranConc bool) {
	lab := func(on bool, l string) {
		if on {
			res.Label(l)
		}
	}
	var sk strings.Builder
	kinds := map[string]int{}
	for _, op := range c.Ops {
		kinds[op.K]++
		sk.WriteString(op.K[:2] + ":" + op.Name)
		switch op.K {
		case "load":
			sk.WriteString("<" + extendsOf(op.Src) + ">" + sig(op.Src) + strconv.Itoa(len(blocksOf(op.Src))))
		case "loaddoc":
			if op.Doc != nil {
				sk.WriteString(sig(strings.Join(op.Doc.texts(), "\n")) + strconv.Itoa(len(op.Doc.Elems)))
			}
		case "render":
			sk.WriteString(strconv.Itoa(op.Entry&1) + strconv.Itoa(op.Data))
		case "edit":
			if op.Edit != nil {
				sk.WriteString(op.Edit.K + strconv.Itoa(op.Ref))
			}
		}
		sk.WriteString(";")
	}
	concRenders, concMut, sameName := 0, 0, false
	concDocDerived, concDocDerivedWorker := 0, -1
	concMutWorkers := map[int]bool{}
	if c.Conc != nil {
		sk.WriteString("||")
		if c.Conc.Gate {
			sk.WriteString("gate|")
		}
		first := map[string]int{}
		for wi, w := range c.Conc.Workers {
			for _, j := range w {
				sk.WriteString(j.K[:2] + ":" + j.Name + ",")
				if j.K != "render" {
					concMutWorkers[wi] = true
				}
				if j.K == "loaddoc" && verOf(j, -1).extends != "" {
					concDocDerived++
					concDocDerivedWorker = wi
				}
				if j.K == "render" {
					concRenders++
					if fw, ok := first[j.Name]; ok && fw != wi {
						sameName = true
					} else if !ok {
						first[j.Name] = wi
					}
				} else {
					concMut++
				}
			}
			sk.WriteString("|")
		}
	}
	for k := range kinds {
		res.Label("op:" + k)
	}
	docTable, docNested, docNested2, docNestedLoop := false, false, false, false
	docHF3, docBaseImg, docReopened, docNumNotes, docPicture, docTOC, docOther := false, false, false, false, false, false, false
	seeDoc := func(d *DocSpec) {
		if d == nil {
			return
		}
		docHF3 = docHF3 || d.hfParts() >= 3
		docBaseImg = docBaseImg || d.Image != nil
		docReopened = docReopened || d.Reopen > 0
		docNumNotes = docNumNotes || d.ListItems > 0 || d.Footnote
		docPicture = docPicture || len(d.imagePlaceholders()) > 0
		docTOC = docTOC || d.TOC > 0
		for _, e := range d.Elems {
			docOther = docOther || e.Formula != "" || e.Bookmark != ""
		}
		for _, e := range d.Elems {
			if e.Table != nil {
				docTable = true
			}
			for _, n := range e.Nested {
				docNested = true
				if n.Inner != nil {
					docNested2 = true
				}
				for _, row := range n.Table {
					if strings.Contains(strings.Join(row, ""), "{{#each") {
						docNestedLoop = true
					}
				}
			}
		}
	}
	for _, op := range c.Ops {
		seeDoc(op.Doc)
	}
	lab(docTable, "doc:table-with-placeholders")
	lab(docNested, "doc:nested-table")
	lab(docNested2, "doc:nested-table-depth2")
	lab(docNestedLoop, "doc:nested-loop-table")
	lab(docHF3, "doc:header/footer-parts>=3")
	lab(docBaseImg, "doc:own-picture")
	lab(docReopened, "doc:saved-and-opened")
	lab(docNumNotes, "doc:list-or-footnote")
	lab(docPicture, "doc:picture-placeholder")
	lab(docTOC, "doc:table-of-contents")
	lab(docOther, "doc:bookmark-or-formula")
	lab(x.sawSpareRels, "render:base-relationship-table-has-spare-capacity")
	lab(x.sawSpareCT, "render:base-content-type-table-has-spare-capacity")
	lab(x.sawImgFmtChange, "render:doc-template-again-with-other-picture-format")
	lab(x.sawImgFmtChange && x.sawSpareRels, "render:other-picture-format+spare-capacity")
	lab(x.edits > 0, "edit:applied")
	lab(len(x.kept) >= 4, "kept:results>=4")
	res.Count("kept-results", len(x.kept))
	res.Count("kept-rechecks", x.rechecks)
	lab(x.boundLoads > 0, "load:extends-bound")
	lab(x.sawUnbound, "load:extends-absent-parent")
	lab(x.sawDocExt, "load:extends-doc-template")
	lab(x.reloads > 0, "load:reload-same-name")
	lab(x.sawReloadOtherSrc, "load:reload-other-source")
	lab(x.sawRemoveLive, "remove:loaded-name")
	lab(x.sawClearLive, "clear:non-empty")
	lab(x.sawBaseAfterChild, "render:base-after-child-load")
	lab(x.sawSibling, "render:child-with-sibling")
	lab(x.sawChain3, "render:chain>=3")
	lab(x.sawStale, "render:ancestor-reloaded-or-removed")
	lab(x.sawAbsent, "render:name-not-loaded")
	lab(x.sawDocRender, "render:doc-template")
	lab(x.sawHfSkip, "render:U2-skipped-header+footer")
	lab(x.rendersAfterChange > 0, "render:after-intervening-calls")
	lab(c.Conc != nil, "conc:present")
	lab(ranConc && concMut > 0, "conc:with-loads/removals")
	lab(ranConc && sameName, "conc:same-name-in-2-goroutines")
	lab(ranConc && concDocDerived > 0, "conc:derived-template-loaded-from-document")
	lab(ranConc && concDocDerived > 0 && (len(concMutWorkers) > 1 || (len(concMutWorkers) == 1 && !concMutWorkers[concDocDerivedWorker])), "conc:derived-document-load+mutation-in-other-goroutine")
	lab(ranConc && len(c.Conc.Workers) >= 9, "conc:goroutines>=9")
	lab(x.sawDocDerived, "load:document-extends-bound")
	lab(x.otherCalls > 0, "other-engine:calls-in-between")
	lab(x.maxLive >= 10, "engine:names-alive>=10")
	lab(x.maxLive > 64, "engine:names-alive>64")
	burst, run := 0, 0
	for i, op := range c.Ops {
		if op.K == "render" && i > 0 && c.Ops[i-1].K == "render" && c.Ops[i-1].Name == op.Name && c.Ops[i-1].Data == op.Data && c.Ops[i-1].Entry == op.Entry {
			run++
		} else {
			run = 0
		}
		if run > burst {
			burst = run
		}
	}
	lab(burst >= 9, "render:same-call>=10-times-in-a-row")
	exotic := false
	for _, op := range c.Ops {
		for _, n := range exoticNames[1:] {
			exotic = exotic || (op.Name == n && n != "t1")
		}
	}
	lab(exotic, "names:case/prefix/blank/non-ascii")
	lab(x.tainted, "tainted")
	res.Label("datas:" + strconv.Itoa(len(c.Datas)))
	types := map[string]bool{}
	typedAny, typedItemSlice, longList := false, false, false
	for _, d := range c.Datas {
		for _, im := range d.Images {
			lab(im.Fmt == "broken" || im.Fmt == "nofile", "data:unusable-picture")
		}
		lab(len(d.Images) > 0, "data:images")
		lab(len(d.Lists) > 0, "data:lists")
		for _, v := range d.Vars {
			types[v.T] = true
			typedAny = typedAny || v.typed()
		}
		for _, l := range d.Lists {
			longList = longList || len(l) >= 10
			for _, it := range l {
				typedAny = typedAny || it.typed()
				for _, f := range it.M {
					switch f.T {
					case "as", "ai", "af", "am":
						typedItemSlice = true
					}
				}
			}
		}
	}
	lab(typedAny, "data:values-of-other-go-types")
	lab(typedItemSlice, "data:item-field-is-typed-slice")
	lab(longList, "data:list>=10-items")
	lab(types["i"] || types["l"] || types["f"], "data:numbers")

	seqRule := x.loads >= 3 && x.boundLoads >= 1 && x.renders >= 2 && x.rendersAfterChange >= 1
	concRule := ranConc && concRenders >= 2 && len(c.Conc.Workers) >= 2 && x.loads >= 2
	res.Nontrivial = seqRule || concRule
	res.Shape = sk.String()
}

package c17

import (
	"crypto/sha1"
	"encoding/hex"
	"fmt"
	"reflect"
	"sort"
	"strconv"
	"strings"
	"sync"
)

// fingerprint renders everything reachable from a value - through pointers, interfaces, slices, maps and
// exported AND unexported struct fields - as one canonical text. Two values have equal fingerprints iff they
// are deep-equal under the normalisations: a nil slice equals an empty slice, XMLName fields, mutexes and
// wall-clock values are not compared, map entries are listed in key order, long byte strings are listed by
// length and hash. Taking the fingerprint before and after a call is the "deep copy before, deep-equal after"
// oracle without a copy; it only reads the value.
//
// skip names struct fields (as "Type.Field") that are left out.
func fingerprint(v interface{}, skip map[string]bool) string {
	return fingerprintKeys(v, skip, nil)
}

// fingerprintKeys: as fingerprint; map entries whose (string) key is in skipKeys are left out.
func fingerprintKeys(v interface{}, skip, skipKeys map[string]bool) string {
	w := &fpWriter{skip: skip, skipKeys: skipKeys, seen: map[uintptr]bool{}}
	w.walk(reflect.ValueOf(v), 0)
	return w.sb.String()
}

type fpWriter struct {
	sb       strings.Builder
	skip     map[string]bool
	skipKeys map[string]bool
	seen     map[uintptr]bool // pointers on the current path (cycle guard)
}

type fpField struct {
	idx  int
	name string
}

var fpFields sync.Map // reflect.Type -> []fpField

func fieldsOf(t reflect.Type) []fpField {
	if f, ok := fpFields.Load(t); ok {
		return f.([]fpField)
	}
	var out []fpField
	for i := 0; i < t.NumField(); i++ {
		if n := t.Field(i).Name; n != "XMLName" {
			out = append(out, fpField{i, n})
		}
	}
	fpFields.Store(t, out)
	return out
}

func (w *fpWriter) walk(v reflect.Value, depth int) {
	if depth > 200 {
		w.sb.WriteString("<deep>")
		return
	}
	switch v.Kind() {
	case reflect.Invalid:
		w.sb.WriteString("nil")
	case reflect.Ptr:
		if v.IsNil() {
			w.sb.WriteString("nil")
			return
		}
		p := v.Pointer()
		if w.seen[p] {
			w.sb.WriteString("&<cycle>")
			return
		}
		w.seen[p] = true
		w.sb.WriteByte('&')
		w.walk(v.Elem(), depth+1)
		delete(w.seen, p)
	case reflect.Interface:
		if v.IsNil() {
			w.sb.WriteString("nil")
			return
		}
		w.sb.WriteString("(" + v.Elem().Type().String() + ")")
		w.walk(v.Elem(), depth+1)
	case reflect.Struct:
		t := v.Type()
		switch t.PkgPath() {
		case "sync", "time":
			w.sb.WriteString("<" + t.String() + ">")
			return
		}
		w.sb.WriteByte('{')
		for _, f := range fieldsOf(t) {
			if w.skip[t.Name()+"."+f.name] {
				continue
			}
			fv := v.Field(f.idx)
			// leave zero fields out: keeps the text short, and nil == empty for slices is decided below
			if isZeroish(fv) {
				continue
			}
			w.sb.WriteString(f.name)
			w.sb.WriteByte(':')
			w.walk(fv, depth+1)
			w.sb.WriteByte(' ')
		}
		w.sb.WriteByte('}')
	case reflect.String:
		w.sb.WriteString(strconv.Quote(v.String()))
	case reflect.Bool:
		w.sb.WriteString(strconv.FormatBool(v.Bool()))
	case reflect.Int, reflect.Int8, reflect.Int16, reflect.Int32, reflect.Int64:
		w.sb.WriteString(strconv.FormatInt(v.Int(), 10))
	case reflect.Uint, reflect.Uint8, reflect.Uint16, reflect.Uint32, reflect.Uint64, reflect.Uintptr:
		w.sb.WriteString(strconv.FormatUint(v.Uint(), 10))
	case reflect.Float32, reflect.Float64:
		w.sb.WriteString(strconv.FormatFloat(v.Float(), 'g', -1, 64))
	case reflect.Slice, reflect.Array:
		if v.Type().Elem().Kind() == reflect.Uint8 {
			var b []byte
			if v.Kind() == reflect.Slice {
				b = v.Bytes()
			} else {
				b = make([]byte, v.Len())
				for i := range b {
					b[i] = byte(v.Index(i).Uint())
				}
			}
			if len(b) <= 64 {
				w.sb.WriteString("b" + strconv.Quote(string(b)))
			} else {
				h := sha1.Sum(b)
				fmt.Fprintf(&w.sb, "b[%d:%s]", len(b), hex.EncodeToString(h[:8]))
			}
			return
		}
		w.sb.WriteByte('[')
		for i := 0; i < v.Len(); i++ {
			w.walk(v.Index(i), depth+1)
			w.sb.WriteByte(' ')
		}
		w.sb.WriteByte(']')
	case reflect.Map:
		type kv struct {
			k string
			v reflect.Value
		}
		var es []kv
		it := v.MapRange()
		for it.Next() {
			if w.skipKeys != nil && it.Key().Kind() == reflect.String && w.skipKeys[it.Key().String()] {
				continue
			}
			kw := &fpWriter{skip: w.skip, seen: w.seen}
			kw.walk(it.Key(), depth+1)
			es = append(es, kv{kw.sb.String(), it.Value()})
		}
		sort.Slice(es, func(a, b int) bool { return es[a].k < es[b].k })
		w.sb.WriteString("map[")
		for _, e := range es {
			w.sb.WriteString(e.k)
			w.sb.WriteByte('=')
			w.walk(e.v, depth+1)
			w.sb.WriteByte(' ')
		}
		w.sb.WriteByte(']')
	case reflect.Func, reflect.Chan, reflect.UnsafePointer:
		if v.IsNil() {
			w.sb.WriteString("nil")
		} else {
			w.sb.WriteString("<" + v.Kind().String() + ">")
		}
	default:
		fmt.Fprintf(&w.sb, "<%s>", v.Kind())
	}
}

// isZeroish: nil pointer/interface/map, nil or empty slice, zero scalar. (An empty map is NOT zeroish: nil and
// empty maps differ for callers that write to them; nil and empty slices do not differ for readers.)
func isZeroish(v reflect.Value) bool {
	switch v.Kind() {
	case reflect.Ptr, reflect.Interface, reflect.Map, reflect.Func, reflect.Chan:
		return v.IsNil()
	case reflect.Slice:
		return v.Len() == 0
	case reflect.String:
		return v.Len() == 0
	case reflect.Bool:
		return !v.Bool()
	case reflect.Int, reflect.Int8, reflect.Int16, reflect.Int32, reflect.Int64:
		return v.Int() == 0
	case reflect.Uint, reflect.Uint8, reflect.Uint16, reflect.Uint32, reflect.Uint64, reflect.Uintptr:
		return v.Uint() == 0
	case reflect.Float32, reflect.Float64:
		return v.Float() == 0
	}
	return false
}

// firstDiff shows where two fingerprints part.
func firstDiff(a, b string) string {
	n := len(a)
	if len(b) < n {
		n = len(b)
	}
	i := 0
	for i < n && a[i] == b[i] {
		i++
	}
	from := i - 160
	if from < 0 {
		from = 0
	}
	// do not cut inside a UTF-8 sequence
	for from > 0 && from < len(a) && a[from]&0xC0 == 0x80 {
		from--
	}
	cut := func(s string) string {
		to := i + 160
		if to > len(s) {
			to = len(s)
		}
		if i > len(s) {
			return ""
		}
		return strings.ToValidUTF8(s[i:to], "?")
	}
	return fmt.Sprintf("after …%s\n    first : %s\n    second: %s", strings.ToValidUTF8(a[from:i], "?"), cut(a), cut(b))
}

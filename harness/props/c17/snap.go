package c17

import (
	"bytes"
	"fmt"
	"sort"
	"strings"

	"github.com/zerx-lab/wordZero/pkg/document"

	"wzverif/internal/canon"
	"wzverif/internal/kit"
	"wzverif/internal/opc"
)

// pkgSnap is the saved package of a document as the independent reader sees it: entry names and payloads.
// XML parts are parsed into canonical trees only when two payloads differ byte-wise.
type pkgSnap struct {
	fail  string // ToBytes panicked / failed / the zip is unreadable
	names []string
	pkg   *opc.Package
}

const (
	nsCT  = "http://schemas.openxmlformats.org/package/2006/content-types"
	nsRel = "http://schemas.openxmlformats.org/package/2006/relationships"
	nsDCT = "http://purl.org/dc/terms/"
)

// Lists the library writes in map-iteration order carry no order; wall-clock values are not compared.
var diffOpts = &canon.Options{
	Unordered: map[string]bool{
		"w:numbering": true, "w:footnotes": true, "w:endnotes": true, "w:styles": true,
		"{" + nsCT + "}:Types": true, "{" + nsRel + "}:Relationships": true,
	},
	Skip: func(n *canon.Node) bool {
		return n.Space == nsDCT && (n.Local == "created" || n.Local == "modified")
	},
}

var nSnapshots int // evidence counter (snapshot is only called from the goroutine that runs the case)

// snapshot saves the document to memory and reads it back with the independent reader.
func snapshot(doc *document.Document) *pkgSnap {
	nSnapshots++
	s := &pkgSnap{}
	if doc == nil {
		s.fail = "nil document"
		return s
	}
	var b []byte
	var err error
	if p, _ := kit.Try(func() { b, err = doc.ToBytes() }); p != nil {
		s.fail = fmt.Sprintf("ToBytes panic: %v", p)
		return s
	}
	if err != nil {
		s.fail = "ToBytes error: " + err.Error()
		return s
	}
	pkg, err := opc.Read(b)
	if err != nil {
		s.fail = "unreadable package: " + err.Error()
		return s
	}
	s.names = pkg.SortedNames()
	s.pkg = pkg
	return s
}

// diffSnap returns "" when the two packages are equal, else the first difference.
func diffSnap(a, b *pkgSnap) string {
	if a.fail != "" || b.fail != "" {
		if a.fail != b.fail {
			return fmt.Sprintf("save outcome %q vs %q", a.fail, b.fail)
		}
		return ""
	}
	seen := map[string]bool{}
	for _, n := range a.names {
		seen[n] = true
		da := a.pkg.Parts[n]
		db, inB := b.pkg.Parts[n]
		if !inB {
			return "part " + n + " only in the first package"
		}
		if bytes.Equal(da, db) || (n == "word/styles.xml" && sameStyleChunks(da, db)) {
			continue
		}
		var ta, tb *canon.Node
		if a.pkg.IsXMLPart(n) && b.pkg.IsXMLPart(n) {
			ta, _ = canon.Parse(da)
			tb, _ = canon.Parse(db)
		}
		switch {
		case ta != nil && tb != nil:
			if d := canon.Diff(ta, tb, diffOpts); d != "" {
				return "part " + n + ": " + d
			}
		case ta == nil && tb == nil:
			return fmt.Sprintf("part %s: payload differs (%d vs %d bytes)", n, len(da), len(db))
		default:
			return "part " + n + ": well-formed XML on one side only"
		}
	}
	for _, n := range b.names {
		if !seen[n] {
			return "part " + n + " only in the second package"
		}
	}
	return ""
}

// sameStyleChunks is a cheap sufficient test for "equal up to the order of the w:style children" (the library
// writes the styles in map-iteration order): both texts, cut at every "<w:style " and with the closing tag of
// the root taken off, are equal multisets of byte chunks. When it says no, the canonical trees decide.
func sameStyleChunks(a, b []byte) bool {
	ca, cb := styleChunks(a), styleChunks(b)
	if ca == nil || cb == nil || len(ca) != len(cb) {
		return false
	}
	sort.Strings(ca)
	sort.Strings(cb)
	for i := range ca {
		if ca[i] != cb[i] {
			return false
		}
	}
	return true
}

func styleChunks(x []byte) []string {
	s := strings.TrimRight(string(x), " \t\r\n")
	const end = "</w:styles>"
	if !strings.HasSuffix(s, end) {
		return nil
	}
	s = strings.TrimRight(s[:len(s)-len(end)], " \t\r\n")
	parts := strings.Split(s, "<w:style ")
	for i := range parts {
		parts[i] = strings.TrimRight(parts[i], " \t\r\n")
	}
	return parts
}

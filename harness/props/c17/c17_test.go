package c17

import (
	"os"
	"runtime/debug"
	"testing"

	"github.com/zerx-lab/wordZero/pkg/document"

	"wzverif/internal/kit"
)

func TestMain(m *testing.M) {
	document.SetGlobalLevel(document.LogLevelSilent)
	debug.SetGCPercent(400) // many short-lived documents and zip buffers
	if kit.RaceMode() {
		// the -race twin: short histories, every case has a concurrent phase
		kit.TestMain(m, 110, 2500)
		return
	}
	kit.TestMain(m, 320, 8000)
}

// openKF: ids listed open: for C17 in KNOWN_FINDINGS.txt (steers what the concurrent phase may contain).
var openKF = map[string]bool{}

func TestC17(t *testing.T) {
	openKF = kit.OpenFindings("C17")
	kit.Main(t, kit.Spec[Case]{
		ID: "C17", Level: "exploration",
		Rule: "history of 2-11 (thorough 2-16; race twin 2-6) calls on ONE TemplateEngine over 5 names: LoadTemplate of sources from the documented grammar (literals, variables, if/else, each with nesting, blocks, image lines), LoadTemplate of derived sources ({{extends}} naming a loaded text or document template, an absent name or the name itself; overriding subsets of 4 block names, so chains and siblings sharing a base arise), LoadTemplateFromDocument of API-built documents (3% of the calls: documents whose first paragraph is {{extends}} followed by block overrides in one or three paragraphs; formatted runs, placeholders split over runs, conditionals, inline / multi-paragraph / table-row loops, tables with {{var}} cells and formatted cells, tables nested 1-2 levels in cells of plain / header / template / trailing rows with variables, conditionals and loop rows of their own, picture placeholder, default / first-page / even-page headers and footers (0-6 parts), a picture, list items and a footnote of its own, headings with bookmarks, formula paragraphs, a generated table of contents, landscape, saved or not, saved and opened again before or after these additions - so that the relationship, content-type and part tables of base documents come in many sizes, with and without spare capacity), RenderToDocument / RenderTemplateToDocument of loaded and absent names with one of 1-3 typed data sets (string / int / int64 / float64 / bool / nil values incl. 0, -0, extreme, NaN and Inf, and in about 2/3 of the cases values of other Go types: int32, uint, float32, []string, []int, []float64, []map[string]interface{}, map[string]string as variables, item fields, items; list-valued item fields sometimes the caller's typed slice in place of []interface{}; texts of up to 1000 characters made of multi-byte characters; lists of 0-4 and rarely 10-65 items; 6% of the pictures unusable: no picture payload or a file path that does not exist), RemoveTemplate, ClearCache, re-loading, edits of documents earlier renders returned (picture, header / footer of any kind, paragraph, list item, footnote, title, style, run text, cell text, headings + UpdateTOC, AutoGenerateTOC, formula content, bookmark name); in 30% of the cases a document template with a picture placeholder is loaded next and rendered 2-3 times in a row with different data sets (data set k supplies pictures whose format is rotated by k), with edits in between; in 2% the same render call 10-17 (thorough: -33) times in a row; in 4% 11-70 (thorough: -130) further names b0, b1, .. b10, .. are loaded (short sources; in a third of these cases inheritance chains of up to 12 levels over a root with 12 blocks k0..k11), a few removed again, so that more than 10 / 16 / 32 / 64 names are alive at once; in 10% calls on a SECOND engine (loads under the same names with other sources, renders, removals, clear) are mixed in; in 12% the five names differ in case only / are prefixes of one another / hold a blank and non-ASCII characters; then a render of most loaded names (document templates sometimes twice, with different data); in 40% of the cases (race twin: all) a concurrent phase of 2-4 (2-6) goroutines on a barrier (3%: 9-17 goroutines) rendering equal and different names and loading (plain, derived, from documents, derived from documents) / removing names nobody renders; a quarter of these phases is GATED: every variable value is a fmt.Stringer and the first renders of the goroutines wait for one another inside the render (when they print their first variable), so that all of them are in flight at the same moment whatever the scheduler does; in 6% (thorough: 4%) of the cases ONE inheritance chain h0 <- h1 <- .. of 1-12 links (grammar sources; the root prints a variable every data set supplies) is loaded and a gated phase of 6-33 goroutines (race twin: -12) renders its deepest template (30%: another level), so that more than 8 / 16 / 32 renders and more than 16 / 32 / 64 / 128 inheritance levels are in flight at once. non-trivial = (>=3 loads with >=1 bound extends, >=2 renders, >=1 render of a version after a later load/remove/clear) or (a concurrent phase that ran with >=2 goroutines and >=2 renders after >=2 loads); distinct = distinct sequence of (call kind, name, parent name, directive signature of the source, entry point, data index) incl. the concurrent jobs",
		Gen:  genCase, Run: run, Findings: findings,
		Fixed: func() []Case {
			if os.Getenv("C17_NOFIXED") != "" { // development aid: sensitivity of the generated search alone
				return nil
			}
			return fixedCases()
		},
		Assumptions: []string{
			"a template is bound to the templates it extends when it is loaded (statement: the same template renders the same 'regardless of which other templates were loaded, rendered or removed in between'): the reference for a render is a NEW engine that loaded only the versions the rendered version was bound to, in order, then the version itself",
			"results are compared as (error / no error, reflect fingerprint of the returned document's body, saved package part by part as canonical XML); dcterms:created/modified and the order of lists the library writes in map order are not compared; error texts are not compared",
			"data strings never contain '{{' (values that are scanned again - C16 KF-C16-rescan - are substituted in map-iteration order, which would show up here as non-repeatable renders of one root cause already listed)",
			"U2 is not evaluated for RenderToDocument of a document template whose base has both a header and a footer: LoadTemplateFromDocument collects their text into Template.Content in map-iteration order, so two loads of one document differ by what loading does, not rendering (U1, U3, U4 still apply)",
			"concurrent phase: no goroutine loads or removes a name another goroutine renders, every name is mutated by at most one job, a concurrent load (from text or from a document) extends only names no concurrent job mutates, ClearCache is not issued; while " + kfParent + " is open no concurrent job loads a derived template",
			"gated concurrent phase: a data value may be a fmt.Stringer (the API takes interface{} and prints other types with fmt), and a Stringer may take its time: the first time the first render of a goroutine prints a variable it waits until the first renders of all other goroutines have come as far (or have returned, or 3 s have passed - an engine that serialises renders is slower, not wrong). What a render returns does not depend on the waiting (the text of a value is fixed when the value is made); both sides of every comparison of such a phase are rendered with Stringer values",
			"data values, item fields and list items are interface{} in the API: values of any printable Go type are legal input; what they render to is not judged here (both sides of every comparison print them the same way), only that rendering leaves them alone (U3.data fingerprints carry the dynamic type of every value) and is repeatable",
			"a call on another TemplateEngine value is no call on the engine under test: it must not change what the engine under test renders (judged by the U2 comparisons that follow)",
			"the caller holds on to the first 32 documents a history's renders return (U2.retained re-observes every kept document after every later call); later ones are compared when they are returned only",
			"a load that fails or panics ends the history (loads are judged by C16.T0)",
			"a document a render returned is that render's result for as long as the caller holds it: every returned document is kept and observed again (all fields in memory after every later render, edit and the concurrent phase; the saved package of the two earliest ones at the end) and must be what it was when it was returned (U2.retained). An edit of a returned document through the document API is not an engine call: it changes neither a base document (U3) nor another returned document",
			"the body of a returned document shares no storage (pointer targets, slice backing arrays, maps) with the body of a base document or of the document the same call returned before (U3.shared): the body is a tree of exported structures the caller works on, so shared storage means that working on the result modifies the base document. Judged for bodies only: the numbering / note managers share read-only entries by design",
			"in-memory parts word/styles.xml, numbering.xml, footnotes.xml, endnotes.xml and docProps/core.xml are left out of the in-memory comparison (written in map-iteration order / with the clock); they are compared through the saved package",
		},
		MustSee: map[string]float64{"load:extends-bound": 0.5, "render:base-after-child-load": 0.25, "render:child-with-sibling": 0.1, "render:chain>=3": 0.06,
			"render:doc-template": 0.15, "doc:table-with-placeholders": 0.15, "doc:nested-table": 0.08, "load:reload-other-source": 0.15, "remove:loaded-name": 0.15, "clear:non-empty": 0.04, "render:after-intervening-calls": 0.5,
			"render:ancestor-reloaded-or-removed": 0.05, "render:name-not-loaded": 0.08, "conc:ran": 0.3, "conc:same-name-in-2-goroutines": 0.25, "conc:with-loads/removals": 0.15,
			"kept:results>=4": 0.4, "edit:applied": 0.2, "doc:header/footer-parts>=3": 0.15, "render:base-relationship-table-has-spare-capacity": 0.12,
			"render:doc-template-again-with-other-picture-format": 0.1, "render:other-picture-format+spare-capacity": 0.06, "doc:table-of-contents": 0.06, "doc:bookmark-or-formula": 0.06,
			"data:values-of-other-go-types": 0.4, "data:item-field-is-typed-slice": 0.2, "conc:derived-template-loaded-from-document": 0.05,
			"conc:gated": 0.1, "conc:renders-in-flight-at-once>=9": 0.02, "conc:inheritance-levels-in-flight-at-once>32": 0.015},
	})
}

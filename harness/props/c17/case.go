package c17

import (
	"bytes"
	"io"
	"regexp"
	"sort"
	"strings"

	"github.com/zerx-lab/wordZero/pkg/document"

	"wzverif/internal/gen"
)

// ---------------------------------------------------------------------------------------------
// Case: one history on ONE template engine, plus an optional concurrent phase. Plain JSON.

// Op is one engine call.
//
//	load     LoadTemplate(Name, Src)            Src may start with {{extends "parent"}}
//	loaddoc  LoadTemplateFromDocument(Name, d)  d built through the API from Doc
//	render   RenderToDocument (Entry 0) / RenderTemplateToDocument (Entry 1) of (Name, Datas[Data])
//	remove   RemoveTemplate(Name)
//	clear    ClearCache()
//	other    a call on ANOTHER engine of the same process (Sub: load | render | remove | clear, with Name / Src /
//	         Entry / Data as above): what happens on another engine is no call on this one at all
//	edit     the caller goes on working with a document an earlier render returned: Edit is applied to the
//	         Ref-th result kept so far (modulo their number); see retain.go
type Op struct {
	K     string    `json:"k"`
	Name  string    `json:"name,omitempty"`
	Src   string    `json:"src,omitempty"`
	Doc   *DocSpec  `json:"doc,omitempty"`
	Entry int       `json:"entry,omitempty"`
	Data  int       `json:"data,omitempty"`
	Ref   int       `json:"ref,omitempty"`
	Edit  *EditSpec `json:"edit,omitempty"`
	Sub   string    `json:"sub,omitempty"`
}

// EditSpec is one call of the document API on a document a render returned.
//
//	image               AddImageFromData(Img)
//	header | footer     AddHeader / AddFooter(Type, Text)       Type: default | first | even
//	para                AddParagraph(Text)
//	list | numlist      AddBulletList / AddNumberedList(Text)
//	footnote            AddFootnote(Text, ...)
//	title               SetTitle(Text)
//	style               the name of style "Normal" is set to Text and a custom style is created
//	runtext | celltext  the text of the first run of the first paragraph / of cell (0,0) of the first table is set to Text
//	toc                 two headings are added (Text), then UpdateTOC
//	autotoc             a heading is added (Text), then AutoGenerateTOC
//	formula | bookmark  the content of the first formula paragraph / the name of the first bookmark of the body is set to Text
type EditSpec struct {
	K    string   `json:"k"`
	Type string   `json:"type,omitempty"`
	Text string   `json:"text,omitempty"`
	Img  *gen.Img `json:"img,omitempty"`
}

// Conc is the concurrent phase run after the sequential history: every worker is a goroutine that waits on a
// common barrier and then issues its jobs (same Op vocabulary, no clear).
//
// Gate: the first renders of the goroutines meet INSIDE the render (see gate.go), so that all of them are in flight
// at the same moment.
type Conc struct {
	Procs   int    `json:"procs"`
	Workers [][]Op `json:"workers"`
	Gate    bool   `json:"gate,omitempty"`
}

type Case struct {
	Ops   []Op   `json:"ops"`
	Datas []Data `json:"datas"`
	Conc  *Conc  `json:"conc,omitempty"`
}

func (c *Case) data(i int) *Data {
	if len(c.Datas) == 0 {
		return &Data{}
	}
	if i < 0 {
		i = -i
	}
	return &c.Datas[i%len(c.Datas)]
}

// ---------------------------------------------------------------------------------------------
// Base documents of LoadTemplateFromDocument, built through the public API.

type DocRun struct {
	T     string `json:"t"`
	B     bool   `json:"b,omitempty"`
	I     bool   `json:"i,omitempty"`
	Size  int    `json:"sz,omitempty"`
	Color string `json:"c,omitempty"`
}

// DocNested is a table placed into cell (R, C) of the table it belongs to; Inner nests one more level.
type DocNested struct {
	R     int        `json:"r"`
	C     int        `json:"c"`
	Table [][]string `json:"table"`
	Inner *DocNested `json:"inner,omitempty"`
}

// DocElem is a paragraph (Runs; Heading 1-3 makes it a heading of its first run's text) or a table (Table, with
// tables nested in its cells; CellFmt formats the text of every non-empty top-level cell).
// A heading with Bookmark is added with AddHeadingParagraphWithBookmark (bookmark start / end elements next to it in
// the body); Formula makes the element a formula paragraph (AddMathFormula, block level if Block).
type DocElem struct {
	Runs     []DocRun `json:"runs,omitempty"`
	Heading  int      `json:"h,omitempty"`
	Bookmark string   `json:"bm,omitempty"`
	Formula  string   `json:"formula,omitempty"`
	Block    bool     `json:"block,omitempty"`

	Table   [][]string  `json:"table,omitempty"`
	Nested  []DocNested `json:"nested,omitempty"`
	CellFmt *DocRun     `json:"cellfmt,omitempty"`
}

func gridOf(tb [][]string) (rows, cols int, grid [][]string) {
	rows = len(tb)
	for _, r := range tb {
		if len(r) > cols {
			cols = len(r)
		}
	}
	grid = make([][]string, rows)
	for i := range grid {
		grid[i] = make([]string, cols)
		copy(grid[i], tb[i])
	}
	return
}

func addNested(t *document.Table, n *DocNested, width int) {
	rows, cols, grid := gridOf(n.Table)
	if t == nil || rows == 0 || cols == 0 {
		return
	}
	nt, err := t.AddNestedTable(n.R, n.C, &document.TableConfig{Rows: rows, Cols: cols, Width: width, Data: grid})
	if err == nil && nt != nil && n.Inner != nil {
		addNested(nt, n.Inner, width/2)
	}
}

func (n *DocNested) texts(out *[]string) {
	for _, row := range n.Table {
		*out = append(*out, "["+strings.Join(row, "|")+"]")
	}
	if n.Inner != nil {
		n.Inner.texts(out)
	}
}

// DocHF is a further header / footer part (first page, even pages) of a base document.
type DocHF struct {
	Footer bool   `json:"footer,omitempty"`
	Type   string `json:"type"` // first | even | default
	Text   string `json:"text"`
}

// DocSpec describes a base document. Build order: Elems; TOC (1 GenerateTOC, 2 AutoGenerateTOC, default
// configuration); (Reopen 2: saved and opened again); default header; default
// footer; HF in order; Image; ListItems; Footnote; orientation; (Reopen 1: saved and opened again); Saved.
// The tables the library keeps per document (relationships, content types, parts, numbering, notes) grow by
// appending: how many entries a base document has decides whether they have room to spare.
type DocSpec struct {
	Elems     []DocElem `json:"elems"`
	Header    string    `json:"header,omitempty"`
	HasHeader bool      `json:"hasHeader,omitempty"`
	Footer    string    `json:"footer,omitempty"`
	HasFooter bool      `json:"hasFooter,omitempty"`
	HF        []DocHF   `json:"hf,omitempty"`
	TOC       int       `json:"toc,omitempty"`      // a generated table of contents (content control / field paragraphs)
	Image     *gen.Img  `json:"image,omitempty"`    // a picture in the base document itself (AddImageFromData)
	ListItems int       `json:"list,omitempty"`     // bullet list items (numbering part)
	Footnote  bool      `json:"footnote,omitempty"` // one footnote (footnotes part)
	Landscape bool      `json:"landscape,omitempty"`
	Reopen    int       `json:"reopen,omitempty"` // 0 | 1 | 2: the document went through ToBytes + OpenFromMemory (see above)
	Saved     bool      `json:"saved,omitempty"`  // ToBytes was called on the document before it was loaded
}

func hfType(t string) document.HeaderFooterType {
	switch t {
	case "first":
		return document.HeaderFooterTypeFirst
	case "even":
		return document.HeaderFooterTypeEven
	}
	return document.HeaderFooterTypeDefault
}

// reopened saves the document to memory and opens it again; the document itself if that fails.
func reopened(doc *document.Document) *document.Document {
	b, err := doc.ToBytes()
	if err != nil {
		return doc
	}
	d2, err := document.OpenFromMemory(io.NopCloser(bytes.NewReader(b)))
	if err != nil || d2 == nil || d2.Body == nil {
		return doc
	}
	return d2
}

func (r DocRun) tf() *document.TextFormat {
	if !r.B && !r.I && r.Size == 0 && r.Color == "" {
		return nil
	}
	return &document.TextFormat{Bold: r.B, Italic: r.I, FontSize: r.Size, FontColor: r.Color}
}

// build creates the document. Every call returns a new, independent document.
func (d *DocSpec) build() *document.Document {
	doc := document.New()
	if d == nil {
		return doc
	}
	for _, e := range d.Elems {
		switch {
		case e.Table != nil:
			rows, cols, grid := gridOf(e.Table)
			if rows == 0 || cols == 0 {
				continue
			}
			t, err := doc.AddTable(&document.TableConfig{Rows: rows, Cols: cols, Width: 9000, Data: grid})
			if err != nil || t == nil {
				continue
			}
			if e.CellFmt != nil {
				for i := range grid {
					for j, txt := range grid[i] {
						if txt != "" {
							t.SetCellFormattedText(i, j, txt, e.CellFmt.tf())
						}
					}
				}
			}
			for k := range e.Nested {
				addNested(t, &e.Nested[k], 4000)
			}
		case e.Formula != "":
			doc.AddMathFormula(e.Formula, e.Block)
		case e.Heading > 0 && len(e.Runs) > 0 && e.Bookmark != "":
			doc.AddHeadingParagraphWithBookmark(e.Runs[0].T, e.Heading, e.Bookmark)
		case e.Heading > 0 && len(e.Runs) > 0:
			doc.AddHeadingParagraph(e.Runs[0].T, e.Heading)
		default:
			var p *document.Paragraph
			for i, r := range e.Runs {
				switch {
				case i == 0 && r.tf() == nil:
					p = doc.AddParagraph(r.T)
				case i == 0:
					p = doc.AddFormattedParagraph(r.T, r.tf())
				default:
					p.AddFormattedText(r.T, r.tf())
				}
			}
			if p == nil {
				doc.AddParagraph("")
			}
		}
	}
	switch d.TOC {
	case 1:
		doc.GenerateTOC(document.DefaultTOCConfig())
	case 2:
		doc.AutoGenerateTOC(document.DefaultTOCConfig())
	}
	if d.Reopen == 2 {
		doc = reopened(doc)
	}
	if d.HasHeader {
		doc.AddHeader(document.HeaderFooterTypeDefault, d.Header)
	}
	if d.HasFooter {
		doc.AddFooter(document.HeaderFooterTypeDefault, d.Footer)
	}
	for _, h := range d.HF {
		if h.Footer {
			doc.AddFooter(hfType(h.Type), h.Text)
		} else {
			doc.AddHeader(hfType(h.Type), h.Text)
		}
	}
	if d.Image != nil {
		im := *d.Image
		doc.AddImageFromData(append([]byte(nil), imageData(im)...), im.Name, document.ImageFormat(im.Fmt), im.W, im.H, nil)
	}
	for i := 0; i < d.ListItems; i++ {
		doc.AddBulletList("item", 0, document.BulletTypeDot)
	}
	if d.Footnote {
		doc.AddFootnote("see note", "the note")
	}
	if d.Landscape {
		doc.SetPageOrientation(document.OrientationLandscape)
	}
	if d.Reopen == 1 {
		doc = reopened(doc)
	}
	if d.Saved {
		doc.ToBytes()
	}
	return doc
}

// texts returns every text of the document description (for the structural signature).
func (d *DocSpec) texts() []string {
	var out []string
	for _, e := range d.Elems {
		s := ""
		for _, r := range e.Runs {
			s += r.T
		}
		if e.Table == nil {
			out = append(out, s)
		}
		for _, row := range e.Table {
			out = append(out, strings.Join(row, "|"))
		}
		for k := range e.Nested {
			e.Nested[k].texts(&out)
		}
	}
	if d.HasHeader {
		out = append(out, d.Header)
	}
	if d.HasFooter {
		out = append(out, d.Footer)
	}
	for _, h := range d.HF {
		out = append(out, h.Text)
	}
	return out
}

// ---------------------------------------------------------------------------------------------
// Reading a template source (harness side; the documented syntax, own regular expressions).

var (
	reExtends = regexp.MustCompile(`\{\{extends\s+"([^"]+)"\}\}`)
	reBlock   = regexp.MustCompile(`\{\{#block\s+"([^"]+)"\}\}`)
	reImage   = regexp.MustCompile(`\{\{#image\s+(\w+)\}\}`)
)

// extendsOf returns the name of the template the source extends ("" if none).
func extendsOf(src string) string {
	if m := reExtends.FindStringSubmatch(src); m != nil {
		return m[1]
	}
	return ""
}

// blocksOf returns the names of the blocks a source defines (sorted, unique).
func blocksOf(src string) []string {
	seen := map[string]bool{}
	var out []string
	for _, m := range reBlock.FindAllStringSubmatch(src, -1) {
		if !seen[m[1]] {
			seen[m[1]] = true
			out = append(out, m[1])
		}
	}
	sort.Strings(out)
	return out
}

// sig is a coarse structural signature of a source text: which directive kinds it uses and how often.
func sig(src string) string {
	var sb strings.Builder
	for _, k := range []struct{ tag, mark string }{{"{{extends", "X"}, {"{{#block", "B"}, {"{{#if", "I"}, {"{{else}}", "e"}, {"{{#each", "E"},
		{"{{#image", "P"}, {"{{this}}", "t"}, {"{{@", "@"}, {"\n", "n"}} {
		if n := strings.Count(src, k.tag); n > 0 {
			if n > 3 {
				n = 3
			}
			sb.WriteString(k.mark)
			sb.WriteByte(byte('0' + n))
		}
	}
	return sb.String()
}

package c17

// fixedCases: hand-written histories every run executes first.
func fixedCases() []Case {
	s := func(x string) Val { return Val{T: "s", S: x} }
	data := Data{Vars: map[string]Val{"title": s("T"), "customer": s("ACME"), "qty": {T: "i", S: "7"}}, Conds: map[string]bool{"isVip": true},
		Lists: map[string][]Val{"people": {{T: "m", M: map[string]Val{"pname": s("Ann"), "role": s("dev")}}, {T: "m", M: map[string]Val{"pname": s("Bo"), "role": s("ops")}}}}}
	base := "{{title}}\n{{#block \"header\"}}H0{{/block}}\n{{#block \"content\"}}C0 {{customer}}{{/block}}"
	doc := &DocSpec{Elems: []DocElem{
		{Runs: []DocRun{{T: "Dear "}, {T: "{{customer}}", B: true}, {T: ", qty {{qty}}"}}},
		{Runs: []DocRun{{T: "{{#if isVip}}VIP{{/if}}"}}},
		{Table: [][]string{{"Name", "Role"}, {"{{#each people}}{{pname}}", "{{role}}{{/each}}"}}},
	}, HasHeader: true, Header: "Report {{title}}"}
	return []Case{
		// a template rendered before and after unrelated loads, a removal and a cache clear + re-load
		{Datas: []Data{data}, Ops: []Op{
			{K: "load", Name: "t0", Src: base}, {K: "render", Name: "t0"},
			{K: "load", Name: "t1", Src: "Hello {{customer}}"}, {K: "render", Name: "t0", Entry: 1}, {K: "remove", Name: "t1"}, {K: "render", Name: "t0"},
			{K: "clear"}, {K: "render", Name: "t0"}, {K: "load", Name: "t0", Src: "again {{qty}}"}, {K: "render", Name: "t0"}}},
		// the derived template itself (its own load is the only one below the base)
		{Datas: []Data{data}, Ops: []Op{
			{K: "load", Name: "t0", Src: base}, {K: "load", Name: "t1", Src: "{{extends \"t0\"}}\n{{#block \"header\"}}H1 {{qty}}{{/block}}"},
			{K: "render", Name: "t1"}, {K: "render", Name: "t1", Entry: 1}}},
		// a document template: both entry points, twice, with concurrent renders of it
		{Datas: []Data{data}, Ops: []Op{{K: "loaddoc", Name: "t2", Doc: doc}, {K: "render", Name: "t2", Entry: 1}, {K: "render", Name: "t2"}},
			Conc: &Conc{Procs: 4, Workers: [][]Op{{{K: "render", Name: "t2", Entry: 1}, {K: "render", Name: "t2"}}, {{K: "render", Name: "t2", Entry: 1}},
				{{K: "load", Name: "m0", Src: "x {{title}}"}, {K: "remove", Name: "m1"}}}}},
	}
}

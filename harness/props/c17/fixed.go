package c17

import (
	"strconv"

	"wzverif/internal/gen"
	"wzverif/internal/kit"
)

// fixedCases: hand-written histories every run executes first.
func fixedCases() []Case {
	s := func(x string) Val { return Val{T: "s", S: x} }
	data := Data{Vars: map[string]Val{"title": s("T"), "customer": s("ACME"), "qty": {T: "i", S: "7"}}, Conds: map[string]bool{"isVip": true},
		Lists: map[string][]Val{"people": {{T: "m", M: map[string]Val{"pname": s("Ann"), "role": s("dev")}}, {T: "m", M: map[string]Val{"pname": s("Bo"), "role": s("ops")}}}}}
	base := "{{title}}\n{{#block \"header\"}}H0{{/block}}\n{{#block \"content\"}}C0 {{customer}}{{/block}}"
	doc := &DocSpec{Elems: []DocElem{
		{Runs: []DocRun{{T: "Dear "}, {T: "{{customer}}", B: true}, {T: ", qty {{qty}}"}}},
		{Runs: []DocRun{{T: "{{#if isVip}}VIP{{/if}}"}}},
		{Table: [][]string{{"Name", "Role"}, {"{{#each people}}{{pname}}", "{{role}}{{/each}}"}}},
	}, HasHeader: true, Header: "Report {{title}}"}
	png, jpg, gif := gen.Img{Fmt: "png", W: 4, H: 4, Pat: 1, Name: "logo"}, gen.Img{Fmt: "jpeg", W: 4, H: 4, Pat: 2, Name: "logo"}, gen.Img{Fmt: "gif", W: 3, H: 2, Pat: 3, Name: "x.gif"}
	pic := func(im gen.Img, title string) Data {
		return Data{Vars: map[string]Val{"title": s(title)}, Images: map[string]gen.Img{"logo": im}}
	}
	// three header / footer parts, a picture and a note of its own, a picture placeholder
	roomy := &DocSpec{Elems: []DocElem{{Runs: []DocRun{{T: "Report {{title}}"}}}, {Runs: []DocRun{{T: "{{#image logo}}"}}}, {Runs: []DocRun{{T: "end"}}}},
		HasHeader: true, Header: "header {{title}}", HasFooter: true, Footer: "footer", HF: []DocHF{{Type: "first", Text: "first header"}}, Image: &gif, Footnote: true, ListItems: 1}
	// list items that carry the caller's own slice types; a template that loops over them and one that prints them
	typedItems := Data{Vars: map[string]Val{"title": s("T"), "memo": {T: "as", L: []Val{s("b"), s("a")}}}, Lists: map[string][]Val{"items": {
		{T: "m", M: map[string]Val{"label": s("G1"), "parts": {T: "as", L: []Val{s("a"), s("b")}}, "subs": {T: "am", L: []Val{{T: "m", M: map[string]Val{"sname": s("x")}}, {T: "m", M: map[string]Val{"sname": s("y")}}}}}},
		{T: "m", M: map[string]Val{"label": s("G2"), "parts": {T: "as", L: []Val{s("c")}}, "subs": {T: "a", L: []Val{{T: "m", M: map[string]Val{"sname": s("z")}}}}, "amount": {T: "ai", L: []Val{{T: "i", S: "3"}, {T: "i", S: "1"}}}}},
	}}}
	nestedSrc := "{{title}} {{memo}}\n{{#each items}}{{label}}:{{#each parts}}<{{this}}>{{/each}}{{#each subs}}({{sname}}){{/each}} {{amount}};\n{{/each}}"
	flatSrc := "{{#each items}}{{label}}={{parts}}/{{subs}}/{{amount}};{{/each}}"
	derivedDoc := &DocSpec{Elems: []DocElem{{Runs: []DocRun{{T: "{{extends \"t0\"}}"}}}, {Runs: []DocRun{{T: "{{#block \"header\"}}DOC1 {{qty}}{{/block}}"}}}, {Runs: []DocRun{{T: "tail {{customer}}"}}}}}
	// more names alive on one engine than any power of two up to 64, b1 removed while b10.. stay
	var many []Op
	if !kit.RaceMode() {
		for i := 0; i < 67; i++ {
			many = append(many, Op{K: "load", Name: "b" + strconv.Itoa(i), Src: "B" + strconv.Itoa(i) + " {{title}}"})
		}
		many = append(many, Op{K: "remove", Name: "b1"}, Op{K: "render", Name: "b1"})
		for i := 0; i < 67; i += 2 {
			many = append(many, Op{K: "render", Name: "b" + strconv.Itoa(i), Entry: i / 2 % 2})
		}
		many = append(many, Op{K: "render", Name: "b11"}, Op{K: "render", Name: "b19"})
	}
	return []Case{
		{Datas: []Data{typedItems}, Ops: []Op{{K: "load", Name: "t0", Src: flatSrc}, {K: "load", Name: "t1", Src: nestedSrc},
			{K: "render", Name: "t0"}, {K: "render", Name: "t1"}, {K: "render", Name: "t0"}, {K: "render", Name: "t1", Entry: 1}},
			Conc: &Conc{Procs: 4, Workers: [][]Op{{{K: "render", Name: "t1"}, {K: "render", Name: "t0"}}, {{K: "render", Name: "t1"}}, {{K: "render", Name: "t0"}, {K: "render", Name: "t1"}}}}},
		// a derived template loaded from a document, alone and while other goroutines load and remove other names
		{Datas: []Data{data}, Ops: []Op{{K: "load", Name: "t0", Src: base}, {K: "loaddoc", Name: "t1", Doc: derivedDoc}, {K: "render", Name: "t1"}, {K: "render", Name: "t0"},
			{K: "load", Name: "m1", Src: "one {{title}}"}, {K: "load", Name: "m3", Src: "three {{title}}"}},
			Conc: &Conc{Procs: 4, Workers: [][]Op{{{K: "render", Name: "t1"}, {K: "render", Name: "t0"}}, {{K: "render", Name: "t1", Entry: 1}},
				{{K: "loaddoc", Name: "t2", Doc: derivedDoc}, {K: "loaddoc", Name: "t3", Doc: derivedDoc}, {K: "loaddoc", Name: "t4", Doc: derivedDoc}},
				{{K: "load", Name: "m0", Src: "x {{title}}"}, {K: "remove", Name: "m1"}, {K: "load", Name: "m2", Src: "y"}, {K: "remove", Name: "m3"}}}}},
		{Datas: []Data{data}, Ops: many},
		// one document template rendered with pictures of three formats in a row; the caller keeps every result and
		// goes on working with them
		{Datas: []Data{pic(png, "one"), pic(jpg, "two"), pic(gif, "three")}, Ops: []Op{{K: "loaddoc", Name: "t0", Doc: roomy},
			{K: "render", Name: "t0", Entry: 1}, {K: "render", Name: "t0", Entry: 1, Data: 1}, {K: "render", Name: "t0", Data: 2},
			{K: "edit", Ref: 4, Edit: &EditSpec{K: "image", Img: &png}}, {K: "edit", Ref: 2, Edit: &EditSpec{K: "header", Type: "even", Text: "even"}},
			{K: "edit", Ref: 3, Edit: &EditSpec{K: "footnote", Text: "n"}}, {K: "edit", Ref: 0, Edit: &EditSpec{K: "list", Text: "item"}},
			{K: "edit", Ref: 5, Edit: &EditSpec{K: "style", Text: "renamed"}}, {K: "edit", Ref: 1, Edit: &EditSpec{K: "runtext", Text: "EDITED"}},
			{K: "render", Name: "t0", Entry: 1}}},
		// a template rendered before and after unrelated loads, a removal and a cache clear + re-load
		{Datas: []Data{data}, Ops: []Op{
			{K: "load", Name: "t0", Src: base}, {K: "render", Name: "t0"},
			{K: "load", Name: "t1", Src: "Hello {{customer}}"}, {K: "render", Name: "t0", Entry: 1}, {K: "remove", Name: "t1"}, {K: "render", Name: "t0"},
			{K: "clear"}, {K: "render", Name: "t0"}, {K: "load", Name: "t0", Src: "again {{qty}}"}, {K: "render", Name: "t0"}}},
		// the derived template itself (its own load is the only one below the base)
		{Datas: []Data{data}, Ops: []Op{
			{K: "load", Name: "t0", Src: base}, {K: "load", Name: "t1", Src: "{{extends \"t0\"}}\n{{#block \"header\"}}H1 {{qty}}{{/block}}"},
			{K: "render", Name: "t1"}, {K: "render", Name: "t1", Entry: 1}}},
		// a document template: both entry points, twice, with concurrent renders of it
		{Datas: []Data{data}, Ops: []Op{{K: "loaddoc", Name: "t2", Doc: doc}, {K: "render", Name: "t2", Entry: 1}, {K: "render", Name: "t2"}},
			Conc: &Conc{Procs: 4, Workers: [][]Op{{{K: "render", Name: "t2", Entry: 1}, {K: "render", Name: "t2"}}, {{K: "render", Name: "t2", Entry: 1}},
				{{K: "load", Name: "m0", Src: "x {{title}}"}, {K: "remove", Name: "m1"}}}}},
	}
}

package c17

import (
	"fmt"
	"os"
	"testing"
	"time"

	"pgregory.net/rapid"

	"wzverif/internal/kit"
)

func TestDbgTiming(t *testing.T) {
	if os.Getenv("C17_DBG") == "" {
		t.Skip()
	}
	openKF = kit.OpenFindings("C17")
	var tg, tr time.Duration
	n := 0
	rapid.Check(t, func(rt *rapid.T) {
		t0 := time.Now()
		c := genCase(rt)
		t1 := time.Now()
		run(c)
		t2 := time.Now()
		tg += t1.Sub(t0)
		tr += t2.Sub(t1)
		n++
	})
	fmt.Println("cases", n, "gen", tg, "run", tr)
}

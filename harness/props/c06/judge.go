package c06

// judgeOpen is the single oracle entry point of C06: every generator (grammar, part faults, container
// faults, native fuzzing, replays) hands it a byte string.
//
//	T1  opening terminates                      (kit watchdog + driver sentinel)
//	T2  no panic in Open / OpenFromMemory, nor in reading accessors, the edit script and ToBytes
//	    on a successfully opened document (errors are always acceptable)
//	T3  the re-saved package is a readable zip without duplicate entries, contains a well-formed
//	    regenerated main part, and - when the input's content types / package relationships were the
//	    standard ones or in the class the library replaces by defaults - still locates exactly one main part;
//	    an optional part the edits extended (numbering, notes, settings, styles) is well-formed in the re-saved
//	    package when it was well-formed (or absent) in the input: the save of the edited document "works"

import (
	"bytes"
	"encoding/xml"
	"fmt"
	"io"
	"os"
	"path/filepath"
	"strconv"
	"strings"

	"github.com/zerx-lab/wordZero/pkg/document"
	"github.com/zerx-lab/wordZero/pkg/style"

	"wzverif/internal/kit"
	"wzverif/internal/opc"
	"wzverif/internal/xmlwf"
)

// ---------------------------------------------------------------------------------------------
// independent view of the input (trigger predicates, non-triviality, P3 precondition)

type tblInfo struct {
	HasGrid  bool
	GridCols int   // gridCol children of the (last) tblGrid
	Rows     []int // tc children per tr
}

// gridShort: the grid defines fewer columns than the first row has cells (or none at all).
func (t tblInfo) gridShort() bool { return t.HasGrid && len(t.Rows) > 0 && t.GridCols < t.Rows[0] }

func (t tblInfo) ragged() bool {
	for _, r := range t.Rows {
		if r != t.Rows[0] {
			return true
		}
	}
	return false
}

type inputInfo struct {
	Zip        bool // readable by archive/zip, every entry readable
	HasMain    bool
	MainLen    int
	MainStarts int  // start elements tokenised before the first error
	MainClean  bool // main part tokenises to EOF without error
	TransDoc   bool // a {transitional}document start element was tokenised (before any error)
	NTables    int
	AnyNoGrid  bool // some w:tbl without a w:tblGrid child
	AnyGrid    bool // some w:tbl with a w:tblGrid child
	AnyRows    bool // some w:tbl with a w:tr child
	AnyRagged  bool // some w:tbl whose rows differ in their number of w:tc children
	// a graphic / pic start element that does not itself declare the drawingml main / picture namespace
	UndeclaredDrawing bool
	CTClass           string // "std" | "fallback" | "other"
	RelsClass         string
	// content controls and fields of the main part
	SDT        int  // w:sdt start elements
	SDTNested  bool // a w:sdt inside a w:sdt
	SDTGallery bool // some w:docPartGallery carries a value
	Instr      int  // w:instrText elements and w:fldSimple/@w:instr attributes
	InstrSplit bool // a paragraph with more than one w:instrText (an instruction split over runs)
	FldChars   int
	Distinct   int // distinct attribute values of the main part (all elements)
	// producer shapes of the main part (math.go, tables.go)
	Formulas        int // oMath / oMathPara elements of the math namespace directly inside a w:p
	VMerge          int // w:vMerge elements
	OddSpan         int // w:gridSpan whose value is not a positive decimal number
	OddSpanOnVMerge int // ... in a w:tcPr that also carries w:vMerge
	TblBeforeP      int // w:tc in which a w:tbl child is followed by a w:p child
	// the optional parts Open only stores (optvocab.go: OptVocab.Parts), as they are in the input
	Opt map[string]*optInfo
}

// optInfo: independent view of one optional part of the input.
type optInfo struct {
	Data       []byte
	WF         bool // well-formed by the harness's checker (see wellFormed)
	wfKnown    bool
	RootLocal  string // first start element
	RootSpace  string
	RootPrefix string
	Completes  bool // the root element is read to its end tag by encoding/xml
	SelfClosed bool // <w:numbering .../>
	Children   int  // start elements directly under the root (before the first decoder error)
	Foreign    int  // those whose namespace is not the root's
}

// maxOptJudged: the clause on the re-saved optional parts is decided on parts up to this size (the checker takes about
// 0.1 s per MB, more on deep nesting; what the edits splice in does not depend on the size of the part).
const maxOptJudged = 1 << 20

// wellFormed decides (once) whether the part was well-formed in the input.
func (o *optInfo) wellFormed() bool {
	if !o.wfKnown {
		o.wfKnown = true
		o.WF = xmlwf.Check(o.Data) == nil
	}
	return o.WF
}

func analyseOpt(data []byte) *optInfo {
	o := &optInfo{Data: data}
	dec := xml.NewDecoder(bytes.NewReader(data))
	depth := 0
	for {
		before := dec.InputOffset()
		tok, err := dec.Token()
		if err != nil {
			return o
		}
		switch t := tok.(type) {
		case xml.StartElement:
			depth++
			switch depth {
			case 1:
				o.RootLocal, o.RootSpace = t.Name.Local, t.Name.Space
				raw := data[before:dec.InputOffset()]
				if i := bytes.IndexByte(raw, ':'); i > 0 && !bytes.ContainsAny(raw[:i], " \t\r\n>/") {
					o.RootPrefix = string(raw[1:i])
				}
				o.SelfClosed = bytes.HasSuffix(raw, []byte("/>"))
			case 2:
				o.Children++
				if t.Name.Space != o.RootSpace {
					o.Foreign++
				}
			}
		case xml.EndElement:
			depth--
			if depth == 0 {
				o.Completes = true
				return o
			}
		}
	}
}

func (in *inputInfo) fold(t *tblInfo) {
	in.NTables++
	if t.HasGrid {
		in.AnyGrid = true
	} else {
		in.AnyNoGrid = true
	}
	if len(t.Rows) > 0 {
		in.AnyRows = true
	}
	if t.ragged() {
		in.AnyRagged = true
	}
}

// rootCompletes reports whether the first element of data is read to its end tag without a decoder error
// (the condition under which encoding/xml.Unmarshal can succeed at all).
func rootCompletes(data []byte) bool {
	dec := xml.NewDecoder(bytes.NewReader(data))
	depth, started := 0, false
	for {
		tok, err := dec.Token()
		if err != nil {
			return false
		}
		switch tok.(type) {
		case xml.StartElement:
			depth++
			started = true
		case xml.EndElement:
			depth--
			if started && depth == 0 {
				return true
			}
		}
	}
}

func classify(parts map[string][]byte, name string) string {
	d, ok := parts[name]
	if !ok {
		return "fallback"
	}
	if bytes.Equal(d, stdPart(name)) {
		return "std"
	}
	if !rootCompletes(d) {
		return "fallback"
	}
	return "other"
}

func declares(t xml.StartElement, ns string) bool {
	for _, a := range t.Attr {
		if (a.Name.Space == "xmlns" || a.Name.Local == "xmlns") && a.Value == ns {
			return true
		}
	}
	return false
}

func analyse(b []byte) *inputInfo {
	in := &inputInfo{CTClass: "other", RelsClass: "other"}
	pkg, err := opc.Read(b)
	if err != nil {
		return in
	}
	in.Zip = true
	in.CTClass = classify(pkg.Parts, nCT)
	in.RelsClass = classify(pkg.Parts, nRels)
	main, ok := pkg.Parts[nMain]
	if !ok {
		return in
	}
	in.HasMain = true
	in.MainLen = len(main)
	in.Opt = map[string]*optInfo{}
	for _, name := range TheOptVocab().Parts {
		if d, ok := pkg.Parts[name]; ok {
			in.Opt[name] = analyseOpt(d)
		}
	}
	dec := xml.NewDecoder(bytes.NewReader(main))
	type frame struct {
		local                   string
		tbl                     *tblInfo // the table this tbl / tblGrid / tr frame belongs to
		sawTbl, oddSpan, vMerge bool     // tc: a w:tbl child was seen; tcPr: what it carries
	}
	var stack []frame
	values := map[string]struct{}{}
	instrInPara := 0
	defer func() { in.Distinct = len(values) }()
	for {
		tok, err := dec.Token()
		if err == io.EOF {
			in.MainClean = true
			break
		}
		if err != nil {
			break
		}
		switch t := tok.(type) {
		case xml.StartElement:
			in.MainStarts++
			if t.Name.Local == "document" && t.Name.Space == nsW {
				in.TransDoc = true
			}
			for _, a := range t.Attr {
				if len(values) < 1<<21 {
					values[a.Value] = struct{}{}
				}
			}
			switch t.Name.Local {
			case "sdt":
				in.SDT++
				for _, f := range stack {
					if f.local == "sdt" {
						in.SDTNested = true
					}
				}
			case "docPartGallery":
				for _, a := range t.Attr {
					if a.Name.Local == "val" && a.Value != "" {
						in.SDTGallery = true
					}
				}
			case "p":
				instrInPara = 0
			case "instrText":
				in.Instr++
				if instrInPara++; instrInPara > 1 {
					in.InstrSplit = true
				}
			case "fldSimple":
				in.Instr++
			case "fldChar":
				in.FldChars++
			}
			if t.Name.Local == "graphic" && !declares(t, nsA) || t.Name.Local == "pic" && !declares(t, nsPic) {
				in.UndeclaredDrawing = true
			}
			f := frame{local: t.Name.Local}
			if len(stack) > 0 {
				p := &stack[len(stack)-1]
				switch {
				case (t.Name.Local == "oMath" || t.Name.Local == "oMathPara") && t.Name.Space == nsM && p.local == "p":
					in.Formulas++
				case t.Name.Local == "tbl" && p.local == "tc":
					p.sawTbl = true
				case t.Name.Local == "p" && p.local == "tc" && p.sawTbl:
					in.TblBeforeP++
					p.sawTbl = false
				case t.Name.Local == "vMerge" && p.local == "tcPr":
					in.VMerge++
					if p.vMerge = true; p.oddSpan {
						in.OddSpanOnVMerge++
					}
				case t.Name.Local == "gridSpan" && p.local == "tcPr":
					v := ""
					for _, a := range t.Attr {
						if a.Name.Local == "val" {
							v = a.Value
						}
					}
					if n, err := strconv.Atoi(v); err != nil || n < 1 {
						in.OddSpan++
						if p.oddSpan = true; p.vMerge {
							in.OddSpanOnVMerge++
						}
					}
				}
				switch {
				case t.Name.Local == "tblGrid" && p.local == "tbl":
					p.tbl.HasGrid = true
					p.tbl.GridCols = 0 // the reader starts a new grid at every w:tblGrid
					f.tbl = p.tbl
				case t.Name.Local == "gridCol" && p.local == "tblGrid" && p.tbl != nil:
					p.tbl.GridCols++
				case t.Name.Local == "tr" && p.local == "tbl":
					if len(p.tbl.Rows) < 1<<16 {
						p.tbl.Rows = append(p.tbl.Rows, 0)
					}
					f.tbl = p.tbl
				case t.Name.Local == "tc" && p.local == "tr" && p.tbl != nil:
					r := p.tbl.Rows
					r[len(r)-1]++
				}
			}
			if t.Name.Local == "tbl" {
				f.tbl = &tblInfo{}
			}
			stack = append(stack, f)
		case xml.EndElement:
			if len(stack) > 0 {
				if f := stack[len(stack)-1]; f.local == "tbl" {
					in.fold(f.tbl)
				}
				stack = stack[:len(stack)-1]
			}
		}
	}
	for _, f := range stack { // tables left open by a truncated / ill-formed part
		if f.local == "tbl" {
			in.fold(f.tbl)
		}
	}
	return in
}

// ---------------------------------------------------------------------------------------------

const (
	maxTwinBytes    = 64 << 10 // a package is taken through the follow-up twice (Case.Twin) when it is at most this large
	maxTablesEdited = 6
	maxCellsVisited = 3000
)

// textCost estimates the bytes copied by the library's run-by-run string concatenation when the text of every
// cell of the table is read once (public fields only): per cell, total text length x number of runs.
func textCost(t *document.Table) int {
	if t == nil {
		return 0
	}
	cost := 0
	for r := range t.Rows {
		for c := range t.Rows[r].Cells {
			runs, bytes := 0, 0
			for _, p := range t.Rows[r].Cells[c].Paragraphs {
				runs += len(p.Runs)
				for i := range p.Runs {
					bytes += len(p.Runs[i].Text.Content) + 1
				}
			}
			cost += runs * bytes / 2
		}
	}
	return cost
}

const maxTextCost = 150 << 20

// hugeSpan: cell (0,0) carries a gridSpan above 2000 (public fields only).
func hugeSpan(t *document.Table) bool {
	if t == nil || len(t.Rows) == 0 || len(t.Rows[0].Cells) == 0 {
		return false
	}
	p := t.Rows[0].Cells[0].Properties
	if p == nil || p.GridSpan == nil {
		return false
	}
	n := 0
	fmt.Sscanf(p.GridSpan.Val, "%d", &n)
	return n > 2000
}

type readCloser struct{ *bytes.Reader }

func (readCloser) Close() error { return nil }

// tblState renders the public state of an opened table (goes into failure details; triggers read it).
func tblState(t *document.Table) string {
	if t == nil {
		return "table=nil"
	}
	ragged := false
	c0 := -1
	minc, maxc := 1<<30, -1
	for i := range t.Rows {
		n := len(t.Rows[i].Cells)
		if i == 0 {
			c0 = n
		} else if n != c0 {
			ragged = true
		}
		if n < minc {
			minc = n
		}
		if n > maxc {
			maxc = n
		}
	}
	if len(t.Rows) == 0 {
		minc = 0
	}
	grid := "nil"
	if t.Grid != nil {
		grid = fmt.Sprint(len(t.Grid.Cols))
	}
	return fmt.Sprintf("grid=%s rows=%d cells0=%d min=%d max=%d ragged=%v", grid, len(t.Rows), c0, minc, maxc, ragged)
}

type judge struct {
	res     *kit.Result
	panics  int
	in      *inputInfo
	calls   int
	openErr error
	follow  []string // the drawn follow-up script of the case
	// tocFirst: Open left a body-level bookmark start directly in front of a styled paragraph (bookmarks.go: labelBookmarks)
	tocFirst bool
	tedits  []TEdit  // the drawn script of table edits of the case
}

// call runs one library call under recover; a panic is a T2 failure of the given clause.
func (j *judge) call(clause, what, state string, f func()) bool {
	j.calls++
	p, st := kit.Try(f)
	if p != nil {
		j.panics++
		if state != "" {
			state = " [" + state + "]"
		}
		j.res.Fail(clause, "%s%s panicked: %v [%s]", what, state, p, st)
		return false
	}
	return true
}

// judgePre opens the packages that precede the case's own one (Case.Pre). They are well-formed by construction; the only
// thing judged is that Open returns. What they leave behind in the process is the point.
func judgePre(res *kit.Result, pre []*XMLPart) {
	for i, p := range pre {
		w := p.write()
		if w == nil {
			continue
		}
		c := Case{Gen: "rawmain", Via: "mem", Raw: p.finish(w.b.Bytes())}
		b := c.Build()
		j := &judge{res: res}
		res.Eval("C06.T2.open")
		var err error
		j.call("C06.T2.open", fmt.Sprintf("OpenFromMemory of preceding package #%d (%d bytes)", i, len(b)), "", func() {
			_, err = document.OpenFromMemory(readCloser{bytes.NewReader(b)})
		})
		if err != nil {
			res.Count("pre_open_errors", 1)
		}
		res.Count("pre_packages_opened", 1)
		res.Count("distinct_attr_values_offered", int(w.seq))
	}
}

// judgeOpen evaluates T1-T3 on one byte string. via: "mem" (OpenFromMemory) or "file" (Open(path)).
func judgeOpen(res *kit.Result, b []byte, via string, follow []string, tedits []TEdit, twin bool) *inputInfo {
	document.VerifResetGlobals()
	in := analyse(b)
	j := &judge{res: res, in: in, follow: follow, tedits: tedits}

	var doc *document.Document
	var err error
	res.Eval("C06.T2.open")
	if via == "file" {
		dir, derr := os.MkdirTemp(kit.Scratch, "c06-")
		if derr != nil {
			res.Count("scratch_errors", 1)
			return in
		}
		defer os.RemoveAll(dir)
		path := filepath.Join(dir, "in.docx")
		if werr := os.WriteFile(path, b, 0o644); werr != nil {
			res.Count("scratch_errors", 1)
			return in
		}
		j.call("C06.T2.open", "Open(path)", "", func() { doc, err = document.Open(path) })
	} else {
		j.call("C06.T2.open", "OpenFromMemory", "", func() { doc, err = document.OpenFromMemory(readCloser{bytes.NewReader(b)}) })
	}
	res.Eval("C06.T1") // the call returned (a hang ends in the watchdog / sentinel, not here)
	if j.panics > 0 {
		res.Label("open:panic")
		return in
	}
	if err != nil {
		res.Label("open:err")
		j.openErr = err
		return in
	}
	if doc == nil {
		res.Fail("C06.T2.open", "open returned (nil, nil)")
		return in
	}
	res.Label("open:ok")
	var doc2 *document.Document
	if twin && len(b) <= maxTwinBytes {
		// a second document from the same bytes, opened before the first one is touched
		var err2 error
		res.Eval("C06.T2.open")
		j.call("C06.T2.open", "OpenFromMemory (second document from the same bytes)", "", func() { doc2, err2 = document.OpenFromMemory(readCloser{bytes.NewReader(b)}) })
		if err2 != nil || j.panics > 0 {
			doc2 = nil
		}
	}
	j.followUp(doc)
	if doc2 != nil && j.panics == 0 {
		res.Label("twin:second-document-after-the-first")
		j.followUp(doc2)
	}
	if j.tocFirst && j.panics == 0 && len(b) <= maxTwinBytes {
		// the follow-up reaches the table of contents after its other edits (they append to the body: a heading that was the last
		// element is not the last one any more). Here it is the FIRST edit, on a document of its own from the same bytes.
		j.tocAsFirstEdit(b)
	}
	return in
}

func (j *judge) followUp(doc *document.Document) {
	res := j.res
	const R, E, S = "C06.T2.read", "C06.T2.edit", "C06.T2.save"
	res.Eval(R)
	if doc.Body == nil {
		// every accessor of the public API dereferences Body; a document without one is not usable
		res.Fail(R, "open succeeded but Document.Body is nil")
		return
	}
	var tables []*document.Table
	j.call(R, "Body.GetParagraphs", "", func() { doc.Body.GetParagraphs() })
	j.call(R, "Body.GetTables", "", func() { tables = doc.Body.GetTables() })
	j.call(R, "GetPageSettings", "", func() { doc.GetPageSettings() })
	j.call(R, "ListHeadings", "", func() { doc.ListHeadings() })
	j.call(R, "GetHeadingCount", "", func() { doc.GetHeadingCount() })
	j.call(R, "GetDocumentProperties", "", func() { doc.GetDocumentProperties() })
	j.call(R, "GetParts", "", func() { _ = doc.GetParts() })
	j.call(R, "style lookups", "", func() {
		sm := doc.GetStyleManager()
		if sm != nil {
			sm.GetStyle("Normal")
			sm.StyleExists("Heading1")
			sm.GetStyleWithInheritance("Heading1")
			sm.GetAllStyles()
		}
	})
	if len(tables) > 0 {
		res.Label("opened-tables")
	}
	j.labelBookmarks(doc) // body-level bookmarks next to headings, as Open read them (bookmarks.go)
	for _, e := range doc.Body.Elements {
		if _, ok := e.(*document.MathParagraph); ok {
			res.Label("opened-formula-paragraph") // the reader kept the inside of a formula as the text of the input
			break
		}
	}

	// re-save of the document exactly as opened (before any edit changes relationship counts, ids, tables)
	res.Eval(S)
	var out0 []byte
	var serr0 error
	if j.call(S, "ToBytes (unedited)", "", func() { out0, serr0 = doc.ToBytes() }) && serr0 == nil {
		j.checkSaved(out0)
	}

	// per opened table: accessors, then the edit script; only the first few and the last table of huge documents
	var copies []*document.Table // edited copies of the opened tables (sweep); they join the document below
	sweepBudget := sweepVariants
	sel := tables
	if len(sel) > maxTablesEdited {
		sel = append(append([]*document.Table{}, tables[:maxTablesEdited-1]...), tables[len(tables)-1])
		res.Count("tables_not_edited", len(tables)-len(sel))
	}
	for ti, t := range sel {
		// every element GetTables() hands out is a table the caller may use; a nil one fails in the first accessor
		if t == nil {
			res.Label("opened-nil-table")
		}
		who := func(c string) string { return fmt.Sprintf("%s on opened table #%d", c, ti) }
		st := tblState(t)
		if strings.Contains(st, "ragged=true") {
			res.Label("opened-ragged-table")
		}
		if t != nil && t.Grid == nil {
			res.Label("opened-table-without-grid")
		}
		if t != nil && t.Grid != nil && len(t.Grid.Cols) == 0 && len(t.Rows) > 0 && len(t.Rows[0].Cells) > 0 {
			res.Label("opened-table-empty-grid-above-cells")
		}
		if t != nil && len(t.Rows) == 0 {
			res.Label("opened-rowless-table")
		}
		if t != nil && len(t.Rows) > 0 && len(t.Rows[0].Cells) == 0 {
			res.Label("opened-table-empty-first-row")
		}
		ok := true
		rd := func(name string, f func()) {
			if ok {
				ok = j.call(R, who(name), tblState(t), f)
			}
		}
		rows, cols := 0, 0
		rd("GetRowCount", func() { rows = t.GetRowCount() })
		rd("GetColumnCount", func() { cols = t.GetColumnCount() })
		if textCost(t) > maxTextCost {
			// tens of thousands of runs in one cell: reading its text is quadratic in the library (seconds per call, not a
			// panic); the text-reading accessors are skipped by precondition, never judged by a deadline
			res.Count("skipped:text-accessors-huge-cell", 1)
			goto edits
		}
		rd("GetCellText(all)", func() {
			n := 0
			for r := range t.Rows {
				for c := range t.Rows[r].Cells {
					if n++; n > maxCellsVisited {
						return
					}
					t.GetCellText(r, c)
				}
			}
		})
		rd("NewCellIterator", func() {
			it := t.NewCellIterator()
			it.Total()
			it.Progress()
			for n := 0; it.HasNext() && n < maxCellsVisited; n++ {
				if _, err := it.Next(); err != nil {
					break // the iterator does not advance on error
				}
			}
			it.Reset()
			it.Current()
		})
		rd("ForEach", func() {
			n := 0
			t.ForEach(func(r, c int, cell *document.TableCell, text string) error {
				if n++; n > maxCellsVisited {
					return fmt.Errorf("enough")
				}
				return nil
			})
		})
		rd("ForEachInRow", func() { t.ForEachInRow(0, func(int, *document.TableCell, string) error { return nil }) })
		rd("ForEachInColumn", func() { t.ForEachInColumn(0, func(int, *document.TableCell, string) error { return nil }) })
		rd("GetCellRange", func() {
			er, ec := rows-1, cols-1
			if (er+1)*(ec+1) > maxCellsVisited {
				er = maxCellsVisited/(ec+1) - 1
			}
			t.GetCellRange(0, 0, er, ec)
		})
		rd("FindCellsByText", func() {
			if rows*cols <= maxCellsVisited {
				t.FindCellsByText("c", false)
			}
		})
	edits:
		rd("cell getters", func() {
			t.GetCell(0, 0)
			t.GetCellFormat(0, 0)
			t.IsCellMerged(0, 0)
			t.GetMergedCellInfo(0, 0)
			t.GetCellParagraphs(0, 0)
			t.GetRowHeight(0)
			t.GetTableLayout()
			t.GetTableBreakInfo()
		})
		rd("CopyTable", func() {
			if rows*cols <= maxCellsVisited {
				t.CopyTable()
			}
		})
		if !ok {
			continue
		}
		res.Eval(E)
		ed := func(name string, f func() error) {
			if ok {
				ok = j.call(E, who(name), tblState(t), func() { f() })
			}
		}
		// every single edit of the repertoire at every position, each on a copy of the table as it was opened (tables.go)
		if cps, sok := j.sweep(t, ti, &sweepBudget); true {
			copies = append(copies, cps...)
			ok = ok && sok
		}
		// the case's drawn script, on the opened table itself
		if len(j.tedits) > 0 && ok {
			res.Label("tedits:drawn")
			for i, e := range j.tedits {
				e := e
				if e.Op == "Save" {
					res.Eval(S)
					var out []byte
					var err error
					if ok = j.call(S, fmt.Sprintf("ToBytes after call %d of the drawn table script %v on opened table #%d", i, j.tedits, ti), tblState(t), func() { out, err = doc.ToBytes() }); ok && err == nil {
						j.checkSavedMain(out, 0)
					}
				} else {
					res.Label("tedit:" + e.Op)
					ed(fmt.Sprintf("%s (call %d of the drawn table script %v)", e, i+1, j.tedits), func() error { j.applyTEdit(doc, t, e); return nil })
				}
				if !ok {
					break
				}
			}
		}
		// row edits and merges first, column edits last: a panic ends the script of this table (its state is undefined)
		ed("SetCellText", func() error { return t.SetCellText(0, 0, "x") })
		ed("AppendRow", func() error { return t.AppendRow([]string{"v"}) })
		ed("InsertRow", func() error { return t.InsertRow(0, []string{"v"}) })
		ed("MergeCellsHorizontal", func() error { return t.MergeCellsHorizontal(0, 0, 1) })
		ed("UnmergeCells", func() error {
			if hugeSpan(t) {
				// UnmergeCells inserts span-1 cells one by one (quadratic); a span of 10^5..10^9 read from the file is
				// hours of work, not a panic - bounded here by precondition, never judged by a deadline
				res.Count("skipped:unmerge-huge-span", 1)
				return nil
			}
			return t.UnmergeCells(0, 0)
		})
		ed("MergeCellsVertical", func() error { return t.MergeCellsVertical(0, 1, 0) })
		ed("UnmergeCells", func() error { return t.UnmergeCells(0, 0) })
		ed("DeleteRow", func() error { return t.DeleteRow(0) })
		ed("InsertColumn", func() error { return t.InsertColumn(0, nil, 1000) })
		ed("DeleteColumn", func() error { return t.DeleteColumn(0) })
		ed("AppendColumn", func() error { return t.AppendColumn([]string{"v"}, 1000) })
		ed("InsertColumn (no width)", func() error { return t.InsertColumn(0, nil, 0) })
		ed("AppendColumn (no width)", func() error { return t.AppendColumn(nil, 0) })
		if !ok {
			res.Count("tainted_tables", 1)
		}
	}

	// the edited copies join the document, are saved with it, and leave it again
	if len(copies) > sweepSaved {
		// an evenly spread selection joins the document (what is saved is bounded; every copy was edited without a panic)
		var sel []*document.Table
		for i := 0; i < sweepSaved; i++ {
			sel = append(sel, copies[i*len(copies)/sweepSaved])
		}
		res.Count("sweep_copies_not_saved", len(copies)-len(sel))
		copies = sel
	}
	if len(copies) > 0 {
		n0 := len(doc.Body.Elements)
		added := j.call(E, fmt.Sprintf("Body.AddElement of %d edited CopyTable() copies", len(copies)), "", func() {
			for _, cp := range copies {
				doc.Body.AddElement(cp)
			}
		})
		if added {
			res.Eval(S)
			var out []byte
			var err error
			if j.call(S, fmt.Sprintf("ToBytes after single edits on %d CopyTable() copies appended to the document", len(copies)), "", func() { out, err = doc.ToBytes() }) && err == nil {
				j.checkSavedMain(out, sweepWFBytes)
			}
			j.call(E, fmt.Sprintf("RemoveElementAt of the %d appended copies", len(copies)), "", func() {
				for len(doc.Body.Elements) > n0 && doc.RemoveElementAt(len(doc.Body.Elements)-1) {
				}
			})
		}
	}

	// the calls that read / extend the optional parts Open only stored: first in the order the case drew, then all of them
	res.Eval(E)
	if len(j.follow) > 0 {
		res.Label("follow:drawn")
		j.runFollow(doc, j.follow, "drawn script")
	}
	j.runFollow(doc, DefaultFollow, "fixed script")

	// document-level edit script
	j.call(E, "AddParagraph", "", func() { doc.AddParagraph("added paragraph") })
	j.call(E, "AddHeadingParagraph", "", func() { doc.AddHeadingParagraph("added heading", 1) })
	j.call(E, "AddTable", "", func() { doc.AddTable(&document.TableConfig{Rows: 2, Cols: 2, Width: 4000}) })
	j.call(E, "AddHeader", "", func() { doc.AddHeader(document.HeaderFooterTypeDefault, "header") })
	j.call(E, "AddFooter", "", func() { doc.AddFooter(document.HeaderFooterTypeDefault, "footer") })
	j.call(E, "AddImageFromData", "", func() { doc.AddImageFromData(tinyPNG, "added.png", document.ImageFormatPNG, 3, 2, nil) })
	j.call(E, "SetPageMargins", "", func() { doc.SetPageMargins(20, 20, 20, 20) })
	j.call(E, "AddBulletList", "", func() { doc.AddBulletList("item", 0, document.BulletTypeDot) })
	j.call(E, "AddMathFormula", "", func() { doc.AddMathFormula("<m:r><m:t>x</m:t></m:r>", len(tables)%2 == 0) })
	// rebuilds an opened table-of-contents content control (uses what Open restored from its tag / field instruction)
	j.call(E, "UpdateTOC", "", func() { doc.UpdateTOC() })
	// the other ways to a table of contents: built from the headings and the bookmarks next to them as Open read them (the
	// appended elements above all sit behind them); a second run finds what the first one left
	j.call(E, "AutoGenerateTOC(nil)", "", func() { doc.AutoGenerateTOC(nil) })
	j.call(E, "AutoGenerateTOC(levels 1-9, second run)", "", func() {
		doc.AutoGenerateTOC(&document.TOCConfig{Title: "Contents", MaxLevel: 9, ShowPageNum: true, UseHyperlink: true})
	})
	j.call(E, "GenerateTOC(nil)", "", func() { doc.GenerateTOC(nil) })
	j.call(E, "UpdateTOC after GenerateTOC", "", func() { doc.UpdateTOC() })
	j.call(E, "RemoveParagraphAt", "", func() { doc.RemoveParagraphAt(0) })
	j.call(E, "RemoveElementAt", "", func() {
		if doc.Body != nil {
			doc.RemoveElementAt(len(doc.Body.Elements) - 1)
		}
	})

	// save
	res.Eval(S)
	var out []byte
	var serr error
	if !j.call(S, "ToBytes", "", func() { out, serr = doc.ToBytes() }) {
		return
	}
	if serr != nil {
		// a serialisation error is a clean rejection; the statement only forbids panics
		res.Label("save:err")
		res.Count("tobytes_errors", 1)
		return
	}
	res.Label("save:ok")
	j.checkSaved(out)
}

// checkSavedMain evaluates the main-part clauses of T3 only (intermediate saves whose optional parts and package-level parts
// are the ones the next full check sees again).
// wfLimit > 0: a main part larger than that is not parsed (counted): the save of the swept copies is judged for panics on
// every document, for well-formedness on the small ones (the checker makes three passes over the text).
func (j *judge) checkSavedMain(out []byte, wfLimit int) {
	res := j.res
	res.Eval("C06.T3.pkg")
	pkg, err := opc.Read(out)
	if err != nil {
		res.Fail("C06.T3.pkg", "re-saved bytes are not a readable zip: %v", err)
		return
	}
	if len(pkg.Dups) > 0 {
		res.Fail("C06.T3.pkg", "re-saved package has duplicate entries %v", pkg.Dups)
	}
	res.Eval("C06.T3.main-wf")
	main, ok := pkg.Parts[nMain]
	if !ok {
		res.Fail("C06.T3.main-wf", "re-saved package has no word/document.xml")
		return
	}
	if wfLimit > 0 && len(main) > wfLimit {
		res.Count("sweep_save_wf_skipped_large", 1)
		return
	}
	if err := xmlwf.Check(main); err != nil {
		res.Fail("C06.T3.main-wf", "regenerated word/document.xml is not well-formed: %v", err)
	} else if err := wfSupplement(main); err != nil {
		res.Fail("C06.T3.main-wf", "regenerated word/document.xml is not well-formed: %v", err)
	}
}

// checkSaved evaluates T3 on the re-saved bytes.
func (j *judge) checkSaved(out []byte) {
	res := j.res
	res.Eval("C06.T3.pkg")
	pkg, err := opc.Read(out)
	if err != nil {
		res.Fail("C06.T3.pkg", "re-saved bytes are not a readable zip: %v", err)
		return
	}
	if len(pkg.Dups) > 0 {
		res.Fail("C06.T3.pkg", "re-saved package has duplicate entries %v", pkg.Dups)
	}
	res.Eval("C06.T3.main-wf")
	main, ok := pkg.Parts[nMain]
	if !ok {
		res.Fail("C06.T3.main-wf", "re-saved package has no word/document.xml")
		return
	}
	if err := xmlwf.Check(main); err != nil {
		res.Fail("C06.T3.main-wf", "regenerated word/document.xml is not well-formed: %v", err)
	} else if err := wfSupplement(main); err != nil {
		res.Fail("C06.T3.main-wf", "regenerated word/document.xml is not well-formed: %v", err)
	}
	j.checkOptParts(pkg)
	// C01.P3, only where the statement of C06 can demand it: content types and package relationships of the input
	// were the standard ones, or absent / unreadable as XML (the documented fall-back to defaults)
	if j.in.CTClass == "other" || j.in.RelsClass == "other" {
		res.Count("p3_not_applicable", 1)
		return
	}
	res.Eval("C06.T3.p3")
	res.Label("p3:" + j.in.CTClass + "/" + j.in.RelsClass)
	const P3 = "C06.T3.p3"
	if pkg.CTErr != nil {
		res.Fail(P3, "content types of the re-saved package: %v", pkg.CTErr)
	}
	if _, ok := pkg.Parts[nRels]; !ok {
		res.Fail(P3, "_rels/.rels missing from the re-saved package")
		return
	}
	if e := pkg.RelErr[nRels]; e != nil {
		res.Fail(P3, "_rels/.rels of the re-saved package: %v", e)
		return
	}
	mains := pkg.MainParts()
	if len(mains) != 1 {
		res.Fail(P3, "%d officeDocument relationships in the re-saved _rels/.rels", len(mains))
		return
	}
	tgt := mains[0].Resolved
	if _, ok := pkg.Parts[tgt]; !ok {
		res.Fail(P3, "main document target %q is not in the re-saved package", mains[0].Target)
	} else if ct, _ := pkg.ContentTypeOf(tgt); !strings.Contains(ct, "wordprocessingml.document.main+xml") {
		res.Fail(P3, "main part %q of the re-saved package has content type %q", tgt, ct)
	}
}

// checkOptParts: an optional part of the re-saved package that the input carried well-formed (or did not carry at all: the
// library wrote it) is well-formed. A part the input carried damaged is the producer's, not the library's: no claim.
func (j *judge) checkOptParts(pkg *opc.Package) {
	res := j.res
	for _, name := range TheOptVocab().Parts {
		out, ok := pkg.Parts[name]
		if !ok {
			continue
		}
		in := j.in.Opt[name]
		if in != nil && bytes.Equal(in.Data, out) {
			res.Label("opt-out:verbatim:" + name) // byte-identical to the input: nothing the library wrote
			continue
		}
		if len(out) > maxOptJudged || (in != nil && len(in.Data) > maxOptJudged) {
			res.Count("part_wf_skipped_large", 1)
			continue
		}
		if in != nil && !in.wellFormed() {
			res.Count("part_wf_not_applicable", 1)
			continue
		}
		res.Count("part_wf_observed", 1)
		if in == nil {
			res.Label("opt-out:written:" + name)
		} else {
			res.Label("opt-out:extended:" + name)
		}
		if err := xmlwf.Check(out); err != nil {
			what := "written by the library (the input had none)"
			if in != nil {
				what = fmt.Sprintf("well-formed in the input (%d bytes, root %s, %d children, %d of them in another namespace)", len(in.Data), in.RootLocal, in.Children, in.Foreign)
			}
			// C06 as stated demands a well-formed regenerated MAIN part only; well-formedness of every other part of a
			// saved package is C01's statement (judged there on foreign starts). Observed and counted here, never a
			// C06 failure (coordinator's decision: the clause went beyond the statement).
			res.Count("part_wf_observed_ill_formed", 1)
			res.Label("observed:optional-part-ill-formed:" + name)
			_ = what
		}
	}
}

// opName splits "RemoveFootnote:7" into the call and its argument.
func opName(op string) (name, arg string) {
	if i := strings.IndexByte(op, ':'); i >= 0 {
		return op[:i], op[i+1:]
	}
	return op, ""
}

// runFollow makes the calls of a follow-up script (optparts.go: FollowOps). Errors are acceptable, panics are not.
func (j *judge) runFollow(doc *document.Document, script []string, which string) {
	const R, E, S = "C06.T2.read", "C06.T2.edit", "C06.T2.save"
	res := j.res
	before := j.panics
	for i, op := range script {
		if j.panics > before {
			// a panic inside a lazily created manager leaves it half-built: every later call of the script would report the same
			res.Count("follow_calls_skipped_after_panic", len(script)-i)
			return
		}
		name, arg := opName(op)
		what := fmt.Sprintf("%s (call %d of the %s %v)", op, i+1, which, script)
		if len(what) > 300 {
			what = what[:300] + "…"
		}
		switch name {
		case "AddBulletList":
			j.call(E, what, "", func() { doc.AddBulletList("item", 0, document.BulletTypeDot) })
		case "AddNumberedList":
			j.call(E, what, "", func() { doc.AddNumberedList("item", 1, document.ListTypeDecimal) })
		case "AddListItem":
			var cfg *document.ListConfig
			if arg != "nil" {
				cfg = &document.ListConfig{Type: document.ListTypeLowerRoman, IndentLevel: 2, StartNumber: 3}
			}
			j.call(E, what, "", func() { doc.AddListItem("item", cfg) })
		case "CreateMultiLevelList":
			j.call(E, what, "", func() {
				doc.CreateMultiLevelList([]document.ListItem{{Text: "a", Level: 0, Type: document.ListTypeDecimal, StartNumber: 1}, {Text: "b", Level: 1, Type: document.ListTypeBullet, BulletSymbol: document.BulletTypeDash}})
			})
		case "RestartNumbering":
			j.call(E, what, "", func() { doc.RestartNumbering(arg) })
		case "AddFootnote":
			j.call(E, what, "", func() { doc.AddFootnote("text", "a new footnote") })
		case "AddEndnote":
			j.call(E, what, "", func() { doc.AddEndnote("text", "a new endnote") })
		case "AddFootnoteToRun":
			j.call(E, what, "", func() {
				for _, p := range doc.Body.GetParagraphs() {
					if p != nil && len(p.Runs) > 0 {
						doc.AddFootnoteToRun(&p.Runs[0], "a footnote on an opened run")
						return
					}
				}
			})
		case "GetFootnoteCount":
			res.Eval(R)
			j.call(R, what, "", func() { doc.GetFootnoteCount() })
		case "GetEndnoteCount":
			res.Eval(R)
			j.call(R, what, "", func() { doc.GetEndnoteCount() })
		case "RemoveFootnote":
			j.call(E, what, "", func() { doc.RemoveFootnote(arg) })
		case "RemoveEndnote":
			j.call(E, what, "", func() { doc.RemoveEndnote(arg) })
		case "SetFootnoteConfig":
			var cfg *document.FootnoteConfig
			if arg != "nil" {
				cfg = &document.FootnoteConfig{NumberFormat: document.FootnoteFormatLowerRoman, StartNumber: 2, RestartEach: document.FootnoteRestartEachSection, Position: document.FootnotePositionBeneathText}
			}
			j.call(E, what, "", func() { doc.SetFootnoteConfig(cfg) })
		case "AddHeadingParagraph":
			lvl, _ := strconv.Atoi(arg)
			if lvl < 1 || lvl > 9 {
				lvl = 2
			}
			j.call(E, what, "", func() { doc.AddHeadingParagraph("added heading", lvl) })
		case "SetStyle":
			j.call(E, what, "", func() {
				if p := doc.AddParagraph("styled"); p != nil {
					p.SetStyle(arg)
				}
			})
		case "ApplyTableStyle":
			j.call(E, what, "", func() {
				var t *document.Table
				if ts := doc.Body.GetTables(); len(ts) > 0 && ts[0] != nil {
					t = ts[0]
				} else {
					t, _ = doc.AddTable(&document.TableConfig{Rows: 1, Cols: 1, Width: 2000})
				}
				if t != nil {
					t.ApplyTableStyle(&document.TableStyleConfig{StyleID: arg, FirstRowHeader: true, BandedRows: true})
				}
			})
		case "AddStyle":
			j.call(E, what, "", func() {
				if sm := doc.GetStyleManager(); sm != nil {
					sm.AddStyle(&style.Style{Type: "paragraph", StyleID: arg, Name: &style.StyleName{Val: arg}, BasedOn: &style.BasedOn{Val: "Normal"}, CustomStyle: true})
				}
			})
		case "ModifyStyle":
			j.call(E, what, "", func() {
				if sm := doc.GetStyleManager(); sm != nil {
					if st := sm.GetStyle(arg); st != nil {
						st.Name = &style.StyleName{Val: arg + " (modified)"}
					}
				}
			})
		case "ToBytes":
			res.Eval(S)
			var out []byte
			var err error
			if j.call(S, what, "", func() { out, err = doc.ToBytes() }) && err == nil {
				j.checkSaved(out)
			}
		}
	}
}

package c06

// Native fuzzing (thorough tier only, generator d): byte-level mutation of the main part inside a valid
// container (FuzzDocumentXML) and of the whole file (FuzzOpen), judged by the same judgeOpen oracle.
// The driver never runs `go test -fuzz`; TestC06 does (thorough tier, shard 0), then feeds every crasher
// through the normal verdict pipeline as a fixed case, copies it to replays/C06 and removes testdata/fuzz.

import (
	"crypto/sha1"
	"encoding/hex"
	"encoding/json"
	"fmt"
	"os"
	"os/exec"
	"path/filepath"
	"strconv"
	"strings"
	"sync"
	"testing"
	"time"

	"wzverif/internal/kit"
)

// unattributed runs a case and returns the failures no open known finding absorbs.
var (
	openOnce sync.Once
	openKF   map[string]bool
)

func unattributed(c Case) []kit.Failure {
	openOnce.Do(func() { openKF = kit.OpenFindings("C06") })
	open := openKF
	res := runLocal(c)
	var out []kit.Failure
	for _, f := range res.Failures {
		known := false
		for _, kf := range findings {
			if open[kf.ID] && strings.HasPrefix(f.Clause, kf.Clause) && kf.Trigger(c, f) {
				known = true
				break
			}
		}
		if !known {
			out = append(out, f)
		}
	}
	return out
}

func fuzzBody(t *testing.T, c Case) {
	if len(c.Raw) > 1<<20 {
		return
	}
	// a hang must surface as a crasher too: the fuzzing engine has no per-input deadline
	wd := time.AfterFunc(20*time.Second, func() {
		fmt.Fprintln(os.Stderr, "WATCHDOG: fuzz input exceeded 20s")
		os.Exit(97)
	})
	defer wd.Stop()
	if un := unattributed(c); len(un) > 0 {
		t.Fatalf("%s: %s", un[0].Clause, un[0].Detail)
	}
}

func mainSeeds() [][]byte {
	var out [][]byte
	for _, c := range fixed() {
		if p, ok := c.Parts[nMain]; ok {
			if b := p.Bytes(); len(b) < 8<<10 {
				out = append(out, b)
			}
		}
	}
	out = append(out, stdPart(nMain), []byte(`<w:document xmlns:w="`+nsW+`"><w:body><w:tbl><w:tr><w:tc><w:tcPr><w:gridSpan w:val="2"/><w:vMerge/></w:tcPr><w:p/></w:tc></w:tr></w:tbl><w:sectPr/></w:body></w:document>`))
	return out
}

func FuzzDocumentXML(f *testing.F) {
	for _, s := range mainSeeds() {
		f.Add(s)
	}
	f.Fuzz(func(t *testing.T, data []byte) {
		fuzzBody(t, Case{Gen: "rawmain", Raw: data, Via: "mem"})
	})
}

func FuzzOpen(f *testing.F) {
	for _, c := range fixed() {
		if b := c.Build(); len(b) < 16<<10 {
			f.Add(b)
		}
	}
	f.Fuzz(func(t *testing.T, data []byte) {
		fuzzBody(t, Case{Gen: "raw", Raw: data, Via: "mem"})
	})
}

// parseCorpusFile decodes a "go test fuzz v1" file holding one []byte value.
func parseCorpusFile(b []byte) ([]byte, bool) {
	lines := strings.Split(strings.TrimRight(string(b), "\n"), "\n")
	if len(lines) < 2 || !strings.HasPrefix(lines[0], "go test fuzz v1") {
		return nil, false
	}
	l := strings.TrimSpace(lines[1])
	if !strings.HasPrefix(l, "[]byte(") || !strings.HasSuffix(l, ")") {
		return nil, false
	}
	s, err := strconv.Unquote(l[len("[]byte(") : len(l)-1])
	if err != nil {
		return nil, false
	}
	return []byte(s), true
}

// nativeFuzz runs both fuzz targets and returns their crashers as cases (to be judged by kit as fixed cases).
func nativeFuzz(t *testing.T) []Case {
	if os.Getenv("VERIF_REPO") != "" || os.Getenv("C06_NOFUZZ") != "" {
		return nil // sensitivity runs build against a scratch copy through -modfile; the quick tier never fuzzes
	}
	harness := filepath.Join(kit.Root, "harness")
	pkgDir := filepath.Join(harness, "props", "c06")
	fuzzDir := filepath.Join(pkgDir, "testdata", "fuzz")
	os.RemoveAll(filepath.Join(pkgDir, "testdata"))
	defer os.RemoveAll(filepath.Join(pkgDir, "testdata"))
	var out []Case
	secs := 120
	if s := os.Getenv("C06_FUZZTIME"); s != "" {
		if v, err := strconv.Atoi(s); err == nil && v > 0 {
			secs = v
		}
	}
	for _, target := range []struct {
		name, gen string
		secs      int
	}{{"FuzzDocumentXML", "rawmain", secs}, {"FuzzOpen", "raw", secs / 2}} {
		cmd := exec.Command("go", "test", "-tags", "verif", "-run", "xxx", "-fuzz", "^"+target.name+"$", "-fuzztime", fmt.Sprintf("%ds", target.secs),
			"-fuzzminimizetime", "2s", "-parallel", "4", "./props/c06")
		cmd.Dir = harness
		cmd.Env = append(os.Environ(), "GOFLAGS=-mod=mod", "GOPROXY=off", "GOSUMDB=off", "GOTOOLCHAIN=local", "VERIF_ROOT="+kit.Root, "VERIF_TIER=quick", noIsolateEnv+"=1",
			"VERIF_EVIDENCE_PART="+filepath.Join(kit.Scratch, "c06-fuzz-part.json"), "VERIF_CURRENT="+filepath.Join(kit.Scratch, "c06-fuzz-current.json"))
		t0 := time.Now()
		outb, err := cmd.CombinedOutput()
		tail := string(outb)
		if len(tail) > 1500 {
			tail = tail[len(tail)-1500:]
		}
		execs := ""
		for _, l := range strings.Split(string(outb), "\n") {
			if strings.Contains(l, "execs:") {
				execs = strings.TrimSpace(l)
			}
		}
		fmt.Printf("NOTE: native fuzz %s ran %.0fs (%s) err=%v\n", target.name, time.Since(t0).Seconds(), execs, err)
		files, _ := filepath.Glob(filepath.Join(fuzzDir, target.name, "*"))
		for _, f := range files {
			b, rerr := os.ReadFile(f)
			if rerr != nil {
				continue
			}
			data, ok := parseCorpusFile(b)
			if !ok {
				continue
			}
			c := Case{Gen: target.gen, Raw: data, Via: "mem", Note: "native fuzz crasher " + target.name + "/" + filepath.Base(f)}
			js, _ := json.Marshal(c)
			h := sha1.Sum(js)
			dir := filepath.Join(kit.Root, "replays", "C06")
			os.MkdirAll(dir, 0o755)
			os.WriteFile(filepath.Join(dir, "fuzz-"+hex.EncodeToString(h[:6])+".json"), js, 0o644)
			out = append(out, c)
		}
		if err != nil && len(files) == 0 {
			// the fuzzer failed without leaving a crasher (build problem, killed): not a verdict
			fmt.Printf("NOTE: native fuzz %s ended abnormally without a crasher file: %s\n", target.name, strings.ReplaceAll(tail, "\n", " | "))
		}
	}
	os.Remove(filepath.Join(kit.Scratch, "c06-fuzz-part.json"))
	os.Remove(filepath.Join(kit.Scratch, "c06-fuzz-current.json"))
	return out
}

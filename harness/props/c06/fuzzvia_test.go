package c06

import (
	"testing"

	"wzverif/internal/kit"
)

// FuzzC06: coverage-guided search over the generator and oracle of TestC06 (thorough tier; see internal/kit/fuzz.go).
func FuzzC06(f *testing.F) { kit.FuzzVia(f, TestC06) }

package c06

import (
	"fmt"
	"regexp"
	"strings"

	"wzverif/internal/kit"
)

const (
	kfNilBody   = "KF-C06-nil-body"
	kfNoGrid    = "KF-C06-table-without-grid"
	kfShortGrid = "KF-C06-short-grid"
	kfRagged    = "KF-C06-ragged-rows"
	kfXmlns     = "KF-C06-drawing-xmlns"
)

func isColumnEdit(detail string) bool {
	for _, c := range []string{"InsertColumn on", "AppendColumn on", "DeleteColumn on"} {
		if strings.HasPrefix(detail, c) {
			return true
		}
	}
	return false
}

var reState = regexp.MustCompile(`\[grid=(nil|\d+) rows=(\d+) cells0=(-?\d+) min=(\d+) max=(-?\d+) ragged=(true|false)\]`)

// stateOf extracts the table state the judge recorded in a failure detail.
func stateOf(detail string) (grid, cells0 int, ragged, ok bool) {
	m := reState.FindStringSubmatch(detail)
	if m == nil {
		return 0, 0, false, false
	}
	grid = -1
	if m[1] != "nil" {
		fmt.Sscan(m[1], &grid)
	}
	fmt.Sscan(m[3], &cells0)
	return grid, cells0, m[6] == "true", true
}

func boundsPanic(detail string) bool {
	return strings.Contains(detail, "slice bounds out of range") || strings.Contains(detail, "index out of range")
}

var findings = []kit.Finding[Case]{
	{
		ID:     kfNilBody,
		Clause: "C06.T2.open",
		Desc:   "a main part that parses to its end without a w:document start element in the transitional namespace (empty part, ISO-strict namespace, other root) makes Open/OpenFromMemory dereference the nil Body in parseDocument: panic instead of an error",
		// input class: word/document.xml present, tokenises to EOF without error, no {transitional}document start element
		Trigger: func(c Case, f kit.Failure) bool {
			if !strings.Contains(f.Detail, "nil pointer dereference") || !strings.Contains(f.Detail, "parseDocument") {
				return false
			}
			in := analyse(c.Build())
			return in.Zip && in.HasMain && in.MainClean && !in.TransDoc
		},
	},
	{
		ID:     kfNoGrid,
		Clause: "C06.T2.edit",
		Desc:   "a table read from a part without w:tblGrid keeps Table.Grid nil; InsertColumn/AppendColumn/DeleteColumn dereference it: panic instead of an error",
		// call site: a column edit on an opened table whose Grid is nil; input class: some w:tbl without a w:tblGrid child
		Trigger: func(c Case, f kit.Failure) bool {
			grid, _, _, ok := stateOf(f.Detail)
			if !ok || grid != -1 || !isColumnEdit(f.Detail) || !strings.Contains(f.Detail, "nil pointer dereference") {
				return false
			}
			return analyse(c.Build()).AnyNoGrid
		},
	},
	{
		ID:     kfShortGrid,
		Clause: "C06.T2.edit",
		Desc:   "a table whose w:tblGrid defines fewer columns than its first row has cells: AppendColumn/DeleteColumn slice Grid.Cols with the row's column count: slice bounds panic instead of an error",
		// call site: a column edit on an opened table that at the moment of the call (after the fixed row/merge script, which can
		// delete the first row or unmerge a spanning cell) has len(Grid.Cols) < cells of row 0; input class: a w:tbl with a w:tblGrid
		Trigger: func(c Case, f kit.Failure) bool {
			grid, cells0, _, ok := stateOf(f.Detail)
			if !ok || grid < 0 || grid >= cells0 || !isColumnEdit(f.Detail) || !boundsPanic(f.Detail) {
				return false
			}
			return analyse(c.Build()).AnyGrid
		},
	},
	{
		ID:     kfRagged,
		Clause: "C06.T2.edit",
		Desc:   "a table whose rows have different numbers of w:tc (merged cells, ragged rows): InsertColumn/AppendColumn/DeleteColumn slice every row with the column count of row 0: slice bounds panic instead of an error",
		// call site: a column edit on an opened table whose rows, at the moment of the call, differ in physical cell count (read
		// that way, or made so by UnmergeCells of a spanning cell in the fixed script); input class: a w:tbl with rows
		Trigger: func(c Case, f kit.Failure) bool {
			_, _, ragged, ok := stateOf(f.Detail)
			if !ok || !ragged || !isColumnEdit(f.Detail) || !boundsPanic(f.Detail) {
				return false
			}
			return analyse(c.Build()).AnyRows
		},
	},
	{
		ID:     kfXmlns,
		Clause: "C06.T3.main-wf",
		Desc:   "a picture whose a:graphic / pic:pic element relies on a namespace declaration of an ancestor (no xmlns:a / xmlns:pic attribute of its own) is re-saved with xmlns:a=\"\" / xmlns:pic=\"\": the regenerated main part is not namespace-well-formed",
		// input class: a graphic (pic) element without an own declaration of the drawingml main (picture) namespace
		Trigger: func(c Case, f kit.Failure) bool {
			if !strings.Contains(f.Detail, `prefix "a" bound to empty namespace`) && !strings.Contains(f.Detail, `prefix "pic" bound to empty namespace`) {
				return false
			}
			return analyse(c.Build()).UndeclaredDrawing
		},
	},
}

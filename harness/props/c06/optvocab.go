package c06

// Vocabulary of the LAZY readers of the optional parts, extracted from the library's source at test start.
//
// word/numbering.xml, word/footnotes.xml, word/endnotes.xml, word/settings.xml and (on save) word/styles.xml of an opened
// document are not parsed by Open: their bytes are kept and reach code only when a later call needs them (the first list
// call, the first note call or count, a style-referring edit followed by a save). Those readers do not rebuild the part from
// structs; they cut the original bytes at token offsets (xml.Decoder.InputOffset) and splice new definitions in.
//
// The extraction finds these readers without knowing their names: every function of pkg/document that calls
// Decoder.InputOffset, every function declared in the same file, the methods of the types those files declare, and the
// functions that call any of them (one level up). From their bodies it takes
//
//	part names   string literals of the form word/<name>.xml (anywhere in the package, the main part excepted)
//	elements     literals compared with / switched over a ...Local selector, NCName literals handed to a reader function
//	attributes   the same for selectors rooted in an identifier that names an attribute
//	values       labels of the other string switches (w:type values of notes ...)
//
// so a reader that starts to look at a new child, attribute or part enlarges the generator's domain by itself. If the source
// cannot be read a built-in copy (the tree as of /repo 665dcc1) is used.

import (
	"go/ast"
	"go/parser"
	"go/token"
	"os"
	"path/filepath"
	"regexp"
	"sort"
	"strings"
	"sync"
)

type OptVocab struct {
	Source string
	Parts  []string // "word/numbering.xml" ...
	Lazy   map[string]bool
	Elems  []string
	Attrs  []string
	Values []string
	Funcs  []string // the reader functions found (evidence)
}

var (
	optOnce  sync.Once
	optVocab *OptVocab
)

func TheOptVocab() *OptVocab {
	optOnce.Do(func() {
		optVocab = extractOptVocab(repoDir())
		if optVocab == nil {
			optVocab = builtinOptVocab()
		}
	})
	return optVocab
}

var rePartName = regexp.MustCompile(`^word/[A-Za-z][A-Za-z0-9]*\.xml$`)

func builtinOptVocab() *OptVocab {
	return &OptVocab{
		Source: "builtin",
		Parts:  []string{"word/endnotes.xml", "word/footnotes.xml", "word/numbering.xml", "word/settings.xml", "word/styles.xml"},
		Lazy:   map[string]bool{"word/endnotes.xml": true, "word/footnotes.xml": true, "word/numbering.xml": true, "word/styles.xml": true},
		Elems:  []string{"abstractNum", "endnote", "endnotes", "footnote", "footnotes", "num", "numPicBullet", "numbering", "style", "styles"},
		Attrs:  []string{"abstractNumId", "id", "numId", "styleId", "type", "w"},
		Values: []string{"continuationNotice", "continuationSeparator", "separator"},
	}
}

// rootOfPart: the root element a producer writes into the part (its base name; true for every WordprocessingML part).
func rootOfPart(name string) string {
	return strings.TrimSuffix(filepath.Base(name), ".xml")
}

func recvType(fd *ast.FuncDecl) string {
	if fd.Recv == nil || len(fd.Recv.List) == 0 {
		return ""
	}
	e := fd.Recv.List[0].Type
	if s, ok := e.(*ast.StarExpr); ok {
		e = s.X
	}
	if id, ok := e.(*ast.Ident); ok {
		return id.Name
	}
	return ""
}

// selectorTail: for x.a.b.c returns (root identifier, last selector).
func selectorTail(e ast.Expr) (root, last string, ok bool) {
	se, isSel := e.(*ast.SelectorExpr)
	if !isSel {
		return "", "", false
	}
	last = se.Sel.Name
	x := se.X
	for {
		switch v := x.(type) {
		case *ast.SelectorExpr:
			x = v.X
		case *ast.IndexExpr:
			x = v.X
		case *ast.Ident:
			return v.Name, last, true
		default:
			return "", last, true
		}
	}
}

func extractOptVocab(dir string) *OptVocab {
	pdir := filepath.Join(dir, "pkg", "document")
	ents, err := os.ReadDir(pdir)
	if err != nil {
		return nil
	}
	fset := token.NewFileSet()
	type fn struct {
		decl *ast.FuncDecl
		file string
	}
	var fns []fn
	consts := map[string]string{}
	typesOf := map[string][]string{} // file -> types it declares
	parts := map[string]bool{}
	for _, e := range ents {
		n := e.Name()
		if !strings.HasSuffix(n, ".go") || strings.HasSuffix(n, "_test.go") {
			continue
		}
		f, err := parser.ParseFile(fset, filepath.Join(pdir, n), nil, 0)
		if err != nil {
			continue
		}
		for _, d := range f.Decls {
			switch v := d.(type) {
			case *ast.FuncDecl:
				if v.Body != nil {
					fns = append(fns, fn{v, n})
				}
			case *ast.GenDecl:
				for _, sp := range v.Specs {
					switch s := sp.(type) {
					case *ast.TypeSpec:
						typesOf[n] = append(typesOf[n], s.Name.Name)
					case *ast.ValueSpec:
						for i, id := range s.Names {
							if i < len(s.Values) {
								if lit, ok := strLit(s.Values[i]); ok {
									consts[id.Name] = lit
								}
							}
						}
					}
				}
			}
		}
		// part names: anywhere in the package
		ast.Inspect(f, func(x ast.Node) bool {
			if bl, ok := x.(*ast.BasicLit); ok && bl.Kind == token.STRING {
				if s, ok := strLit(bl); ok && rePartName.MatchString(s) && s != nMain {
					parts[s] = true
				}
			}
			return true
		})
	}
	// seeds: functions that use byte offsets of the token stream, and everything declared next to them
	seedFiles := map[string]bool{}
	for _, f := range fns {
		ast.Inspect(f.decl.Body, func(x ast.Node) bool {
			if ce, ok := x.(*ast.CallExpr); ok {
				if _, name := calleeName(ce); name == "InputOffset" {
					seedFiles[f.file] = true
				}
			}
			return true
		})
	}
	if len(seedFiles) == 0 {
		return nil
	}
	readerTypes := map[string]bool{}
	for file := range seedFiles {
		for _, t := range typesOf[file] {
			readerTypes[t] = true
		}
	}
	readers := map[string]bool{}
	for _, f := range fns {
		if seedFiles[f.file] || readerTypes[recvType(f.decl)] {
			readers[f.decl.Name.Name] = true
		}
	}
	// one level up: the functions that call a reader (they name the part and the element they ask for)
	callers := map[string]bool{}
	lazy := map[string]bool{}
	for _, f := range fns {
		if readers[f.decl.Name.Name] {
			continue
		}
		calls := false
		ast.Inspect(f.decl.Body, func(x ast.Node) bool {
			if ce, ok := x.(*ast.CallExpr); ok {
				if _, name := calleeName(ce); readers[name] {
					calls = true
				}
			}
			return true
		})
		if calls {
			callers[f.decl.Name.Name] = true
			ast.Inspect(f.decl.Body, func(x ast.Node) bool {
				if bl, ok := x.(*ast.BasicLit); ok && bl.Kind == token.STRING {
					if s, ok := strLit(bl); ok && rePartName.MatchString(s) && s != nMain {
						lazy[s] = true
					}
				}
				return true
			})
		}
	}
	elems, attrs, values := map[string]bool{}, map[string]bool{}, map[string]bool{}
	constOf := func(e ast.Expr) (string, bool) {
		if s, ok := strLit(e); ok {
			return s, true
		}
		if id, ok := e.(*ast.Ident); ok {
			if s, ok := consts[id.Name]; ok {
				return s, true
			}
		}
		return "", false
	}
	classify := func(sel ast.Expr, lit string) {
		if !ncName.MatchString(lit) {
			return
		}
		root, last, ok := selectorTail(sel)
		if !ok {
			return
		}
		switch {
		case strings.EqualFold(last, "local") && isAttrIdent(root):
			attrs[lit] = true
		case strings.EqualFold(last, "local"):
			elems[lit] = true
		case last == "Space" || last == "Value":
			// namespaces / prefixes: not vocabulary
		default:
			values[lit] = true
		}
	}
	var funcs []string
	for _, f := range fns {
		name := f.decl.Name.Name
		if !readers[name] && !callers[name] {
			continue
		}
		funcs = append(funcs, name)
		ast.Inspect(f.decl.Body, func(x ast.Node) bool {
			switch v := x.(type) {
			case *ast.SwitchStmt:
				if v.Tag == nil {
					return true
				}
				for _, st := range v.Body.List {
					for _, lx := range st.(*ast.CaseClause).List {
						if s, ok := constOf(lx); ok {
							classify(v.Tag, s)
						}
					}
				}
			case *ast.BinaryExpr:
				if v.Op == token.EQL || v.Op == token.NEQ {
					if s, ok := constOf(v.Y); ok {
						classify(v.X, s)
					} else if s, ok := constOf(v.X); ok {
						classify(v.Y, s)
					}
				}
			case *ast.CallExpr:
				if _, callee := calleeName(v); readers[callee] {
					for _, a := range v.Args {
						if s, ok := constOf(a); ok && ncName.MatchString(s) {
							elems[s] = true // parseExistingPart(data, "numbering"), maxID("abstractNum", -1)
						}
					}
				}
			}
			return true
		})
	}
	if len(elems) < 3 || len(parts) == 0 {
		return nil
	}
	keys := func(m map[string]bool) []string {
		var out []string
		for k := range m {
			out = append(out, k)
		}
		sort.Strings(out)
		return out
	}
	sort.Strings(funcs)
	return &OptVocab{Source: "ast:" + pdir, Parts: keys(parts), Lazy: lazy, Elems: keys(elems), Attrs: keys(attrs), Values: keys(values), Funcs: dedup(funcs)}
}

package c06
import ("testing";"fmt")
func TestDump(t *testing.T){ v:=extractVocab("/repo"); if v==nil {t.Fatal("nil")}; fmt.Println(v.Source, len(v.Elems)); fmt.Println(v.Elems); for _,e:=range v.Elems{ if len(v.Children[e])>0||len(v.Attrs[e])>0 {fmt.Println(e,"->",v.Children[e],"@",v.Attrs[e])}}; fmt.Println("body",v.Body, v.Children["document"]); fmt.Println(v.AllAttrs)}

package c06

// rapid generators: (a) grammar-driven main parts with faults, (b) the same fault operators on the
// optional parts, (c) container-level faults. rapid only draws plain data (Case); Build() turns it into bytes.

import (
	"strconv"
	"strings"

	"pgregory.net/rapid"

	"wzverif/internal/gen"
	"wzverif/internal/kit"
)

// FaultOps are the XML-level fault operators (DESIGN 2.4 "XML grammar with faults").
var FaultOps = []string{"truncate", "dropend", "swapend", "badend", "selfclose", "empty", "rootns", "rootname", "nobody",
	"misplaced", "unknown", "noval", "dupattr", "hugeattr", "deep", "wide", "prolog", "junk", "trail", "rawtext", "utf16"}

var prefixHint = map[string]string{
	"inline": "wp", "anchor": "wp", "extent": "wp", "docPr": "wp", "wrapNone": "wp", "wrapSquare": "wp", "effectExtent": "wp", "simplePos": "wp",
	"positionH": "wp", "positionV": "wp", "cNvGraphicFramePr": "wp",
	"graphic": "a", "graphicData": "a", "blip": "a", "stretch": "a", "xfrm": "a", "off": "a", "ext": "a", "prstGeom": "a", "fillRect": "a",
	"pic": "pic", "nvPicPr": "pic", "cNvPr": "pic", "cNvPicPr": "pic", "blipFill": "pic", "spPr": "pic",
}

var repeatable = map[string]int{"p": 3, "r": 3, "tr": 4, "tc": 4, "gridCol": 4, "t": 2, "tbl": 2}

var unknownNames = []string{"w:sdt", "w:sdtContent", "w:hyperlink", "w:smartTag", "w:ins", "w:del", "w:bookmarkStart", "w:bookmarkEnd", "w:proofErr",
	"mc:AlternateContent", "w:customXml", "w:fldSimple", "w:object", "w:pict", "w:br", "w:tab", "w:lastRenderedPageBreak", "foo", "x:bar", "w:tblPrEx", "w:tblGridChange"}

var (
	numVals  = []string{"0", "1", "2", "3", "9", "10", "240", "1440", "5000", "11906", "-1", "-240", "99999", "2147483648", "99999999999999999999", "1.5", "1e9", "0x10", " 12 ", ""}
	enumVals = []string{"center", "left", "right", "both", "start", "restart", "continue", "preserve", "default", "dxa", "auto", "pct", "nil", "landscape", "portrait",
		"single", "clear", "true", "false", "on", "off", "first", "even", "lines", "exact", "atLeast", "lrTb", "tbRl", "fixed", "autofit"}
	styleVals = []string{"Heading1", "Heading2", "heading9", "Heading", "Heading0", "Heading99999999999999999999", "1", "2", "10", "Normal", "Title", "TOC1", "TableGrid", "a"}
	ridVals   = []string{"rId1", "rId2", "rId3", "rId99", "", "x", "rId-1"}
)

type gctx struct {
	t     *rapid.T
	v     *Vocab
	nodes int
	max   int
	ops   map[string]bool
	pools []ConstSet // constants of the readers of the elements being generated (innermost last); see producer.go
	salt  int64      // per-case salt of the distinct values (drawn at first use)
	uniq  int64      // distinct values handed out so far
	uniqP int        // 0..10: how many of the attribute slots get a value no other slot has
	// rootDecl: namespace declarations w:document has to carry for what was generated below it (math.go)
	rootDecl []Attr
	// endBody: the block just written is to stay the last one of w:body (bookmarks.go)
	endBody bool
	// shapes: producer shapes the part contains (math.go, tables.go); recorded in XMLPart.Ops as "shape:..." (evidence only)
	shapes []string
}

func (g *gctx) qname(local string) string {
	p := "w"
	if h, ok := prefixHint[local]; ok {
		p = h
	}
	if rapid.IntRange(0, 39).Draw(g.t, "pfx") == 0 {
		p = rapid.SampledFrom([]string{"", "x", "w14", "ns0", "wp", "a"}).Draw(g.t, "pfxv")
	}
	if p == "" {
		return local
	}
	return p + ":" + local
}

func (g *gctx) attrName(elem, a string) string {
	switch {
	case a == "space":
		return "xml:space"
	case a == "embed" || (a == "id" && strings.HasSuffix(elem, "Reference")):
		return "r:" + a
	}
	if _, drawing := prefixHint[elem]; drawing {
		return a
	}
	return "w:" + a
}

func (g *gctx) attrValue(elem, a string) string {
	t := g.t
	if rapid.IntRange(0, 19).Draw(t, "hostile-attr") == 0 {
		s, _ := gen.Text(t, "attr", gen.ClsXMLMeta, gen.ClsUnicode, gen.ClsEmpty, gen.ClsBlank, gen.ClsLong)
		return s
	}
	// constants a value read from this very element is compared with / sliced by somewhere in the library
	if len(g.v.Own[elem]) > 0 && chance(t, "own-attr", 500) {
		if s, ok := g.ownValue(elem); ok {
			return s
		}
	}
	// below an element whose reader compares values against string constants: those constants, composed and truncated
	if len(g.pools) > 0 && rapid.IntRange(0, 9).Draw(t, "pool-attr") < 4 {
		if s, ok := g.poolValue(); ok {
			return s
		}
	}
	if len(g.v.Global) > 0 && rapid.IntRange(0, 39).Draw(t, "global-const") == 0 {
		s := rapid.SampledFrom(g.v.Global).Draw(t, "global")
		if rapid.IntRange(0, 3).Draw(t, "global-trunc") == 0 {
			s = g.truncate(s)
		}
		return s
	}
	// a value no other slot carries (ids, names, widths, colours differ from element to element and from document to document)
	if g.uniqP > 0 && rapid.IntRange(0, 9).Draw(t, "uniq-attr") < g.uniqP {
		if k, pfx := uniqueKind(elem, a); k != "" {
			return g.uniqueValue(k, pfx)
		}
	}
	switch {
	case elem == "pStyle" || elem == "tblStyle":
		return rapid.SampledFrom(styleVals).Draw(t, "style")
	case a == "embed" || (a == "id" && strings.HasSuffix(elem, "Reference")):
		return rapid.SampledFrom(ridVals).Draw(t, "rid")
	case a == "val" && (elem == "gridSpan" || elem == "sz" || elem == "szCs" || elem == "ilvl" || elem == "numId" || elem == "trHeight"):
		return rapid.SampledFrom(numVals).Draw(t, "num")
	case a == "val" || a == "type" || a == "orient" || a == "hRule" || a == "lineRule" || a == "space" || a == "hint":
		if rapid.IntRange(0, 4).Draw(t, "enum-or-num") == 0 {
			return rapid.SampledFrom(numVals).Draw(t, "num")
		}
		return rapid.SampledFrom(enumVals).Draw(t, "enum")
	}
	return rapid.SampledFrom(numVals).Draw(t, "num")
}

// elem generates an element the reader knows, with children drawn from the reader's own grammar.
func (g *gctx) elem(local string, depth int, cols int) Node {
	t := g.t
	g.nodes++
	if len(g.v.Pools[local]) > 0 {
		defer g.pushPool(local)()
	}
	n := Node{N: g.qname(local)}
	for _, a := range g.v.Attrs[local] {
		if rapid.IntRange(0, 9).Draw(t, "attr?") < 7 {
			n.A = append(n.A, Attr{N: g.attrName(local, a), V: g.attrValue(local, a)})
		}
	}
	// Word declares the drawing namespaces on a:graphic and pic:pic themselves; most generated pictures do the same
	if (local == "graphic" || local == "pic") && rapid.IntRange(0, 9).Draw(t, "local-xmlns") < 8 {
		if local == "graphic" {
			n.A = append(n.A, Attr{N: "xmlns:a", V: nsA})
		} else {
			n.A = append(n.A, Attr{N: "xmlns:pic", V: nsPic})
		}
	}
	if local == "t" {
		classes := gen.Expressible
		if rapid.IntRange(0, 11).Draw(t, "hostile-text") == 0 {
			classes = gen.AllClasses
		}
		n.T, _ = gen.Text(t, "text", classes...)
		return n
	}
	if local == "instrText" {
		n.T = g.instruction()
		return n
	}
	kids := g.v.Children[local]
	if len(kids) == 0 || depth > 9 || g.nodes > g.max {
		return n
	}
	// schema-like order: properties first, grid, then content
	var order []string
	for _, k := range kids {
		if strings.HasSuffix(k, "Pr") {
			order = append(order, k)
		}
	}
	for _, k := range kids {
		if k == "tblGrid" {
			order = append(order, k)
		}
	}
	for _, k := range kids {
		if !strings.HasSuffix(k, "Pr") && k != "tblGrid" {
			order = append(order, k)
		}
	}
	rect := false
	if local == "tbl" {
		cols = rapid.IntRange(0, 4).Draw(t, "cols")
		rect = rapid.IntRange(0, 9).Draw(t, "rect") < 6
		if !rect {
			cols = -1
		}
	}
	optP := 5
	if len(kids) > 6 {
		optP = 3
	}
	for _, k := range order {
		if g.nodes > g.max {
			break
		}
		cnt := 0
		if max, ok := repeatable[k]; ok {
			cnt = rapid.IntRange(0, max).Draw(t, "count")
			if depth <= 3 && k != "tbl" && chance(t, "count-past", 12) {
				// counts past the usual thresholds (the 10th / 11th item, more than 16 / 32 / 64 entries), rarely
				cnt = []int{9, 10, 11, 16, 17, 33, 65}[pick(t, "count-past-n", 7)]
				g.shape("count>=9:" + k)
			}
			if k == "tc" && cols >= 0 {
				cnt = cols
			}
			if k == "gridCol" && cols >= 0 && rapid.IntRange(0, 3).Draw(t, "gridmatch") > 0 {
				cnt = cols
			}
			if k == "tr" && cnt == 0 && rapid.IntRange(0, 3).Draw(t, "norows") > 0 {
				cnt = 1
			}
		} else {
			p := optP
			if k == "tblGrid" {
				p = 7
			}
			if rapid.IntRange(0, 9).Draw(t, "opt") < p {
				cnt = 1
			}
		}
		for i := 0; i < cnt; i++ {
			n.C = append(n.C, g.elem(k, depth+1, cols))
		}
	}
	return n
}

// mainTree generates document(body(...)) with the transitional namespace.
func (g *gctx) mainTree() *Node {
	t := g.t
	body := Node{N: "w:body"}
	k := rapid.IntRange(0, 6).Draw(t, "blocks")
	for i := 0; i < k && g.nodes <= g.max && !g.endBody; i++ {
		// tables get extra weight: they carry most of the reader's and the edit script's state
		name := rapid.SampledFrom(append(append([]string{}, g.v.Body...), "tbl", "p")).Draw(t, "block")
		if name == "sectPr" && i < k-1 && rapid.Bool().Draw(t, "sect-last") {
			name = "p"
		}
		if chance(t, "producer-block", 220) {
			// content controls and fields as other producers write them (producer.go)
			switch pick(t, "producer-kind", 8) {
			case 0:
				body.C = append(body.C, g.fieldParagraph())
			case 6, 7:
				// a heading and the body-level bookmark marks other producers leave next to it (bookmarks.go)
				body.C = append(body.C, g.bookmarkedRange()...)
			case 1:
				id := g.uniqueValue("n", "")
				body.C = append(body.C, el("w:bookmarkStart", at("w:id", id, "w:name", g.uniqueValue("s", "_Toc"))), g.elem("p", 1, -1), el("w:bookmarkEnd", at("w:id", id)))
			default:
				body.C = append(body.C, g.sdt(0, true))
			}
			continue
		}
		if chance(t, "producer-table", 170) {
			// tables as word processors write them: merged regions, nested tables between paragraphs, sizes past 9 / 32 / 64 (tables.go)
			body.C = append(body.C, g.producerTable(0))
			continue
		}
		if chance(t, "math-block", 110) {
			// formula paragraphs, whose inside the reader keeps as text (math.go)
			body.C = append(body.C, g.mathParagraph())
			continue
		}
		if rapid.IntRange(0, 6).Draw(t, "edge-table") == 0 {
			// explicit degenerate table shapes: no rows, only properties / grid, rows without cells
			body.C = append(body.C, edgeTable(rapid.IntRange(0, len(edgeTableShapes)-1).Draw(t, "edge-shape")))
			g.nodes += 4
			continue
		}
		body.C = append(body.C, g.elem(name, 1, -1))
	}
	root := Node{N: "w:document", A: rootNS(nsW), C: []Node{body}}
	if rapid.IntRange(0, 5).Draw(t, "declare-x") == 0 {
		root.A = append(root.A, Attr{N: "xmlns:x", V: "urn:x"}, Attr{N: "xmlns:w14", V: "http://schemas.microsoft.com/office/word/2010/wordml"},
			Attr{N: "xmlns:ns0", V: nsW}, Attr{N: "xmlns:mc", V: "http://schemas.openxmlformats.org/markup-compatibility/2006"})
	}
	for _, d := range g.rootDecl {
		dup := false
		for _, a := range root.A {
			if a.N == d.N {
				dup = true
			}
		}
		if !dup {
			root.A = append(root.A, d)
		}
	}
	return &root
}

var edgeTableShapes = []string{"empty", "selfclosed", "tblPr-only", "grid-only", "tblPr+grid", "tr-without-tc", "trPr-only-row", "empty-first-row", "rows-then-nothing", "unknown-only",
	"empty-grid", "short-grid", "grid-of-unknown-children"}

// edgeTable returns a body-level table of a degenerate shape.
func edgeTable(i int) Node {
	pr := el("w:tblPr", nil, el("w:tblW", at("w:w", "0", "w:type", "auto")))
	grid := el("w:tblGrid", nil, el("w:gridCol", at("w:w", "2000")), el("w:gridCol", at("w:w", "2000")))
	cell := el("w:tc", nil, el("w:p", nil, el("w:r", nil, txt("w:t", nil, "x"))))
	switch edgeTableShapes[i%len(edgeTableShapes)] {
	case "empty":
		return el("w:tbl", nil)
	case "selfclosed":
		return Node{N: "w:tbl", F: "selfclose", C: []Node{pr}}
	case "tblPr-only":
		return el("w:tbl", nil, pr)
	case "grid-only":
		return el("w:tbl", nil, grid)
	case "tblPr+grid":
		return el("w:tbl", nil, pr, grid)
	case "tr-without-tc":
		return el("w:tbl", nil, pr, grid, el("w:tr", nil))
	case "trPr-only-row":
		return el("w:tbl", nil, grid, el("w:tr", nil, el("w:trPr", nil, el("w:cantSplit", nil))), el("w:tr", nil, el("w:trPr", nil)))
	case "empty-first-row":
		return el("w:tbl", nil, pr, grid, el("w:tr", nil), el("w:tr", nil, cell, cell))
	case "rows-then-nothing":
		return el("w:tbl", nil, el("w:tr", nil, cell), el("w:tr", nil))
	case "empty-grid": // w:gridCol is optional: a grid without columns above ordinary rows
		return el("w:tbl", nil, pr, el("w:tblGrid", nil), el("w:tr", nil, cell, cell), el("w:tr", nil, cell, cell))
	case "short-grid": // fewer grid columns than cells
		return el("w:tbl", nil, pr, el("w:tblGrid", nil, el("w:gridCol", at("w:w", "4000"))), el("w:tr", nil, cell, cell), el("w:tr", nil, cell, cell))
	case "grid-of-unknown-children":
		return el("w:tbl", nil, el("w:tblGrid", nil, el("w:tblGridChange", at("w:id", "1"))), el("w:tr", nil, cell, cell))
	}
	return el("w:tbl", nil, el("w:sdt", nil, el("w:sdtContent", nil, el("w:tr", nil, cell))))
}

func pickNode(t *rapid.T, root *Node, label string, pred func(*Node, int) bool) *Node {
	var c []*Node
	i := 0
	root.walk(func(n *Node) {
		if pred == nil || pred(n, i) {
			c = append(c, n)
		}
		i++
	})
	if len(c) == 0 {
		return nil
	}
	return c[rapid.IntRange(0, len(c)-1).Draw(t, label)]
}

var junkStrings = []string{"<", ">", "&", "]]>", "\x00", "\x01", "<!--", "-->", "<![CDATA[", "<?x", "?>", "</w:p>", "<w:p>", "<w:tbl>", "</w:body>", "</w:document>", "\xff\xfe", "\xef\xbb\xbf",
	"&#0;", "&#x1;", "&bogus;", "&amp", "&#xFFFFFFFFFF;", "<w:r", "\"", "'", "<!DOCTYPE x>", "<a:b:c/>", "<:x/>", "<w:/>", "< w:p>", "<w:p w:val=1/>", "\xed\xa0\x80", "￿"}

var rawTexts = []string{"&amp;&lt;&gt;&quot;&apos;", "&#x41;&#65;", "&e;", "&f;&f;&f;", "<![CDATA[<w:p>]]>", "<!-- c -->", "<?pi x?>", "&bogus;", "&#0;", "]]>", "<![CDATA[", "a\rb\r\nc"}

var trails = []string{"junk", "<w:p/>", "<!-- c -->", "\x00", "<w:document xmlns:w=\"" + nsW + "\"><w:body/></w:document>", "\n\n  \n", "</w:document>", "<"}

var misplacedPairs = [][2]string{{"r", "tbl"}, {"tc", "sectPr"}, {"t", "p"}, {"rPr", "tbl"}, {"pPr", "p"}, {"tr", "tr"}, {"tc", "tc"}, {"tc", "tbl"}, {"tbl", "tc"}, {"tbl", "p"},
	{"p", "p"}, {"p", "tr"}, {"body", "body"}, {"body", "document"}, {"r", "r"}, {"tblGrid", "tr"}, {"tblPr", "tblGrid"}, {"gridCol", "gridCol"}, {"sectPr", "sectPr"}, {"drawing", "drawing"},
	{"t", "t"}, {"t", "r"}, {"numPr", "numPr"}, {"tcPr", "tcPr"}, {"trPr", "tc"}, {"document", "document"}}

func localOf(q string) string {
	if i := strings.LastIndexByte(q, ':'); i >= 0 {
		return q[i+1:]
	}
	return q
}

// applyFault applies one fault operator to the part and records it. Returns false if not applicable.
func (g *gctx) applyFault(p *XMLPart, op string) bool {
	t := g.t
	root := p.Root
	needRoot := op != "empty" && op != "prolog" && op != "junk" && op != "truncate" && op != "trail" && op != "utf16"
	if needRoot && root == nil {
		return false
	}
	switch op {
	case "truncate":
		p.Cut = rapid.IntRange(1, 999).Draw(t, "cut")
	case "junk":
		p.Junk = rapid.SampledFrom(junkStrings).Draw(t, "junk")
		p.JunkAt = rapid.IntRange(0, 1000).Draw(t, "junk-at")
	case "empty":
		p.Root = nil
		p.Prolog = rapid.SampledFrom([]string{"none", "none", "std", "bom-nodecl", "comment"}).Draw(t, "empty-kind")
		p.Trail = rapid.SampledFrom([]string{"", "", " \n", "x"}).Draw(t, "empty-trail")
	case "prolog":
		p.Prolog = rapid.SampledFrom(Prologs).Draw(t, "prolog")
	case "trail":
		p.Trail = rapid.SampledFrom(trails).Draw(t, "trail")
	case "utf16":
		p.UTF16 = true
		if rapid.Bool().Draw(t, "utf16-decl") {
			p.Prolog = "decl-utf16"
		}
	case "dropend", "badend":
		n := pickNode(t, root, "node", nil)
		n.F = map[string]string{"dropend": "noend", "badend": "badend"}[op]
	case "swapend":
		n := pickNode(t, root, "node", func(n *Node, i int) bool { return i > 0 })
		if n == nil {
			return false
		}
		n.F = "swapend"
	case "selfclose":
		n := pickNode(t, root, "node", func(n *Node, i int) bool { return len(n.C) > 0 })
		if n == nil {
			return false
		}
		n.F = "selfclose"
	case "rootns":
		kind := rapid.SampledFrom([]string{"strict", "absent", "other", "default", "empty", "glossary"}).Draw(t, "rootns")
		for i := range root.A {
			if root.A[i].N == "xmlns:w" || root.A[i].N == "xmlns" {
				switch kind {
				case "strict":
					root.A[i].V = nsStrict
				case "absent":
					root.A[i].N = "xmlns:unused"
				case "other":
					root.A[i].V = "urn:other"
				case "empty":
					root.A[i].V = ""
				case "default":
					// same namespace, bound as default: elements lose their w: prefix
					root.A[i].N = "xmlns"
					root.walk(func(n *Node) { n.N = strings.TrimPrefix(n.N, "w:") })
				case "glossary":
					root.A[i].V = nsW + "/glossary"
				}
				break
			}
		}
		p.Ops = append(p.Ops, "rootns:"+kind)
	case "rootname":
		kind := rapid.SampledFrom([]string{"body-only", "renamed", "case", "flatopc", "html", "wrapped"}).Draw(t, "rootname")
		switch kind {
		case "body-only":
			if len(root.C) > 0 {
				b := root.C[0]
				b.A = append(b.A, root.A...)
				*root = b
			}
		case "renamed":
			root.N = rapid.SampledFrom([]string{"w:documents", "w:doc", "w:styles", "w:glossaryDocument", "w:hdr", "document", "x:document"}).Draw(t, "newname")
		case "case":
			root.N = "w:Document"
		case "html":
			*root = Node{N: "html", C: []Node{{N: "body", C: []Node{{N: "p", T: "not a word document"}}}}}
		case "flatopc", "wrapped":
			inner := *root
			outer := "pkg:package"
			if kind == "wrapped" {
				outer = rapid.SampledFrom([]string{"w:wordDocument", "wrapper", "w:body", "w:p"}).Draw(t, "wrapper")
			}
			*root = Node{N: outer, A: at("xmlns:pkg", "http://schemas.microsoft.com/office/2006/xmlPackage", "xmlns:w", nsW),
				C: []Node{{N: "pkg:part", A: at("pkg:name", "/word/document.xml"), C: []Node{{N: "pkg:xmlData", C: []Node{inner}}}}}}
		}
		p.Ops = append(p.Ops, "rootname:"+kind)
	case "nobody":
		kind := rapid.SampledFrom([]string{"none", "two", "nested", "empty-doc", "text-only"}).Draw(t, "nobody")
		switch kind {
		case "none":
			root.C = nil
		case "two":
			if len(root.C) > 0 {
				root.C = append(root.C, root.C[0])
			}
		case "nested":
			root.C = []Node{{N: "w:background", C: root.C}}
		case "empty-doc":
			root.C = nil
			root.F = "selfclose"
		case "text-only":
			root.C = nil
			root.T = "text"
		}
	case "misplaced":
		pair := rapid.SampledFrom(misplacedPairs).Draw(t, "pair")
		var host *Node
		if rapid.IntRange(0, 3).Draw(t, "any-host") > 0 {
			host = pickNode(t, root, "host", func(n *Node, i int) bool { return localOf(n.N) == pair[0] })
		}
		if host == nil {
			host = pickNode(t, root, "host", nil)
		}
		child := pair[1]
		if rapid.IntRange(0, 2).Draw(t, "any-child") == 0 {
			child = rapid.SampledFrom(g.v.Elems).Draw(t, "child")
		}
		save := g.max
		g.max = g.nodes + 25
		c := g.elem(child, 6, -1)
		g.max = save
		at := rapid.IntRange(0, len(host.C)).Draw(t, "at")
		host.C = append(host.C[:at], append([]Node{c}, host.C[at:]...)...)
	case "unknown":
		host := pickNode(t, root, "host", nil)
		name := rapid.SampledFrom(unknownNames).Draw(t, "uname")
		if rapid.Bool().Draw(t, "wrap") && len(host.C) > 0 {
			// wrap the children (runs inside w:hyperlink, content inside w:sdt ...)
			host.C = []Node{{N: name, C: host.C}}
		} else {
			at := rapid.IntRange(0, len(host.C)).Draw(t, "at")
			u := Node{N: name, A: at2("w:val", "1")}
			host.C = append(host.C[:at], append([]Node{u}, host.C[at:]...)...)
		}
	case "noval":
		n := pickNode(t, root, "node", func(n *Node, i int) bool { return len(n.A) > 0 && i > 0 })
		if n == nil {
			return false
		}
		if rapid.Bool().Draw(t, "all-attrs") {
			n.A = nil
		} else {
			n.A = n.A[:len(n.A)-1]
		}
	case "dupattr":
		n := pickNode(t, root, "node", nil)
		if len(n.A) == 0 {
			n.A = at2("w:val", "1")
		}
		d := n.A[rapid.IntRange(0, len(n.A)-1).Draw(t, "which")]
		if rapid.Bool().Draw(t, "same-value") {
			d.V = "other"
		}
		n.A = append(n.A, d)
	case "hugeattr":
		n := pickNode(t, root, "node", nil)
		if len(n.A) == 0 {
			n.A = at2("w:val", "1")
		}
		i := rapid.IntRange(0, len(n.A)-1).Draw(t, "which")
		n.A[i].Huge = rapid.SampledFrom([]int{1000, 70000, kit.Scale(300000, 3000000)}).Draw(t, "huge")
	case "deep":
		n := pickNode(t, root, "node", nil)
		n.Deep = rapid.SampledFrom([]int{3, 60, 1000, kit.Scale(2500, 10000), kit.Scale(2500, 10001)}).Draw(t, "depth")
		n.DeepN = rapid.SampledFrom([]string{"", "", "w:tbl", "w:p", "w:r", "w:tc", "w:tr", "w:body", "x:foo", "w:sdt", "w:t", "w:pPr", "w:drawing"}).Draw(t, "deepn")
	case "wide":
		big := kit.Scale(3000, 50000)
		n := pickNode(t, root, "node", func(n *Node, i int) bool { return i > 0 })
		if n == nil {
			return false
		}
		r := rapid.SampledFrom([]int{5, 100, 1000, big}).Draw(t, "rep")
		if c := n.count(); c > 8 && r > 1000 {
			r = 1000
		} else if c > 40 && r > 100 {
			r = 100
		}
		n.Rep = r
	case "rawtext":
		n := pickNode(t, root, "node", nil)
		n.RawT = rapid.SampledFrom(rawTexts).Draw(t, "rawt")
		if strings.Contains(n.RawT, "&e;") || strings.Contains(n.RawT, "&f;") {
			if rapid.Bool().Draw(t, "with-doctype") {
				p.Prolog = "doctype"
			}
		}
	default:
		return false
	}
	p.Ops = append(p.Ops, op)
	return true
}

func at2(kv ...string) []Attr { return at(kv...) }

// genMain: generator (a).
func genMainPart(t *rapid.T, nfaults int) *XMLPart {
	g := &gctx{t: t, v: TheVocab(), max: kit.Scale(90, 220)}
	g.uniqP = rapid.SampledFrom([]int{0, 0, 0, 1, 1, 3, 7}).Draw(t, "uniq-density")
	p := &XMLPart{Root: g.mainTree()}
	// attribute values that differ from each other and from every other case: a few dozen often, thousands sometimes
	if chance(t, "distinct", 100) {
		size := distinctSizes()[rapid.IntRange(0, 1).Draw(t, "distinct-size")]
		if chance(t, "distinct-more", 150) {
			size = distinctSizes()[2]
		}
		g.applyDistinct(p, size)
	}
	for i := 0; i < nfaults; i++ {
		op := FaultOps[pick(t, "fault", len(FaultOps))]
		if !g.applyFault(p, op) {
			g.applyFault(p, FaultOps[pick(t, "fault-instead", len(FaultOps))]) // not applicable to this tree: one other try
		}
	}
	for _, s := range g.shapes {
		p.Ops = append(p.Ops, "shape:"+s)
	}
	return p
}

// genOptionalPart: generator (b) - the standard content of an optional part, mutated.
func genOptionalPart(t *rapid.T, name string) *XMLPart {
	g := &gctx{t: t, v: TheVocab(), max: 60}
	p := &XMLPart{Root: stdTree(name)}
	n := rapid.IntRange(1, 3).Draw(t, "nfaults")
	for i := 0; i < n; i++ {
		op := FaultOps[pick(t, "fault", len(FaultOps))]
		if op == "rootns" {
			// these parts bind their namespace as default or as w:/cp: - rebind whichever is first
			if p.Root != nil && len(p.Root.A) > 0 {
				p.Root.A[0].V = rapid.SampledFrom([]string{"", "urn:other", nsStrict, nsW}).Draw(t, "ns")
				p.Ops = append(p.Ops, "rootns")
			}
			continue
		}
		if op == "rootname" {
			if p.Root != nil {
				p.Root.N = rapid.SampledFrom([]string{"Types", "Relationships", "w:styles", "styles", "x", "w:document", "cp:coreProperties", "Type", "relationships"}).Draw(t, "newroot")
				p.Ops = append(p.Ops, "rootname")
			}
			continue
		}
		g.applyFault(p, op)
	}
	if chance(t, "distinct-opt", 60) {
		// the same part with hundreds / thousands of entries whose ids, names and targets all differ (kind >= 6: an existing node)
		g.applyDistinct(p, distinctSizes()[rapid.IntRange(0, 2).Draw(t, "distinct-size")])
	}
	// semantic faults of the package-level parts: values a reader may trip over
	if p.Root != nil && rapid.IntRange(0, 3).Draw(t, "semantic") == 0 {
		n := pickNode(t, p.Root, "sem-node", func(n *Node, i int) bool { return len(n.A) > 0 && i > 0 })
		if n != nil {
			i := rapid.IntRange(0, len(n.A)-1).Draw(t, "sem-attr")
			n.A[i].V = rapid.SampledFrom([]string{"", "/", "../../x", "word/document.xml", "/word/document.xml", "rId1", "image/png", "application/xml", "media/image99999999999999999999.png",
				"NULL", "file:///etc/passwd", "http://example.com/x", "#frag", "a b", "\u0000"}).Draw(t, "sem-val")
			p.Ops = append(p.Ops, "semantic")
		}
	}
	return p
}

// RelIDStrategies are the id sets of the well-formed, adversarial relationship parts.
var RelIDStrategies = []string{"dense1", "dense2", "sparse-count+2", "sparse-count+2", "sparse-range", "sparse-range", "reversed", "duplicated", "empty", "non-rid", "long", "zero-neg", "mixed"}

var relTypes = []string{"image", "hyperlink", "header", "footer", "numbering", "settings", "footnotes", "endnotes", "theme", "fontTable", "customXml", "unknown-type"}

// genRelsPart generates a WELL-FORMED relationship part whose ids / types / targets are adversarial: no styles relationship,
// rId1 taken by another type, ids that collide with whatever a "next free id" search may try, duplicates, odd spellings.
func genRelsPart(t *rapid.T, pkgLevel bool) *XMLPart {
	n := rapid.IntRange(0, 7).Draw(t, "nrels")
	if chance(t, "nrels-past", 40) {
		n = []int{9, 10, 11, 17, 33, 65}[pick(t, "nrels-past-n", 6)] // the 10th / 11th relationship, more than 16 / 32 / 64
	}
	strat := rapid.SampledFrom(RelIDStrategies).Draw(t, "relids")
	ids := make([]string, n)
	num := func(k int) string { return "rId" + strconv.Itoa(k) }
	for i := range ids {
		switch strat {
		case "dense1":
			ids[i] = num(i + 1)
		case "dense2":
			ids[i] = num(i + 2)
		case "sparse-count+2":
			// rId1 plus exactly the ids a search starting at count+2 (count+1, count+3) would try next
			if i == 0 {
				ids[i] = num(1)
			} else {
				ids[i] = num(n + 1 + i)
			}
		case "sparse-range":
			if i == 0 {
				ids[i] = num(1)
			} else {
				ids[i] = num(n + rapid.IntRange(0, 8).Draw(t, "gap"))
			}
		case "reversed":
			ids[i] = num(n - i)
		case "duplicated":
			ids[i] = num(1 + i/2)
		case "empty":
			if i%2 == 0 {
				ids[i] = ""
			} else {
				ids[i] = num(i)
			}
		case "non-rid":
			ids[i] = rapid.SampledFrom([]string{"R1", "id7", "rIdX", "rid1", "RID1", "r Id1", "1", "rId", "rId1a", "图1", "rId１"}).Draw(t, "odd-id")
		case "long":
			ids[i] = "rId" + strings.Repeat("9", rapid.SampledFrom([]int{18, 19, 20, 40, 300}).Draw(t, "digits"))
		case "zero-neg":
			ids[i] = rapid.SampledFrom([]string{"rId0", "rId-1", "rId01", "rId+2", "rId1", "rId2", "rId 3", "rId1.0"}).Draw(t, "zn-id")
		default:
			ids[i] = rapid.SampledFrom([]string{"rId1", "rId2", "rId3", "rId4", "rId5", "rId6", "rId9", "rId10", "", "x"}).Draw(t, "mixed-id")
		}
	}
	root := el("Relationships", at("xmlns", "http://schemas.openxmlformats.org/package/2006/relationships"))
	styles := -1
	if rapid.IntRange(0, 9).Draw(t, "with-styles") < 3 && n > 0 {
		styles = rapid.IntRange(0, n-1).Draw(t, "styles-at")
	}
	for i, id := range ids {
		typ := rapid.SampledFrom(relTypes).Draw(t, "reltype")
		target := rapid.SampledFrom([]string{"media/image1.png", "media/missing.png", "header1.xml", "numbering.xml", "settings.xml", "", "/word/media/image1.png", "../docProps/core.xml", "styles.xml", "NULL"}).Draw(t, "target")
		a := at("Id", id, "Type", nsR+"/"+typ, "Target", target)
		if pkgLevel {
			a = at("Id", id, "Type", rapid.SampledFrom([]string{nsR + "/officeDocument", nsR + "/extended-properties", nsR + "/custom-properties", "http://schemas.openxmlformats.org/package/2006/relationships/metadata/core-properties"}).Draw(t, "pkgtype"),
				"Target", rapid.SampledFrom([]string{"word/document.xml", "/word/document.xml", "docProps/core.xml", "docProps/app.xml", "word/document2.xml", ""}).Draw(t, "pkgtarget"))
		} else if i == styles {
			a = at("Id", id, "Type", nsR+"/styles", "Target", "styles.xml")
		} else if typ == "hyperlink" {
			a = at("Id", id, "Type", nsR+"/hyperlink", "Target", "http://example.com/?a=1&b=2", "TargetMode", "External")
		}
		if rapid.IntRange(0, 11).Draw(t, "drop-attr") == 0 {
			a = a[1:] // no Id attribute at all
		}
		root.C = append(root.C, el("Relationship", a))
	}
	ops := []string{"relids", "relids:" + strat}
	if styles < 0 && !pkgLevel {
		ops = append(ops, "relids:no-styles")
	}
	return &XMLPart{Root: &root, Ops: ops}
}

var mediaNames = []string{"image9.png", "image10.png", "image11.png", "image99.png", "image100.png", "image", "image.", "image.png", "image0.png", "image7.png", "image007.jpeg", "image-5.png", "image+3.png", "image99999999999999999999.png", "image2147483647.png",
	"image 4.png", "image1.PNG", "Image9.png", "image3", "image12.tar.gz", "picture.png", "image१.png", "image0x10.png", "image1e3.png", "image9223372036854775807.png", "sub/image5.png"}

var nonZips = []string{"", "x", "hello, this is not a zip archive", "PK", "PK\x03\x04", "PK\x05\x06", "PK\x05\x06\x00\x00\x00\x00\x00\x00\x00\x00\x00\x00\x00\x00\x00\x00\x00\x00\x00\x00",
	"PK\x05\x06\x00\x00\x00\x00\x01\x00\x01\x00\xff\xff\xff\xff\x00\x00\x00\x00\x00\x00", "<?xml version=\"1.0\"?><w:document/>", "\xd0\xcf\x11\xe0\xa1\xb1\x1a\xe1 old binary .doc header",
	"{\\rtf1 rtf}", "%PDF-1.4", "PK\x07\x08PK\x03\x04\x14\x00\x00\x00\x08\x00"}

// genContainerOps: generator (c).
func genContainerOps(t *rapid.T) []COp {
	n := rapid.IntRange(1, 2).Draw(t, "ncops")
	var ops []COp
	anyPart := append(append([]string{}, baseOrder...), "word/settings.xml", "word/", "docProps/")
	for i := 0; i < n; i++ {
		op := COp{Op: rapid.SampledFrom(ContainerOps).Draw(t, "cop")}
		if i == 0 && rapid.IntRange(0, 7).Draw(t, "missing-main") == 0 {
			// "missing part" is a fault operator of its own
			ops = append(ops, COp{Op: "drop", Name: nMain})
			continue
		}
		switch op.Op {
		case "nonzip":
			op.S = rapid.SampledFrom(nonZips).Draw(t, "nonzip")
		case "truncate", "flip":
			op.At = rapid.IntRange(0, 1000).Draw(t, "at")
		case "prefix", "suffix":
			op.S = rapid.SampledFrom([]string{"MZ\x90\x00 self-extractor stub ", "\x00\x00\x00\x00", "junk", "PK\x05\x06", strings.Repeat("A", 70000)}).Draw(t, "pad")
		case "drop":
			op.Name = rapid.SampledFrom(append([]string{nMain, nMain, nMain}, baseOrder...)).Draw(t, "part")
		case "empty":
			op.Name = rapid.SampledFrom(append([]string{nMain}, baseOrder...)).Draw(t, "part")
			op.S = rapid.SampledFrom([]string{"", "", " ", "\n\n", "\xef\xbb\xbf"}).Draw(t, "blank")
		case "dir":
			op.Name = rapid.SampledFrom(anyPart).Draw(t, "part")
		case "dup":
			op.Name = rapid.SampledFrom(baseOrder).Draw(t, "part")
			op.S = rapid.SampledFrom([]string{"same", "empty", "other"}).Draw(t, "dupkind")
			op.At = rapid.IntRange(0, 1).Draw(t, "dup-first")
		case "store":
			op.Name = rapid.SampledFrom(append([]string{"*"}, baseOrder...)).Draw(t, "part")
		case "media":
			op.Name = rapid.SampledFrom(mediaNames).Draw(t, "media")
		case "extra":
			op.Name = rapid.SampledFrom([]string{"word/settings.xml", "word/numbering.xml", "word/footnotes.xml", "word/header1.xml", "word/header2.xml", "word/footer1.xml", "word/media/image2.png", "word/media/image10.png", "customXml/item1.xml", "../evil.xml", "/abs.xml", "word\\document.xml",
				"WORD/DOCUMENT.XML", "word/document.xml ", "", "a/b/c/d/e/f.bin", "word/media/", "[content_types].xml", "docProps/thumbnail.jpeg"}).Draw(t, "extra")
			op.S = rapid.SampledFrom([]string{"", "<x/>", "not xml", "<w:settings xmlns:w=\"" + nsW + "\"/>", "<w:numbering xmlns:w=\"" + nsW + "\"><w:num w:numId=\"1\"/></w:numbering>", "\x00\x01\x02"}).Draw(t, "extra-data")
		case "rotate":
			op.At = rapid.IntRange(1, 7).Draw(t, "rot")
		case "forge":
			op.Name = rapid.SampledFrom(baseOrder).Draw(t, "part")
			op.S = rapid.SampledFrom(ForgeKinds).Draw(t, "forge-kind")
		case "localhdr":
			op.Name = rapid.SampledFrom(baseOrder).Draw(t, "part")
			op.S = rapid.SampledFrom(LocalHdrKinds).Draw(t, "localhdr-kind")
		}
		ops = append(ops, op)
	}
	return ops
}

func genCase(t *rapid.T) Case {
	c := Case{Via: "mem"}
	if rapid.IntRange(0, 9).Draw(t, "via") < 4 {
		c.Via = "file"
	}
	if chance(t, "sequence-of-opens", 45) {
		// the case is a sequence of Opens: packages with tens of thousands of distinct attribute values come first
		c.Pre = genPre(t)
	}
	// (a) 53%, (b) 15.5% + 4.5% adversarial relationship ids, (c) 4.5% forged zip metadata + 11% other container faults, (o) 11%
	k := 17
	switch m := pick(t, "generator", 45); {
	case m < 24:
		k = 0
	case m < 31:
		k = 11
	case m < 33:
		k = 15
	case m < 35:
		k = 16
	case m >= 40:
		k = 18
	}
	switch {
	case k == 18: // (o) the optional parts as other producers write them + a drawn script of follow-up calls (optparts.go)
		genOptCase(t, &c)
	case k < 11: // (a) grammar + faults on the main part
		c.Gen = "a"
		nf := []int{0, 0, 1, 1, 1, 1, 2, 2, 3}[pick(t, "nfaults", 9)]
		c.Parts = map[string]*XMLPart{nMain: genMainPart(t, nf)}
	case k < 16: // (b) faults on the optional parts; k == 15: well-formed relationship parts with adversarial id sets
		c.Gen = "b"
		c.Parts = map[string]*XMLPart{}
		name := rapid.SampledFrom(OptionalParts).Draw(t, "target")
		if k == 15 {
			name = nDocRels
		}
		if (name == nDocRels || name == nRels) && (k == 15 || rapid.Bool().Draw(t, "adversarial-rels")) {
			c.Parts[name] = genRelsPart(t, name == nRels)
		} else {
			c.Parts[name] = genOptionalPart(t, name)
		}
		if rapid.IntRange(0, 4).Draw(t, "second-target") == 0 {
			n2 := rapid.SampledFrom(OptionalParts).Draw(t, "target2")
			if n2 != name {
				c.Parts[n2] = genOptionalPart(t, n2)
			}
		}
		if rapid.IntRange(0, 9).Draw(t, "with-main") < 4 {
			c.Parts[nMain] = genMainPart(t, 0)
		}
	case k == 16: // (c) forged zip metadata: the directory lies about one entry
		c.Gen = "c"
		op := COp{Op: "forge", Name: rapid.SampledFrom(baseOrder).Draw(t, "part")}
		if rapid.IntRange(0, 3).Draw(t, "local-header") == 0 {
			op.Op = "localhdr"
			op.S = rapid.SampledFrom(LocalHdrKinds).Draw(t, "localhdr-kind")
		} else {
			op.S = rapid.SampledFrom(append([]string{"usize-1<<62", "usize-1<<62", "usize-1<<40", "usize-maxu32+1"}, ForgeKinds...)).Draw(t, "forge-kind")
		}
		c.Cont = []COp{op}
		if rapid.IntRange(0, 3).Draw(t, "stored-too") == 0 {
			c.Cont = append(c.Cont, COp{Op: "store", Name: "*"})
		}
	default: // (c) container-level faults
		c.Gen = "c"
		c.Cont = genContainerOps(t)
		if rapid.IntRange(0, 9).Draw(t, "with-main") < 3 {
			c.Parts = map[string]*XMLPart{nMain: genMainPart(t, rapid.IntRange(0, 1).Draw(t, "nfaults"))}
		}
	}
	// two documents opened from the same bytes, edited and saved one after the other (what one leaves behind meets the other)
	if c.Gen != "" && len(c.Pre) == 0 && chance(t, "twin", 45) {
		c.Twin = true
	}
	// a drawn script of edits on the opened tables (tables.go), for the cases that carry a generated main part
	if _, ok := c.Parts[nMain]; ok && chance(t, "table-edits", 450) {
		c.TEdits = genTEdits(t)
	}
	return c
}

package c06

// Data model of a (possibly ill-formed) XML part and its deterministic serialiser.
// A part is plain JSON data: an element tree whose nodes may carry tree-level faults (missing end tag,
// swapped end tags, wrong end tag, duplicated / huge attributes, repetition, nesting) plus byte-level
// faults applied to the serialised text (truncation at an offset, inserted junk, prolog variants).

import (
	"bytes"
	"fmt"
	"strconv"
	"strings"
	"unicode/utf16"
)

type Attr struct {
	N    string `json:"n"`              // name as written ("w:val", "xmlns:w", "val")
	V    string `json:"v,omitempty"`    // value (escaped on output unless Raw)
	Huge int    `json:"huge,omitempty"` // value repeated up to this many bytes
	Raw  bool   `json:"raw,omitempty"`  // value written verbatim (may contain '<', '&', quotes)
	// Seq: every time the attribute is written (the element may be repeated through Rep of itself or of an ancestor) the value
	// is V followed by a number that is distinct within the part and, through XMLPart.Salt, across the cases of a process:
	// "n" decimal number, "s" salt in base 36 + "-" + counter, "h" six hex digits
	Seq string `json:"seq,omitempty"`
}

type Node struct {
	N     string `json:"n"`               // qualified name as written ("w:p"); "#frag" writes the children only (a repeatable group of siblings)
	A     []Attr `json:"a,omitempty"`     //
	T     string `json:"t,omitempty"`     // character data (escaped) before the children
	RawT  string `json:"rawt,omitempty"`  // raw markup before the children (entities, CDATA, comments, PIs, junk)
	C     []Node `json:"c,omitempty"`     //
	Rep   int    `json:"rep,omitempty"`   // written Rep+1 times
	Deep  int    `json:"deep,omitempty"`  // wrapped in Deep nested elements named DeepN (default: N)
	DeepN string `json:"deepn,omitempty"` //
	F     string `json:"f,omitempty"`     // "" | noend | swapend | badend | selfclose
}

type XMLPart struct {
	Prolog string   `json:"prolog,omitempty"` // "" = standard declaration; see prologBytes
	Root   *Node    `json:"root,omitempty"`   // nil = nothing after the prolog
	Trail  string   `json:"trail,omitempty"`  // raw text after the root
	Cut    int      `json:"cut,omitempty"`    // 1..999: keep only the first Cut/1000 of the serialised bytes
	JunkAt int      `json:"junk_at,omitempty"`
	Junk   string   `json:"junk,omitempty"` // raw bytes inserted at offset len*JunkAt/1000
	UTF16  bool     `json:"utf16,omitempty"`
	Ops    []string `json:"ops,omitempty"`  // fault operators the generator applied (evidence only)
	Salt   int64    `json:"salt,omitempty"` // makes the values of Seq attributes differ from case to case
	// Lit: the text of the part, verbatim (hand-written inputs); Prolog and Root are not written, the byte-level faults apply
	Lit string `json:"lit,omitempty"`
}

const stdDecl = `<?xml version="1.0" encoding="UTF-8" standalone="yes"?>` + "\n"

func prologBytes(kind string) string {
	switch kind {
	case "", "std":
		return stdDecl
	case "none":
		return ""
	case "bom":
		return "\xef\xbb\xbf" + stdDecl
	case "bom-nodecl":
		return "\xef\xbb\xbf"
	case "decl-utf16":
		return `<?xml version="1.0" encoding="UTF-16"?>`
	case "decl-latin1":
		return `<?xml version="1.0" encoding="ISO-8859-1"?>`
	case "decl-ascii-lower":
		return `<?xml version="1.0" encoding="utf-8"?>`
	case "decl-v11":
		return `<?xml version="1.1" encoding="UTF-8"?>`
	case "decl-noenc":
		return `<?xml version="1.0"?>`
	case "ws-before-decl":
		return "  \n" + stdDecl
	case "doctype":
		return stdDecl + `<!DOCTYPE w:document [<!ENTITY e "expanded"><!ENTITY f "&e;&e;&e;&e;">]>` + "\n"
	case "doctype-system":
		return stdDecl + `<!DOCTYPE document SYSTEM "file:///etc/passwd">` + "\n"
	case "pi":
		return stdDecl + `<?mso-application progid="Word.Document"?>` + "\n"
	case "comment":
		return stdDecl + "<!-- generated -->\n"
	case "two-decls":
		return stdDecl + stdDecl
	}
	return stdDecl
}

var Prologs = []string{"none", "bom", "bom-nodecl", "decl-utf16", "decl-latin1", "decl-ascii-lower", "decl-v11", "decl-noenc", "ws-before-decl", "doctype", "doctype-system", "pi", "comment", "two-decls"}

func escText(b *bytes.Buffer, s string) {
	for i := 0; i < len(s); i++ {
		switch s[i] {
		case '&':
			b.WriteString("&amp;")
		case '<':
			b.WriteString("&lt;")
		case '>':
			b.WriteString("&gt;")
		case '"':
			b.WriteString("&quot;")
		default:
			b.WriteByte(s[i]) // control characters and invalid UTF-8 go out raw: that is an (intended) fault
		}
	}
}

type writer struct {
	b    bytes.Buffer
	max  int // repetition and nesting stop when the buffer reaches this size
	salt int64
	seq  int64 // Seq attributes written so far
}

const fragName = "#frag"

// rawName: a node that writes RawT verbatim (comments, processing instructions, text, CDATA between sibling elements).
const rawName = "#raw"

func (w *writer) seqValue(a *Attr) string {
	w.seq++
	switch a.Seq {
	case "n":
		return a.V + strconv.FormatInt(w.salt*100000+w.seq, 10)
	case "h":
		return a.V + fmt.Sprintf("%06X", (w.salt*7919+w.seq*104729)&0xFFFFFF)
	}
	return a.V + strconv.FormatInt(w.salt, 36) + "-" + strconv.FormatInt(w.seq, 10)
}

func (w *writer) left() int { return w.max - w.b.Len() }

func (w *writer) startTag(n *Node, selfClose bool) {
	w.b.WriteByte('<')
	w.b.WriteString(n.N)
	for _, a := range n.A {
		w.b.WriteByte(' ')
		w.b.WriteString(a.N)
		w.b.WriteString(`="`)
		v := a.V
		if a.Seq != "" {
			v = w.seqValue(&a)
		}
		if a.Huge > 0 {
			if v == "" {
				v = "x"
			}
			h := a.Huge
			if h > w.left()/2 {
				h = w.left() / 2
			}
			if h > 0 {
				v = strings.Repeat(v, h/len(v)+1)[:h]
			}
		}
		if a.Raw {
			w.b.WriteString(v)
		} else {
			escText(&w.b, v)
		}
		w.b.WriteByte('"')
	}
	if selfClose {
		w.b.WriteString("/>")
	} else {
		w.b.WriteByte('>')
	}
}

func (w *writer) node(n *Node, pendingEnd *[]string) {
	reps := n.Rep + 1
	for i := 0; i < reps; i++ {
		w.one(n, pendingEnd)
		if w.left() <= 0 {
			return
		}
	}
}

// one writes the element once. pendingEnd collects end tags a "swapend" child hands to its parent.
func (w *writer) one(n *Node, parentPending *[]string) {
	dn := n.DeepN
	if dn == "" {
		dn = n.N
	}
	deep := n.Deep
	if dn == fragName || dn == rawName {
		deep = 0
	}
	if deep > 0 && deep*(2*len(dn)+5) > w.left() {
		deep = w.left() / (2*len(dn) + 5)
		if deep < 0 {
			deep = 0
		}
	}
	for i := 0; i < deep; i++ {
		w.b.WriteByte('<')
		w.b.WriteString(dn)
		w.b.WriteByte('>')
	}
	if n.N == rawName {
		w.b.WriteString(n.RawT)
	} else if n.N == fragName {
		for i := range n.C {
			w.node(&n.C[i], parentPending)
			if w.left() <= 0 {
				break
			}
		}
	} else if n.F == "selfclose" {
		w.startTag(n, true)
	} else {
		w.startTag(n, false)
		escText(&w.b, n.T)
		w.b.WriteString(n.RawT)
		var pending []string
		for i := range n.C {
			w.node(&n.C[i], &pending)
			if w.left() <= 0 {
				break
			}
		}
		switch n.F {
		case "noend":
		case "badend":
			w.b.WriteString("</" + n.N + "X>")
		case "swapend":
			if parentPending != nil {
				*parentPending = append(*parentPending, n.N)
			}
		default:
			w.b.WriteString("</" + n.N + ">")
		}
		for _, p := range pending { // end tags of swapend children come after this element's own end tag
			w.b.WriteString("</" + p + ">")
		}
	}
	for i := 0; i < deep; i++ {
		w.b.WriteString("</" + dn + ">")
	}
}

// MaxPartBytes bounds the serialised size of one generated part.
var MaxPartBytes = 6 << 20

// Bytes serialises the part.
func (p *XMLPart) Bytes() []byte {
	w := p.write()
	if w == nil {
		return nil
	}
	out := w.b.Bytes()
	return p.finish(out)
}

func (p *XMLPart) write() *writer {
	if p == nil {
		return nil
	}
	w := &writer{max: MaxPartBytes, salt: p.Salt}
	if p.Lit != "" {
		w.b.WriteString(p.Lit)
		return w
	}
	w.b.WriteString(prologBytes(p.Prolog))
	if p.Root != nil {
		var pending []string
		w.node(p.Root, &pending)
		for _, e := range pending {
			w.b.WriteString("</" + e + ">")
		}
	}
	w.b.WriteString(p.Trail)
	return w
}

func (p *XMLPart) finish(out []byte) []byte {
	if p.Junk != "" {
		at := len(out) * clamp(p.JunkAt, 0, 1000) / 1000
		n := make([]byte, 0, len(out)+len(p.Junk))
		n = append(n, out[:at]...)
		n = append(n, p.Junk...)
		n = append(n, out[at:]...)
		out = n
	}
	if p.Cut > 0 && p.Cut < 1000 {
		out = out[:len(out)*p.Cut/1000]
	}
	if p.UTF16 {
		// genuine UTF-16LE with BOM (what some producers write); invalid UTF-8 is replaced first
		u := utf16.Encode([]rune(string(out)))
		o := make([]byte, 0, 2+2*len(u))
		o = append(o, 0xff, 0xfe)
		for _, c := range u {
			o = append(o, byte(c), byte(c>>8))
		}
		out = o
	}
	return out
}

func clamp(v, lo, hi int) int {
	if v < lo {
		return lo
	}
	if v > hi {
		return hi
	}
	return v
}

// skeleton renders the element names of a tree (repetition and nesting bucketed) for the shape hash.
func (n *Node) skeleton(b *strings.Builder, depth int) {
	if n == nil || depth > 12 {
		return
	}
	b.WriteString(n.N)
	if n.F != "" {
		b.WriteString("!" + n.F)
	}
	if n.Rep > 0 {
		b.WriteString("*" + bucket(n.Rep))
	}
	if n.Deep > 0 {
		b.WriteString("^" + bucket(n.Deep))
	}
	for _, a := range n.A {
		if a.Huge > 0 {
			b.WriteString("@huge")
		}
		if a.Seq != "" {
			b.WriteString("@seq")
		}
	}
	if len(n.C) > 0 {
		b.WriteByte('(')
		for i := range n.C {
			if i > 0 {
				b.WriteByte(',')
			}
			n.C[i].skeleton(b, depth+1)
		}
		b.WriteByte(')')
	}
}

func bucket(n int) string {
	switch {
	case n < 10:
		return "1"
	case n < 100:
		return "10"
	case n < 1000:
		return "100"
	case n < 10000:
		return "1k"
	}
	return "10k"
}

func (n *Node) count() int {
	if n == nil {
		return 0
	}
	c := 1
	for i := range n.C {
		c += n.C[i].count()
	}
	return c
}

// walk visits every node (pre-order) with a mutable pointer.
func (n *Node) walk(f func(*Node)) {
	if n == nil {
		return
	}
	f(n)
	for i := range n.C {
		n.C[i].walk(f)
	}
}

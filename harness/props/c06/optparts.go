package c06

// Generator (o): the OPTIONAL parts of a package as other producers write them.
//
// Open keeps the bytes of word/numbering.xml, word/footnotes.xml, word/endnotes.xml, word/settings.xml (and re-uses those of
// word/styles.xml on save); code reads them only when a later call needs them. A case of this generator is a package that
// carries one or more of these parts in the shapes Word, LibreOffice, docx4j, python-docx ... write - and the library never
// does - together with a drawn SCRIPT of follow-up calls (Case.Follow) that contains the calls which read / extend the parts:
//
//	root        prefix w / ns0 / x / default namespace, declaration of the own prefix first or last among the other
//	            declarations (mc, w14, w15, w16cid, r, m ...), mc:Ignorable, self-closing root, strict / other / absent namespace,
//	            another root element
//	children    the part's own definitions as producers write them (nested levels, overrides, latent styles ...), elements of
//	            the lazy readers' extracted vocabulary with the attributes they look at, children in FOREIGN namespaces directly
//	            under the root (mc:AlternateContent with Choice / Fallback, w14 / w15 / w16cid extension elements, unknown and
//	            undeclared prefixes), definitions of another part, comments / processing instructions / text / CDATA between them
//	ids         dense, sparse, duplicated, negative, non-numeric, beyond int32 / int64, padded
//	damage      0-2 of the fault operators of generator (a): truncation, missing / swapped / wrong end tags, junk, prolog
//	            variants, UTF-16, duplicated / huge attributes, nesting, repetition
//
// The content types and the relationships of the main part name the parts (or, sometimes, do not); the main part refers to
// the numbering instances, notes and styles the parts define.

import (
	"fmt"
	"strconv"
	"strings"

	"pgregory.net/rapid"
)

const (
	nsMC     = "http://schemas.openxmlformats.org/markup-compatibility/2006"
	nsW14    = "http://schemas.microsoft.com/office/word/2010/wordml"
	nsW15    = "http://schemas.microsoft.com/office/word/2012/wordml"
	nsW16cid = "http://schemas.microsoft.com/office/word/2016/wordml/cid"
	nsM      = "http://schemas.openxmlformats.org/officeDocument/2006/math"
)

var foreignNS = map[string]string{"mc": nsMC, "w14": nsW14, "w15": nsW15, "w16cid": nsW16cid, "m": nsM, "r": nsR, "o": "urn:schemas-microsoft-com:office:office",
	"v": "urn:schemas-microsoft-com:vml", "x": "urn:x", "sl": "http://schemas.openxmlformats.org/schemaLibrary/2006/main"}

var optIDVals = []string{"0", "1", "2", "3", "4", "5", "7", "10", "11", "99", "-1", "-2", "", "x", "007", "+5", " 3 ", "1.0", "0x10", "2147483647", "2147483648", "4294967295",
	"9223372036854775807", "9223372036854775808", "99999999999999999999", "１２"}

var optStyleIDs = []string{"Normal", "Heading1", "Heading2", "Heading3", "Heading9", "TableGrid", "TableNormal", "DefaultParagraphFont", "a", "a0", "ListParagraph", "FootnoteText",
	"FootnoteReference", "TOC1", "Title", "NoList", "", "Heading 1", `q"uo<te&`, "heading1", "TableColorful1"}

// optPart generates one optional part.
type optGen struct {
	*gctx
	ov       *OptVocab
	part     string
	pfx      string // prefix of the part's own namespace ("" = default namespace)
	apfx     string // prefix of attributes in the own namespace ("" = unprefixed)
	declared map[string]bool
	root     *Node
	ids      []string // ids handed out (the main part refers to some of them)
	next     int
	labels   map[string]bool
}

func (o *optGen) q(local string) string {
	if o.pfx == "" {
		return local
	}
	return o.pfx + ":" + local
}

func (o *optGen) a(local string) string {
	if o.apfx == "" {
		return local
	}
	return o.apfx + ":" + local
}

// use makes sure a foreign prefix is declared (on the root, mostly; sometimes on the element itself; sometimes not at all).
func (o *optGen) use(pfx string, self *Node) {
	if o.declared[pfx] {
		return
	}
	switch k := pick(o.t, "decl-where", 20); {
	case k < 16:
		o.root.A = append(o.root.A, Attr{N: "xmlns:" + pfx, V: foreignNS[pfx]})
		o.declared[pfx] = true
	case k < 19 && self != nil:
		self.A = append(self.A, Attr{N: "xmlns:" + pfx, V: foreignNS[pfx]})
	default:
		o.labels["opt:undeclared-prefix"] = true
	}
}

func (o *optGen) id() string {
	t := o.t
	var s string
	switch k := pick(t, "id-kind", 20); {
	case k < 11:
		o.next += 1 + pick(t, "id-gap", 3)*pick(t, "id-gap2", 40)
		s = strconv.Itoa(o.next)
	case k < 13 && len(o.ids) > 0:
		s = o.ids[pick(t, "id-dup", len(o.ids))] // duplicated
	default:
		s = optIDVals[pick(t, "id-val", len(optIDVals))]
	}
	o.ids = append(o.ids, s)
	return s
}

func (o *optGen) val(name string, v string) Node { return el(o.q(name), at(o.a("val"), v)) }

// vocabElem: an element of the lazy readers' vocabulary with the attributes they look at.
func (o *optGen) vocabElem(pfxOverride string, depth int) Node {
	t := o.t
	name := o.ov.Elems[pick(t, "ov-elem", len(o.ov.Elems))]
	n := Node{N: o.q(name)}
	if pfxOverride != "" {
		n.N = pfxOverride + ":" + name
	}
	for _, an := range o.ov.Attrs {
		if len(an) < 2 || !chance(t, "ov-attr", 450) {
			continue
		}
		v := optIDVals[pick(t, "ov-attr-val", len(optIDVals))]
		if an == "type" || chance(t, "ov-attr-enum", 150) {
			v = o.noteType()
		} else if chance(t, "ov-attr-id", 500) {
			v = o.id()
		}
		ap := o.a(an)
		if pfxOverride != "" && chance(t, "ov-attr-foreign", 500) {
			ap = pfxOverride + ":" + an
		}
		n.A = append(n.A, Attr{N: ap, V: v})
	}
	if depth < 2 && chance(t, "ov-nested", 300) {
		// the same vocabulary one level down: what a reader that counts depth must not take for a definition
		for i, k := 0, 1+pick(t, "ov-nested-n", 3); i < k; i++ {
			n.C = append(n.C, o.vocabElem("", depth+1))
		}
	}
	return n
}

func (o *optGen) noteType() string {
	t := o.t
	vals := append(append([]string{}, o.ov.Values...), "normal", "separator", "continuationSeparator", "", "Separator", "x")
	return vals[pick(t, "note-type", len(vals))]
}

func (o *optGen) noteParagraph(kind, text string) Node {
	if kind != "" {
		return el(o.q("p"), nil, el(o.q("pPr"), nil, el(o.q("spacing"), at(o.a("after"), "0", o.a("line"), "240", o.a("lineRule"), "auto"))), el(o.q("r"), nil, el(o.q(kind), nil)))
	}
	ref := "footnoteRef"
	if strings.Contains(o.part, "endnote") {
		ref = "endnoteRef"
	}
	return el(o.q("p"), nil, el(o.q("pPr"), nil, o.val("pStyle", "FootnoteText")),
		el(o.q("r"), nil, el(o.q("rPr"), nil, o.val("rStyle", "FootnoteReference")), el(o.q(ref), nil)),
		el(o.q("r"), nil, txt(o.q("t"), at("xml:space", "preserve"), " "+text)))
}

// ownChild: a definition of the given part the way producers write it.
func (o *optGen) ownChild(part string) Node {
	t := o.t
	root := rootOfPart(part)
	switch root {
	case "numbering":
		switch k := pick(t, "num-kind", 20); {
		case k < 8:
			n := el(o.q("abstractNum"), at(o.a("abstractNumId"), o.id()))
			if chance(t, "num-w15", 400) {
				o.use("w15", &n)
				n.A = append(n.A, Attr{N: "w15:restartNumberingAfterBreak", V: "0"})
			}
			n.C = append(n.C, o.val("nsid", fmt.Sprintf("%08X", 0x3A5C0000+o.next)), o.val("multiLevelType", []string{"hybridMultilevel", "multilevel", "singleLevel"}[pick(t, "mlt", 3)]), o.val("tmpl", "0409001F"))
			for i, nl := 0, pick(t, "num-levels", 4); i < nl; i++ {
				lvl := el(o.q("lvl"), at(o.a("ilvl"), strconv.Itoa(i), o.a("tplc"), "04090001"), o.val("start", "1"), o.val("numFmt", []string{"decimal", "bullet", "lowerLetter", "upperRoman"}[pick(t, "numfmt", 4)]),
					o.val("lvlText", "%"+strconv.Itoa(i+1)+"."), o.val("lvlJc", "left"),
					el(o.q("pPr"), nil, el(o.q("ind"), at(o.a("left"), strconv.Itoa(720*(i+1)), o.a("hanging"), "360"))),
					el(o.q("rPr"), nil, el(o.q("rFonts"), at(o.a("ascii"), "Symbol", o.a("hAnsi"), "Symbol", o.a("hint"), "default"))))
				n.C = append(n.C, lvl)
			}
			if chance(t, "num-stylelink", 150) {
				n.C = append(n.C, o.val("numStyleLink", "ListBullets"))
			}
			return n
		case k < 17:
			n := el(o.q("num"), at(o.a("numId"), o.id()))
			if chance(t, "num-durable", 300) {
				o.use("w16cid", &n)
				n.A = append(n.A, Attr{N: "w16cid:durableId", V: "1234567890"})
			}
			n.C = append(n.C, o.val("abstractNumId", optIDVals[pick(t, "num-abs", 8)]))
			if chance(t, "num-override", 300) {
				n.C = append(n.C, el(o.q("lvlOverride"), at(o.a("ilvl"), "0"), o.val("startOverride", "1")))
			}
			return n
		case k < 19:
			return el(o.q("numPicBullet"), at(o.a("numPicBulletId"), o.id()), el(o.q("pict"), nil))
		}
		return o.val("numIdMacAtCleanup", o.id())
	case "footnotes", "endnotes":
		name := strings.TrimSuffix(root, "s")
		n := el(o.q(name), nil)
		switch k := pick(t, "note-kind", 20); {
		case k < 4:
			typ := []string{"separator", "continuationSeparator", "continuationNotice"}[pick(t, "sep-kind", 3)]
			n.A = at(o.a("type"), typ, o.a("id"), []string{"-1", "0", "1"}[pick(t, "sep-id", 3)])
			n.C = append(n.C, o.noteParagraph(strings.TrimSuffix(typ, "Notice"), ""))
		case k < 7:
			n.A = at(o.a("type"), o.noteType(), o.a("id"), o.id())
			n.C = append(n.C, o.noteParagraph("", "typed note"))
		case k < 9:
			n.A = at(o.a("id"), o.id(), o.a("type"), o.noteType()) // other attribute order
			n.C = append(n.C, o.noteParagraph("", "note"))
		default:
			n.A = at(o.a("id"), o.id())
			n.C = append(n.C, o.noteParagraph("", "an existing note"))
			if chance(t, "note-two-paras", 200) {
				n.C = append(n.C, o.noteParagraph("", "second paragraph"))
			}
		}
		if chance(t, "note-noattr", 40) {
			n.A = nil
		}
		return n
	case "styles":
		switch k := pick(t, "style-kind", 20); {
		case k < 2:
			return el(o.q("docDefaults"), nil,
				el(o.q("rPrDefault"), nil, el(o.q("rPr"), nil, el(o.q("rFonts"), at(o.a("asciiTheme"), "minorHAnsi", o.a("eastAsiaTheme"), "minorEastAsia")), o.val("sz", "22"), el(o.q("lang"), at(o.a("val"), "en-US", o.a("eastAsia"), "zh-CN")))),
				el(o.q("pPrDefault"), nil, el(o.q("pPr"), nil, el(o.q("spacing"), at(o.a("after"), "160", o.a("line"), "259", o.a("lineRule"), "auto")))))
		case k < 4:
			n := el(o.q("latentStyles"), at(o.a("defLockedState"), "0", o.a("defUIPriority"), "99", o.a("defSemiHidden"), "0", o.a("count"), "376"))
			for i, c := 0, pick(t, "lsd-n", 5); i < c; i++ {
				n.C = append(n.C, el(o.q("lsdException"), at(o.a("name"), []string{"Normal", "heading 1", "heading 2", "Title", "Table Grid"}[i%5], o.a("uiPriority"), strconv.Itoa(i), o.a("qFormat"), "1")))
			}
			return n
		}
		id := optStyleIDs[pick(t, "style-id", len(optStyleIDs))]
		if chance(t, "style-id-unique", 250) {
			id = o.uniqueValue("s", "S")
		}
		o.ids = append(o.ids, id)
		typ := []string{"paragraph", "paragraph", "character", "table", "numbering", "", "x"}[pick(t, "style-type", 7)]
		n := el(o.q("style"), at(o.a("type"), typ, o.a("styleId"), id))
		if chance(t, "style-default", 250) {
			n.A = append([]Attr{n.A[0], {N: o.a("default"), V: "1"}}, n.A[1:]...)
		}
		if chance(t, "style-custom", 250) {
			n.A = append(n.A, Attr{N: o.a("customStyle"), V: "1"})
		}
		if chance(t, "style-noid", 40) {
			n.A = n.A[:1]
		}
		n.C = append(n.C, o.val("name", strings.ToLower(id)))
		if chance(t, "style-based", 500) {
			n.C = append(n.C, o.val("basedOn", optStyleIDs[pick(t, "style-based-id", 8)]))
		}
		if chance(t, "style-more", 500) {
			n.C = append(n.C, o.val("next", "Normal"), o.val("link", id+"Char"), o.val("uiPriority", "9"), el(o.q("qFormat"), nil), o.val("rsid", "00AB12CD"))
		}
		if chance(t, "style-ppr", 500) {
			n.C = append(n.C, el(o.q("pPr"), nil, el(o.q("keepNext"), nil), el(o.q("spacing"), at(o.a("before"), "240", o.a("after"), "0")), o.val("outlineLvl", "0")))
		}
		if chance(t, "style-rpr", 500) {
			n.C = append(n.C, el(o.q("rPr"), nil, el(o.q("rFonts"), at(o.a("asciiTheme"), "majorHAnsi")), el(o.q("b"), nil), o.val("color", "2F5496"), o.val("sz", "32")))
		}
		if typ == "table" || chance(t, "style-tbl", 100) {
			n.C = append(n.C, el(o.q("tblPr"), nil, el(o.q("tblInd"), at(o.a("w"), "0", o.a("type"), "dxa")),
				el(o.q("tblCellMar"), nil, el(o.q("top"), at(o.a("w"), "0", o.a("type"), "dxa")), el(o.q("left"), at(o.a("w"), "108", o.a("type"), "dxa")))),
				el(o.q("tblStylePr"), at(o.a("type"), "firstRow"), el(o.q("tcPr"), nil, el(o.q("shd"), at(o.a("val"), "clear", o.a("fill"), "D9E2F3")))))
		}
		if chance(t, "style-nested-style", 60) {
			n.C = append(n.C, el(o.q("style"), at(o.a("styleId"), "Nested"))) // a w:style that is not a child of the root
		}
		return n
	case "settings":
		switch pick(t, "settings-kind", 12) {
		case 0:
			return el(o.q("zoom"), at(o.a("percent"), "100"))
		case 1:
			return o.val("defaultTabStop", "720")
		case 2:
			return o.val("characterSpacingControl", "doNotCompress")
		case 3, 4:
			pr := "footnotePr"
			child := "footnote"
			if chance(t, "settings-endnote", 500) {
				pr, child = "endnotePr", "endnote"
			}
			return el(o.q(pr), nil, el(o.q("pos"), at(o.a("val"), "pageBottom")), el(o.q("numFmt"), at(o.a("val"), "lowerRoman")), el(o.q(child), at(o.a("id"), "-1")), el(o.q(child), at(o.a("id"), "0")))
		case 5:
			return el(o.q("compat"), nil, el(o.q("compatSetting"), at(o.a("name"), "compatibilityMode", o.a("uri"), "http://schemas.microsoft.com/office/word", o.a("val"), "15")))
		case 6:
			n := el(o.q("rsids"), nil, o.val("rsidRoot", "00AB12CD"))
			for i, c := 0, pick(t, "rsid-n", 6); i < c; i++ {
				n.C = append(n.C, o.val("rsid", o.uniqueValue("rsid", "")))
			}
			return n
		case 7:
			n := el("m:mathPr", nil, el("m:mathFont", at("m:val", "Cambria Math")), el("m:brkBin", at("m:val", "before")))
			o.use("m", &n)
			return n
		case 8:
			return el(o.q("themeFontLang"), at(o.a("val"), "en-US", o.a("eastAsia"), "zh-CN"))
		case 9:
			return el(o.q("clrSchemeMapping"), at(o.a("bg1"), "light1", o.a("t1"), "dark1", o.a("accent1"), "accent1"))
		case 10:
			return o.val("decimalSymbol", ".")
		}
		return o.val("listSeparator", ",")
	}
	return o.vocabElem("", 0)
}

// foreignChild: an element that is not in the namespace of the part's root.
func (o *optGen) foreignChild() Node {
	t := o.t
	o.labels["opt:foreign-child"] = true
	switch k := pick(t, "foreign-kind", 20); {
	case k < 8:
		n := el("mc:AlternateContent", nil)
		o.use("mc", &n)
		req := []string{"w14", "w15", "w16cid"}[pick(t, "mc-req", 3)]
		ch := el("mc:Choice", at("Requires", req))
		o.use(req, &ch)
		switch pick(t, "mc-choice", 4) {
		case 0:
			ch.C = append(ch.C, el(req+":numExt", at(req+":val", "1")))
		case 1:
			ch.C = append(ch.C, o.ownChild(o.part)) // a definition only newer consumers see
		case 2:
			ch.C = append(ch.C, o.vocabElem("", 1))
		}
		n.C = append(n.C, ch)
		if chance(t, "mc-second-choice", 150) {
			n.C = append(n.C, el("mc:Choice", at("Requires", req)))
		}
		if chance(t, "mc-fallback", 750) {
			fb := el("mc:Fallback", nil)
			if chance(t, "mc-fallback-full", 400) {
				fb.C = append(fb.C, o.ownChild(o.part))
			}
			n.C = append(n.C, fb)
		}
		if chance(t, "mc-selfclosed", 60) {
			n.C = nil
		}
		return n
	case k < 14:
		p := []string{"w14", "w15", "w16cid"}[pick(t, "ext-pfx", 3)]
		name := []string{"docId", "chartTrackingRefBased", "defaultImageDpi", "discardImageEditingData", "commentsIds", "presenceInfo", "person"}[pick(t, "ext-name", 7)]
		n := el(p+":"+name, at(p+":val", []string{"{5F2B5C33-6B4E-4D2B-9E0A-1F0C9A0D3B11}", "0", "1A2B3C4D", ""}[pick(t, "ext-val", 4)]))
		o.use(p, &n)
		if chance(t, "ext-children", 200) {
			n.C = append(n.C, el(p+":child", nil), o.vocabElem("", 1))
		}
		if chance(t, "ext-id", 300) {
			n.A = append(n.A, Attr{N: o.a("id"), V: o.id()}) // an attribute in the part's namespace on a foreign element
		}
		return n
	case k < 17:
		// the local name of a definition, in another namespace
		p := []string{"w14", "w15", "x"}[pick(t, "alias-pfx", 3)]
		n := o.vocabElem(p, 0)
		o.use(p, &n)
		return n
	case k < 19:
		n := el("x:foo", at("x:bar", "1"), el("x:baz", nil))
		o.use("x", &n)
		return n
	}
	return el("foo", at("bar", "1")) // unprefixed: no namespace (or the default one)
}

var optRawPieces = []string{"<!-- a comment -->", "<!-- <w:num w:numId=\"9\"/> -->", "<?mso-application progid=\"Word.Document\"?>", "<?x?>", "\n\n\t  \n", "stray text", "<![CDATA[<w:num/>]]>", "&amp;&#x41;", "\r\n"}

// optPartTree generates the tree of one optional part.
func (g *gctx) optPart(part string, labels map[string]bool) (*XMLPart, []string) {
	t := g.t
	ov := TheOptVocab()
	o := &optGen{gctx: g, ov: ov, part: part, declared: map[string]bool{}, labels: labels}
	rootLocal := rootOfPart(part)
	switch k := pick(t, "opt-rootname", 40); {
	case k == 37:
		other := ov.Parts[pick(t, "opt-otherroot", len(ov.Parts))]
		rootLocal = rootOfPart(other)
		labels["opt:root-other"] = true
	case k == 38:
		rootLocal = []string{"document", "Numbering", "hdr", "x"}[pick(t, "opt-oddroot", 4)]
		labels["opt:root-other"] = true
	}
	switch k := pick(t, "opt-prefix", 20); {
	case k < 12:
		o.pfx, o.apfx = "w", "w"
	case k < 14:
		o.pfx, o.apfx = "ns0", "ns0"
	case k < 16:
		o.pfx, o.apfx = "", "w" // default namespace; attributes qualified through a second declaration of the same namespace
	case k < 17:
		o.pfx, o.apfx = "", ""
	case k < 18:
		o.pfx, o.apfx = "x", "x"
	case k < 19:
		o.pfx, o.apfx = "W", "W"
	default:
		o.pfx, o.apfx = "w", ""
	}
	if o.pfx != "w" {
		labels["opt:prefix-not-w"] = true
	}
	ns := nsW
	switch k := pick(t, "opt-ns", 40); {
	case k == 36:
		ns = nsStrict
	case k == 37:
		ns = "urn:other"
	case k == 38:
		ns = ""
	case k == 39:
		ns = nsW + "/"
	}
	if ns != nsW {
		labels["opt:namespace-other"] = true
	}
	root := Node{N: o.q(rootLocal)}
	o.root = &root
	var own []Attr
	if ns != "" {
		if o.pfx == "" {
			own = append(own, Attr{N: "xmlns", V: ns})
		} else {
			own = append(own, Attr{N: "xmlns:" + o.pfx, V: ns})
		}
		if o.apfx != "" && o.apfx != o.pfx {
			own = append(own, Attr{N: "xmlns:" + o.apfx, V: ns})
		}
	}
	// the declarations producers put on every part's root
	var others []Attr
	if chance(t, "opt-decls", 600) {
		for _, p := range []string{"mc", "r", "m", "o", "v", "w14", "w15", "w16cid"} {
			if chance(t, "opt-decl", 600) && p != o.pfx {
				others = append(others, Attr{N: "xmlns:" + p, V: foreignNS[p]})
				o.declared[p] = true
			}
		}
		if o.declared["mc"] {
			ign := ""
			for _, p := range []string{"w14", "w15", "w16cid"} {
				if o.declared[p] {
					ign += " " + p
				}
			}
			others = append(others, Attr{N: "mc:Ignorable", V: strings.TrimSpace(ign)})
		}
	}
	if chance(t, "opt-own-decl-last", 400) {
		root.A = append(others, own...)
	} else {
		root.A = append(own, others...)
	}
	// children
	n := []int{0, 0, 1, 2, 3, 4, 6, 9}[pick(t, "opt-children", 8)]
	pForeign := []int{0, 3, 6, 12}[pick(t, "opt-foreign-density", 4)]
	for i := 0; i < n; i++ {
		var c Node
		switch k := pick(t, "opt-child", 20); {
		case k < pForeign:
			c = o.foreignChild()
		case k < 14:
			c = o.ownChild(part)
		case k < 16:
			c = o.vocabElem("", 0)
		case k < 17:
			c = Node{N: rawName, RawT: optRawPieces[pick(t, "opt-raw", len(optRawPieces))]}
		case k < 18:
			c = o.ownChild(ov.Parts[pick(t, "opt-otherpart", len(ov.Parts))]) // a definition that belongs to another part
		default:
			c = o.ownChild(part)
			c.F = "selfclose" // a definition without content
		}
		root.C = append(root.C, c)
	}
	if pForeign > 0 && n > 0 && !labels["opt:foreign-child"] && chance(t, "opt-foreign-tail", 500) {
		// extension elements come last in what Word writes
		root.C = append(root.C, o.foreignChild())
	}
	if len(root.C) == 0 && chance(t, "opt-root-selfclosed", 500) {
		root.F = "selfclose"
		labels["opt:root-selfclosed"] = true
	}
	p := &XMLPart{Root: &root}
	// damage
	nf := []int{0, 0, 0, 0, 1, 1, 2}[pick(t, "opt-nfaults", 7)]
	for i := 0; i < nf; i++ {
		op := optFaults[pick(t, "opt-fault", len(optFaults))]
		save := g.max
		g.max = g.nodes + 20
		g.applyFault(p, op)
		g.max = save
	}
	return p, o.ids
}

// the fault operators that make sense on a part Open does not parse
var optFaults = []string{"truncate", "truncate", "dropend", "swapend", "badend", "selfclose", "empty", "junk", "trail", "prolog", "utf16", "dupattr", "hugeattr", "deep", "wide", "rawtext", "noval", "unknown", "misplaced"}

func partContentType(name string) string {
	return "application/vnd.openxmlformats-officedocument.wordprocessingml." + rootOfPart(name) + "+xml"
}

// FollowOps are the calls a drawn follow-up script is made of (judge.go runs them). Every call that reads or extends one of
// the optional parts lazily is in the list.
var FollowOps = []string{"AddBulletList", "AddNumberedList", "AddListItem", "AddListItem:nil", "CreateMultiLevelList", "RestartNumbering",
	"AddFootnote", "AddEndnote", "AddFootnoteToRun", "GetFootnoteCount", "GetEndnoteCount", "RemoveFootnote", "RemoveEndnote",
	"SetFootnoteConfig", "SetFootnoteConfig:nil", "AddHeadingParagraph", "SetStyle", "ApplyTableStyle", "AddStyle", "ModifyStyle", "ToBytes"}

// DefaultFollow is the script of the cases that do not carry one.
var DefaultFollow = []string{"GetFootnoteCount", "AddFootnote", "GetEndnoteCount", "AddEndnote", "AddNumberedList", "RemoveFootnote:1", "SetFootnoteConfig",
	"AddHeadingParagraph:2", "SetStyle:Heading3", "ApplyTableStyle:TableGrid", "AddStyle:VerifCustom", "ModifyStyle:Normal"}

func genFollow(t *rapid.T, ids []string) []string {
	n := 2 + pick(t, "follow-n", 8)
	var out []string
	arg := func() string {
		if len(ids) > 0 && chance(t, "follow-known-id", 600) {
			return ids[pick(t, "follow-id", len(ids))]
		}
		return optIDVals[pick(t, "follow-idval", len(optIDVals))]
	}
	for i := 0; i < n; i++ {
		op := FollowOps[pick(t, "follow-op", len(FollowOps))]
		switch op {
		case "RemoveFootnote", "RemoveEndnote", "RestartNumbering":
			op += ":" + arg()
		case "AddHeadingParagraph":
			op += ":" + strconv.Itoa(1+pick(t, "follow-level", 9))
		case "SetStyle", "ModifyStyle":
			op += ":" + optStyleIDs[pick(t, "follow-style", len(optStyleIDs))]
		case "AddStyle":
			op += ":" + []string{"VerifCustom", "Heading1", "Normal", "a b", `x"<&`, "TableGrid"}[pick(t, "follow-newstyle", 6)]
		case "ApplyTableStyle":
			op += ":" + []string{"TableGrid", "TableNormal", "TableColorful1", "TableList", "MyTable", "Normal"}[pick(t, "follow-tblstyle", 6)]
		}
		out = append(out, op)
	}
	return out
}

// genOptCase: generator (o).
func genOptCase(t *rapid.T, c *Case) {
	g := &gctx{t: t, v: TheVocab(), max: 60}
	ov := TheOptVocab()
	c.Gen = "o"
	c.Parts = map[string]*XMLPart{}
	labels := map[string]bool{}
	// which parts: one for sure, the others with probability 1/3
	first := ov.Parts[pick(t, "opt-part", len(ov.Parts))]
	var names []string
	for _, p := range ov.Parts {
		if p == first || chance(t, "opt-also", 330) {
			names = append(names, p)
		}
	}
	ids := map[string][]string{}
	var all []string
	for _, name := range names {
		p, pids := g.optPart(name, labels)
		c.Parts[name] = p
		ids[rootOfPart(name)] = pids
		all = append(all, pids...)
	}
	// content types and relationships of the main part name the parts (mostly)
	ct := stdTree(nCT)
	rels := stdTree(nDocRels)
	touchedCT, touchedRels := false, false
	rid := 3
	for _, name := range names {
		if name == nStyles {
			continue // the standard container already names it
		}
		if chance(t, "opt-ct", 850) {
			ct.C = append(ct.C, el("Override", at("PartName", "/"+name, "ContentType", partContentType(name))))
			touchedCT = true
		}
		if chance(t, "opt-rel", 850) {
			id := "rId" + strconv.Itoa(rid)
			rid += 1 + pick(t, "opt-rid-gap", 3)
			if chance(t, "opt-rid-clash", 60) {
				id = "rId2"
			}
			rels.C = append(rels.C, el("Relationship", at("Id", id, "Type", nsR+"/"+rootOfPart(name), "Target", strings.TrimPrefix(name, "word/"))))
			touchedRels = true
		}
	}
	if touchedCT {
		c.Parts[nCT] = &XMLPart{Root: ct}
	}
	if touchedRels {
		c.Parts[nDocRels] = &XMLPart{Root: rels}
	}
	// the main part refers to what the parts define
	switch k := pick(t, "opt-main", 10); {
	case k < 6:
		someID := func(root, dflt string) string {
			if l := ids[root]; len(l) > 0 && chance(t, "opt-ref-known", 800) {
				return l[pick(t, "opt-ref", len(l))]
			}
			return dflt
		}
		body := el("w:body", nil,
			el("w:p", nil, el("w:pPr", nil, el("w:pStyle", at("w:val", someID("styles", "Heading1"))), el("w:numPr", nil, el("w:ilvl", at("w:val", "0")), el("w:numId", at("w:val", someID("numbering", "1"))))),
				el("w:r", nil, txt("w:t", nil, "first item"))),
			el("w:p", nil, el("w:r", nil, txt("w:t", at("xml:space", "preserve"), "text "))),
			el("w:p", nil, el("w:r", nil, txt("w:t", nil, "noted")),
				el("w:r", nil, el("w:rPr", nil, el("w:rStyle", at("w:val", "FootnoteReference"))), el("w:footnoteReference", at("w:id", someID("footnotes", "1")))),
				el("w:r", nil, el("w:rPr", nil, el("w:vertAlign", at("w:val", "superscript"))), el("w:endnoteReference", at("w:id", someID("endnotes", "1"))))))
		if chance(t, "opt-main-table", 500) {
			tb := stdTable(2, 2, true)
			tb.C[0].C = append([]Node{el("w:tblStyle", at("w:val", someID("styles", "TableGrid")))}, tb.C[0].C...)
			body.C = append(body.C, tb)
		}
		body.C = append(body.C, el("w:sectPr", nil, el("w:footnotePr", nil, el("w:numFmt", at("w:val", "lowerRoman"))), el("w:pgSz", at("w:w", "11906", "w:h", "16838"))))
		root := el("w:document", rootNS(nsW), body)
		c.Parts[nMain] = &XMLPart{Root: &root}
	case k < 9:
		c.Parts[nMain] = genMainPart(t, 0)
	}
	c.Follow = genFollow(t, all)
}

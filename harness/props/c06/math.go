package c06

// Formula paragraphs (Office Math, OMML) as word processors write them.
//
// The reader keeps the inside of a formula paragraph as the TEXT it found in the file and writes that text back into the
// regenerated main part. Whatever the reader's XML decoder tolerates and XML does not (the same attribute twice, an XML
// declaration or a markup declaration in the middle, a prefix declared somewhere the regenerated part no longer declares it)
// therefore decides whether "a successfully opened document re-saves to a well-formed main part". The generic grammar never
// reaches that code: it writes every element with the w: prefix, and the reader takes m:oMath / m:oMathPara only in the math
// namespace. This generator writes
//
//   - the forms: m:oMath directly in the paragraph, m:oMathPara (with m:oMathParaPr, with one or several m:oMath), several
//     formulas in one paragraph, formulas next to runs, w:pPr in front;
//   - the bindings: prefix m declared on w:document (Word), another prefix (mml, ns1 ...) declared on w:document or on the
//     formula itself, the math namespace as default namespace of the formula, m bound to another namespace, no declaration;
//   - the content: runs with m:rPr / w:rPr, fractions, scripts, radicals, delimiters, n-ary operators, functions, matrices,
//     accents, equation arrays - nested; attribute values and text of every class (references, quotes, '>', line ends);
//   - and, in a fraction of the formulas, markup the decoder of encoding/xml reads without complaint: duplicated attributes,
//     processing instructions (target xml included), markup declarations, comments, CDATA sections, namespace declarations
//     repeated / changed on inner elements, attributes without prefix or in other namespaces, text directly inside m:oMath,
//     word-processing elements inside the formula, elements of no namespace.

import (
	"pgregory.net/rapid"
)

// mathPrefixModes: how the math namespace is bound in the input.
var mathPrefixModes = []string{"m@root", "m@root", "m@root", "m@root", "m@root", "m@root", "m@root", "m@root", "m@root", "m@root", "m@self", "other@root", "other@root", "other@self", "default@self", "m=other-ns", "undeclared"}

var otherMathPrefixes = []string{"mml", "ns1", "m0", "math", "M", "a14"}

var mathTexts = []string{"x", "y", "1", "2", "n", "+", "=", "−", "∑", "π", "sin", " ", "", "x ", " a b ", "α+β", "x<y", "a&b", "\"q\"", "it's", "]]>", "a\tb", "a\r\nb", "𝑥"}

// raw markup encoding/xml's decoder accepts inside an element (strict mode); some of it is not XML at that place
var mathRawMarkup = []string{
	`<?xml version="1.0"?>`, `<?xml version="1.0" encoding="UTF-8" standalone="yes"?>`, `<?XML x?>`, `<?xml?>`, `<?xml-stylesheet href="a.css"?>`,
	`<?mso-application progid="Word.Document"?>`, `<?pi?>`, `<?pi x y?>`,
	`<!DOCTYPE x>`, `<!DOCTYPE m:oMath [<!ENTITY e "v">]>`, `<!ELEMENT x ANY>`, `<!x>`, `<!ENTITY e "v">`,
	`<!-- c -->`, `<!---->`, `<!-- <m:r> -->`, `<![CDATA[x<y&z]]>`, `<![CDATA[]]>`, `<![CDATA[<m:r><m:t>]]>`,
	"\n  ", "\r\n\t", "text", "&#x41;&#65;", "&amp;&lt;&gt;&quot;&apos;", "&#10;&#13;&#9;", "]]&gt;",
}

// attribute values written verbatim between double quotes (the decoder accepts them)
var mathRawAttrValues = []string{`a>b`, `a&#10;b`, `a'b`, "a\nb", "a\tb", `&quot;`, `&amp;`, `&#x41;`, ` p `, ``, `&lt;`, `]]>`, `--`, `?>`}

type mathGen struct {
	g    *gctx
	mode string
	pfx  string // prefix of the math elements ("" = default namespace)
	ns   string // namespace the prefix is bound to
}

func (m *mathGen) q(local string) string {
	if m.pfx == "" {
		return local
	}
	return m.pfx + ":" + local
}

// a: name of an attribute of the math namespace (attributes need a prefix to be in a namespace)
func (m *mathGen) a(local string) string {
	if m.pfx == "" {
		return "m:" + local // Word writes m:val; with a default-namespace formula the attribute prefix needs its own binding
	}
	return m.pfx + ":" + local
}

func (m *mathGen) val(name, v string) Node { return el(m.q(name), at(m.a("val"), v)) }

func (m *mathGen) text() string {
	t := m.g.t
	if chance(t, "math-uniq-text", 150) {
		return m.g.uniqueValue("s", "v")
	}
	return mathTexts[pick(t, "math-text", len(mathTexts))]
}

func (m *mathGen) ctrlPr() Node {
	return el(m.q("ctrlPr"), nil, el("w:rPr", nil, el("w:rFonts", at("w:ascii", "Cambria Math", "w:hAnsi", "Cambria Math")), el("w:i", nil)))
}

func (m *mathGen) run() Node {
	t := m.g.t
	m.g.nodes += 2
	r := el(m.q("r"), nil)
	if chance(t, "math-rpr", 400) {
		pr := el(m.q("rPr"), nil)
		switch pick(t, "math-rpr-kind", 5) {
		case 0:
			pr.C = append(pr.C, m.val("sty", []string{"p", "b", "i", "bi", "", "x"}[pick(t, "math-sty", 6)]))
		case 1:
			pr.C = append(pr.C, m.val("scr", []string{"roman", "script", "fraktur", "double-struck"}[pick(t, "math-scr", 4)]))
		case 2:
			pr.C = append(pr.C, el(m.q("nor"), nil))
		case 3:
			pr.C = append(pr.C, el(m.q("lit"), nil), m.val("sty", "p"))
		default:
			pr.C = append(pr.C, el(m.q("brk"), at(m.a("alnAt"), "1")))
		}
		r.C = append(r.C, pr)
	}
	if chance(t, "math-wrpr", 500) {
		r.C = append(r.C, el("w:rPr", nil, el("w:rFonts", at("w:ascii", "Cambria Math", "w:hAnsi", "Cambria Math", "w:eastAsia", m.g.uniqueValue("s", "font"))), el("w:sz", at("w:val", "24"))))
	}
	tx := txt(m.q("t"), nil, m.text())
	if chance(t, "math-space", 300) {
		tx.A = at("xml:space", "preserve")
	}
	r.C = append(r.C, tx)
	return r
}

// arg: an argument element (m:e, m:num, m:sup ...) holding math content.
func (m *mathGen) arg(name string, depth int) Node {
	n := el(m.q(name), nil)
	if chance(m.g.t, "math-argpr", 100) {
		n.C = append(n.C, el(m.q("argPr"), nil, m.val("argSz", "-1")))
	}
	n.C = append(n.C, m.content(depth+1, 2)...)
	return n
}

// content: 0..max math objects.
func (m *mathGen) content(depth, max int) []Node {
	t := m.g.t
	var out []Node
	n := pick(t, "math-n", max+1)
	if depth == 0 && n == 0 && !chance(t, "math-empty", 80) {
		n = 1
	}
	for i := 0; i < n; i++ {
		if depth >= 3 || m.g.nodes > m.g.max+60 {
			out = append(out, m.run())
			continue
		}
		m.g.nodes += 3
		switch pick(t, "math-obj", 16) {
		case 0, 1, 2, 3, 4:
			out = append(out, m.run())
		case 5:
			f := el(m.q("f"), nil)
			if rapid.Bool().Draw(t, "math-fpr") {
				f.C = append(f.C, el(m.q("fPr"), nil, m.val("type", []string{"bar", "skw", "lin", "noBar"}[pick(t, "math-ftype", 4)]), m.ctrlPr()))
			}
			f.C = append(f.C, m.arg("num", depth), m.arg("den", depth))
			out = append(out, f)
		case 6:
			out = append(out, el(m.q("sSup"), nil, m.arg("e", depth), m.arg("sup", depth)))
		case 7:
			out = append(out, el(m.q("sSubSup"), nil, el(m.q("sSubSupPr"), nil, m.val("alnScr", "1")), m.arg("e", depth), m.arg("sub", depth), m.arg("sup", depth)))
		case 8:
			out = append(out, el(m.q("rad"), nil, el(m.q("radPr"), nil, m.val("degHide", "1")), el(m.q("deg"), nil), m.arg("e", depth)))
		case 9:
			out = append(out, el(m.q("d"), nil, el(m.q("dPr"), nil, m.val("begChr", []string{"[", "{", "|", "", "<", "&", "\""}[pick(t, "math-chr", 7)]), m.val("endChr", "]"), m.val("sepChr", ",")),
				m.arg("e", depth), m.arg("e", depth)))
		case 10:
			out = append(out, el(m.q("nary"), nil, el(m.q("naryPr"), nil, m.val("chr", "∑"), m.val("limLoc", "undOvr"), m.val("subHide", "0")), m.arg("sub", depth), m.arg("sup", depth), m.arg("e", depth)))
		case 11:
			out = append(out, el(m.q("func"), nil, el(m.q("fName"), nil, m.run()), m.arg("e", depth)))
		case 12:
			mx := el(m.q("m"), nil, el(m.q("mPr"), nil, el(m.q("mcs"), nil, el(m.q("mc"), nil, el(m.q("mcPr"), nil, m.val("count", "2"), m.val("mcJc", "center"))))))
			for r, rows := 0, 1+pick(t, "math-mrows", 3); r < rows; r++ {
				mx.C = append(mx.C, el(m.q("mr"), nil, m.arg("e", depth), m.arg("e", depth)))
			}
			out = append(out, mx)
		case 13:
			out = append(out, el(m.q("acc"), nil, el(m.q("accPr"), nil, m.val("chr", "̂")), m.arg("e", depth)))
		case 14:
			ea := el(m.q("eqArr"), nil)
			for r, rows := 0, 1+pick(t, "math-eqrows", 3); r < rows; r++ {
				ea.C = append(ea.C, m.arg("e", depth))
			}
			out = append(out, ea)
		default:
			out = append(out, el(m.q("limLow"), nil, m.arg("e", depth), m.arg("lim", depth)))
		}
	}
	return out
}

func (m *mathGen) oMath() Node {
	n := el(m.q("oMath"), nil, m.content(0, 3)...)
	m.selfDecl(&n)
	return n
}

// selfDecl: the formula element carries the namespace declaration itself.
func (m *mathGen) selfDecl(n *Node) {
	switch m.mode {
	case "m@self", "other@self":
		n.A = append(n.A, Attr{N: "xmlns:" + m.pfx, V: m.ns})
	case "default@self":
		n.A = append(n.A, Attr{N: "xmlns", V: m.ns}, Attr{N: "xmlns:m", V: m.ns})
	}
}

// hostile adds markup the decoder of encoding/xml tolerates somewhere inside the formula.
func (m *mathGen) hostile(f *Node) string {
	t := m.g.t
	node := func(pred func(*Node, int) bool) *Node { return pickNode(t, f, "math-node", pred) }
	kind := []string{"dupattr", "dupattr", "dupspace", "rawmarkup", "rawmarkup", "rawmarkup", "rawmarkup", "redeclare", "attr-ns", "rawattr", "text-in-omath", "word-inside", "nested-omath", "unknown-elem", "selfclosed", "attr-on-omath"}[pick(t, "math-hostile", 16)]
	switch kind {
	case "dupattr":
		n := node(func(n *Node, i int) bool { return len(n.A) > 0 })
		if n == nil {
			n = node(nil)
			n.A = append(n.A, Attr{N: m.a("val"), V: "p"})
		}
		d := n.A[pick(t, "math-dup-which", len(n.A))]
		if rapid.Bool().Draw(t, "math-dup-other-value") {
			d.V = "b"
		}
		if chance(t, "math-dup-first", 300) {
			n.A = append([]Attr{d}, n.A...)
		} else {
			n.A = append(n.A, d)
		}
	case "dupspace":
		n := node(func(n *Node, i int) bool { return localOf(n.N) == "t" })
		if n == nil {
			n = node(nil)
		}
		n.A = append(n.A, Attr{N: "xml:space", V: "preserve"}, Attr{N: "xml:space", V: []string{"default", "preserve"}[pick(t, "math-space2", 2)]})
	case "rawmarkup":
		raw := mathRawMarkup[pick(t, "math-raw", len(mathRawMarkup))]
		n := node(nil)
		if len(n.C) > 0 && rapid.Bool().Draw(t, "math-raw-between") {
			at := pick(t, "math-raw-at", len(n.C)+1)
			n.C = append(n.C[:at], append([]Node{{N: rawName, RawT: raw}}, n.C[at:]...)...)
		} else {
			n.RawT += raw
		}
		kind += ":" + rawClass(raw)
	case "redeclare":
		n := node(func(n *Node, i int) bool { return i > 0 })
		if n == nil {
			n = f
		}
		switch pick(t, "math-redecl", 7) {
		case 0:
			n.A = append(n.A, Attr{N: "xmlns:m", V: nsM})
		case 1:
			n.A = append(n.A, Attr{N: "xmlns:w", V: nsW})
		case 2:
			n.A = append(n.A, Attr{N: "xmlns:m", V: "http://schemas.microsoft.com/office/2004/12/omml"})
		case 3:
			n.A = append(n.A, Attr{N: "xmlns:x", V: "urn:x"}, Attr{N: "x:a", V: "1"})
		case 4:
			n.A = append(n.A, Attr{N: "xmlns", V: ""})
		case 5:
			n.A = append(n.A, Attr{N: "xmlns", V: nsM})
		default:
			n.A = append(n.A, Attr{N: "xmlns:m", V: nsM}, Attr{N: "xmlns:m", V: nsM})
		}
	case "attr-ns":
		n := node(nil)
		n.A = append(n.A, []Attr{{N: "val", V: "p"}, {N: "xml:lang", V: "en-US"}, {N: "w:val", V: "1"}, {N: "w14:paraId", V: "0A1B2C3D"}, {N: "w:rsidR", V: m.g.uniqueValue("rsid", "")}, {N: "xml:id", V: "a"}}[pick(t, "math-attr-ns", 6)])
	case "rawattr":
		n := node(nil)
		n.A = append(n.A, Attr{N: m.a("val"), V: mathRawAttrValues[pick(t, "math-rawattr", len(mathRawAttrValues))], Raw: true})
	case "text-in-omath":
		f.T = m.text()
	case "word-inside":
		n := node(nil)
		w := []Node{el("w:bookmarkStart", at("w:id", "3", "w:name", "_eq")), el("w:bookmarkEnd", at("w:id", "3")), el("w:r", nil, txt("w:t", nil, "w")), el("w:proofErr", at("w:type", "gramStart")),
			el("w:ins", at("w:id", "5", "w:author", "a"), m.run()), el("w:rPr", nil, el("w:b", nil))}[pick(t, "math-word", 6)]
		n.C = append(n.C, w)
	case "nested-omath":
		n := node(nil)
		n.C = append(n.C, el(m.q("oMath"), nil, m.run()))
	case "unknown-elem":
		n := node(nil)
		n.C = append(n.C, []Node{el(m.q("foo"), at(m.a("val"), "1")), el("foo", nil), el("x:foo", nil), el("w14:foo", nil), el("mc:AlternateContent", nil)}[pick(t, "math-unknown", 5)])
	case "selfclosed":
		f.C, f.T = nil, ""
		if rapid.Bool().Draw(t, "math-selfclose") {
			f.F = "selfclose"
		}
	case "attr-on-omath":
		f.A = append(f.A, Attr{N: "w:rsidR", V: "00AB12CD"})
	}
	return kind
}

func rawClass(raw string) string {
	switch {
	case len(raw) > 1 && raw[:2] == "<?":
		return "pi"
	case len(raw) > 3 && raw[:4] == "<!--":
		return "comment"
	case len(raw) > 2 && raw[:3] == "<![":
		return "cdata"
	case len(raw) > 1 && raw[:2] == "<!":
		return "directive"
	}
	return "text"
}

// mathParagraph returns a body-level paragraph holding one or more formulas and records what w:document has to declare.
func (g *gctx) mathParagraph() Node {
	t := g.t
	g.nodes += 4
	m := &mathGen{g: g, ns: nsM}
	m.mode = mathPrefixModes[pick(t, "math-mode", len(mathPrefixModes))]
	switch m.mode {
	case "m@root", "m@self", "undeclared":
		m.pfx = "m"
	case "other@root", "other@self":
		m.pfx = otherMathPrefixes[pick(t, "math-pfx", len(otherMathPrefixes))]
	case "default@self":
		m.pfx = ""
	case "m=other-ns":
		m.pfx = "m"
		m.ns = []string{"http://schemas.microsoft.com/office/2004/12/omml", "http://www.w3.org/1998/Math/MathML", nsW, "urn:x"}[pick(t, "math-other-ns", 4)]
	}
	switch m.mode {
	case "m@root", "other@root", "m=other-ns":
		g.declare("xmlns:"+m.pfx, m.ns)
	case "default@self":
		g.declare("xmlns:m", nsM)
	default:
		if rapid.Bool().Draw(t, "math-root-too") {
			g.declare("xmlns:m", nsM)
		}
	}
	g.shape("math")
	g.shape("math:bind:" + m.mode)
	p := el("w:p", nil)
	if chance(t, "math-ppr", 350) {
		p.C = append(p.C, el("w:pPr", nil, el("w:jc", at("w:val", "center")), el("w:rPr", nil, el("w:rFonts", at("w:ascii", "Cambria Math")))))
	}
	form := []string{"oMath", "oMath", "oMath", "oMath", "oMath", "oMath", "oMathPara", "oMathPara", "oMathPara", "oMathPara", "oMathPara-2", "two", "with-run-before", "with-run-after"}[pick(t, "math-form", 14)]
	var formulas []*Node
	add := func(host *Node) {
		host.C = append(host.C, m.oMath())
	}
	switch form {
	case "oMath":
		add(&p)
	case "oMathPara", "oMathPara-2":
		mp := el(m.q("oMathPara"), nil)
		m.selfDecl(&mp)
		if chance(t, "math-parapr", 600) {
			mp.C = append(mp.C, el(m.q("oMathParaPr"), nil, m.val("jc", []string{"center", "left", "right", "centerGroup"}[pick(t, "math-jc", 4)])))
		}
		add(&mp)
		if form == "oMathPara-2" {
			add(&mp)
		}
		p.C = append(p.C, mp)
	case "two":
		add(&p)
		add(&p)
	case "with-run-before":
		p.C = append(p.C, el("w:r", nil, txt("w:t", at("xml:space", "preserve"), "where ")))
		add(&p)
	case "with-run-after":
		add(&p)
		p.C = append(p.C, el("w:r", nil, txt("w:t", nil, ".")))
	}
	// the formulas, wherever they ended up
	p.walk(func(n *Node) {
		if localOf(n.N) == "oMath" {
			formulas = append(formulas, n)
		}
	})
	g.shape("math:form:" + form)
	if len(formulas) > 0 && chance(t, "math-hostile?", 500) {
		for i, k := 0, 1+pick(t, "math-hostile-n", 2); i < k; i++ {
			g.shape("math:odd:" + m.hostile(formulas[pick(t, "math-which", len(formulas))]))
		}
	}
	return p
}

// declare records a namespace declaration w:document has to carry (mainTree adds them).
func (g *gctx) declare(name, ns string) {
	for _, a := range g.rootDecl {
		if a.N == name {
			return
		}
	}
	g.rootDecl = append(g.rootDecl, Attr{N: name, V: ns})
}

// shape records a producer shape the case contains (goes into XMLPart.Ops as "shape:..."; evidence only, not a fault).
func (g *gctx) shape(s string) {
	for _, x := range g.shapes {
		if x == s {
			return
		}
	}
	g.shapes = append(g.shapes, s)
}

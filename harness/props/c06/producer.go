package c06

// Generators of the shapes other producers write and the library itself never does:
//
//   - content controls (w:sdt, block level and inline, nested) with every w:sdtPr child the reader looks at (taken from the
//     extracted vocabulary) plus the common ones it skips, and complex / simple fields whose instruction is split over several
//     runs at arbitrary positions, truncated, with unbalanced quotes, with incomplete w:fldChar sequences;
//   - string VALUES (attribute values, instruction text) composed from the string constants the reader of the enclosing element
//     compares a value against or slices it with (Vocab.Pools, extracted with go/ast next to the element names): whole,
//     chained in source order, with digits in between, truncated at an arbitrary byte;
//   - attribute values that are distinct within a case and from case to case (ids, names, rsids, widths, colours), in a
//     fraction of the cases tens of thousands of them in one part: every C06 process opens thousands of generated packages,
//     so whatever the reader keeps per process (interning tables, caches, counters with limits) grows past the usual limits.

import (
	"fmt"
	"strconv"
	"strings"
	"unicode/utf8"

	"pgregory.net/rapid"

	"wzverif/internal/gen"
	"wzverif/internal/kit"
)

// fieldInstructions are field codes as word processors write them (ECMA-376 part 1, 17.16.5).
var fieldInstructions = []string{
	` TOC \o "1-3" \h \z \u `, `TOC \o "1-9"`, ` TOC \h \z \t "Heading 1,1,Heading 2,2" `, ` TOC \o "2-2" \n 1-1 \p " " `, ` PAGE `, ` PAGE   \* MERGEFORMAT `, ` NUMPAGES `,
	` PAGEREF _Toc123456 \h `, ` HYPERLINK \l "_Toc123456" `, ` HYPERLINK "http://example.com/?a=1&b=2" \o "tip" `, ` REF _Ref1 \r \h `, ` SEQ Figure \* ARABIC `,
	` DATE \@ "yyyy-MM-dd" `, ` STYLEREF "Heading 1" \n `, ` TC "entry" \f C \l "2" `, ` XE "index:entry" `, ` INDEX \c "2" \z "1033" `, ` IF 1 = 1 "a" "b" `, ` = 1 + 2 \# "0.00" `,
	` MERGEFIELD name \* Upper `, ` FORMTEXT `, ` QUOTE "x" `, ``, ` `, `\o`, `"`,
}

// foreign children of w:sdtPr (the reader skips them; other producers write them) with the attribute they carry.
var sdtPrForeign = []string{"alias", "lock", "showingPlcHdr", "temporary", "text", "dataBinding", "date", "richText", "comboBox", "w15:appearance", "w14:checkbox"}

var galleryValues = []string{"Table of Contents", "Bibliographies", "Cover Pages", "Page Numbers (Bottom of Page)", "Watermarks", "Custom 1", "Quick Parts", "Tables of Contents"}

// truncate cuts s at an arbitrary rune boundary (possibly to nothing).
func (g *gctx) truncate(s string) string {
	if len(s) == 0 {
		return s
	}
	at := pick(g.t, "cut-at", len(s)+1)
	if chance(g.t, "cut-mid-rune", 80) {
		return s[:at] // wherever the byte offset falls: a multi-byte character may be cut in two
	}
	for at > 0 && at < len(s) && !utf8.RuneStart(s[at]) {
		at--
	}
	return s[:at]
}

// scramble draws 64 bits without rapid's preference for small values and bounds: its integer generators return a value
// below 256 in about half of the draws, so "IntRange(0, n) == 0" is no way to make something rare and SampledFrom no way to
// choose evenly. Two draws are mixed; all-zero (what shrinking aims at) is kept recognisable.
func scramble(t *rapid.T, label string) (x uint64, zero bool) {
	v := uint64(rapid.Uint32().Draw(t, label))<<32 | uint64(rapid.Uint32().Draw(t, label+"'"))
	x = (v + 0x51ED27) * 0x9E3779B97F4A7C15
	x ^= x >> 29
	x *= 0xBF58476D1CE4E5B9
	x ^= x >> 32
	return x, v == 0
}

// pick draws an index in [0, n), evenly.
func pick(t *rapid.T, label string, n int) int {
	if n <= 1 {
		return 0
	}
	x, zero := scramble(t, label)
	if zero {
		return 0
	}
	return int(x % uint64(n))
}

// poolValue composes a value from the constants of the enclosing elements' readers; ok=false when there are none.
// Constants the reader compares for equality are used whole; constants it slices with (prefixes, switches, separators) are
// chained in the order the code uses them, with digits in between, and sometimes cut at an arbitrary byte.
func (g *gctx) poolValue() (string, bool) {
	t := g.t
	var eq []string
	var chains [][]string
	for _, cs := range g.pools {
		eq = append(eq, cs.Eq...)
		if len(cs.Sl) > 0 {
			chains = append(chains, cs.Sl)
		}
	}
	if len(eq)+len(chains) == 0 {
		return "", false
	}
	if len(eq) > 0 && (len(chains) == 0 || chance(t, "pool-eq", 450)) {
		s := eq[pick(t, "pool-eq-i", len(eq))]
		if chance(t, "pool-eq-odd", 300) {
			switch pick(t, "pool-eq-how", 6) {
			case 0, 4, 5:
				s = g.truncate(s)
			case 1:
				s = strings.ToLower(s)
			case 2:
				s = s + " "
			default:
				s = " " + s
			}
		}
		return s, true
	}
	chain := chains[pick(t, "pool-fn", len(chains))]
	digits := func() string {
		return []string{"", "1", "3", "9", "0", "12", "-1", "99999999999999999999", "x", " "}[pick(t, "pool-digits", 10)]
	}
	var s string
	switch m := pick(t, "pool-mode", 20); {
	case m < 3: // one constant, as it is
		s = chain[pick(t, "pool-one", len(chain))]
	case m < 15: // the first k constants in the order the code uses them, digits in between
		k := 1 + pick(t, "pool-k", len(chain))
		var b strings.Builder
		if chance(t, "pool-lead", 300) {
			b.WriteString(" ")
		}
		for i := 0; i < k; i++ {
			if i == 1 {
				b.WriteString([]string{" ", " ", " ", "", "  ", "\t"}[pick(t, "pool-sep", 6)])
			} else if i > 1 {
				b.WriteString(digits())
			}
			b.WriteString(chain[i])
		}
		if chance(t, "pool-tail", 500) {
			b.WriteString(digits())
		}
		if chance(t, "pool-more", 300) {
			b.WriteString([]string{` \h \z \u `, ` \h`, ` `, `"`, ` "x"`, ` \* MERGEFORMAT`}[pick(t, "pool-rest", 6)])
		}
		s = b.String()
	default: // any constants of any of the functions, in any order
		var b strings.Builder
		for i, n := 0, 1+pick(t, "pool-n", 4); i < n; i++ {
			c := chains[pick(t, "pool-fn2", len(chains))]
			b.WriteString(c[pick(t, "pool-any", len(c))])
			b.WriteString([]string{"", " ", "1", "3"}[pick(t, "pool-glue", 4)])
		}
		s = b.String()
	}
	if chance(t, "pool-trunc", 150) {
		s = g.truncate(s)
	}
	return s, true
}

// ownValue composes a value from the constants a value read from element elem is compared with / sliced by (Vocab.Own).
func (g *gctx) ownValue(elem string) (string, bool) {
	own := g.v.Own[elem]
	if len(own) == 0 {
		return "", false
	}
	save := g.pools
	g.pools = own
	defer func() { g.pools = save }()
	return g.poolValue()
}

// stringSlot fills a free-form string position (w:tag, w:alias, gallery names, instructions ...) of element elem.
func (g *gctx) stringSlot(elem string, extra []string) string {
	t := g.t
	if len(g.v.Own[elem]) > 0 && chance(t, "slot-own", 600) {
		if s, ok := g.ownValue(elem); ok {
			return s
		}
	}
	switch k := pick(t, "slot", 20); {
	case k < 11:
		if s, ok := g.poolValue(); ok {
			return s
		}
	case k < 13:
		s, _ := gen.Text(t, "slot-text", gen.ClsXMLMeta, gen.ClsUnicode, gen.ClsEmpty, gen.ClsBlank, gen.ClsLong, gen.ClsASCII)
		return s
	case k < 15:
		return g.uniqueValue("s", "v")
	}
	if len(extra) > 0 {
		s := extra[pick(t, "slot-extra", len(extra))]
		if chance(t, "slot-trunc", 150) {
			s = g.truncate(s)
		}
		return s
	}
	return rapid.SampledFrom(enumVals).Draw(t, "slot-enum")
}

// uniqueValue returns a value no other slot of this case (and, through the salt, hardly any other case) carries.
func (g *gctx) uniqueValue(kind, prefix string) string {
	if g.salt == 0 {
		g.salt = int64(rapid.IntRange(1, 1<<30).Draw(g.t, "salt"))
	}
	g.uniq++
	switch kind {
	case "n":
		return strconv.FormatInt((g.salt*7919+g.uniq*104729)%10000000, 10)
	case "h":
		return fmt.Sprintf("%06X", (g.salt*31+g.uniq*7919)&0xFFFFFF)
	case "rsid":
		return fmt.Sprintf("%08X", (g.salt*131+g.uniq*7919)&0xFFFFFFFF)
	}
	return prefix + strconv.FormatInt(g.salt, 36) + "_" + strconv.FormatInt(g.uniq, 10)
}

// uniqueKind tells which kind of distinct value suits an attribute.
func uniqueKind(elem, a string) (kind, prefix string) {
	switch a {
	case "name", "descr", "title", "ascii", "hAnsi", "eastAsia", "cs", "fmt", "alias":
		return "s", a
	case "color", "fill":
		return "h", ""
	case "embed":
		return "s", "rId"
	}
	if strings.HasPrefix(a, "rsid") {
		return "rsid", ""
	}
	if a == "id" && strings.HasSuffix(elem, "Reference") {
		return "s", "rId"
	}
	if a == "val" {
		switch elem {
		case "pStyle", "tblStyle", "rStyle", "tag", "docPartGallery", "docPart":
			return "s", "S"
		case "color", "highlight":
			return "h", ""
		case "gridSpan", "vMerge", "jc", "vAlign", "textDirection", "u", "ilvl":
			return "", "" // a distinct value here is only another invalid enum / a span of millions
		}
	}
	return "n", ""
}

// splitPieces cuts s at k arbitrary rune boundaries (pieces may be empty).
func (g *gctx) splitPieces(s string) []string {
	k := []int{0, 0, 1, 1, 1, 2, 2, 3, 5}[pick(g.t, "pieces", 9)]
	if k == 0 || len(s) == 0 {
		return []string{s}
	}
	cuts := make([]int, k)
	for i := range cuts {
		at := pick(g.t, "split-at", len(s)+1)
		for at > 0 && at < len(s) && !utf8.RuneStart(s[at]) {
			at--
		}
		cuts[i] = at
	}
	for i := 1; i < len(cuts); i++ { // insertion sort (k <= 5)
		for j := i; j > 0 && cuts[j] < cuts[j-1]; j-- {
			cuts[j], cuts[j-1] = cuts[j-1], cuts[j]
		}
	}
	var out []string
	prev := 0
	for _, c := range cuts {
		out = append(out, s[prev:c])
		prev = c
	}
	return append(out, s[prev:])
}

// instruction draws a field instruction: from the reader's constants, or one a word processor writes; sometimes truncated.
func (g *gctx) instruction() string {
	s := g.stringSlot("instrText", fieldInstructions)
	if chance(g.t, "instr-unquote", 100) {
		// unbalanced quotes: drop the last one
		if i := strings.LastIndexByte(s, '"'); i >= 0 {
			s = s[:i] + s[i+1:]
		}
	}
	return s
}

var fldCharTypes = []string{"begin", "separate", "end"}

func (g *gctx) fldChar(typ string) Node {
	t := g.t
	if chance(t, "fldchar-odd", 60) {
		typ = rapid.SampledFrom([]string{"", "Begin", "END", "x", "begin ", "separate", "end", "begin"}).Draw(t, "fldchar-type")
	}
	n := el("w:r", nil, el("w:fldChar", at("w:fldCharType", typ)))
	if chance(t, "fldchar-noattr", 50) {
		n.C[0].A = nil
	}
	if rapid.IntRange(0, 5).Draw(t, "fldchar-rpr") == 0 {
		n.C = append([]Node{el("w:rPr", nil, el("w:noProof", nil))}, n.C...)
	}
	return n
}

// fieldRuns returns the runs of a complex field: begin, the instruction split over several runs, separate, result, end - with
// parts of the sequence missing, doubled or nested in a fraction of the cases.
func (g *gctx) fieldRuns(depth int) []Node {
	t := g.t
	g.nodes += 6
	var out []Node
	keep := func(label string) bool { return !chance(t, label, 100) }
	if keep("fld-begin") {
		out = append(out, g.fldChar("begin"))
	}
	for i, piece := range g.splitPieces(g.instruction()) {
		g.nodes++
		r := el("w:r", nil)
		if rapid.IntRange(0, 3).Draw(t, "instr-rpr") == 0 {
			r.C = append(r.C, el("w:rPr", nil, el("w:b", nil), el("w:sz", at("w:val", "21"))))
		}
		it := txt("w:instrText", at("xml:space", "preserve"), piece)
		if rapid.IntRange(0, 4).Draw(t, "instr-nospace") == 0 {
			it.A = nil
		}
		r.C = append(r.C, it)
		switch pick(t, "instr-extra", 14) {
		case 0: // two w:instrText in one run
			r.C = append(r.C, txt("w:instrText", nil, rapid.SampledFrom([]string{"", " ", `"`, ` \h`, `3" `}).Draw(t, "instr-second")))
		case 1: // text next to the instruction
			r.C = append(r.C, txt("w:t", nil, "x"))
		case 2: // what revision tracking writes
			it.N = "w:delInstrText"
			r.C[len(r.C)-1] = it
		}
		out = append(out, r)
		if i == 0 && depth < 2 && chance(t, "fld-nested", 60) {
			out = append(out, g.fieldRuns(depth+1)...)
		}
		if chance(t, "fld-between", 100) {
			out = append(out, rapid.SampledFrom([]Node{el("w:proofErr", at("w:type", "spellStart")), el("w:bookmarkStart", at("w:id", "7", "w:name", "_GoBack")), el("w:bookmarkEnd", at("w:id", "7"))}).Draw(t, "between"))
		}
	}
	if keep("fld-separate") {
		out = append(out, g.fldChar("separate"))
	}
	if keep("fld-result") {
		out = append(out, el("w:r", nil, txt("w:t", nil, rapid.SampledFrom([]string{"Heading\t1", "1", "", "Error! Bookmark not defined."}).Draw(t, "fld-result-text"))))
	}
	if keep("fld-end") {
		out = append(out, g.fldChar("end"))
	}
	if chance(t, "fld-dup-end", 60) {
		out = append(out, g.fldChar("end"))
	}
	if chance(t, "fld-cut", 250) && len(out) > 1 {
		// the sequence simply stops (a document cut and repaired, a field spanning paragraphs): any prefix of it
		out = out[:1+pick(t, "fld-cut-at", len(out)-1)]
	}
	return out
}

// fieldParagraph: a paragraph holding a field (complex, simple, or inside a hyperlink / inline content control).
func (g *gctx) fieldParagraph() Node {
	t := g.t
	g.nodes += 2
	p := el("w:p", nil)
	if rapid.Bool().Draw(t, "fp-ppr") {
		p.C = append(p.C, el("w:pPr", nil, el("w:pStyle", at("w:val", rapid.SampledFrom([]string{"TOC1", "TOC2", "TOCHeading", "Heading1", "a"}).Draw(t, "fp-style"))),
			el("w:tabs", nil, el("w:tab", at("w:val", "right", "w:leader", "dot", "w:pos", "8296")))))
	}
	switch pick(t, "fp-kind", 10) {
	case 0, 1: // w:fldSimple w:instr="..."
		fs := el("w:fldSimple", at("w:instr", g.instruction()), el("w:r", nil, txt("w:t", nil, "1")))
		if rapid.IntRange(0, 5).Draw(t, "fs-noinstr") == 0 {
			fs.A = nil
		}
		p.C = append(p.C, fs)
	case 2: // the field inside a hyperlink, as TOC entries are written
		p.C = append(p.C, el("w:hyperlink", at("w:anchor", g.uniqueValue("s", "_Toc"), "w:history", "1"), g.fieldRuns(0)...))
	case 3: // inside an inline content control
		p.C = append(p.C, g.sdt(3, false))
	default:
		p.C = append(p.C, g.fieldRuns(0)...)
	}
	return p
}

// sdtPr generates w:sdtPr with the children the reader dispatches on (vocabulary) and those it skips.
func (g *gctx) sdtPr() Node {
	t := g.t
	pr := el("w:sdtPr", nil)
	kids := append(append([]string{}, g.v.Children["sdtPr"]...), sdtPrForeign...)
	if len(g.v.Children["sdtPr"]) == 0 {
		kids = append([]string{"rPr", "alias", "tag", "id", "docPartObj", "placeholder"}, sdtPrForeign...)
	}
	pKeep := []int{300, 600, 850, 850}[pick(t, "sdtpr-density", 4)]
	for _, k := range kids {
		if !chance(t, "sdtpr-kid", pKeep) {
			continue
		}
		g.nodes++
		name := k
		if !strings.Contains(k, ":") {
			name = "w:" + k
		}
		switch k {
		case "rPr":
			pr.C = append(pr.C, g.elem("rPr", 8, -1))
		case "docPartObj":
			o := el(name, nil)
			if chance(t, "dpo-gallery", 850) {
				gal := el("w:docPartGallery", at("w:val", g.stringSlot("docPartGallery", galleryValues)))
				if chance(t, "dpo-gallery-noval", 60) {
					gal.A = nil
				}
				o.C = append(o.C, gal)
			}
			if rapid.Bool().Draw(t, "dpo-category") {
				o.C = append(o.C, el("w:docPartCategory", at("w:val", "General")))
			}
			if rapid.IntRange(0, 9).Draw(t, "dpo-unique") < 7 {
				o.C = append(o.C, el("w:docPartUnique", nil))
			}
			if chance(t, "dpo-list", 100) {
				o.N = "w:docPartList" // the sibling form of docPartObj
			}
			pr.C = append(pr.C, o)
		case "placeholder":
			pr.C = append(pr.C, el(name, nil, el("w:docPart", at("w:val", g.stringSlot("docPart", []string{"DefaultPlaceholder_1081868574", "{00000000-0000-0000-0000-000000000000}"})))))
		case "id":
			pr.C = append(pr.C, el(name, at("w:val", rapid.SampledFrom([]string{"147476628", "-1", "0", "2147483648", "", "x"}).Draw(t, "sdt-id"))))
			if rapid.Bool().Draw(t, "sdt-id-uniq") {
				pr.C[len(pr.C)-1].A = at("w:val", g.uniqueValue("n", ""))
			}
		case "showingPlcHdr", "temporary", "text", "richText", "date", "comboBox", "w14:checkbox":
			pr.C = append(pr.C, el(name, nil))
		case "dataBinding":
			pr.C = append(pr.C, el(name, at("w:xpath", "/root[1]/x[1]", "w:storeItemID", "{"+g.uniqueValue("rsid", "")+"}")))
		default: // tag, alias, color, lock, w15:appearance, whatever the reader learns to read later: one w:val
			n := el(name, at("w:val", g.stringSlot(localOf(name), nil)))
			if chance(t, "sdtpr-noval", 60) {
				n.A = nil
			}
			pr.C = append(pr.C, n)
		}
	}
	if rapid.IntRange(0, 5).Draw(t, "sdtpr-shuffle") == 0 && len(pr.C) > 1 {
		i := rapid.IntRange(0, len(pr.C)-1).Draw(t, "sdtpr-swap")
		pr.C[0], pr.C[i] = pr.C[i], pr.C[0]
	}
	return pr
}

// sdt generates a content control. block: body / cell level (paragraphs, tables, nested controls inside), else inline (runs).
func (g *gctx) sdt(depth int, block bool) Node {
	t := g.t
	g.nodes += 3
	// string positions below draw from the constants of the reader of w:sdt (and of the elements around it)
	pop := g.pushPool("sdt")
	defer pop()
	s := el("w:sdt", nil)
	if chance(t, "sdt-pr", 920) {
		s.C = append(s.C, g.sdtPr())
	}
	if chance(t, "sdt-endpr", 250) {
		s.C = append(s.C, el("w:sdtEndPr", nil, g.elem("rPr", 8, -1)))
	}
	if chance(t, "sdt-nocontent", 60) {
		return s
	}
	c := el("w:sdtContent", nil)
	if !block {
		for i, n := 0, rapid.IntRange(0, 2).Draw(t, "sdt-inline-n"); i < n; i++ {
			if rapid.Bool().Draw(t, "sdt-inline-field") {
				c.C = append(c.C, g.fieldRuns(1)...)
			} else {
				c.C = append(c.C, g.elem("r", 7, -1))
			}
		}
		s.C = append(s.C, c)
		return s
	}
	for i, n := 0, pick(t, "sdt-block-n", 5); i < n && g.nodes <= g.max+40; i++ {
		switch k := pick(t, "sdt-block", 20); {
		case k < 8:
			c.C = append(c.C, g.fieldParagraph())
		case k < 11:
			c.C = append(c.C, g.elem("p", 5, -1))
		case k < 13 && depth < 3:
			c.C = append(c.C, g.sdt(depth+1, true))
		case k < 15:
			c.C = append(c.C, g.elem("tbl", 6, -1))
		case k < 17:
			id := g.uniqueValue("n", "")
			c.C = append(c.C, el("w:bookmarkStart", at("w:id", id, "w:name", g.uniqueValue("s", "_Toc"))), g.fieldParagraph(), el("w:bookmarkEnd", at("w:id", id)))
		case k < 18:
			c.C = append(c.C, g.fieldRuns(1)...) // runs directly inside block-level content (the reader accepts w:r there)
		default:
			c.C = append(c.C, el("w:p", nil, el("w:pPr", nil, el("w:pStyle", at("w:val", "TOCHeading"))), el("w:r", nil, txt("w:t", nil, "Contents"))))
		}
	}
	s.C = append(s.C, c)
	if chance(t, "sdt-order", 80) && len(s.C) > 1 {
		s.C[0], s.C[len(s.C)-1] = s.C[len(s.C)-1], s.C[0]
	}
	return s
}

// chance is true in about permille of 1000 draws (false for the all-zero draw shrinking aims at).
func chance(t *rapid.T, label string, permille int) bool {
	x, zero := scramble(t, label)
	return !zero && int(x%1000) < permille
}

// genPre draws the packages a sequence-of-opens case opens before its own: small documents of many elements whose
// attribute values all differ (from each other, from package to package, from case to case).
func genPre(t *rapid.T) []*XMLPart {
	g := &gctx{t: t, v: TheVocab(), max: 40}
	n := rapid.IntRange(1, 3).Draw(t, "pre-n")
	sizes := distinctSizes()
	var out []*XMLPart
	for i := 0; i < n; i++ {
		root := el("w:document", rootNS(nsW), el("w:body", nil,
			el("w:p", nil, el("w:pPr", nil, el("w:pStyle", at("w:val", "Heading1"))), el("w:r", nil, txt("w:t", nil, "h"))),
			el("w:sectPr", nil, el("w:pgSz", at("w:w", "11906", "w:h", "16838")))))
		p := &XMLPart{Root: &root}
		g.applyDistinct(p, sizes[rapid.IntRange(2, 4).Draw(t, "pre-size")])
		out = append(out, p)
	}
	return out
}

// pushPool makes the constants of the reader of element `local` available to the string positions generated below it.
func (g *gctx) pushPool(local string) func() {
	n := len(g.pools)
	g.pools = append(g.pools, g.v.Pools[local]...)
	return func() { g.pools = g.pools[:n] }
}

// ---------------------------------------------------------------------------------------------
// many distinct attribute values in one part

// DistinctSizes are the repetition counts of the "distinct" operator; the last two only in a drawn fraction of the cases.
func distinctSizes() []int {
	return []int{20, 300, 2000, kit.Scale(12000, 20000), kit.Scale(35000, 50000)}
}

// estimate of the serialised size of a node written once
func (n *Node) estBytes() int {
	if n == nil {
		return 0
	}
	s := 2*len(n.N) + 5 + len(n.T) + len(n.RawT)
	for _, a := range n.A {
		s += len(a.N) + len(a.V) + 4
		if a.Seq != "" {
			s += 16
		}
	}
	for i := range n.C {
		s += n.C[i].estBytes() * (n.C[i].Rep + 1)
	}
	return s
}

// applyDistinct repeats a small group of elements whose attributes carry values that differ at every repetition.
func (g *gctx) applyDistinct(p *XMLPart, size int) bool {
	t := g.t
	if p.Root == nil {
		return false
	}
	if p.Salt == 0 {
		p.Salt = int64(rapid.IntRange(1, 1<<30).Draw(t, "part-salt"))
	}
	seqOf := func(elem, a string) string {
		switch k, _ := uniqueKind(elem, a); k {
		case "n":
			return "n"
		case "h":
			return "h"
		}
		return "s"
	}
	var node *Node
	body := pickNode(t, p.Root, "distinct-host", func(n *Node, i int) bool { return localOf(n.N) == "body" })
	kind := 9
	if chance(t, "distinct-bookmarks", 500) {
		kind = 0
	} else if chance(t, "distinct-vocab", 400) {
		kind = 5
	}
	switch {
	case body != nil && kind < 4:
		// what a table of contents leaves in a document: a bookmark pair per heading, ids and names all different
		grp := Node{N: fragName, C: []Node{
			el("w:bookmarkStart", []Attr{{N: "w:id", Seq: "n"}, {N: "w:name", V: "_Toc", Seq: "n"}}),
			el("w:bookmarkEnd", []Attr{{N: "w:id", Seq: "n"}})}}
		if rapid.IntRange(0, 2).Draw(t, "distinct-heading") == 0 {
			grp.C = append(grp.C[:1], el("w:p", []Attr{{N: "w:rsidR", V: "00", Seq: "h"}}, el("w:pPr", nil, el("w:pStyle", at("w:val", "Heading1"))), el("w:r", nil, txt("w:t", nil, "h"))), grp.C[1])
		}
		at := rapid.IntRange(0, len(body.C)).Draw(t, "distinct-at")
		body.C = append(body.C[:at], append([]Node{grp}, body.C[at:]...)...)
		node = &body.C[at]
	case body != nil && kind < 6:
		// a generated element of the reader's vocabulary with every attribute it looks at
		name := rapid.SampledFrom(g.v.Elems).Draw(t, "distinct-elem")
		if len(g.v.Attrs[name]) == 0 {
			name = rapid.SampledFrom([]string{"bookmarkStart", "gridCol", "docPr", "spacing", "tcW"}).Draw(t, "distinct-elem2")
		}
		n := Node{N: g.qname(name)}
		for _, a := range g.v.Attrs[name] {
			n.A = append(n.A, Attr{N: g.attrName(name, a), Seq: seqOf(name, a)})
		}
		host := pickNode(t, p.Root, "distinct-parent", nil)
		host.C = append(host.C, n)
		node = &host.C[len(host.C)-1]
	default:
		node = pickNode(t, p.Root, "distinct-node", func(n *Node, i int) bool { return i > 0 && len(n.A) > 0 && n.N != fragName })
		if node == nil {
			return false
		}
		node.walk(func(x *Node) {
			for i := range x.A {
				if !strings.HasPrefix(x.A[i].N, "xmlns") && x.A[i].Seq == "" && x.A[i].Huge == 0 {
					x.A[i].Seq = seqOf(localOf(x.N), localOf(x.A[i].N))
				}
			}
		})
	}
	// keep the part inside its size budget and well-formed (the writer stops mid-element when the budget is exhausted)
	if est := node.estBytes(); est > 0 && size*est > MaxPartBytes*17/20 {
		size = MaxPartBytes * 17 / 20 / est
	}
	if size < 1 {
		return false
	}
	node.Rep = size
	p.Ops = append(p.Ops, "distinct")
	return true
}

package c06

import (
	"fmt"
	"hash/crc32"
	"os"
	"sort"
	"strings"
	"testing"
	"time"

	"github.com/zerx-lab/wordZero/pkg/document"

	"wzverif/internal/kit"
	"wzverif/internal/xmlwf"
)

func TestMain(m *testing.M) {
	document.SetGlobalLevel(document.LogLevelSilent)
	heapGuard() // wfextra.go
	if p := os.Getenv(childEnv); p != "" {
		os.Exit(childMain(p)) // a case judged alone in a fresh process (hist.go)
	}
	kit.TestMain(m, 1200, 5000) // thorough: 16 shards x 5000 (8000 took 2638 s on an idle machine, too close to the 2400 s shard limit)
}

// Case is one generated input: a description of a package (plain data) that Build() turns into bytes.
type Case struct {
	Gen   string              `json:"gen"`             // a | b | c | o | fixed | raw (whole file in Raw) | rawmain (main part in Raw)
	Parts map[string]*XMLPart `json:"parts,omitempty"` // part name -> generated replacement of the standard part
	Cont  []COp               `json:"cont,omitempty"`  // container-level operators
	Raw   []byte              `json:"raw,omitempty"`   // base64 in JSON
	Via   string              `json:"via"`             // mem = OpenFromMemory, file = Open(path)
	Note  string              `json:"note,omitempty"`
	// Pre: main parts of well-formed packages (standard container) that are opened, in order, before the package of the case:
	// the case is then a sequence of Opens in one process. Only Open is judged on them (it must not panic).
	Pre []*XMLPart `json:"pre,omitempty"`
	// Follow: calls made on the opened document before the fixed edit script, in this order (optparts.go: FollowOps). They decide
	// which call is the first to need one of the optional parts Open only stored.
	Follow []string `json:"follow,omitempty"`
	// TEdits: calls made on every opened table (at most maxTablesEdited) before the fixed table script, in this order (tables.go)
	TEdits []TEdit `json:"tedits,omitempty"`
	// Twin: the bytes are opened twice; the second document is read, edited and saved after the first one went through the same
	Twin bool  `json:"twin,omitempty"`
	Hist *Hist `json:"hist,omitempty"` // provenance of a generated case (hist.go); not part of the input
}

// runLocal judges the case in this process.
func runLocal(c Case) *kit.Result {
	res := &kit.Result{}
	if len(c.Pre) > 0 {
		res.Label("sequence-of-opens")
		judgePre(res, c.Pre)
	}
	b := c.Build()
	via := c.Via
	if via != "file" {
		via = "mem"
	}
	res.Label("gen:" + c.Gen)
	res.Label("via:" + via)
	var shape []string
	shape = append(shape, c.Gen)
	names := make([]string, 0, len(c.Parts))
	for n := range c.Parts {
		names = append(names, n)
	}
	sort.Strings(names)
	faulted := false
	for _, n := range names {
		p := c.Parts[n]
		if n != nMain {
			res.Label("target:" + n)
		}
		var sb strings.Builder
		p.Root.skeleton(&sb, 0)
		if p.Lit != "" {
			sb.WriteString(fmt.Sprintf("lit:%d:%08x", len(p.Lit), crc32.ChecksumIEEE([]byte(p.Lit))))
		}
		shape = append(shape, n+"="+sb.String()+"|"+p.Prolog+"|"+strings.Join(p.Ops, "+"))
		for _, op := range p.Ops {
			if strings.HasPrefix(op, "shape:") {
				res.Label(op) // a producer shape (math.go, tables.go), not a fault: the part stays well-formed
				continue
			}
			if op == "distinct" {
				res.Label("shape:distinct-values") // not a fault: the part stays well-formed
				continue
			}
			res.Label("fault:" + op)
			faulted = true
		}
		if p.Root != nil {
			p.Root.walk(func(x *Node) {
				if x.Deep >= 1000 {
					res.Label("deep>=1000")
				}
				if x.Rep >= 1000 {
					res.Label("wide>=1000")
				}
			})
		}
	}
	for _, op := range c.Cont {
		res.Label("cop:" + op.Op)
		shape = append(shape, "cop:"+op.Op+":"+op.Name)
		if op.Op == "drop" && op.Name == nMain {
			res.Label("fault:missing")
		}
		if op.Op == "empty" && op.Name == nMain {
			res.Label("fault:empty")
		}
		if op.Op == "forge" || op.Op == "localhdr" {
			res.Label("cop:" + op.Op + ":" + op.S)
			shape = append(shape, op.S)
		}
		faulted = true
	}
	if !faulted {
		res.Label("fault:none")
	}
	in := judgeOpen(res, b, via, c.Follow, c.TEdits, c.Twin)
	if in.Zip {
		res.Label("input:zip")
	}
	if in.NTables > 0 {
		res.Label("input:tables")
	}
	if in.AnyNoGrid {
		res.Label("input:table-without-grid")
	}
	if in.AnyRagged {
		res.Label("input:ragged-table")
	}
	if in.HasMain && in.MainClean {
		res.Label("input:main-wellformed")
	}
	if in.Formulas > 0 {
		res.Label("input:formula")
	}
	if in.VMerge > 0 {
		res.Label("input:vMerge")
	}
	if in.OddSpan > 0 {
		res.Label("input:gridSpan-not-a-positive-number")
	}
	if in.OddSpanOnVMerge > 0 {
		res.Label("input:gridSpan-not-a-positive-number+vMerge")
	}
	if in.TblBeforeP > 0 {
		res.Label("input:cell-with-table-before-paragraph")
	}
	if in.SDT > 0 {
		res.Label("input:sdt")
	}
	if in.SDTNested {
		res.Label("input:sdt-nested")
	}
	if in.SDTGallery {
		res.Label("input:sdt-gallery")
	}
	if in.Instr > 0 {
		res.Label("input:field-instruction")
	}
	if in.InstrSplit {
		res.Label("input:field-instruction-split")
	}
	if in.FldChars > 0 {
		res.Label("input:fldChar")
	}
	optNames := make([]string, 0, len(in.Opt))
	for n := range in.Opt {
		optNames = append(optNames, n)
	}
	sort.Strings(optNames)
	for _, n := range optNames {
		o := in.Opt[n]
		if n != nStyles || c.Gen == "o" {
			res.Label("opt:" + n)
		}
		if c.Gen != "o" {
			continue
		}
		if len(o.Data) <= maxOptJudged {
			if o.wellFormed() {
				res.Label("opt:well-formed-part")
			} else {
				res.Label("opt:damaged-part")
			}
		}
		if o.Foreign > 0 && o.Completes {
			res.Label("opt:foreign-child-under-root") // the whole part tokenises: the foreign child is reached by a reader
			if n != nStyles && n != "word/settings.xml" {
				res.Label("opt:foreign-child-under-root:notes-or-numbering")
			}
		}
		if o.SelfClosed {
			res.Label("opt:root-selfclosed")
		}
		if o.RootPrefix != "w" && o.RootLocal != "" {
			res.Label("opt:root-prefix-not-w")
		}
		if o.RootSpace != nsW && o.RootLocal != "" {
			res.Label("opt:root-namespace-other")
		}
		if o.Children == 0 && o.Completes {
			res.Label("opt:no-children")
		}
	}
	if len(c.Follow) > 0 {
		name, _ := opName(c.Follow[0])
		res.Label("follow-first:" + name)
		shape = append(shape, "follow:"+strings.Join(c.Follow, ","))
	}
	if len(c.TEdits) > 0 {
		ops := make([]string, 0, len(c.TEdits))
		for _, e := range c.TEdits {
			ops = append(ops, e.Op)
		}
		shape = append(shape, "tedits:"+strings.Join(ops, ","))
	}
	if c.Twin {
		shape = append(shape, "twin")
	}
	for _, k := range []int{100, 1000, 10000, 30000} {
		if in.Distinct >= k {
			res.Label(fmt.Sprintf("input:distinct-attr-values>=%d", k))
		}
	}
	res.Count("distinct_attr_values_offered", in.Distinct)
	outcome := "err"
	for _, l := range res.Labels {
		if strings.HasPrefix(l, "open:") {
			outcome = l
		}
	}
	// non-trivial: a readable zip with a main part that is not the harness's fixed standard part, of which the reader
	// can tokenise at least one start element
	res.Nontrivial = in.Zip && in.HasMain && in.MainStarts >= 1 && (len(c.Parts) > 0 || len(c.Cont) > 0 || len(c.Raw) > 0 || len(c.Pre) > 0)
	for _, p := range c.Pre {
		var sb strings.Builder
		p.Root.skeleton(&sb, 0)
		shape = append(shape, "pre="+sb.String())
	}
	res.Shape = strings.Join(shape, ";") + ";" + outcome
	return res
}

func mainOnly(p *XMLPart, note string) Case {
	return Case{Gen: "fixed", Via: "mem", Note: note, Parts: map[string]*XMLPart{nMain: p}}
}

// fixed are hand-written regression inputs (hostile constants of DESIGN C06); judged like generated cases.
func fixed() []Case {
	doc := func(body ...Node) *Node {
		n := el("w:document", rootNS(nsW), el("w:body", nil, body...))
		return &n
	}
	strict := stdTree(nMain)
	strict.A = rootNS(nsStrict)
	noGrid := stdTable(2, 2, false)
	emptyFirst := stdTable(2, 2, true)
	emptyFirst.C[2].C = nil // first w:tr without cells
	ragged := stdTable(3, 3, true)
	ragged.C[3].C = ragged.C[3].C[:1]
	ragged.C[4].C = nil
	noRows := el("w:tbl", nil, el("w:tblGrid", nil, el("w:gridCol", at("w:w", "1"))))
	cases := []Case{
		{Gen: "fixed", Via: "mem", Note: "standard package"},
		{Gen: "fixed", Via: "file", Note: "standard package through Open(path)"},
		mainOnly(&XMLPart{Root: strict}, "ISO strict namespace"),
		mainOnly(&XMLPart{Prolog: "none"}, "empty main part"),
		mainOnly(&XMLPart{Root: doc(noGrid)}, "table without tblGrid"),
		mainOnly(&XMLPart{Root: doc(emptyFirst)}, "table whose first row has no cells"),
		mainOnly(&XMLPart{Root: doc(ragged)}, "ragged table"),
		mainOnly(&XMLPart{Root: doc(noRows)}, "table without rows"),
		mainOnly(&XMLPart{Root: doc(el("w:p", nil, el("w:r", nil, stdTable(1, 1, true))))}, "table inside a run"),
		mainOnly(&XMLPart{Root: doc(Node{N: "w:p", Deep: 3000, DeepN: "w:tbl"})}, "3000 nested tables"),
		mainOnly(&XMLPart{Root: doc(Node{N: "w:p", Rep: 3000})}, "3000 paragraphs"),
		mainOnly(&XMLPart{Root: stdTree(nMain), Cut: 500}, "truncated main part"),
		{Gen: "fixed", Via: "mem", Note: "not a zip", Cont: []COp{{Op: "nonzip", S: "hello"}}},
		{Gen: "fixed", Via: "file", Note: "empty file", Cont: []COp{{Op: "nonzip", S: ""}}},
		{Gen: "fixed", Via: "mem", Note: "no main part", Cont: []COp{{Op: "drop", Name: nMain}}},
		{Gen: "fixed", Via: "mem", Note: "no content types, no rels", Cont: []COp{{Op: "drop", Name: nCT}, {Op: "drop", Name: nRels}}},
		{Gen: "fixed", Via: "mem", Note: "empty styles", Cont: []COp{{Op: "empty", Name: nStyles}}},
	}
	if os.Getenv("C06_NOFIXEDOPT") != "" {
		return cases // sensitivity experiments: what the generated cases find without the hand-written optional parts
	}
	return append(cases, fixedOpt()...)
}

func TestC06(t *testing.T) {
	if err := xmlwf.SelfTest(); err != nil {
		t.Fatalf("oracle self-test: %v", err)
	}
	historyPrelude() // a replayed case that fails only after the cases that preceded it (hist.go); may set kit.Tier from its stamp
	MaxPartBytes = tierBytes(kit.Tier)
	v := TheVocab()
	ov := TheOptVocab()
	must := map[string]float64{"open:ok": 0.30, "open:err": 0.20, "input:tables": 0.20, "via:file": 0.2, "gen:b": 0.1, "gen:c": 0.1, "save:ok": 0.25}
	for _, op := range FaultOps {
		must["fault:"+op] = 0.02
	}
	must["fault:missing"] = 0.01
	must["fault:relids"] = 0.04
	must["fault:relids:no-styles"] = 0.025
	must["cop:forge"] = 0.02
	must["cop:forge:usize-1<<62"] = 0.005
	must["opened-rowless-table"] = 0.02
	must["opened-table-empty-first-row"] = 0.02
	must["input:sdt"] = 0.15
	must["input:sdt-gallery"] = 0.02
	must["input:field-instruction"] = 0.15
	must["input:field-instruction-split"] = 0.05
	must["shape:distinct-values"] = 0.03
	must["sequence-of-opens"] = 0.005
	must["gen:o"] = 0.07
	for _, n := range ov.Parts {
		must["opt:"+n] = 0.015
	}
	must["opt:foreign-child-under-root:notes-or-numbering"] = 0.01
	must["opt:damaged-part"] = 0.01
	must["opt:root-prefix-not-w"] = 0.01
	must["follow:drawn"] = 0.05
	// producer shapes (math.go, tables.go) and the edits made on opened tables
	must["shape:table"] = 0.05
	must["shape:table:vMerge"] = 0.03
	must["shape:table:odd-span-value"] = 0.012
	must["input:gridSpan-not-a-positive-number+vMerge"] = 0.008
	must["input:cell-with-table-before-paragraph"] = 0.015
	must["shape:math"] = 0.04
	must["opened-formula-paragraph"] = 0.008
	must["sweep:single-edits-on-copies"] = 0.15
	must["tedits:drawn"] = 0.05
	must["twin:second-document-after-the-first"] = 0.01
	// headings next to body-level bookmarks (bookmarks.go), grids without columns above ordinary rows
	must["shape:bookmark-range"] = 0.02
	must["toc-as-first-edit"] = 0.012
	must["opened-table-empty-grid-above-cells"] = 0.005
	var crashers []Case
	if kit.Tier == "thorough" && kit.Shard == 0 && os.Getenv("VERIF_REPLAY") == "" {
		crashers = nativeFuzz(t) // generator (d); its crashers go through the verdict pipeline as fixed cases
	}
	kit.Main(t, kit.Spec[Case]{
		ID: "C06", Level: "exploration",
		Rule: "a case is a package description: (a) word/document.xml as an element tree over the reader's own vocabulary (" + fmt.Sprint(len(v.Elems)) + " element names extracted from " + v.Source +
			"; string values partly composed from the string constants the reader compares values with or slices them by, extracted the same way: " + fmt.Sprint(len(v.Own)) +
			" elements have such constants of their own) with 0-3 fault operators, content controls / fields as other producers write them (instruction split over runs, truncated, unbalanced quotes, incomplete fldChar sequences), " +
			"tables as word processors write them (merged regions with w:gridSpan / w:vMerge / w:hMerge on a consistent grid, span values that are zero, negative, fractional, huge or no numbers, cells that interleave paragraphs and nested tables, 9-17 and 32-100 rows / columns with a small probability) and formula paragraphs (m:oMath / m:oMathPara in every binding of the math namespace, with markup encoding/xml tolerates inside), " +
			"attribute values that differ from slot to slot and case to case, in ~4.5% of the cases preceded by 1-3 Opens of packages with 10^4..5*10^4 distinct attribute values each (the case is then a sequence of Opens in one process), " +
			"(b) the standard optional parts ([Content_Types].xml, _rels/.rels, document.xml.rels, styles.xml, core.xml) mutated by the same operators, (c) container-level operators, " +
			"(o) the optional parts Open only stores (" + strings.Join(ov.Parts, ", ") + "; vocabulary of their lazy, byte-splicing readers extracted from " + ov.Source + ": " + fmt.Sprint(len(ov.Elems)) + " element names, " +
			fmt.Sprint(len(ov.Attrs)) + " attribute names) as other producers write them - other prefixes, self-closing roots, children in foreign namespaces directly under the root, odd ids, damaged content - " +
			"together with a drawn script of the follow-up calls that read / extend them (lists, notes, note counts and removals, footnote configuration, style-referring edits, intermediate saves); " +
			"headings next to the body-level bookmark marks other producers leave (_Toc and other prefixes; the range covers more than the heading, has no end, ends with another bookmark's end, is collapsed or nested; the heading is the last block); " +
			"45% of the cases with a generated main part carry a drawn script of 1-7 edits of the opened tables (row / column / cell / merge / format calls with drawn positions, column widths 0 / negative / 1 / 1000 / 12240, intermediate saves), 4.5% open their bytes twice and take the second document through the follow-up after the first; " +
			"non-trivial = the bytes are a readable zip containing word/document.xml, the case is not the unmodified standard package, and at least one start element of the main part tokenises; " +
			"distinct = distinct (generator, element skeleton with bucketed repetition/nesting, prolog, fault operators, container operators, open outcome)",
		Gen: genStamped, Run: run, Findings: findings, Fixed: func() []Case { return append(fixed(), crashers...) },
		Assumptions: []string{
			"termination is observed through a 20 s per-case watchdog (typical case: milliseconds) and the driver's re-run of the saved case",
			"well-formedness of the regenerated main part is decided by the harness's own checker, not by a schema validator",
			"the package-level clause T3.p3 is demanded only when the input's content types and package relationships were the standard ones or in the class the library replaces by defaults (absent, or not readable as XML up to the end of the root element)",
			"per opened document the table script runs on at most 6 tables and visits at most 3000 cells per table",
			"the single-edit sweep (every row / column position up to 12, every cell of the first 12 x 12: InsertRow, DeleteRow, InsertColumn, DeleteColumn, InsertColumn / AppendColumn without a width (0) and with a negative one, ClearTable, ClearCellParagraphs, MergeCellsVertical / Horizontal, UnmergeCells, ClearCellContent, SetCellText, AddNestedTable, each on its own CopyTable() copy) runs on opened tables of at most 150 cells + paragraphs + runs (nested tables included) without a span above 2000, at most 220 edits per document (all positions first, then an even selection of the cell edits); 32 evenly chosen copies join the document through Body.AddElement and are saved with it - that save is judged for panics always, for well-formedness when its main part is at most 48 KB",
			"a live heap above 2.5 GB ends the process like the per-case watchdog does (a call that allocates in a loop that never ends); the driver replays the case",
			"the clause on the re-saved optional parts (numbering, notes, settings, styles) is demanded only for a part the input carried well-formed (harness checker, UTF-8) or did not carry, and decided on parts up to 1 MB",
			"memory exhaustion is out of scope: generated parts are capped at 4 MB (thorough 12 MB)",
			"every case is judged in the process that judged all earlier cases of the shard (state the reader keeps per process accumulates on purpose); at the first unattributed panic the case is judged once more alone in a fresh child process to tell an input-dependent failure from a history-dependent one, and what rapid asks for afterwards (reproduction, shrink candidates) is judged in fresh child processes",
			"a history-dependent failure is reproduced from the provenance stamp of the saved case (seed, shard, tier, index): rapid's case sequence is a pure function of the seed, the regeneration is validated by regenerating the stamped case itself; a history re-run that cannot be completed (generator changed, 400 s budget) is reported as INCONCLUSIVE or judged alone, never as a violation",
		},
		MustSee:   must,
		CaseLimit: 20 * time.Second, // DESIGN C06 T1: limit 20 s (typical case: milliseconds); a shared machine stalls a process for seconds
		Extra: func() map[string]interface{} {
			return map[string]interface{}{"vocabulary_source": v.Source, "vocabulary_elements": fmt.Sprint(len(v.Elems)),
				"vocabulary_value_constants": fmt.Sprint(len(v.Global)), "cases_judged_in_child_processes": proc.children,
				"optional_part_vocabulary": ov.Source + ": parts " + strings.Join(ov.Parts, " ") + "; reader functions " + strings.Join(ov.Funcs, " ")}
		},
	})
}

package c06

// Container construction: a standard, valid WordprocessingML package written by the harness (string
// templates + archive/zip, nothing from pkg/document), in which single parts are replaced by generated
// XML parts and to which container-level fault operators are applied.

import (
	"archive/zip"
	"bytes"
	"compress/flate"
	"hash/crc32"
	"image"
	"image/color"
	"image/png"
	"sort"
	"strings"
)

const (
	nsW      = "http://schemas.openxmlformats.org/wordprocessingml/2006/main"
	nsStrict = "http://purl.oclc.org/ooxml/wordprocessingml/main"
	nsR      = "http://schemas.openxmlformats.org/officeDocument/2006/relationships"
	nsWP     = "http://schemas.openxmlformats.org/drawingml/2006/wordprocessingDrawing"
	nsA      = "http://schemas.openxmlformats.org/drawingml/2006/main"
	nsPic    = "http://schemas.openxmlformats.org/drawingml/2006/picture"

	nMain    = "word/document.xml"
	nCT      = "[Content_Types].xml"
	nRels    = "_rels/.rels"
	nDocRels = "word/_rels/document.xml.rels"
	nStyles  = "word/styles.xml"
	nCore    = "docProps/core.xml"
	nApp     = "docProps/app.xml"
	nMedia   = "word/media/image1.png"
)

// baseOrder is the entry order of the standard container.
var baseOrder = []string{nCT, nRels, nMain, nDocRels, nStyles, nCore, nApp, nMedia}

// OptionalParts are the parts whose failure must fall back to defaults (generator b).
var OptionalParts = []string{nCT, nRels, nDocRels, nStyles, nCore}

func el(name string, attrs []Attr, children ...Node) Node {
	return Node{N: name, A: attrs, C: children}
}
func at(kv ...string) []Attr {
	var a []Attr
	for i := 0; i+1 < len(kv); i += 2 {
		a = append(a, Attr{N: kv[i], V: kv[i+1]})
	}
	return a
}
func txt(name string, attrs []Attr, text string) Node { return Node{N: name, A: attrs, T: text} }

// rootNS returns the namespace declarations of a main-part root.
func rootNS(w string) []Attr {
	return at("xmlns:w", w, "xmlns:r", nsR, "xmlns:wp", nsWP, "xmlns:a", nsA, "xmlns:pic", nsPic)
}

// stdTree returns the standard content of a part as a tree (the starting point of the mutations of generator b).
func stdTree(part string) *Node {
	var n Node
	switch part {
	case nCT:
		n = el("Types", at("xmlns", "http://schemas.openxmlformats.org/package/2006/content-types"),
			el("Default", at("Extension", "rels", "ContentType", "application/vnd.openxmlformats-package.relationships+xml")),
			el("Default", at("Extension", "xml", "ContentType", "application/xml")),
			el("Default", at("Extension", "png", "ContentType", "image/png")),
			el("Override", at("PartName", "/word/document.xml", "ContentType", "application/vnd.openxmlformats-officedocument.wordprocessingml.document.main+xml")),
			el("Override", at("PartName", "/word/styles.xml", "ContentType", "application/vnd.openxmlformats-officedocument.wordprocessingml.styles+xml")),
			el("Override", at("PartName", "/docProps/core.xml", "ContentType", "application/vnd.openxmlformats-package.core-properties+xml")),
			el("Override", at("PartName", "/docProps/app.xml", "ContentType", "application/vnd.openxmlformats-officedocument.extended-properties+xml")))
	case nRels:
		n = el("Relationships", at("xmlns", "http://schemas.openxmlformats.org/package/2006/relationships"),
			el("Relationship", at("Id", "rId1", "Type", nsR+"/officeDocument", "Target", "word/document.xml")),
			el("Relationship", at("Id", "rId2", "Type", "http://schemas.openxmlformats.org/package/2006/relationships/metadata/core-properties", "Target", "docProps/core.xml")),
			el("Relationship", at("Id", "rId3", "Type", nsR+"/extended-properties", "Target", "docProps/app.xml")))
	case nDocRels:
		n = el("Relationships", at("xmlns", "http://schemas.openxmlformats.org/package/2006/relationships"),
			el("Relationship", at("Id", "rId1", "Type", nsR+"/styles", "Target", "styles.xml")),
			el("Relationship", at("Id", "rId2", "Type", nsR+"/image", "Target", "media/image1.png")))
	case nStyles:
		n = el("w:styles", at("xmlns:w", nsW),
			el("w:docDefaults", nil, el("w:rPrDefault", nil, el("w:rPr", nil, el("w:sz", at("w:val", "21"))))),
			el("w:style", at("w:type", "paragraph", "w:default", "1", "w:styleId", "Normal"), el("w:name", at("w:val", "Normal")), el("w:qFormat", nil)),
			el("w:style", at("w:type", "paragraph", "w:styleId", "Heading1"), el("w:name", at("w:val", "heading 1")), el("w:basedOn", at("w:val", "Normal")),
				el("w:pPr", nil, el("w:keepNext", nil), el("w:outlineLvl", at("w:val", "0"))), el("w:rPr", nil, el("w:b", nil), el("w:sz", at("w:val", "32")))),
			el("w:style", at("w:type", "table", "w:styleId", "TableGrid"), el("w:name", at("w:val", "Table Grid")), el("w:basedOn", at("w:val", "TableGrid"))))
	case nCore:
		n = el("cp:coreProperties", at("xmlns:cp", "http://schemas.openxmlformats.org/package/2006/metadata/core-properties", "xmlns:dc", "http://purl.org/dc/elements/1.1/",
			"xmlns:dcterms", "http://purl.org/dc/terms/", "xmlns:xsi", "http://www.w3.org/2001/XMLSchema-instance"),
			txt("dc:title", nil, "T"), txt("dc:creator", nil, "C"), txt("cp:keywords", nil, "k"),
			txt("dcterms:created", at("xsi:type", "dcterms:W3CDTF"), "2024-01-02T03:04:05Z"), txt("dcterms:modified", at("xsi:type", "dcterms:W3CDTF"), "2024-01-02T03:04:05Z"))
	case nApp:
		n = el("Properties", at("xmlns", "http://schemas.openxmlformats.org/officeDocument/2006/extended-properties"),
			txt("Application", nil, "harness"), txt("Pages", nil, "1"), txt("Words", nil, "3"))
	case nMain:
		n = el("w:document", rootNS(nsW), el("w:body", nil,
			el("w:p", nil, el("w:pPr", nil, el("w:pStyle", at("w:val", "Heading1")), el("w:jc", at("w:val", "center"))),
				el("w:r", nil, el("w:rPr", nil, el("w:b", nil), el("w:sz", at("w:val", "28"))), txt("w:t", at("xml:space", "preserve"), "Title "))),
			el("w:p", nil, el("w:r", nil, txt("w:t", nil, "plain"))),
			stdTable(2, 2, true),
			el("w:p", nil, el("w:r", nil, stdDrawing())),
			el("w:sectPr", nil, el("w:pgSz", at("w:w", "11906", "w:h", "16838")), el("w:pgMar", at("w:top", "1440", "w:right", "1800", "w:bottom", "1440", "w:left", "1800", "w:header", "851", "w:footer", "992", "w:gutter", "0")))))
	}
	return &n
}

func stdTable(rows, cols int, grid bool) Node {
	t := el("w:tbl", nil, el("w:tblPr", nil, el("w:tblW", at("w:w", "5000", "w:type", "pct"))))
	if grid {
		g := el("w:tblGrid", nil)
		for c := 0; c < cols; c++ {
			g.C = append(g.C, el("w:gridCol", at("w:w", "2000")))
		}
		t.C = append(t.C, g)
	}
	for r := 0; r < rows; r++ {
		tr := el("w:tr", nil)
		for c := 0; c < cols; c++ {
			tr.C = append(tr.C, el("w:tc", nil, el("w:tcPr", nil, el("w:tcW", at("w:w", "2000", "w:type", "dxa"))), el("w:p", nil, el("w:r", nil, txt("w:t", nil, "c")))))
		}
		t.C = append(t.C, tr)
	}
	return t
}

func stdDrawing() Node {
	return el("w:drawing", nil, el("wp:inline", at("distT", "0", "distB", "0", "distL", "0", "distR", "0"),
		el("wp:extent", at("cx", "952500", "cy", "952500")), el("wp:docPr", at("id", "1", "name", "Picture 1", "descr", "d")),
		el("a:graphic", at("xmlns:a", nsA), el("a:graphicData", at("uri", nsPic),
			el("pic:pic", at("xmlns:pic", nsPic), el("pic:nvPicPr", nil, el("pic:cNvPr", at("id", "0", "name", "image1.png")), el("pic:cNvPicPr", nil)),
				el("pic:blipFill", nil, el("a:blip", at("r:embed", "rId2")), el("a:stretch", nil, el("a:fillRect", nil))),
				el("pic:spPr", nil, el("a:xfrm", nil, el("a:off", at("x", "0", "y", "0")), el("a:ext", at("cx", "952500", "cy", "952500"))), el("a:prstGeom", at("prst", "rect"))))))))
}

var tinyPNG = func() []byte {
	im := image.NewRGBA(image.Rect(0, 0, 3, 2))
	im.Set(1, 1, color.RGBA{200, 10, 10, 255})
	var b bytes.Buffer
	png.Encode(&b, im)
	return b.Bytes()
}()

var stdCache = map[string][]byte{}

func stdPart(name string) []byte {
	if name == nMedia {
		return tinyPNG
	}
	if b, ok := stdCache[name]; ok {
		return b
	}
	b := (&XMLPart{Root: stdTree(name)}).Bytes()
	stdCache[name] = b
	return b
}

// COp is one container-level operator.
type COp struct {
	Op   string `json:"op"`
	Name string `json:"name,omitempty"`
	At   int    `json:"at,omitempty"`
	S    string `json:"s,omitempty"`
}

// ContainerOps lists the operators (for the evidence labels).
var ContainerOps = []string{"nonzip", "truncate", "flip", "prefix", "suffix", "drop", "empty", "dir", "dup", "store", "media", "extra", "rotate", "emptyzip", "forge", "forge", "localhdr"}

// ForgeKinds are the ways the "forge" operator makes the zip directory lie about one entry (zip.Writer.CreateRaw with a
// hand-filled header: the archive stays structurally valid, only the declared metadata is wrong).
var ForgeKinds = []string{"usize-1<<62", "usize-1<<40", "usize-maxu32", "usize-maxu32+1", "usize-maxu32-1", "usize-x2", "usize-plus1", "usize-minus1", "usize-half", "usize-zero",
	"crc", "csize-minus1", "csize-half", "csize-plus4", "method-99", "method-12", "method-store-lie"}

// LocalHdrKinds: the local file header is patched after writing so that it disagrees with the central directory.
var LocalHdrKinds = []string{"usize", "csize", "crc", "name", "method", "namelen"}

type entry struct {
	name  string
	data  []byte
	store bool
	forge string // kind of forged directory metadata ("" = honest)
}

// writeForged writes one entry through CreateRaw with metadata that does not describe the stored bytes.
func writeForged(zw *zip.Writer, e entry) {
	var comp bytes.Buffer
	fw, _ := flate.NewWriter(&comp, flate.DefaultCompression)
	fw.Write(e.data)
	fw.Close()
	raw := comp.Bytes()
	h := &zip.FileHeader{Name: e.name, Method: zip.Deflate, CRC32: crc32.ChecksumIEEE(e.data),
		CompressedSize64: uint64(len(raw)), UncompressedSize64: uint64(len(e.data))}
	n := uint64(len(e.data))
	switch e.forge {
	case "usize-1<<62":
		h.UncompressedSize64 = 1 << 62
	case "usize-1<<40":
		h.UncompressedSize64 = 1 << 40
	case "usize-maxu32":
		h.UncompressedSize64 = 1<<32 - 1
	case "usize-maxu32+1":
		h.UncompressedSize64 = 1 << 32
	case "usize-maxu32-1":
		h.UncompressedSize64 = 1<<32 - 2
	case "usize-x2":
		h.UncompressedSize64 = 2*n + 7
	case "usize-plus1":
		h.UncompressedSize64 = n + 1
	case "usize-minus1":
		if n > 0 {
			h.UncompressedSize64 = n - 1
		}
	case "usize-half":
		h.UncompressedSize64 = n / 2
	case "usize-zero":
		h.UncompressedSize64 = 0
	case "crc":
		h.CRC32 ^= 0x5a5a5a5a
	case "csize-minus1":
		if len(raw) > 0 {
			h.CompressedSize64 = uint64(len(raw) - 1)
		}
	case "csize-half":
		h.CompressedSize64 = uint64(len(raw) / 2)
	case "csize-plus4":
		h.CompressedSize64 = uint64(len(raw) + 4)
	case "method-99":
		h.Method = 99
	case "method-12":
		h.Method = 12
	case "method-store-lie":
		h.Method = zip.Store // deflated bytes declared as stored
		h.UncompressedSize64 = uint64(len(raw))
	}
	w, err := zw.CreateRaw(h)
	if err != nil {
		return
	}
	w.Write(raw)
}

// patchLocalHeader makes the local file header of the named entry disagree with the central directory.
func patchLocalHeader(out []byte, name, kind string) []byte {
	o := append([]byte{}, out...)
	for i := 0; i+30+len(name) <= len(o); i++ {
		if o[i] != 'P' || o[i+1] != 'K' || o[i+2] != 3 || o[i+3] != 4 {
			continue
		}
		nl := int(o[i+26]) | int(o[i+27])<<8
		if nl != len(name) || string(o[i+30:i+30+nl]) != name {
			continue
		}
		switch kind {
		case "usize":
			o[i+22], o[i+23], o[i+24], o[i+25] = 0xff, 0xff, 0xff, 0x7f
		case "csize":
			o[i+18], o[i+19], o[i+20], o[i+21] = 0xff, 0xff, 0xff, 0x7f
		case "crc":
			o[i+14] ^= 0xff
		case "name":
			if nl > 0 {
				o[i+30] ^= 0x20
			}
		case "method":
			o[i+8] = 99
		case "namelen":
			o[i+26]++
		}
		return o
	}
	return o
}

// Build assembles the package bytes of a case (deterministic).
func (c *Case) Build() []byte {
	if c.Gen == "raw" {
		return c.Raw
	}
	var ents []entry
	for _, n := range baseOrder {
		var data []byte
		if n == nMain && c.Gen == "rawmain" {
			data = c.Raw
		} else if p, ok := c.Parts[n]; ok {
			data = p.Bytes()
		} else {
			data = stdPart(n)
		}
		ents = append(ents, entry{name: n, data: data})
	}
	// parts outside the base order, sorted for determinism
	var extra []string
	for n := range c.Parts {
		known := false
		for _, b := range baseOrder {
			if b == n {
				known = true
			}
		}
		if !known {
			extra = append(extra, n)
		}
	}
	sort.Strings(extra)
	for _, n := range extra {
		ents = append(ents, entry{name: n, data: c.Parts[n].Bytes()})
	}
	post := []COp{}
	for _, op := range c.Cont {
		switch op.Op {
		case "drop":
			var o []entry
			for _, e := range ents {
				if e.name != op.Name {
					o = append(o, e)
				}
			}
			ents = o
		case "empty":
			for i := range ents {
				if ents[i].name == op.Name {
					ents[i].data = []byte(op.S) // "" or whitespace
				}
			}
		case "dir":
			ents = append([]entry{{name: strings.TrimSuffix(op.Name, "/") + "/"}}, ents...)
		case "dup":
			for _, e := range ents {
				if e.name == op.Name {
					d := e
					switch op.S {
					case "empty":
						d.data = nil
					case "other":
						d.data = []byte(`<?xml version="1.0"?><other/>`)
					}
					if op.At%2 == 0 {
						ents = append(ents, d)
					} else {
						ents = append([]entry{d}, ents...)
					}
					break
				}
			}
		case "store":
			for i := range ents {
				if op.Name == "*" || ents[i].name == op.Name {
					ents[i].store = true
				}
			}
		case "media":
			ents = append(ents, entry{name: "word/media/" + op.Name, data: tinyPNG})
		case "extra":
			ents = append(ents, entry{name: op.Name, data: []byte(op.S)})
		case "rotate":
			if len(ents) > 0 {
				k := op.At % len(ents)
				if k < 0 {
					k += len(ents)
				}
				ents = append(append([]entry{}, ents[k:]...), ents[:k]...)
			}
		case "forge":
			for i := range ents {
				if ents[i].name == op.Name {
					ents[i].forge = op.S
				}
			}
		case "emptyzip":
			ents = nil
		default:
			post = append(post, op)
		}
	}
	var buf bytes.Buffer
	zw := zip.NewWriter(&buf)
	for _, e := range ents {
		if e.forge != "" {
			writeForged(zw, e)
			continue
		}
		m := zip.Deflate
		if e.store {
			m = zip.Store
		}
		w, err := zw.CreateHeader(&zip.FileHeader{Name: e.name, Method: m})
		if err != nil {
			continue
		}
		w.Write(e.data)
	}
	zw.Close()
	out := buf.Bytes()
	for _, op := range post {
		switch op.Op {
		case "nonzip":
			out = []byte(op.S)
		case "truncate":
			out = out[:len(out)*clamp(op.At, 0, 1000)/1000]
		case "flip":
			if len(out) > 0 {
				i := (len(out) - 1) * clamp(op.At, 0, 1000) / 1000
				o := append([]byte{}, out...)
				o[i] ^= 0x55
				out = o
			}
		case "localhdr":
			out = patchLocalHeader(out, op.Name, op.S)
		case "prefix":
			out = append([]byte(op.S), out...)
		case "suffix":
			out = append(append([]byte{}, out...), op.S...)
		}
	}
	return out
}

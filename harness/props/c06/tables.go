package c06

// Tables as word processors write them, and the edits made on opened tables.
//
// The grammar generator (gen.go) draws the children of w:tc / w:tcPr independently: merged regions (a w:gridSpan cell over
// several grid columns, w:vMerge restart / continue cells below each other at the same grid column), cells whose content
// interleaves paragraphs and nested tables (text, nested table, closing paragraph - the layout Word writes), and tables past
// the usual sizes come out of it only by accident. producerTable writes them on purpose, with the values other producers (or
// damage) put into the merge properties: spans that are zero, negative, fractional, huge or not numbers at all, a continuation
// without a start, w:hMerge instead of w:gridSpan, grids that disagree with the rows.
//
// "Further editing works without panicking" quantifies over the edits too. The judge therefore does not only run its fixed
// script at position 0: (1) every single-position edit of the repertoire is tried at EVERY position of a small opened table,
// each on a CopyTable() copy that is then appended to the document (Body.AddElement) and saved with it, and (2) the case
// carries a drawn SCRIPT of table edits (TEdit) that is applied to the opened tables themselves, one after the other, before
// the fixed script and the save.

import (
	"fmt"
	"strconv"

	"pgregory.net/rapid"

	"github.com/zerx-lab/wordZero/pkg/document"

	"wzverif/internal/gen"
)

// values other producers (or damage) leave in w:gridSpan/@w:val
var spanVals = []string{"0", "0", "-1", "-1", "-2", "-7", "-240", "00", "+2", " 2 ", "2.0", "1e1", "", "x", "3", "64", "65", "99999", "2147483648", "4294967297", "99999999999999999999", "-2147483649", "٣"}

var cellTexts = []string{"a", "b", "Total", "1", "2.50", "", " ", "n/a", "x y", "été", "数据", "a&b", "<i>", "0"}

// tableDims draws rows x cols: small most of the time, past 9 / 10 / 16 / 32 / 64 with a small probability.
func (g *gctx) tableDims(depth int) (rows, cols int) {
	t := g.t
	rows = 1 + pick(t, "pt-rows", 5)
	cols = 1 + pick(t, "pt-cols", 5)
	if depth > 0 {
		return 1 + pick(t, "pt-nrows", 2), 1 + pick(t, "pt-ncols", 2)
	}
	if chance(t, "pt-wide", 70) {
		cols = []int{9, 10, 11, 12, 16, 17}[pick(t, "pt-wide-n", 6)]
	} else if chance(t, "pt-very-wide", 18) {
		cols = []int{32, 33, 63, 64, 65}[pick(t, "pt-very-wide-n", 5)]
	}
	if chance(t, "pt-long", 70) {
		rows = []int{9, 10, 11, 12, 17}[pick(t, "pt-long-n", 5)]
	} else if chance(t, "pt-very-long", 18) {
		rows = []int{33, 64, 65, 100}[pick(t, "pt-very-long-n", 4)]
	}
	for rows*cols > 700 {
		rows = (rows + 1) / 2
	}
	return rows, cols
}

type mergeRegion struct {
	r0, c0, h, w int
	hMerge       bool   // written with w:hMerge on every covered cell instead of w:gridSpan
	oddSpan      bool   // spanVal is written instead of the true span ...
	spanVal      string //
	spanOn       int    // ... 0: on the continuation cells, 1: on every cell of the region, 2: on the first cell only
	contVal      string // value of w:vMerge on continuation cells ("" = attribute absent, as Word writes it)
	orphan       bool   // the first row of the region does not say "restart"
}

// cellParagraph: a paragraph of a table cell.
func (g *gctx) cellParagraph(big bool) Node {
	t := g.t
	g.nodes++
	switch k := pick(t, "pt-para", 20); {
	case big || k < 11:
		s := cellTexts[pick(t, "pt-text", len(cellTexts))]
		if chance(t, "pt-text-class", 60) {
			s, _ = gen.Text(t, "pt-text-gen", gen.Expressible...)
		}
		return el("w:p", nil, el("w:r", nil, txt("w:t", nil, s)))
	case k < 14:
		return el("w:p", nil)
	case k < 15:
		return el("w:p", nil, el("w:pPr", nil, el("w:pStyle", at("w:val", "TableParagraph")), el("w:jc", at("w:val", "right"))), el("w:r", nil, el("w:rPr", nil, el("w:b", nil)), txt("w:t", nil, "x")))
	case k < 16:
		return g.fieldParagraph()
	}
	return g.elem("p", 7, -1)
}

// cellContent: the block-level content of a w:tc, in the layouts producers write.
func (g *gctx) cellContent(depth int, big bool) []Node {
	t := g.t
	p := func() Node { return g.cellParagraph(big) }
	nested := func() Node { return g.producerTable(depth + 1) }
	if big || g.nodes > g.max+150 {
		if chance(t, "pt-big-empty", 30) {
			return nil
		}
		return []Node{p()}
	}
	k := pick(t, "pt-cell", 100)
	if depth >= 2 && k >= 72 && k < 90 {
		k = 0
	}
	switch {
	case k < 60:
		return []Node{p()}
	case k < 68:
		return []Node{p(), p()}
	case k < 72:
		out := []Node{}
		for i, n := 0, []int{3, 4, 9, 10, 11, 17}[pick(t, "pt-paras", 6)]; i < n; i++ {
			out = append(out, p())
		}
		return out
	case k < 79: // Word: text, nested table, the mandatory closing paragraph
		g.shape("cell:p-tbl-p")
		return []Node{p(), nested(), el("w:p", nil)}
	case k < 82:
		g.shape("cell:tbl-p")
		return []Node{nested(), el("w:p", nil)}
	case k < 84:
		g.shape("cell:p-tbl-p-tbl-p")
		return []Node{p(), nested(), p(), nested(), el("w:p", nil)}
	case k < 86:
		g.shape("cell:tbl-tbl-p")
		return []Node{nested(), nested(), p(), p()}
	case k < 88: // other producers: no closing paragraph
		g.shape("cell:p-tbl")
		return []Node{p(), nested()}
	case k < 90:
		g.shape("cell:tbl-only")
		return []Node{nested()}
	case k < 93: // a content control around the cell content
		g.shape("cell:sdt")
		return []Node{el("w:sdt", nil, el("w:sdtPr", nil, el("w:id", at("w:val", g.uniqueValue("n", "")))), el("w:sdtContent", nil, p())), p()}
	case k < 95:
		g.shape("cell:empty")
		return nil
	case k < 97:
		id := g.uniqueValue("n", "")
		return []Node{el("w:bookmarkStart", at("w:id", id, "w:name", g.uniqueValue("s", "_Ref"))), p(), el("w:bookmarkEnd", at("w:id", id))}
	}
	return []Node{p(), g.mathParagraph()}
}

// producerTable writes a w:tbl with a consistent grid, merged regions and producer-shaped cell content.
func (g *gctx) producerTable(depth int) Node {
	t := g.t
	rows, cols := g.tableDims(depth)
	big := rows*cols > 40
	g.nodes += 3 + rows*cols/4
	if depth == 0 {
		g.shape("table")
		if cols >= 9 || rows >= 9 {
			g.shape("table:dim>=9")
		}
		if cols >= 32 || rows >= 32 {
			g.shape("table:dim>=32")
		}
	}
	// merged regions on the grid
	owner := make([][]int, rows)
	for r := range owner {
		owner[r] = make([]int, cols)
		for c := range owner[r] {
			owner[r][c] = -1
		}
	}
	var regions []mergeRegion
	nreg := 0
	if rows*cols >= 2 {
		nreg = []int{0, 0, 1, 1, 1, 2, 2, 3}[pick(t, "pt-regions", 8)]
	}
	for i := 0; i < nreg; i++ {
		m := mergeRegion{r0: pick(t, "pt-r0", rows), c0: pick(t, "pt-c0", cols)}
		m.h = 1 + pick(t, "pt-h", min(3, rows-m.r0))
		m.w = 1 + pick(t, "pt-w", min(3, cols-m.c0))
		if m.h == 1 && m.w == 1 {
			if m.r0+1 < rows {
				m.h = 2
			} else if m.c0+1 < cols {
				m.w = 2
			} else {
				continue
			}
		}
		free := true
		for r := m.r0; r < m.r0+m.h; r++ {
			for c := m.c0; c < m.c0+m.w; c++ {
				if owner[r][c] >= 0 {
					free = false
				}
			}
		}
		if !free {
			continue
		}
		if m.w > 1 && chance(t, "pt-hmerge", 80) {
			m.hMerge = true
			g.shape("table:hMerge")
		}
		if chance(t, "pt-spanval", 330) {
			m.oddSpan = true
			m.spanVal = spanVals[pick(t, "pt-spanval-v", len(spanVals))]
			m.spanOn = []int{0, 0, 0, 1, 2}[pick(t, "pt-spanval-on", 5)]
			g.shape("table:odd-span-value")
		}
		if chance(t, "pt-contval", 300) {
			m.contVal = []string{"continue", "continue", "continue", "Continue", "cont", "restart", "1"}[pick(t, "pt-contval-v", 7)]
		}
		if chance(t, "pt-orphan", 50) {
			m.orphan = true
			g.shape("table:continuation-without-start")
		}
		if m.h > 1 {
			g.shape("table:vMerge")
		}
		if m.w > 1 {
			g.shape("table:gridSpan")
		}
		for r := m.r0; r < m.r0+m.h; r++ {
			for c := m.c0; c < m.c0+m.w; c++ {
				owner[r][c] = len(regions)
			}
		}
		regions = append(regions, m)
	}
	colW := strconv.Itoa(9000 / cols)
	tbl := el("w:tbl", nil)
	if chance(t, "pt-tblpr", 900) {
		pr := el("w:tblPr", nil)
		if chance(t, "pt-style", 600) {
			pr.C = append(pr.C, el("w:tblStyle", at("w:val", []string{"TableGrid", "TableNormal", "a1", "LightList-Accent1"}[pick(t, "pt-style-v", 4)])))
		}
		pr.C = append(pr.C, el("w:tblW", at("w:w", []string{"0", "5000", "9000"}[pick(t, "pt-tblw", 3)], "w:type", []string{"auto", "pct", "dxa"}[pick(t, "pt-tblw-type", 3)])))
		if chance(t, "pt-look", 600) {
			pr.C = append(pr.C, el("w:tblLook", at("w:val", "04A0", "w:firstRow", "1", "w:lastRow", "0", "w:firstColumn", "1", "w:lastColumn", "0", "w:noHBand", "0", "w:noVBand", "1")))
		}
		tbl.C = append(tbl.C, pr)
	}
	switch gk := pick(t, "pt-grid", 20); {
	case gk < 16:
		grid := el("w:tblGrid", nil, Node{N: "w:gridCol", A: at("w:w", colW), Rep: cols - 1})
		tbl.C = append(tbl.C, grid)
	case gk < 17 && cols > 1:
		tbl.C = append(tbl.C, el("w:tblGrid", nil, Node{N: "w:gridCol", A: at("w:w", colW), Rep: cols - 2}))
		g.shape("table:grid-differs")
	case gk < 18:
		tbl.C = append(tbl.C, el("w:tblGrid", nil, Node{N: "w:gridCol", A: at("w:w", colW), Rep: cols}))
		g.shape("table:grid-differs")
	case gk < 19:
		tbl.C = append(tbl.C, el("w:tblGrid", nil))
		g.shape("table:grid-differs")
	default:
		g.shape("table:grid-differs")
	}
	for r := 0; r < rows; r++ {
		tr := el("w:tr", nil)
		var trPr []Node
		first := 0
		if cols > 1 && owner[r][0] < 0 && chance(t, "pt-gridbefore", 40) {
			// the row starts one grid column late
			trPr = append(trPr, el("w:gridBefore", at("w:val", "1")), el("w:wBefore", at("w:w", colW, "w:type", "dxa")))
			first = 1
			g.shape("table:gridBefore")
		}
		if chance(t, "pt-trheight", 200) {
			trPr = append(trPr, el("w:trHeight", at("w:val", "340", "w:hRule", "atLeast")))
		}
		if r == 0 && chance(t, "pt-header", 200) {
			trPr = append(trPr, el("w:tblHeader", nil))
		}
		if len(trPr) > 0 {
			tr.C = append(tr.C, el("w:trPr", nil, trPr...))
		}
		for c := first; c < cols; {
			pr := el("w:tcPr", nil)
			if chance(t, "pt-tcw", 850) {
				pr.C = append(pr.C, el("w:tcW", at("w:w", colW, "w:type", "dxa")))
			}
			step := 1
			if ri := owner[r][c]; ri >= 0 {
				m := regions[ri]
				cont := r > m.r0
				span := func() {
					v := ""
					if m.w > 1 && !m.hMerge {
						v = strconv.Itoa(m.w)
					}
					if m.oddSpan && (m.spanOn == 1 || (m.spanOn == 0 && cont) || (m.spanOn == 2 && !cont)) {
						if m.spanVal == "" {
							pr.C = append(pr.C, el("w:gridSpan", nil)) // no value at all
							return
						}
						v = m.spanVal
					}
					if v != "" {
						pr.C = append(pr.C, el("w:gridSpan", at("w:val", v)))
					}
				}
				span()
				if m.hMerge {
					hv := "continue"
					if c == m.c0 {
						hv = "restart"
					}
					pr.C = append(pr.C, el("w:hMerge", at("w:val", hv)))
				} else {
					step = m.w
				}
				if m.h > 1 {
					switch {
					case !cont && !m.orphan:
						pr.C = append(pr.C, el("w:vMerge", at("w:val", "restart")))
					case !cont:
						pr.C = append(pr.C, el("w:vMerge", nil))
					case m.contVal == "":
						pr.C = append(pr.C, el("w:vMerge", nil))
					default:
						pr.C = append(pr.C, el("w:vMerge", at("w:val", m.contVal)))
					}
				}
			}
			if chance(t, "pt-valign", 150) {
				pr.C = append(pr.C, el("w:vAlign", at("w:val", "center")))
			}
			if chance(t, "pt-shd", 100) {
				pr.C = append(pr.C, el("w:shd", at("w:val", "clear", "w:color", "auto", "w:fill", g.uniqueValue("h", ""))))
			}
			tc := el("w:tc", nil)
			if len(pr.C) > 0 || chance(t, "pt-empty-tcpr", 100) {
				tc.C = append(tc.C, pr)
			}
			tc.C = append(tc.C, g.cellContent(depth, big)...)
			tr.C = append(tr.C, tc)
			c += step
		}
		tbl.C = append(tbl.C, tr)
	}
	return tbl
}

func min(a, b int) int {
	if a < b {
		return a
	}
	return b
}

// ---------------------------------------------------------------------------------------------
// edits on opened tables

// TEdit is one call on an opened table. The indices are resolved against the table as it is at the moment of the call:
// 0..999 -> value mod (number of positions); -1 -> -1; 1000+k -> number of positions + k (out of range: an error, never a panic);
// 2000 -> the last position.
type TEdit struct {
	Op string `json:"op"`
	A  int    `json:"a,omitempty"`
	B  int    `json:"b,omitempty"`
	C  int    `json:"c,omitempty"`
	D  int    `json:"d,omitempty"`
}

func (e TEdit) String() string { return fmt.Sprintf("%s(%d,%d,%d,%d)", e.Op, e.A, e.B, e.C, e.D) }

// TEditOps is the repertoire of the drawn scripts (public API of *document.Table, plus the document-level cell image call).
var TEditOps = []string{
	"InsertRow", "InsertRow", "InsertRow", "AppendRow", "DeleteRow", "DeleteRow", "DeleteRows",
	"InsertColumn", "InsertColumn", "AppendColumn", "DeleteColumn", "DeleteColumns",
	"SetCellText", "ClearCellContent", "ClearCellFormat", "ClearCellParagraphs", "ClearCellParagraphs", "AddCellParagraph", "AddCellFormattedParagraph",
	"SetCellFormattedText", "AddCellFormattedText", "SetCellFormat", "SetCellPadding", "SetCellTextDirection", "SetCellShading", "SetCellBorders",
	"AddNestedTable", "AddCellList", "AddCellImage",
	"MergeCellsHorizontal", "MergeCellsVertical", "MergeCellsVertical", "MergeCellsRange", "UnmergeCells", "UnmergeCells",
	"ClearTable", "SetRowHeight", "SetHeaderRows", "SetRowAsHeader", "SetTableAlignment", "ApplyTableStyle", "SetTableBorders", "SetAlternatingRowColors",
	"CopyAppend", "Save", "ReadCell",
}

// genIndex draws an index code (see TEdit): the ends of the range get extra weight - the first and the last item, one past the
// last (the append position of an insert; out of range for everything else), beyond, and -1.
func genIndex(t *rapid.T, label string) int {
	switch k := pick(t, label+"-kind", 20); k {
	case 0:
		return -1
	case 1, 2:
		return 1000 + []int{0, 0, 0, 1, 2}[pick(t, label+"-beyond", 5)]
	case 3, 4:
		return 2000 // the last one
	case 5:
		return 0
	}
	return pick(t, label, 1000)
}

// genTEdits draws a script of 1-7 table edits.
func genTEdits(t *rapid.T) []TEdit {
	n := 1 + pick(t, "tedit-n", 7)
	out := make([]TEdit, 0, n)
	for i := 0; i < n; i++ {
		out = append(out, TEdit{Op: TEditOps[pick(t, "tedit-op", len(TEditOps))], A: genIndex(t, "tedit-a"), B: genIndex(t, "tedit-b"), C: genIndex(t, "tedit-c"), D: genIndex(t, "tedit-d")})
	}
	return out
}

func resolve(a, n int) int {
	switch {
	case a < 0:
		return -1
	case a >= 2000:
		return n - 1
	case a >= 1000:
		return n + a - 1000
	case n <= 0:
		return 0
	}
	return a % n
}

// spanOf reads a cell's w:gridSpan the way a caller can (public fields).
func spanOf(c *document.TableCell) int {
	n := 1
	if c != nil && c.Properties != nil && c.Properties.GridSpan != nil {
		fmt.Sscanf(c.Properties.GridSpan.Val, "%d", &n)
	}
	return n
}

// anyHugeSpan: some cell carries a gridSpan above 2000 (UnmergeCells inserts span-1 cells one by one: hours, not a panic).
func anyHugeSpan(t *document.Table) bool {
	if t == nil {
		return false
	}
	for r := range t.Rows {
		for c := range t.Rows[r].Cells {
			if spanOf(&t.Rows[r].Cells[c]) > 2000 {
				return true
			}
		}
	}
	return false
}

// tableWeight: grid columns + rows + cells + paragraphs + runs + nested tables of a table, recursively (public fields): what one
// CopyTable copies and one InsertRow may add.
func tableWeight(t *document.Table, budget int) int {
	if t == nil {
		return 0
	}
	w := 1
	if t.Grid != nil {
		w += len(t.Grid.Cols) // InsertRow writes one cell per grid column
	}
	for r := range t.Rows {
		w++
		for c := range t.Rows[r].Cells {
			cell := &t.Rows[r].Cells[c]
			w += 1 + len(cell.Paragraphs)
			for i := range cell.Paragraphs {
				w += len(cell.Paragraphs[i].Runs)
			}
			for i := range cell.Tables {
				if w > budget {
					return w
				}
				w += tableWeight(&cell.Tables[i], budget-w)
			}
		}
		if w > budget {
			return w
		}
	}
	return w
}

// colWidths: the width arguments of InsertColumn / AppendColumn in the drawn scripts (indexed by an index code: 0, 1000+k and 2000
// fall on the first three entries).
var colWidths = []int{0, 1000, -1, 1, 12240}

var (
	tfBold = &document.TextFormat{Bold: true, FontSize: 11, FontColor: "FF0000", FontFamily: "Arial"}
	border = &document.BorderConfig{Style: document.BorderStyleSingle, Width: 4, Color: "000000"}
)

// applyTEdit makes the call e describes on table t of doc. Errors are acceptable.
func (j *judge) applyTEdit(doc *document.Document, t *document.Table, e TEdit) {
	rows := len(t.Rows)
	r := resolve(e.A, rows)
	cellsOf := func(row int) int {
		if row >= 0 && row < len(t.Rows) {
			return len(t.Rows[row].Cells)
		}
		return t.GetColumnCount()
	}
	c := resolve(e.B, cellsOf(r))
	r2 := resolve(e.C, rows)
	c2 := resolve(e.D, cellsOf(r))
	cols := t.GetColumnCount()
	data := func(k int) []string {
		switch k % 4 {
		case 0:
			return nil
		case 1:
			return []string{"v"}
		case 2:
			d := make([]string, 0, cols)
			for i := 0; i < cols && i < 200; i++ {
				d = append(d, "v"+strconv.Itoa(i))
			}
			return d
		}
		return []string{}
	}
	// the width argument of the column calls: "no explicit width" (0), the value the examples use, a negative one, 1, a page width
	width := func(k int) int { return colWidths[((k%len(colWidths))+len(colWidths))%len(colWidths)] }
	switch e.Op {
	case "InsertRow":
		t.InsertRow(resolve(e.A, rows+1), data(e.B))
	case "AppendRow":
		t.AppendRow(data(e.B))
	case "DeleteRow":
		t.DeleteRow(r)
	case "DeleteRows":
		a, b := r, r2
		if a > b {
			a, b = b, a
		}
		t.DeleteRows(a, b)
	case "InsertColumn":
		t.InsertColumn(resolve(e.A, cols+1), data(e.B), width(e.C))
	case "AppendColumn":
		t.AppendColumn(data(e.B), width(e.C))
	case "DeleteColumn":
		t.DeleteColumn(resolve(e.A, cols))
	case "DeleteColumns":
		a, b := resolve(e.A, cols), resolve(e.C, cols)
		if a > b {
			a, b = b, a
		}
		t.DeleteColumns(a, b)
	case "SetCellText":
		t.SetCellText(r, c, "edited")
	case "ClearCellContent":
		t.ClearCellContent(r, c)
	case "ClearCellFormat":
		t.ClearCellFormat(r, c)
	case "ClearCellParagraphs":
		t.ClearCellParagraphs(r, c)
	case "AddCellParagraph":
		t.AddCellParagraph(r, c, "another paragraph")
	case "AddCellFormattedParagraph":
		t.AddCellFormattedParagraph(r, c, "formatted paragraph", tfBold)
	case "SetCellFormattedText":
		t.SetCellFormattedText(r, c, "formatted", tfBold)
	case "AddCellFormattedText":
		t.AddCellFormattedText(r, c, "more", tfBold)
	case "SetCellFormat":
		t.SetCellFormat(r, c, &document.CellFormat{TextFormat: tfBold, HorizontalAlign: document.CellAlignCenter, VerticalAlign: document.CellVAlignCenter, BackgroundColor: "EEEEEE", Padding: 4})
	case "SetCellPadding":
		t.SetCellPadding(r, c, 6)
	case "SetCellTextDirection":
		t.SetCellTextDirection(r, c, document.TextDirectionTB)
	case "SetCellShading":
		t.SetCellShading(r, c, &document.ShadingConfig{Pattern: document.ShadingPatternClear, BackgroundColor: "DDDDDD"})
	case "SetCellBorders":
		t.SetCellBorders(r, c, &document.CellBorderConfig{Top: border, Bottom: border})
	case "AddNestedTable":
		t.AddNestedTable(r, c, &document.TableConfig{Rows: 1 + e.C%2, Cols: 1 + e.D%2, Width: 2000})
	case "AddCellList":
		t.AddCellList(r, c, &document.CellListConfig{Type: document.ListTypeBullet, BulletSymbol: document.BulletTypeDot, Items: []string{"one", "two"}})
	case "AddCellImage":
		doc.AddCellImageFromData(t, r, c, tinyPNG, 10)
	case "MergeCellsHorizontal":
		a, b := c, c2
		if a > b {
			a, b = b, a
		}
		t.MergeCellsHorizontal(r, a, b)
	case "MergeCellsVertical":
		a, b := r, r2
		if a > b {
			a, b = b, a
		}
		t.MergeCellsVertical(a, b, c)
	case "MergeCellsRange":
		a, b := r, r2
		if a > b {
			a, b = b, a
		}
		x, y := c, c2
		if x > y {
			x, y = y, x
		}
		t.MergeCellsRange(a, b, x, y)
	case "UnmergeCells":
		if anyHugeSpan(t) {
			j.res.Count("skipped:unmerge-huge-span", 1)
			return
		}
		t.UnmergeCells(r, c)
	case "ClearTable":
		t.ClearTable()
	case "SetRowHeight":
		t.SetRowHeight(r, &document.RowHeightConfig{Height: 30, Rule: document.RowHeightMinimum})
	case "SetHeaderRows":
		t.SetHeaderRows(0, r)
	case "SetRowAsHeader":
		t.SetRowAsHeader(r, e.B%2 == 0)
	case "SetTableAlignment":
		t.SetTableAlignment(document.TableAlignCenter)
	case "ApplyTableStyle":
		t.ApplyTableStyle(&document.TableStyleConfig{StyleID: "TableGrid", FirstRowHeader: true, BandedRows: true})
	case "SetTableBorders":
		t.SetTableBorders(&document.TableBorderConfig{Top: border, Left: border, Bottom: border, Right: border, InsideH: border, InsideV: border})
	case "SetAlternatingRowColors":
		t.SetAlternatingRowColors("FFFFFF", "F2F2F2")
	case "CopyAppend":
		if tableWeight(t, sweepWeight*4) <= sweepWeight*4 {
			if cp := t.CopyTable(); cp != nil {
				doc.Body.AddElement(cp)
			}
		}
	case "ReadCell":
		t.GetCellText(r, c)
		t.GetMergedCellInfo(r, c)
		t.IsCellMerged(r, c)
		t.GetNestedTables(r, c)
		t.GetCellParagraphs(r, c)
		t.GetCellFormat(r, c)
	}
}

// ---------------------------------------------------------------------------------------------
// every single edit at every position, on copies

const (
	sweepWeight   = 150 // a table is swept when one copy of it is at most this heavy (tableWeight)
	sweepRows     = 12  // positions tried per dimension
	sweepCols     = 12
	sweepVariants = 220      // single edits tried per document, each on its own copy
	sweepSaved    = 32       // of those copies, evenly chosen, so many join the document and are saved with it
	sweepWFBytes  = 48 << 10 // that save is parsed for well-formedness when its main part is at most this large
)

type variant struct {
	name string
	f    func(t *document.Table)
	cell bool // a per-cell edit (the row / column positions come first in the list)
}

// positions: the indices tried for a dimension of n items: -1, 0 .. min(n, lim), and the far end n-1, n, n+1 (the last item, one past
// it - the append position of an insert - and beyond).
func positions(n, lim int) []int {
	out := []int{-1}
	for p := 0; p <= n && p <= lim; p++ {
		out = append(out, p)
	}
	for _, p := range []int{n - 1, n, n + 1} {
		if p > out[len(out)-1] {
			out = append(out, p)
		}
	}
	return out
}

// sweepList lists the single edits tried on a table: every positional call (single position and range) at every position, out
// of range ones included (an error, never a panic), then the per-cell calls on every cell of the first sweepRows x sweepCols.
func sweepList(t *document.Table) []variant {
	var v []variant
	nrows, ncols := len(t.Rows), t.GetColumnCount()
	rows := min(nrows, sweepRows)
	cell := false
	add := func(name string, f func(t *document.Table)) { v = append(v, variant{name, f, cell}) }
	for _, p := range positions(nrows, sweepRows) {
		p := p
		add(fmt.Sprintf("InsertRow(%d)", p), func(t *document.Table) { t.InsertRow(p, []string{"v"}) })
		add(fmt.Sprintf("DeleteRow(%d)", p), func(t *document.Table) { t.DeleteRow(p) })
		add(fmt.Sprintf("DeleteRows(%d,%d)", p, nrows-1), func(t *document.Table) { t.DeleteRows(p, nrows-1) })
		add(fmt.Sprintf("DeleteRows(%d,%d)", p, nrows), func(t *document.Table) { t.DeleteRows(p, nrows) })
		add(fmt.Sprintf("DeleteRows(1,%d)", p), func(t *document.Table) { t.DeleteRows(1, p) })
		add(fmt.Sprintf("SetHeaderRows(0,%d)", p), func(t *document.Table) { t.SetHeaderRows(0, p) })
	}
	for _, p := range positions(ncols, sweepCols) {
		p := p
		add(fmt.Sprintf("InsertColumn(%d)", p), func(t *document.Table) { t.InsertColumn(p, nil, 1000) })
		add(fmt.Sprintf("DeleteColumn(%d)", p), func(t *document.Table) { t.DeleteColumn(p) })
		add(fmt.Sprintf("DeleteColumns(%d,%d)", p, ncols-1), func(t *document.Table) { t.DeleteColumns(p, ncols-1) })
		add(fmt.Sprintf("DeleteColumns(%d,%d)", p, ncols), func(t *document.Table) { t.DeleteColumns(p, ncols) })
		add(fmt.Sprintf("DeleteColumns(1,%d)", p), func(t *document.Table) { t.DeleteColumns(1, p) })
	}
	// the width argument of the column calls: none (0) and a negative one, at the first and the append position
	for _, w := range []int{0, -1} {
		w := w
		add(fmt.Sprintf("InsertColumn(0,nil,%d)", w), func(t *document.Table) { t.InsertColumn(0, nil, w) })
		add(fmt.Sprintf("AppendColumn([v],%d)", w), func(t *document.Table) { t.AppendColumn([]string{"v"}, w) })
	}
	add("ClearTable()", func(t *document.Table) { t.ClearTable() })
	cell = true
	for r := 0; r < rows; r++ {
		n := min(len(t.Rows[r].Cells), sweepCols)
		for c := 0; c < n; c++ {
			r, c := r, c
			add(fmt.Sprintf("ClearCellParagraphs(%d,%d)", r, c), func(t *document.Table) { t.ClearCellParagraphs(r, c) })
			add(fmt.Sprintf("MergeCellsVertical(%d,%d,%d)", r, r+1, c), func(t *document.Table) { t.MergeCellsVertical(r, r+1, c) })
			add(fmt.Sprintf("MergeCellsHorizontal(%d,%d,%d)", r, c, c+1), func(t *document.Table) { t.MergeCellsHorizontal(r, c, c+1) })
			add(fmt.Sprintf("UnmergeCells(%d,%d)", r, c), func(t *document.Table) { t.UnmergeCells(r, c) })
			add(fmt.Sprintf("ClearCellContent(%d,%d)", r, c), func(t *document.Table) { t.ClearCellContent(r, c) })
			add(fmt.Sprintf("SetCellText(%d,%d)", r, c), func(t *document.Table) { t.SetCellText(r, c, "edited") })
			add(fmt.Sprintf("AddNestedTable(%d,%d)", r, c), func(t *document.Table) {
				t.AddNestedTable(r, c, &document.TableConfig{Rows: 1, Cols: 1, Width: 1000})
			})
			add(fmt.Sprintf("MergeCellsRange(%d,%d,%d,%d)", r, r+1, c, c+1), func(t *document.Table) { t.MergeCellsRange(r, r+1, c, c+1) })
		}
	}
	return v
}

// sweep tries every single edit of sweepList on a fresh copy of t; the edited copies are returned (they join the document).
// budget: copies this document may still receive.
func (j *judge) sweep(t *document.Table, ti int, budget *int) (copies []*document.Table, ok bool) {
	const E = "C06.T2.edit"
	res := j.res
	if t == nil || len(t.Rows) == 0 || *budget <= 0 {
		return nil, true
	}
	if w := tableWeight(t, sweepWeight); w > sweepWeight || anyHugeSpan(t) {
		res.Count("sweep_skipped_heavy_table", 1)
		return nil, true
	}
	list := sweepList(t)
	// more variants than the document's budget: all the row / column positions (they come first), then an evenly spread
	// selection of the per-cell edits (deterministic)
	res.Label("sweep:single-edits-on-copies")
	if len(list) > *budget {
		npos := 0
		for npos < len(list) && !list[npos].cell {
			npos++
		}
		keep := list[:min(npos, *budget)]
		if rest, room := list[npos:], *budget-len(keep); room > 0 && len(rest) > 0 {
			step := (len(rest) + room - 1) / room
			for i := 0; i < len(rest); i += step {
				keep = append(keep, rest[i])
			}
		}
		res.Count("sweep_variants_not_tried", len(list)-len(keep))
		list = keep
	}
	for _, v := range list {
		var cp *document.Table
		if !j.call(E, fmt.Sprintf("CopyTable on opened table #%d", ti), tblState(t), func() { cp = t.CopyTable() }) || cp == nil {
			return copies, false
		}
		res.Count("sweep_variants", 1)
		*budget--
		if !j.call(E, fmt.Sprintf("%s on a CopyTable() copy of opened table #%d", v.name, ti), tblState(cp), func() { v.f(cp) }) {
			return copies, false // the same defect would be reported once per position
		}
		copies = append(copies, cp)
	}
	return copies, true
}

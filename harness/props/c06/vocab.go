package c06

// Vocabulary of the reader, extracted from the library's source at test start.
//
// Every `case "…"` string label of an element switch (switch x.Name.Local) inside pkg/document is an
// element name the reader dispatches on; the parse function called from the clause gives the element's
// children (the labels of that function's own element switches), getAttributeValue literals and the labels
// of attribute switches give its attributes. A new `case` in the reader therefore enlarges the generator's
// grammar without touching the harness. If the source cannot be read a built-in copy is used.

import (
	"go/ast"
	"go/parser"
	"go/token"
	"os"
	"path/filepath"
	"regexp"
	"sort"
	"strconv"
	"strings"
	"sync"

	"wzverif/internal/kit"
)

type Vocab struct {
	Source   string              // "ast:<dir>" or "builtin"
	Elems    []string            // every element name the reader knows, sorted
	Children map[string][]string // element -> children the reader dispatches on inside it
	Attrs    map[string][]string // element -> attribute names the reader looks at
	AllAttrs []string
	Body     []string // children of w:body
}

var ncName = regexp.MustCompile(`^[A-Za-z_][A-Za-z0-9_.\-]*$`)

var (
	vocabOnce sync.Once
	vocab     *Vocab
)

// TheVocab returns the process-wide vocabulary.
func TheVocab() *Vocab {
	vocabOnce.Do(func() {
		vocab = extractVocab(repoDir())
		if vocab == nil {
			vocab = builtinVocab()
		}
	})
	return vocab
}

// repoDir finds the library source: VERIF_REPO, else the replace directive of the harness go.mod, else /repo.
func repoDir() string {
	if r := os.Getenv("VERIF_REPO"); r != "" {
		return r
	}
	root := kit.Root
	if root == "" {
		root = "/verif"
	}
	if b, err := os.ReadFile(filepath.Join(root, "harness", "go.mod")); err == nil {
		for _, line := range strings.Split(string(b), "\n") {
			f := strings.Fields(line)
			for i := 0; i+2 < len(f); i++ {
				if f[i] == "github.com/zerx-lab/wordZero" && f[i+1] == "=>" {
					return f[i+2]
				}
			}
		}
	}
	return "/repo"
}

func strLit(e ast.Expr) (string, bool) {
	bl, ok := e.(*ast.BasicLit)
	if !ok || bl.Kind != token.STRING {
		return "", false
	}
	s, err := strconv.Unquote(bl.Value)
	if err != nil {
		return "", false
	}
	return s, true
}

// localSelector reports whether e is `<x>.Name.Local` / `<x>.Local` and returns the root identifier.
func localSelector(e ast.Expr) (string, bool) {
	se, ok := e.(*ast.SelectorExpr)
	if !ok || se.Sel.Name != "Local" {
		return "", false
	}
	x := se.X
	for {
		switch v := x.(type) {
		case *ast.SelectorExpr:
			x = v.X
		case *ast.Ident:
			return v.Name, true
		default:
			return "", true
		}
	}
}

func isAttrIdent(name string) bool {
	n := strings.ToLower(name)
	return strings.Contains(n, "attr") || n == "a"
}

type fnInfo struct {
	labels []string // element labels of the function's own switches
	attrs  []string // attribute names read on the element the function handles
}

func extractVocab(dir string) *Vocab {
	pdir := filepath.Join(dir, "pkg", "document")
	ents, err := os.ReadDir(pdir)
	if err != nil {
		return nil
	}
	fset := token.NewFileSet()
	fns := map[string]*fnInfo{}
	elemCalls := map[string][]string{}
	elemAttrs := map[string][]string{}
	elems := map[string]bool{}
	for _, e := range ents {
		n := e.Name()
		if !strings.HasSuffix(n, ".go") || strings.HasSuffix(n, "_test.go") {
			continue
		}
		f, err := parser.ParseFile(fset, filepath.Join(pdir, n), nil, 0)
		if err != nil {
			continue
		}
		for _, d := range f.Decls {
			fd, ok := d.(*ast.FuncDecl)
			if !ok || fd.Body == nil {
				continue
			}
			// only the reader: functions that take or create an *xml.Decoder token loop
			if !strings.HasPrefix(fd.Name.Name, "parse") {
				continue
			}
			fi := &fnInfo{}
			fns[fd.Name.Name] = fi
			var walk func(n ast.Node, cur []string)
			collectCalls := func(body []ast.Stmt, labels []string) {
				for _, st := range body {
					ast.Inspect(st, func(n ast.Node) bool {
						ce, ok := n.(*ast.CallExpr)
						if !ok {
							return true
						}
						name := ""
						switch fn := ce.Fun.(type) {
						case *ast.SelectorExpr:
							name = fn.Sel.Name
						case *ast.Ident:
							name = fn.Name
						}
						if name == "getAttributeValue" && len(ce.Args) == 2 {
							if s, ok := strLit(ce.Args[1]); ok {
								for _, l := range labels {
									elemAttrs[l] = append(elemAttrs[l], s)
								}
							}
						}
						if strings.HasPrefix(name, "parse") && name != fd.Name.Name {
							for _, l := range labels {
								elemCalls[l] = append(elemCalls[l], name)
							}
						}
						return true
					})
				}
			}
			walk = func(n ast.Node, cur []string) {
				ast.Inspect(n, func(n ast.Node) bool {
					switch v := n.(type) {
					case *ast.SwitchStmt:
						if v.Tag == nil {
							// switch { case t.Name.Local == "body": ... }
							return true
						}
						root, ok := localSelector(v.Tag)
						if !ok {
							return true
						}
						for _, st := range v.Body.List {
							cc := st.(*ast.CaseClause)
							var labels []string
							for _, x := range cc.List {
								if s, ok := strLit(x); ok && ncName.MatchString(s) {
									labels = append(labels, s)
								}
							}
							if len(labels) == 0 {
								continue
							}
							if isAttrIdent(root) {
								fi.attrs = append(fi.attrs, labels...)
								continue
							}
							for _, l := range labels {
								elems[l] = true
							}
							fi.labels = append(fi.labels, labels...)
							collectCalls(cc.Body, labels)
						}
						return true
					case *ast.BinaryExpr:
						// x.Name.Local == "document"
						if v.Op == token.EQL {
							if root, ok := localSelector(v.X); ok && !isAttrIdent(root) {
								if s, ok := strLit(v.Y); ok && ncName.MatchString(s) {
									elems[s] = true
								}
							}
						}
					case *ast.CallExpr:
						// getAttributeValue(startElement.Attr, "x") outside an element clause: attribute of the function's element
						if id, ok := v.Fun.(*ast.Ident); ok && id.Name == "getAttributeValue" && len(v.Args) == 2 {
							if se, ok := v.Args[0].(*ast.SelectorExpr); ok {
								if r, ok := se.X.(*ast.Ident); ok && strings.HasPrefix(r.Name, "start") {
									if s, ok := strLit(v.Args[1]); ok {
										fi.attrs = append(fi.attrs, s)
									}
								}
							}
						}
					}
					return true
				})
			}
			walk(fd.Body, nil)
		}
	}
	if len(elems) < 10 {
		return nil
	}
	v := &Vocab{Source: "ast:" + pdir, Children: map[string][]string{}, Attrs: map[string][]string{}}
	for e := range elems {
		v.Elems = append(v.Elems, e)
	}
	sort.Strings(v.Elems)
	allA := map[string]bool{}
	for _, e := range v.Elems {
		ch := map[string]bool{}
		at := map[string]bool{}
		for _, a := range elemAttrs[e] {
			at[a] = true
		}
		for _, c := range elemCalls[e] {
			if fi := fns[c]; fi != nil {
				for _, l := range fi.labels {
					ch[l] = true
				}
				for _, a := range fi.attrs {
					at[a] = true
				}
			}
		}
		for c := range ch {
			v.Children[e] = append(v.Children[e], c)
		}
		sort.Strings(v.Children[e])
		seenA := map[string]bool{}
		for a := range at {
			a = strings.TrimPrefix(strings.TrimPrefix(a, "w:"), "r:")
			if ncName.MatchString(a) && !seenA[a] {
				seenA[a] = true
				v.Attrs[e] = append(v.Attrs[e], a)
				allA[a] = true
			}
		}
		sort.Strings(v.Attrs[e])
	}
	for a := range allA {
		v.AllAttrs = append(v.AllAttrs, a)
	}
	sort.Strings(v.AllAttrs)
	if fi := fns["parseBodySubElement"]; fi != nil && len(fi.labels) > 0 {
		v.Body = append([]string{}, fi.labels...)
	} else {
		v.Body = []string{"p", "tbl", "sectPr"}
	}
	v.Children["body"] = v.Body
	v.Children["document"] = []string{"body"}
	for _, must := range []string{"document", "body", "p", "r", "t", "tbl", "tr", "tc"} {
		if !elems[must] {
			return nil // the source does not look like the reader we know: use the built-in grammar
		}
	}
	return v
}

// builtinVocab is the grammar of the reader as of the pinned tree (used only if the source is unreadable).
func builtinVocab() *Vocab {
	ch := map[string][]string{
		"document":    {"body"},
		"body":        {"p", "tbl", "sectPr"},
		"p":           {"pPr", "r"},
		"pPr":         {"pStyle", "spacing", "jc", "ind", "numPr", "sectPr"},
		"numPr":       {"ilvl", "numId"},
		"r":           {"rPr", "t", "drawing"},
		"rPr":         {"b", "bCs", "i", "iCs", "u", "strike", "sz", "szCs", "color", "highlight", "rFonts"},
		"tbl":         {"tblPr", "tblGrid", "tr"},
		"tblPr":       {"tblW", "jc", "tblLook", "tblStyle", "tblBorders", "shd", "tblCellMar", "tblLayout", "tblInd"},
		"tblGrid":     {"gridCol"},
		"tr":          {"trPr", "tc"},
		"trPr":        {"trHeight", "cantSplit", "tblHeader"},
		"tc":          {"tcPr", "p"},
		"tcPr":        {"tcW", "vAlign", "gridSpan", "vMerge", "textDirection", "shd", "tcBorders", "tcMar", "noWrap", "hideMark"},
		"tblBorders":  {"top", "left", "bottom", "right", "insideH", "insideV"},
		"tcBorders":   {"top", "left", "bottom", "right", "insideH", "insideV", "tl2br", "tr2bl"},
		"tblCellMar":  {"top", "left", "bottom", "right"},
		"tcMar":       {"top", "left", "bottom", "right"},
		"sectPr":      {"pgSz", "pgMar", "cols", "docGrid", "headerReference", "footerReference"},
		"drawing":     {"inline", "anchor"},
		"inline":      {"extent", "docPr", "graphic"},
		"anchor":      {"simplePos", "positionH", "positionV", "extent", "effectExtent", "wrapNone", "wrapSquare", "wrapTight", "wrapTopAndBottom", "docPr", "cNvGraphicFramePr", "graphic"},
		"graphic":     {"graphicData"},
		"graphicData": {"pic"},
		"pic":         {"nvPicPr", "blipFill", "spPr"},
		"nvPicPr":     {"cNvPr", "cNvPicPr"},
		"blipFill":    {"blip", "stretch"},
		"spPr":        {"xfrm", "prstGeom"},
		"xfrm":        {"off", "ext"},
	}
	at := map[string][]string{
		"pStyle": {"val"}, "jc": {"val"}, "spacing": {"before", "after", "line", "lineRule"}, "ind": {"firstLine", "left", "right"},
		"ilvl": {"val"}, "numId": {"val"}, "u": {"val"}, "sz": {"val"}, "szCs": {"val"}, "color": {"val"}, "highlight": {"val"},
		"rFonts": {"ascii", "hAnsi", "eastAsia", "cs", "hint"}, "t": {"space"}, "tblW": {"w", "type"}, "tblStyle": {"val"},
		"tblLook": {"val", "firstRow", "lastRow", "firstColumn", "lastColumn", "noHBand", "noVBand"}, "shd": {"val", "color", "fill", "themeFill"},
		"tblLayout": {"type"}, "tblInd": {"w", "type"}, "gridCol": {"w"}, "tcW": {"w", "type"}, "vAlign": {"val"}, "gridSpan": {"val"},
		"vMerge": {"val"}, "pgSz": {"w", "h", "orient"}, "pgMar": {"top", "right", "bottom", "left", "header", "footer", "gutter"},
		"cols": {"space", "num"}, "docGrid": {"type", "linePitch", "charSpace"}, "headerReference": {"type", "id"}, "footerReference": {"type", "id"},
		"extent": {"cx", "cy"}, "docPr": {"id", "name", "descr", "title"}, "blip": {"embed"}, "trHeight": {"val", "hRule"},
		"inline": {"distT", "distB", "distL", "distR"}, "anchor": {"distT", "distB", "distL", "distR", "simplePos", "relativeHeight", "behindDoc", "locked", "layoutInCell", "allowOverlap"},
	}
	v := &Vocab{Source: "builtin", Children: ch, Attrs: at, Body: ch["body"]}
	seen := map[string]bool{}
	add := func(s string) {
		if !seen[s] {
			seen[s] = true
			v.Elems = append(v.Elems, s)
		}
	}
	for k, cs := range ch {
		add(k)
		for _, c := range cs {
			add(c)
		}
	}
	sort.Strings(v.Elems)
	sa := map[string]bool{}
	for _, as := range at {
		for _, a := range as {
			if !sa[a] {
				sa[a] = true
				v.AllAttrs = append(v.AllAttrs, a)
			}
		}
	}
	sort.Strings(v.AllAttrs)
	return v
}

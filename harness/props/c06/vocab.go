package c06

// Vocabulary of the reader, extracted from the library's source at test start.
//
// Every `case "…"` string label of an element switch (switch x.Name.Local) inside pkg/document is an
// element name the reader dispatches on; the parse function called from the clause gives the element's
// children (the labels of that function's own element switches), getAttributeValue literals and the labels
// of attribute switches give its attributes. A new `case` in the reader therefore enlarges the generator's
// grammar without touching the harness. If the source cannot be read a built-in copy is used.

import (
	"go/ast"
	"go/parser"
	"go/token"
	"os"
	"path/filepath"
	"regexp"
	"sort"
	"strconv"
	"strings"
	"sync"

	"wzverif/internal/kit"
)

type Vocab struct {
	Source   string              // "ast:<dir>" or "builtin"
	Elems    []string            // every element name the reader knows, sorted
	Children map[string][]string // element -> children the reader dispatches on inside it
	Attrs    map[string][]string // element -> attribute names the reader looks at
	AllAttrs []string
	Body     []string // children of w:body
	// Pools: element -> string constants its reader compares values against or slices them with: one chain per
	// function (the element's parse function and the helpers it calls), constants in source order
	Pools map[string][]ConstSet
	// Own: element -> constants a value READ FROM THAT ELEMENT is compared with or sliced by, wherever in the package that
	// happens: `x.DocPartObj.DocPartGallery.Val != "..."` names docPartGallery in the selector chain of the compared value;
	// `level(s.Properties.Tag.Val)` hands a value of w:tag to a function whose constants then belong to tag as well
	Own    map[string][]ConstSet
	Global []string // the same constants for every function reachable from Open / OpenFromMemory
}

var ncName = regexp.MustCompile(`^[A-Za-z_][A-Za-z0-9_.\-]*$`)

var (
	vocabOnce sync.Once
	vocab     *Vocab
)

// TheVocab returns the process-wide vocabulary.
func TheVocab() *Vocab {
	vocabOnce.Do(func() {
		vocab = extractVocab(repoDir())
		if vocab == nil {
			vocab = builtinVocab()
		}
	})
	return vocab
}

// repoDir finds the library source: VERIF_REPO, else the replace directive of the harness go.mod, else /repo.
func repoDir() string {
	if r := os.Getenv("VERIF_REPO"); r != "" {
		return r
	}
	root := kit.Root
	if root == "" {
		root = "/verif"
	}
	if b, err := os.ReadFile(filepath.Join(root, "harness", "go.mod")); err == nil {
		for _, line := range strings.Split(string(b), "\n") {
			f := strings.Fields(line)
			for i := 0; i+2 < len(f); i++ {
				if f[i] == "github.com/zerx-lab/wordZero" && f[i+1] == "=>" {
					return f[i+2]
				}
			}
		}
	}
	return "/repo"
}

func strLit(e ast.Expr) (string, bool) {
	bl, ok := e.(*ast.BasicLit)
	if !ok || bl.Kind != token.STRING {
		return "", false
	}
	s, err := strconv.Unquote(bl.Value)
	if err != nil {
		return "", false
	}
	return s, true
}

// localSelector reports whether e is `<x>.Name.Local` / `<x>.Local` and returns the root identifier.
func localSelector(e ast.Expr) (string, bool) {
	se, ok := e.(*ast.SelectorExpr)
	if !ok || se.Sel.Name != "Local" {
		return "", false
	}
	x := se.X
	for {
		switch v := x.(type) {
		case *ast.SelectorExpr:
			x = v.X
		case *ast.Ident:
			return v.Name, true
		default:
			return "", true
		}
	}
}

func isAttrIdent(name string) bool {
	n := strings.ToLower(name)
	return strings.Contains(n, "attr") || n == "a"
}

type fnInfo struct {
	labels []string // element labels of the function's own switches / start-element tests
	attrs  []string // attribute names read on the element the function handles
	top    []string // parse functions called outside every element clause (the function is a wrapper of them)
	calls  []string // every callee name (call graph by name)
	eq     []string // string constants the function compares a value with (==, !=, case), in source order
	sl     []string // string constants it slices a value with (strings.HasPrefix / Index / TrimPrefix ..., Sscanf), in source order
}

// ConstSet are the string constants of one function of the reader.
type ConstSet struct {
	Eq []string // compared for equality: meaningful as a whole value
	Sl []string // prefixes, separators, switches: meaningful composed, in source order
}

// sliceFuncs are the functions of package strings whose literal arguments are "constants the reader slices with".
var sliceFuncs = map[string]bool{"HasPrefix": true, "HasSuffix": true, "Contains": true, "ContainsAny": true, "Index": true, "IndexByte": true, "IndexAny": true, "IndexRune": true,
	"LastIndex": true, "LastIndexByte": true, "TrimPrefix": true, "TrimSuffix": true, "Trim": true, "TrimLeft": true, "TrimRight": true, "Split": true, "SplitN": true, "SplitAfter": true,
	"Cut": true, "CutPrefix": true, "CutSuffix": true, "EqualFold": true, "Count": true, "Replace": true, "ReplaceAll": true, "Sscanf": true, "Sscan": true}

// litValue returns the value of a string or character literal.
func litValue(e ast.Expr) (string, bool) {
	bl, ok := e.(*ast.BasicLit)
	if !ok {
		return "", false
	}
	switch bl.Kind {
	case token.STRING:
		s, err := strconv.Unquote(bl.Value)
		return s, err == nil
	case token.CHAR:
		s, err := strconv.Unquote(bl.Value)
		return s, err == nil
	}
	return "", false
}

func isEndElementClause(cc *ast.CaseClause) bool {
	for _, x := range cc.List {
		if se, ok := x.(*ast.SelectorExpr); ok && se.Sel.Name == "EndElement" {
			return true
		}
	}
	return false
}

func calleeName(ce *ast.CallExpr) (pkg, name string) {
	switch fn := ce.Fun.(type) {
	case *ast.SelectorExpr:
		if id, ok := fn.X.(*ast.Ident); ok {
			pkg = id.Name
		}
		return pkg, fn.Sel.Name
	case *ast.Ident:
		return "", fn.Name
	}
	return "", ""
}

func extractVocab(dir string) *Vocab {
	pdir := filepath.Join(dir, "pkg", "document")
	ents, err := os.ReadDir(pdir)
	if err != nil {
		return nil
	}
	fset := token.NewFileSet()
	fns := map[string]*fnInfo{}
	elemCalls := map[string][]string{}
	elemAttrs := map[string][]string{}
	transparent := map[string][]string{} // element -> functions in which its clause is empty (its children are read as the function's own)
	elems := map[string]bool{}
	pkgConsts := map[string]string{} // package-level string constants / variables
	type valueUse struct {
		idents []string // identifiers of the selector chain the value was read through (aliases expanded)
		eq, sl string   // a constant it is compared with / sliced by
		callee string   // or a function it is handed to
	}
	var uses []valueUse
	var files []*ast.File
	for _, e := range ents {
		n := e.Name()
		if !strings.HasSuffix(n, ".go") || strings.HasSuffix(n, "_test.go") {
			continue
		}
		f, err := parser.ParseFile(fset, filepath.Join(pdir, n), nil, 0)
		if err != nil {
			continue
		}
		files = append(files, f)
		for _, d := range f.Decls {
			gd, ok := d.(*ast.GenDecl)
			if !ok || (gd.Tok != token.CONST && gd.Tok != token.VAR) {
				continue
			}
			for _, sp := range gd.Specs {
				vs, ok := sp.(*ast.ValueSpec)
				if !ok {
					continue
				}
				for i, id := range vs.Names {
					if i < len(vs.Values) {
						if s, ok := litValue(vs.Values[i]); ok {
							pkgConsts[id.Name] = s
						}
					}
				}
			}
		}
	}
	for _, f := range files {
		for _, d := range f.Decls {
			fd, ok := d.(*ast.FuncDecl)
			if !ok || fd.Body == nil {
				continue
			}
			fi := &fnInfo{}
			if old := fns[fd.Name.Name]; old != nil {
				fi = old // methods of the same name on different types are merged (call graph by name)
			}
			fns[fd.Name.Name] = fi
			isParser := strings.HasPrefix(fd.Name.Name, "parse")
			local := map[string]string{} // function-level string constants
			constOf := func(e ast.Expr) (string, bool) {
				if s, ok := litValue(e); ok {
					return s, true
				}
				if id, ok := e.(*ast.Ident); ok {
					if s, ok := local[id.Name]; ok {
						return s, true
					}
					if s, ok := pkgConsts[id.Name]; ok {
						return s, true
					}
				}
				return "", false
			}
			addEq := func(s string) {
				if s != "" && len(s) <= 200 {
					fi.eq = append(fi.eq, s)
				}
			}
			addSl := func(s string) {
				if s != "" && len(s) <= 200 {
					fi.sl = append(fi.sl, s)
				}
			}
			aliases := map[string][]string{} // local variable -> identifiers of the expression it was assigned from
			var identsOf func(e ast.Expr, depth int) []string
			identsOf = func(e ast.Expr, depth int) []string {
				switch v := e.(type) {
				case *ast.Ident:
					if a, ok := aliases[v.Name]; ok && depth < 3 {
						return append([]string{v.Name}, a...)
					}
					return []string{v.Name}
				case *ast.SelectorExpr:
					return append(identsOf(v.X, depth), v.Sel.Name)
				case *ast.IndexExpr:
					return identsOf(v.X, depth)
				case *ast.StarExpr:
					return identsOf(v.X, depth)
				case *ast.ParenExpr:
					return identsOf(v.X, depth)
				case *ast.UnaryExpr:
					return identsOf(v.X, depth)
				case *ast.CallExpr: // strings.TrimSpace(x.Val), string(x)
					var out []string
					for _, a := range v.Args {
						out = append(out, identsOf(a, depth)...)
					}
					return out
				}
				return nil
			}
			var visit func(n ast.Node, cur []string, inEnd bool)
			visitList := func(list []ast.Stmt, cur []string, inEnd bool) {
				for _, st := range list {
					visit(st, cur, inEnd)
				}
			}
			addAttr := func(cur []string, a string) {
				if cur == nil {
					fi.attrs = append(fi.attrs, a)
					return
				}
				for _, l := range cur {
					elemAttrs[l] = append(elemAttrs[l], a)
				}
			}
			visit = func(root ast.Node, cur []string, inEnd bool) {
				if root == nil {
					return
				}
				ast.Inspect(root, func(n ast.Node) bool {
					switch v := n.(type) {
					case *ast.TypeSwitchStmt:
						for _, st := range v.Body.List {
							cc := st.(*ast.CaseClause)
							visitList(cc.Body, cur, inEnd || isEndElementClause(cc))
						}
						return false
					case *ast.DeclStmt:
						if gd, ok := v.Decl.(*ast.GenDecl); ok && (gd.Tok == token.CONST || gd.Tok == token.VAR) {
							for _, sp := range gd.Specs {
								if vs, ok := sp.(*ast.ValueSpec); ok {
									for i, id := range vs.Names {
										if i < len(vs.Values) {
											if s, ok := litValue(vs.Values[i]); ok {
												local[id.Name] = s
											}
										}
									}
								}
							}
						}
					case *ast.SwitchStmt:
						if v.Tag == nil {
							return true // switch { case t.Name.Local == "body": ... }: the comparisons are seen as binary expressions
						}
						tagRoot, isLocal := localSelector(v.Tag)
						if isLocal && !isParser {
							return true // an element switch outside the reader (writer, template engine): not vocabulary
						}
						for _, st := range v.Body.List {
							cc := st.(*ast.CaseClause)
							var labels []string
							for _, x := range cc.List {
								if s, ok := constOf(x); ok {
									if !isLocal {
										addEq(s) // value switch: the labels are constants the input is compared against
									} else if ncName.MatchString(s) {
										labels = append(labels, s)
									}
								}
							}
							switch {
							case !isLocal || len(labels) == 0:
								visitList(cc.Body, cur, inEnd)
							case isAttrIdent(tagRoot):
								for _, l := range labels {
									addAttr(cur, l)
								}
								visitList(cc.Body, cur, inEnd)
							case inEnd:
								for _, l := range labels {
									elems[l] = true
								}
								visitList(cc.Body, cur, inEnd)
							default:
								for _, l := range labels {
									elems[l] = true
								}
								fi.labels = append(fi.labels, labels...)
								if len(cc.Body) == 0 {
									for _, l := range labels {
										transparent[l] = append(transparent[l], fd.Name.Name)
									}
								}
								visitList(cc.Body, labels, inEnd)
							}
						}
						return false
					case *ast.IfStmt:
						if inEnd || !isParser {
							return true
						}
						// if t.Name.Local == "docPart" { ... } on a start element
						if be, ok := v.Cond.(*ast.BinaryExpr); ok && be.Op == token.EQL {
							if r, ok := localSelector(be.X); ok && !isAttrIdent(r) {
								if s, ok := strLit(be.Y); ok && ncName.MatchString(s) {
									elems[s] = true
									fi.labels = append(fi.labels, s)
									visitList(v.Body.List, []string{s}, inEnd)
									if v.Else != nil {
										visitList([]ast.Stmt{v.Else}, cur, inEnd)
									}
									return false
								}
							}
						}
					case *ast.AssignStmt:
						if len(v.Lhs) == len(v.Rhs) {
							for i, l := range v.Lhs {
								if id, ok := l.(*ast.Ident); ok && id.Name != "_" {
									if ids := identsOf(v.Rhs[i], 0); len(ids) > 0 {
										aliases[id.Name] = ids
									}
								}
							}
						}
					case *ast.BinaryExpr:
						if v.Op == token.EQL || v.Op == token.NEQ {
							if s, ok := constOf(v.Y); ok {
								uses = append(uses, valueUse{idents: identsOf(v.X, 0), eq: s})
							} else if s, ok := constOf(v.X); ok {
								uses = append(uses, valueUse{idents: identsOf(v.Y, 0), eq: s})
							}
							if r, ok := localSelector(v.X); ok {
								// x.Name.Local == "document"
								if s, ok := strLit(v.Y); ok && ncName.MatchString(s) && !isAttrIdent(r) && v.Op == token.EQL && isParser {
									elems[s] = true
								}
							} else if s, ok := constOf(v.Y); ok {
								addEq(s)
							} else if s, ok := constOf(v.X); ok {
								addEq(s)
							}
						}
					case *ast.CallExpr:
						pkg, name := calleeName(v)
						if name == "" {
							return true
						}
						if pkg == "" || (pkg != "strings" && pkg != "fmt" && pkg != "strconv" && pkg != "xml" && pkg != "bytes") {
							fi.calls = append(fi.calls, name)
						}
						if name == "getAttributeValue" && len(v.Args) == 2 {
							if s, ok := strLit(v.Args[1]); ok {
								ownElement := false
								if se, ok := v.Args[0].(*ast.SelectorExpr); ok {
									if r, ok := se.X.(*ast.Ident); ok && strings.HasPrefix(r.Name, "start") {
										ownElement = true // getAttributeValue(startElement.Attr, "x"): attribute of the function's element
									}
								}
								if ownElement && cur == nil {
									fi.attrs = append(fi.attrs, s)
								} else if cur != nil {
									addAttr(cur, s)
								}
							}
						}
						if isParser && strings.HasPrefix(name, "parse") && name != fd.Name.Name {
							if cur != nil {
								for _, l := range cur {
									elemCalls[l] = append(elemCalls[l], name)
								}
							} else {
								fi.top = append(fi.top, name)
							}
						}
						if pkg != "strings" && pkg != "bytes" && pkg != "fmt" && pkg != "strconv" && name != "getAttributeValue" {
							for _, a := range v.Args {
								if ids := identsOf(a, 0); len(ids) > 1 {
									uses = append(uses, valueUse{idents: ids, callee: name})
								}
							}
						}
						if (pkg == "strings" || pkg == "bytes" || pkg == "fmt") && sliceFuncs[name] && len(v.Args) > 1 {
							for _, a := range v.Args[1:] {
								if s, ok := constOf(a); ok {
									if i := strings.IndexByte(s, '%'); i >= 0 && name == "Sscanf" {
										s = s[:i]
									}
									if s != "" {
										uses = append(uses, valueUse{idents: identsOf(v.Args[0], 0), sl: s})
									}
								}
							}
							for _, a := range v.Args[1:] {
								if s, ok := constOf(a); ok {
									if name == "Sscanf" {
										if i := strings.IndexByte(s, '%'); i >= 0 {
											s = s[:i]
										}
									}
									addSl(s)
								}
							}
						}
					}
					return true
				})
			}
			visit(fd.Body, nil, false)
		}
	}
	if len(elems) < 10 {
		return nil
	}
	// labels / attributes of a parse function, through the functions it merely wraps
	var labelsOf func(name string, seen map[string]bool) ([]string, []string)
	labelsOf = func(name string, seen map[string]bool) ([]string, []string) {
		fi := fns[name]
		if fi == nil || seen[name] {
			return nil, nil
		}
		seen[name] = true
		ls := append([]string{}, fi.labels...)
		as := append([]string{}, fi.attrs...)
		for _, t := range fi.top {
			l2, a2 := labelsOf(t, seen)
			ls = append(ls, l2...)
			as = append(as, a2...)
		}
		return ls, as
	}
	v := &Vocab{Source: "ast:" + pdir, Children: map[string][]string{}, Attrs: map[string][]string{}, Pools: map[string][]ConstSet{}}
	for e := range elems {
		v.Elems = append(v.Elems, e)
	}
	sort.Strings(v.Elems)
	allA := map[string]bool{}
	for _, e := range v.Elems {
		ch := map[string]bool{}
		at := map[string]bool{}
		for _, a := range elemAttrs[e] {
			at[a] = true
		}
		for _, c := range elemCalls[e] {
			ls, as := labelsOf(c, map[string]bool{})
			for _, l := range ls {
				ch[l] = true
			}
			for _, a := range as {
				at[a] = true
			}
		}
		for _, fn := range transparent[e] {
			ls, _ := labelsOf(fn, map[string]bool{})
			for _, l := range ls {
				ch[l] = true
			}
		}
		for c := range ch {
			v.Children[e] = append(v.Children[e], c)
		}
		sort.Strings(v.Children[e])
		seenA := map[string]bool{}
		for a := range at {
			a = strings.TrimPrefix(strings.TrimPrefix(a, "w:"), "r:")
			if ncName.MatchString(a) && !seenA[a] {
				seenA[a] = true
				v.Attrs[e] = append(v.Attrs[e], a)
				allA[a] = true
			}
		}
		sort.Strings(v.Attrs[e])
		// constants of the element's reader: its parse function(s) and the helpers they call (not other parse functions)
		v.Pools[e] = poolOf(fns, elemCalls[e])
	}
	// values read from an element: match the identifiers of the chain against the element names (DocPartGallery -> docPartGallery)
	v.Own = map[string][]ConstSet{}
	ownEq := map[string][]string{}
	ownSl := map[string][]string{}
	ownCallee := map[string][]string{}
	for _, u := range uses {
		for _, id := range u.idents {
			if id == "" {
				continue
			}
			e := strings.ToLower(id[:1]) + id[1:]
			if !elems[e] || len(e) < 3 {
				continue
			}
			switch {
			case u.eq != "":
				ownEq[e] = append(ownEq[e], u.eq)
			case u.sl != "":
				ownSl[e] = append(ownSl[e], u.sl)
			case u.callee != "" && !strings.HasPrefix(u.callee, "parse"):
				ownCallee[e] = append(ownCallee[e], u.callee)
			}
		}
	}
	for _, e := range v.Elems {
		if len(ownEq[e])+len(ownSl[e]) > 0 {
			v.Own[e] = append(v.Own[e], ConstSet{Eq: dedup(ownEq[e]), Sl: dedup(ownSl[e])})
		}
		if len(ownCallee[e]) > 0 {
			v.Own[e] = append(v.Own[e], reach(fns, ownCallee[e], 2, true)...)
		}
	}
	for a := range allA {
		v.AllAttrs = append(v.AllAttrs, a)
	}
	sort.Strings(v.AllAttrs)
	if ls, _ := labelsOf("parseBodySubElement", map[string]bool{}); len(ls) > 0 {
		v.Body = ls
	} else {
		v.Body = []string{"p", "tbl", "sectPr"}
	}
	v.Children["body"] = v.Body
	v.Children["document"] = []string{"body"}
	// every constant of a function reachable from the open entry points
	seenC := map[string]bool{}
	for _, cs := range reach(fns, []string{"Open", "OpenFromMemory", "parseDocument"}, 12, false) {
		for _, c := range append(append([]string{}, cs.Eq...), cs.Sl...) {
			if !seenC[c] {
				seenC[c] = true
				v.Global = append(v.Global, c)
			}
		}
	}
	for _, must := range []string{"document", "body", "p", "r", "t", "tbl", "tr", "tc"} {
		if !elems[must] {
			return nil // the source does not look like the reader we know: use the built-in grammar
		}
	}
	if len(v.Children["p"]) == 0 || len(v.Children["r"]) == 0 {
		return nil
	}
	return v
}

// reach returns the constant chains (one per function, source order) of the functions reachable from roots by name.
// helpersOnly: edges into other parse functions are not followed (they belong to other elements).
func reach(fns map[string]*fnInfo, roots []string, depth int, helpersOnly bool) []ConstSet {
	var out []ConstSet
	seen := map[string]bool{}
	type item struct {
		name string
		d    int
	}
	var q []item
	for _, r := range roots {
		q = append(q, item{r, 0})
	}
	for len(q) > 0 {
		it := q[0]
		q = q[1:]
		if seen[it.name] {
			continue
		}
		seen[it.name] = true
		fi := fns[it.name]
		if fi == nil {
			continue
		}
		if len(fi.eq)+len(fi.sl) > 0 {
			out = append(out, ConstSet{Eq: fi.eq, Sl: fi.sl})
		}
		if it.d >= depth {
			continue
		}
		for _, c := range fi.calls {
			if helpersOnly && strings.HasPrefix(c, "parse") {
				continue
			}
			q = append(q, item{c, it.d + 1})
		}
	}
	return out
}

func dedup(in []string) []string {
	seen := map[string]bool{}
	var out []string
	for _, s := range in {
		if !seen[s] {
			seen[s] = true
			out = append(out, s)
		}
	}
	return out
}

func poolOf(fns map[string]*fnInfo, parsers []string) []ConstSet {
	if len(parsers) == 0 {
		return nil
	}
	return reach(fns, parsers, 3, true)
}

// builtinVocab is the grammar of the reader as of the pinned tree (used only if the source is unreadable).
func builtinVocab() *Vocab {
	ch := map[string][]string{
		"document":    {"body"},
		"body":        {"p", "tbl", "sectPr"},
		"p":           {"pPr", "r"},
		"pPr":         {"pStyle", "spacing", "jc", "ind", "numPr", "sectPr"},
		"numPr":       {"ilvl", "numId"},
		"r":           {"rPr", "t", "drawing"},
		"rPr":         {"b", "bCs", "i", "iCs", "u", "strike", "sz", "szCs", "color", "highlight", "rFonts"},
		"tbl":         {"tblPr", "tblGrid", "tr"},
		"tblPr":       {"tblW", "jc", "tblLook", "tblStyle", "tblBorders", "shd", "tblCellMar", "tblLayout", "tblInd"},
		"tblGrid":     {"gridCol"},
		"tr":          {"trPr", "tc"},
		"trPr":        {"trHeight", "cantSplit", "tblHeader"},
		"tc":          {"tcPr", "p"},
		"tcPr":        {"tcW", "vAlign", "gridSpan", "vMerge", "textDirection", "shd", "tcBorders", "tcMar", "noWrap", "hideMark"},
		"tblBorders":  {"top", "left", "bottom", "right", "insideH", "insideV"},
		"tcBorders":   {"top", "left", "bottom", "right", "insideH", "insideV", "tl2br", "tr2bl"},
		"tblCellMar":  {"top", "left", "bottom", "right"},
		"tcMar":       {"top", "left", "bottom", "right"},
		"sectPr":      {"pgSz", "pgMar", "cols", "docGrid", "headerReference", "footerReference"},
		"drawing":     {"inline", "anchor"},
		"inline":      {"extent", "docPr", "graphic"},
		"anchor":      {"simplePos", "positionH", "positionV", "extent", "effectExtent", "wrapNone", "wrapSquare", "wrapTight", "wrapTopAndBottom", "docPr", "cNvGraphicFramePr", "graphic"},
		"graphic":     {"graphicData"},
		"graphicData": {"pic"},
		"pic":         {"nvPicPr", "blipFill", "spPr"},
		"nvPicPr":     {"cNvPr", "cNvPicPr"},
		"blipFill":    {"blip", "stretch"},
		"spPr":        {"xfrm", "prstGeom"},
		"xfrm":        {"off", "ext"},
	}
	at := map[string][]string{
		"pStyle": {"val"}, "jc": {"val"}, "spacing": {"before", "after", "line", "lineRule"}, "ind": {"firstLine", "left", "right"},
		"ilvl": {"val"}, "numId": {"val"}, "u": {"val"}, "sz": {"val"}, "szCs": {"val"}, "color": {"val"}, "highlight": {"val"},
		"rFonts": {"ascii", "hAnsi", "eastAsia", "cs", "hint"}, "t": {"space"}, "tblW": {"w", "type"}, "tblStyle": {"val"},
		"tblLook": {"val", "firstRow", "lastRow", "firstColumn", "lastColumn", "noHBand", "noVBand"}, "shd": {"val", "color", "fill", "themeFill"},
		"tblLayout": {"type"}, "tblInd": {"w", "type"}, "gridCol": {"w"}, "tcW": {"w", "type"}, "vAlign": {"val"}, "gridSpan": {"val"},
		"vMerge": {"val"}, "pgSz": {"w", "h", "orient"}, "pgMar": {"top", "right", "bottom", "left", "header", "footer", "gutter"},
		"cols": {"space", "num"}, "docGrid": {"type", "linePitch", "charSpace"}, "headerReference": {"type", "id"}, "footerReference": {"type", "id"},
		"extent": {"cx", "cy"}, "docPr": {"id", "name", "descr", "title"}, "blip": {"embed"}, "trHeight": {"val", "hRule"},
		"inline": {"distT", "distB", "distL", "distR"}, "anchor": {"distT", "distB", "distL", "distR", "simplePos", "relativeHeight", "behindDoc", "locked", "layoutInCell", "allowOverlap"},
	}
	v := &Vocab{Source: "builtin", Children: ch, Attrs: at, Body: ch["body"]}
	seen := map[string]bool{}
	add := func(s string) {
		if !seen[s] {
			seen[s] = true
			v.Elems = append(v.Elems, s)
		}
	}
	for k, cs := range ch {
		add(k)
		for _, c := range cs {
			add(c)
		}
	}
	sort.Strings(v.Elems)
	sa := map[string]bool{}
	for _, as := range at {
		for _, a := range as {
			if !sa[a] {
				sa[a] = true
				v.AllAttrs = append(v.AllAttrs, a)
			}
		}
	}
	sort.Strings(v.AllAttrs)
	return v
}

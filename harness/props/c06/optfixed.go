package c06

// Hand-written inputs of generator (o): optional parts in shapes other producers write, each with the follow-up call that is
// the first to need the part. Judged like generated cases, before them, on every run.

import "strings"

const optDecls = `xmlns:w="` + nsW + `" xmlns:mc="` + nsMC + `" xmlns:w14="` + nsW14 + `" xmlns:w15="` + nsW15 + `" mc:Ignorable="w14 w15"`

// optFixedCase builds a case around literal optional parts; content types and relationships name them.
func optFixedCase(note string, follow []string, parts map[string]string) Case {
	c := Case{Gen: "fixed", Via: "mem", Note: note, Follow: follow, Parts: map[string]*XMLPart{}}
	ct := stdTree(nCT)
	rels := stdTree(nDocRels)
	rid := 3
	names := make([]string, 0, len(parts))
	for n := range parts {
		names = append(names, n)
	}
	for i := 1; i < len(names); i++ {
		for j := i; j > 0 && names[j] < names[j-1]; j-- {
			names[j], names[j-1] = names[j-1], names[j]
		}
	}
	for _, n := range names {
		c.Parts[n] = &XMLPart{Lit: parts[n]}
		if n == nStyles {
			continue
		}
		ct.C = append(ct.C, el("Override", at("PartName", "/"+n, "ContentType", partContentType(n))))
		rels.C = append(rels.C, el("Relationship", at("Id", "rId"+string(rune('0'+rid)), "Type", nsR+"/"+rootOfPart(n), "Target", strings.TrimPrefix(n, "word/"))))
		rid++
	}
	c.Parts[nCT] = &XMLPart{Root: ct}
	c.Parts[nDocRels] = &XMLPart{Root: rels}
	return c
}

func fixedOpt() []Case {
	const decl = `<?xml version="1.0" encoding="UTF-8" standalone="yes"?>` + "\n"
	abstract := `<w:abstractNum w:abstractNumId="0"><w:lvl w:ilvl="0"><w:start w:val="1"/><w:numFmt w:val="decimal"/><w:lvlText w:val="%1."/></w:lvl></w:abstractNum>`
	note := func(kind, id, text string) string {
		return `<w:` + kind + ` w:id="` + id + `"><w:p><w:r><w:t>` + text + `</w:t></w:r></w:p></w:` + kind + `>`
	}
	sep := func(kind string) string {
		return `<w:` + kind + ` w:type="separator" w:id="-1"><w:p><w:r><w:separator/></w:r></w:p></w:` + kind + `>`
	}
	alt := `<mc:AlternateContent><mc:Choice Requires="w15"><w15:numExt w15:val="1"/></mc:Choice><mc:Fallback/></mc:AlternateContent>`
	return []Case{
		optFixedCase("numbering part with an mc:AlternateContent child after the definitions", []string{"AddNumberedList"}, map[string]string{
			"word/numbering.xml": decl + `<w:numbering ` + optDecls + `>` + abstract + `<w:num w:numId="1"><w:abstractNumId w:val="0"/></w:num>` + alt + `</w:numbering>`}),
		optFixedCase("footnotes part with an mc:AlternateContent child between the notes", []string{"GetFootnoteCount", "AddFootnote"}, map[string]string{
			"word/footnotes.xml": decl + `<w:footnotes ` + optDecls + `>` + sep("footnote") + alt + note("footnote", "4", "an existing note") + `</w:footnotes>`}),
		optFixedCase("endnotes part whose first child is a w15 extension element", []string{"AddEndnote", "RemoveEndnote:2"}, map[string]string{
			"word/endnotes.xml": decl + `<w:endnotes ` + optDecls + `><w15:docId w15:val="{5F2B5C33-6B4E-4D2B-9E0A-1F0C9A0D3B11}"/>` + sep("endnote") + note("endnote", "2", "an existing endnote") + `</w:endnotes>`}),
		optFixedCase("self-closing roots", []string{"AddBulletList", "AddFootnote", "AddEndnote", "AddHeadingParagraph:4"}, map[string]string{
			"word/numbering.xml": decl + `<w:numbering xmlns:w="` + nsW + `"/>`,
			"word/footnotes.xml": `<w:footnotes xmlns:w="` + nsW + `" />`,
			"word/endnotes.xml":  "<w:endnotes\n\txmlns:w=\"" + nsW + "\"\n/>",
			nStyles:              decl + `<w:styles xmlns:w="` + nsW + `"/>`}),
		optFixedCase("roots that bind another prefix / the default namespace", []string{"RemoveFootnote:3", "AddListItem", "AddEndnote", "SetStyle:Heading5", "ToBytes", "AddStyle:VerifCustom"}, map[string]string{
			"word/numbering.xml": decl + `<ns0:numbering xmlns:ns0="` + nsW + `"><ns0:abstractNum ns0:abstractNumId="7"/><ns0:num ns0:numId="12"><ns0:abstractNumId ns0:val="7"/></ns0:num></ns0:numbering>`,
			"word/footnotes.xml": decl + `<footnotes xmlns="` + nsW + `" xmlns:w="` + nsW + `"><footnote w:id="3"><p><r><t>note</t></r></p></footnote></footnotes>`,
			"word/endnotes.xml":  decl + `<endnotes xmlns="` + nsW + `"><endnote id="1"/></endnotes>`,
			nStyles:              decl + `<ns0:styles xmlns:ns0="` + nsW + `" xmlns:w="urn:other"><ns0:latentStyles ns0:count="1"><ns0:lsdException ns0:name="Normal"/></ns0:latentStyles><ns0:style ns0:type="paragraph" ns0:styleId="Normal"><ns0:name ns0:val="Normal"/></ns0:style></ns0:styles>`}),
		optFixedCase("definitions nested in extension elements, ids that are not numbers", []string{"GetEndnoteCount", "RestartNumbering:1", "AddNumberedList", "RemoveFootnote:x"}, map[string]string{
			"word/numbering.xml": decl + `<w:numbering ` + optDecls + `><mc:AlternateContent><mc:Choice Requires="w14"><w:num w:numId="99999999999999999999"><w:abstractNumId w:val="0"/></w:num></mc:Choice><mc:Fallback>` + abstract + `</mc:Fallback></mc:AlternateContent><w:num w:numId="x"/><w:num w:numId="-5"/><w:num/></w:numbering>`,
			"word/footnotes.xml": decl + `<w:footnotes ` + optDecls + `>` + note("footnote", "x", "a") + note("footnote", "2147483648", "b") + `<w:footnote/><w14:footnote w14:id="7"/><!-- c --></w:footnotes>`}),
		optFixedCase("optional parts cut in the middle", []string{"AddListItem:nil", "GetFootnoteCount", "SetFootnoteConfig:nil", "AddHeadingParagraph:6"}, map[string]string{
			"word/numbering.xml": decl + `<w:numbering ` + optDecls + `>` + abstract + `<w:num w:numId="1"><w:abstractNumId w:v`,
			"word/footnotes.xml": decl + `<w:footnotes ` + optDecls + `>` + sep("footnote") + `</w:footnotes`,
			"word/settings.xml":  decl + `<w:settings ` + optDecls + `><w:zoom w:percent="100"/><w15:docId w15:val="{0}"/>`,
			nStyles:              decl + `<w:styles ` + optDecls + `><w:style w:type="paragraph" w:styleId="Normal"><w:name w:val="Normal"/>`}),
		optFixedCase("settings and styles with extension children directly under the root", []string{"SetFootnoteConfig", "ApplyTableStyle:MyTable", "ModifyStyle:Normal", "AddHeadingParagraph:3"}, map[string]string{
			"word/settings.xml": decl + `<w:settings ` + optDecls + `><w:zoom w:percent="100"/><w:footnotePr><w:footnote w:id="-1"/><w:footnote w:id="0"/></w:footnotePr><w14:docId w14:val="1A2B3C4D"/><w15:chartTrackingRefBased/><w15:docId w15:val="{0}"/></w:settings>`,
			nStyles: decl + `<w:styles ` + optDecls + `><w:docDefaults><w:rPrDefault><w:rPr><w:sz w:val="22"/></w:rPr></w:rPrDefault></w:docDefaults>` + alt +
				`<w:style w:type="paragraph" w:default="1" w:styleId="Normal"><w:name w:val="Normal"/><w:qFormat/></w:style><w15:style w15:styleId="Normal"/><w:style w:type="table" w:styleId="MyTable"><w:name w:val="My Table"/></w:style></w:styles>`}),
	}
}

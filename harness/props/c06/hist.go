package c06

// State that accumulates across Opens in one process.
//
// A C06 process opens thousands of generated packages one after another, so a defect in something the reader keeps per
// process (an interning table, a cache, a counter with a limit) shows up as a panic of Open on a package that is innocent by
// itself: the failure depends on the HISTORY of the process. Three things follow.
//
//  1. Every generated case carries a provenance stamp (Hist: seed, shard, tier, index in the rapid sequence). The sequence is
//     a pure function of the seed, so the stamp is the whole history in four numbers: case i of a process is regenerated with
//     rapid's own per-case seed (base + i(i+1)/2) and the regeneration is validated by regenerating the stamped case itself.
//  2. At the first unattributed panic of a process the same case is judged ALONE in a fresh child process. If it passes
//     there, the failure is reported as history-dependent (the detail says so and names the history); from then on the state
//     of this process is suspect, so everything rapid still asks for (the reproduction run, the shrink candidates) is judged
//     in fresh child processes: an input-dependent failure shrinks against clean state, a history-dependent one does not
//     reproduce alone, is not shrunk, and is saved as it was generated - with its stamp.
//  3. Replaying a stamped case (./check C06 --replay, or the driver's sentinel after a worker died): it is first judged alone
//     in a child; if it passes alone, the preceding cases of its process are regenerated and run in order in the replaying
//     process, then the case is judged there. A history-dependent panic (or a fatal error that killed the worker) reproduces
//     and is reported as a VIOLATION with the history; a re-run that cannot be completed is INCONCLUSIVE, never a violation.

import (
	"context"
	"encoding/json"
	"fmt"
	"os"
	"os/exec"
	"path/filepath"
	"sort"
	"strings"
	"time"

	"pgregory.net/rapid"

	"wzverif/internal/kit"
)

// Hist is the provenance stamp of a generated case.
type Hist struct {
	Seed  uint64 `json:"seed"`
	Shard int    `json:"shard"`
	Tier  string `json:"tier"`
	Index int    `json:"index"` // number of cases rapid generated before this one in its process
}

const (
	childEnv      = "C06_CHILD"       // path of the case a child process judges alone
	noIsolateEnv  = "C06_NOISOLATE"   // set for the native fuzzing workers: no child processes
	noHistoryEnv  = "C06_NOHISTORY"   // replay the saved case alone, never its history
	childMarker   = "C06CHILD "       // prefix of the child's one result line
	historyBudget = 400 * time.Second // the driver gives a replay 600 s
)

var proc struct {
	genCalls int    // cases generated so far (valid or not: rapid advances its seed at every attempt)
	cases    int    // cases judged in this process
	suspect  bool   // an unattributed panic happened here: the state of this process is no longer trusted
	children int    // cases judged in child processes
	note     string // appended to failure details after a history re-run
}

func tierBytes(tier string) int {
	if tier == "thorough" {
		return 12 << 20
	}
	return 4 << 20
}

// genStamped is the generator kit sees: genCase plus the provenance stamp.
func genStamped(t *rapid.T) Case {
	i := proc.genCalls
	proc.genCalls++
	c := genCase(t)
	c.Hist = &Hist{Seed: kit.Seed, Shard: kit.Shard, Tier: kit.Tier, Index: i}
	return c
}

// regen regenerates case i of the process described by h (kit.Tier must already be h.Tier).
func regen(h Hist, i int) (c Case, err error) {
	defer func() {
		if p := recover(); p != nil {
			err = fmt.Errorf("generator panicked: %v", p)
		}
	}()
	base := h.Seed*131 + uint64(h.Shard) + 7 // kit.TestMain: -rapid.seed
	seed := base + uint64(i)*uint64(i+1)/2   // rapid.findBug: seed += iter before every attempt
	c = rapid.Custom(genCase).Example(int(seed))
	c.Hist = &Hist{Seed: h.Seed, Shard: h.Shard, Tier: h.Tier, Index: i}
	return c, nil
}

func sameCase(a, b Case) bool {
	ja, _ := json.Marshal(a)
	jb, _ := json.Marshal(b)
	return string(ja) == string(jb)
}

func isPanic(f kit.Failure) bool {
	return strings.HasPrefix(f.Clause, "C06.T2") && strings.Contains(f.Detail, "panicked:")
}

// attribute splits failures like kit does (open known findings absorb what their trigger matches).
func attribute(c Case, fs []kit.Failure) (un []kit.Failure) {
	openOnce.Do(func() { openKF = kit.OpenFindings("C06") })
	for _, f := range fs {
		known := false
		for _, kf := range findings {
			if openKF[kf.ID] && strings.HasPrefix(f.Clause, kf.Clause) && kf.Trigger(c, f) {
				known = true
				break
			}
		}
		if !known {
			un = append(un, f)
		}
	}
	return un
}

type childResult struct {
	Failures []kit.Failure `json:"failures"`
	Labels   []string      `json:"labels"`
	Nontriv  bool          `json:"nontrivial"`
	Shape    string        `json:"shape"`
}

// childMain judges one case in this (fresh) process and prints the result as one line.
func childMain(path string) int {
	kit.Root = os.Getenv("C06_CHILD_ROOT")
	kit.Scratch = os.Getenv("C06_CHILD_SCRATCH")
	if t := os.Getenv("C06_CHILD_TIER"); t != "" {
		kit.Tier = t
	}
	MaxPartBytes = tierBytes(kit.Tier)
	js, err := os.ReadFile(path)
	if err != nil {
		fmt.Println(childMarker + `{"error":"unreadable case"}`)
		return 3
	}
	var c Case
	if err := json.Unmarshal(js, &c); err != nil {
		fmt.Println(childMarker + `{"error":"undecodable case"}`)
		return 3
	}
	res := runLocal(c)
	out, _ := json.Marshal(childResult{Failures: res.Failures, Labels: res.Labels, Nontriv: res.Nontrivial, Shape: res.Shape})
	fmt.Println(childMarker + string(out))
	return 0
}

// judgeAlone judges c in a fresh child process. died: the child ended without a result (fatal error, exit, kill).
func judgeAlone(c Case, limit time.Duration) (r childResult, died bool, tail string, err error) {
	proc.children++
	dir := kit.Scratch
	if dir == "" {
		dir = os.TempDir()
	}
	f, err := os.CreateTemp(dir, "c06-alone-*.json")
	if err != nil {
		return r, false, "", err
	}
	defer os.Remove(f.Name())
	js, _ := json.Marshal(c)
	f.Write(js)
	f.Close()
	tier := kit.Tier
	if c.Hist != nil && c.Hist.Tier != "" {
		tier = c.Hist.Tier
	}
	ctx, cancel := context.WithTimeout(context.Background(), limit)
	defer cancel()
	cmd := exec.CommandContext(ctx, os.Args[0], "-test.run", "^$")
	cmd.Env = append(os.Environ(), childEnv+"="+f.Name(), "C06_CHILD_ROOT="+kit.Root, "C06_CHILD_SCRATCH="+kit.Scratch, "C06_CHILD_TIER="+tier)
	out, runErr := cmd.CombinedOutput()
	for _, line := range strings.Split(string(out), "\n") {
		if strings.HasPrefix(line, childMarker) {
			if e := json.Unmarshal([]byte(line[len(childMarker):]), &r); e == nil {
				return r, false, "", nil
			}
		}
	}
	tail = string(out)
	if len(tail) > 600 {
		tail = tail[len(tail)-600:]
	}
	if ctx.Err() != nil {
		tail = "no result within " + limit.String() + ": " + tail
	} else if runErr != nil {
		tail = runErr.Error() + ": " + tail
	}
	return r, true, strings.ReplaceAll(tail, "\n", " | "), nil
}

func caseLimit() time.Duration { return 20 * time.Second }

func isolating() bool {
	return os.Getenv(childEnv) == "" && os.Getenv(noIsolateEnv) == ""
}

func annotate(res *kit.Result, note string) {
	for i := range res.Failures {
		d := note + " | " + res.Failures[i].Detail
		if len(d) > 1500 {
			d = d[:1500] + "…"
		}
		res.Failures[i].Detail = d
	}
}

func histString(h *Hist) string {
	if h == nil {
		return "a fixed / replayed case"
	}
	return fmt.Sprintf("generated case #%d of VERIF_SEED=%d shard %d tier %s", h.Index, h.Seed, h.Shard, h.Tier)
}

// run is the Run function kit sees.
func run(c Case) *kit.Result {
	if !isolating() {
		return runLocal(c)
	}
	if proc.suspect {
		// the state of this process is suspect: judge in a fresh process (rapid's reproduction run and shrink candidates)
		r, died, tail, err := judgeAlone(c, caseLimit()-time.Second)
		if err != nil {
			return runLocal(c)
		}
		res := &kit.Result{Failures: r.Failures, Labels: append(r.Labels, "judged:in-fresh-process"), Nontrivial: r.Nontriv, Shape: r.Shape}
		if died {
			res.Fail("C06.T2.open", "judged alone in a fresh process: the process ended without a result (%s)", tail)
		}
		return res
	}
	res := runLocal(c)
	proc.cases++
	un := attribute(c, res.Failures)
	panicked := false
	for _, f := range un {
		if isPanic(f) {
			panicked = true
		}
	}
	if !panicked {
		if proc.note != "" && len(res.Failures) > 0 {
			annotate(res, proc.note)
		}
		return res
	}
	proc.suspect = true
	where := fmt.Sprintf("%s; %d cases were judged in this process before it", histString(c.Hist), proc.cases-1)
	if proc.note != "" {
		annotate(res, "HISTORY-DEPENDENT: "+proc.note)
		return res
	}
	r, died, _, err := judgeAlone(c, caseLimit()-time.Second)
	switch {
	case err != nil:
		annotate(res, "("+where+"; could not be judged alone: "+err.Error()+")")
	case !died && len(attribute(c, r.Failures)) == 0:
		res.Label("history-dependent-failure")
		annotate(res, "HISTORY-DEPENDENT: the same package passes when it is the first one a fresh process opens; here it was "+where+
			" - the failure needs the state the preceding Opens left in the process; replaying the saved case (it carries its provenance) re-runs them")
	default:
		annotate(res, "(reproduces alone in a fresh process; "+where+")")
	}
	return res
}

// ---------------------------------------------------------------------------------------------
// replay with history

func say(format string, a ...interface{}) { fmt.Fprintf(os.Stdout, format+"\n", a...) }

// historyPrelude runs before kit judges a replayed case: it sets the tier the case was generated for and, when the case passes
// alone, re-runs the history of its process.
func historyPrelude() {
	p := os.Getenv("VERIF_REPLAY")
	if p == "" || !isolating() {
		return
	}
	js, err := os.ReadFile(p)
	if err != nil {
		return
	}
	var c Case
	if json.Unmarshal(js, &c) != nil || c.Hist == nil {
		return
	}
	h := *c.Hist
	if h.Tier == "thorough" || h.Tier == "quick" {
		kit.Tier = h.Tier // the case was generated for this tier: sizes (part budget, scales) must be the same
	}
	MaxPartBytes = tierBytes(kit.Tier)
	if os.Getenv(noHistoryEnv) != "" || h.Index <= 0 {
		return
	}
	start := time.Now()
	r, died, tail, err := judgeAlone(c, 3*caseLimit())
	if err != nil {
		return
	}
	if died || len(attribute(c, r.Failures)) > 0 {
		if died {
			say("NOTE: judged alone in a fresh process the case ends the process (%s)", tail)
		}
		return // reproduces alone: kit judges it in this process
	}
	self, err := regen(h, h.Index)
	if err != nil || !sameCase(self, c) {
		say("NOTE: the replayed case passes alone; its history cannot be regenerated from its stamp (%s): the generator changed since it was saved, or the case was shrunk - judged alone", histString(&h))
		return
	}
	say("NOTE: the replayed case passes when a fresh process opens it first; re-running its history (%s: the fixed cases, the regression replays and the %d generated cases before it) in this process", histString(&h), h.Index)
	abort := func(why string) {
		say("INCONCLUSIVE history re-run of %s: %s", histString(&h), why)
		os.Exit(2)
	}
	precedingFailed := 0
	one := func(what string, hc Case) {
		if time.Since(start) > historyBudget {
			abort(fmt.Sprintf("not finished within %v (at %s)", historyBudget, what))
		}
		wd := time.AfterFunc(3*caseLimit(), func() { abort("a case that returned in the original run did not return here: " + what) })
		res := runLocal(hc)
		wd.Stop()
		proc.cases++
		if un := attribute(hc, res.Failures); len(un) > 0 {
			// a preceding case failing now (it passed in the original process, or the run would have stopped there) is part of
			// the evidence but not the verdict on the replayed case
			if precedingFailed++; precedingFailed <= 3 {
				say("NOTE: preceding %s fails in the re-run: %s: %.300s", what, un[0].Clause, un[0].Detail)
			}
		}
	}
	n := 0
	for _, fc := range fixed() {
		one(fmt.Sprintf("fixed case %d", n), fc)
		n++
	}
	if rs, _ := filepath.Glob(filepath.Join(kit.Root, "replays", "regress", "C06-*.json")); len(rs) > 0 {
		sort.Strings(rs)
		for _, rp := range rs {
			var rc Case
			if b, err := os.ReadFile(rp); err == nil && json.Unmarshal(b, &rc) == nil {
				one("regression replay "+filepath.Base(rp), rc)
			}
		}
	}
	for i := 0; i < h.Index; i++ {
		hc, err := regen(h, i)
		if err != nil {
			abort(fmt.Sprintf("case %d cannot be regenerated: %v", i, err))
		}
		one(fmt.Sprintf("generated case #%d", i), hc)
	}
	proc.note = fmt.Sprintf("passes alone in a fresh process; fails after the history of its process was re-run (%s: %d cases re-run in %.0fs)", histString(&h), proc.cases, time.Since(start).Seconds())
	say("NOTE: history re-run complete (%d cases, %.0fs, %d of them fail now); judging the replayed case in this process", proc.cases, time.Since(start).Seconds(), precedingFailed)
}

package c06

// Two additions to the shared well-formedness checker that C06 needs because the library copies text of the input into the
// regenerated main part (formula paragraphs), and a guard against calls that allocate without bound.

import (
	"bytes"
	"encoding/xml"
	"fmt"
	"io"
	"os"
	"runtime"
	"runtime/metrics"
	"strings"
	"time"
)

// wfSupplement: internal/xmlwf leaves a text that contains "<!DOCTYPE" to its two encoding/xml passes, which accept a markup
// declaration anywhere and an XML declaration in the middle of the document. XML 1.0 allows a document type declaration only
// in the prolog ([22] prolog, [28] doctypedecl; content [43] has no markup declarations) and the XML declaration only at the
// very start ([23] XMLDecl; [17] PITarget excludes the name "xml" in any case).
func wfSupplement(data []byte) error {
	data = bytes.TrimPrefix(data, []byte("\xef\xbb\xbf"))
	if !mayHaveDeclaration(data) {
		return nil
	}
	dec := xml.NewDecoder(bytes.NewReader(data))
	depth, roots := 0, 0
	for {
		off := dec.InputOffset()
		tok, err := dec.Token()
		if err == io.EOF {
			return nil
		}
		if err != nil {
			return nil // decided by xmlwf.Check
		}
		switch t := tok.(type) {
		case xml.StartElement:
			if depth == 0 {
				roots++
			}
			depth++
		case xml.EndElement:
			depth--
		case xml.Directive:
			if depth > 0 {
				return fmt.Errorf("offset %d: markup declaration <!%.40s> inside the root element", off, string(t))
			}
			if roots > 0 {
				return fmt.Errorf("offset %d: markup declaration <!%.40s> after the root element", off, string(t))
			}
		case xml.ProcInst:
			if strings.EqualFold(t.Target, "xml") && off != 0 {
				return fmt.Errorf("offset %d: processing instruction with the reserved target %q (an XML declaration is allowed at the very start only)", off, t.Target)
			}
		}
	}
}

// mayHaveDeclaration: the text contains "<!" other than a comment / CDATA start, or "<?xml" (any case) after its first byte.
func mayHaveDeclaration(data []byte) bool {
	for i := 0; i+1 < len(data); i++ {
		if data[i] != '<' {
			continue
		}
		switch data[i+1] {
		case '!':
			rest := data[i+2:]
			if !bytes.HasPrefix(rest, []byte("--")) && !bytes.HasPrefix(rest, []byte("[CDATA[")) {
				return true
			}
		case '?':
			if i > 0 && len(data) >= i+5 && strings.EqualFold(string(data[i+2:i+5]), "xml") {
				return true
			}
		}
	}
	return false
}

// heapLimit: no input of this check makes a correct library hold more than a few hundred MB (parts are capped at 4 / 12 MB).
const heapLimit = 5 << 29

// heapGuard ends the process the way kit's per-case watchdog does (exit status 97, the current case is on disk and is replayed
// by the driver) when the live heap passes heapLimit: a call that allocates in a loop that never ends would otherwise take the
// machine's memory within the watchdog's ten seconds.
func heapGuard() {
	sample := []metrics.Sample{{Name: "/memory/classes/heap/objects:bytes"}}
	go func() {
		for {
			time.Sleep(50 * time.Millisecond)
			metrics.Read(sample)
			if sample[0].Value.Kind() == metrics.KindUint64 && sample[0].Value.Uint64() > heapLimit {
				buf := make([]byte, 1<<20)
				n := runtime.Stack(buf, true)
				fmt.Fprintf(os.Stderr, "WATCHDOG: live heap above %d MB: a call allocates without bound (does not terminate)\n%s\n", heapLimit>>20, buf[:n])
				os.Exit(97)
			}
		}
	}()
}

package c06

// Body-level bookmarks around headings, as other producers write them, and what the judge reports about them.
//
// A table of contents is built from the heading paragraphs of the body and from the bookmarks next to them. The library wraps
// every heading in a pair of its own ("_Toc" + number, start right before the heading, end right after it); other producers use
// the same "_Toc" prefix (Word does, for every heading a TOC field refers to) but place the two marks where the bookmarked RANGE
// begins and ends: around the heading and the text below it, around a heading and a table, without an end (the end lies in another
// story or was lost), with an end that belongs to another bookmark, collapsed in front of the heading, nested. The grammar
// generator (gen.go) draws the children of w:body independently; a heading with text directly behind a "_Toc" bookmark start
// comes out of it only by accident. bookmarkedRange writes these layouts on purpose.

import (
	"bytes"
	"strings"

	"github.com/zerx-lab/wordZero/pkg/document"
)

// style ids producers give heading paragraphs (built-in ids, localised / numeric ids, lower case, "Title" + level), and some that are none
var headingStyleVals = []string{"Heading1", "Heading1", "Heading2", "Heading3", "Heading4", "Heading9", "heading1", "heading 2", "1", "2", "3", "10", "Title1", "Title",
	"berschrift1", "Heading10", "Normal"}

var headingTexts = []string{"Chapter one", "1 Introduction", "Overview", "概述", "A & B <c>", " ", "x", "Results and discussion", "1.1\tScope"}

var bookmarkPrefixes = []string{"_Toc", "_Toc", "_Toc", "_Toc", "_Ref", "_Hlk", "_GoBack", "bm", "_toc", "_Toc_"}

// headingParagraph: a paragraph with a heading style and (mostly) text.
func (g *gctx) headingParagraph() Node {
	t := g.t
	g.nodes += 4
	style := headingStyleVals[pick(t, "bm-style", len(headingStyleVals))]
	text := headingTexts[pick(t, "bm-text", len(headingTexts))]
	ppr := el("w:pPr", nil, el("w:pStyle", at("w:val", style)))
	if chance(t, "bm-outline", 150) {
		ppr.C = append(ppr.C, el("w:outlineLvl", at("w:val", "0")))
	}
	p := el("w:p", nil, ppr)
	switch k := pick(t, "bm-runs", 10); {
	case k < 6:
		p.C = append(p.C, el("w:r", nil, txt("w:t", nil, text)))
	case k < 8: // the text in two runs, the number first
		p.C = append(p.C, el("w:r", nil, txt("w:t", at("xml:space", "preserve"), "1 ")), el("w:r", nil, el("w:rPr", nil, el("w:b", nil)), txt("w:t", nil, text)))
	case k < 9: // no text at all
	default:
		p.C = append(p.C, el("w:r", nil, el("w:tab", nil), txt("w:t", nil, text)))
	}
	return p
}

// bookmarkedRange: a heading together with the body-level bookmark marks a producer leaves next to it.
func (g *gctx) bookmarkedRange() []Node {
	t := g.t
	g.shape("bookmark-range")
	id := g.uniqueValue("n", "")
	name := g.uniqueValue("s", bookmarkPrefixes[pick(t, "bm-prefix", len(bookmarkPrefixes))])
	if chance(t, "bm-digits", 300) {
		name = "_Toc" + g.uniqueValue("n", "") // as Word numbers them
	}
	start := el("w:bookmarkStart", at("w:id", id, "w:name", name))
	end := el("w:bookmarkEnd", at("w:id", id))
	h := g.headingParagraph()
	para := func() Node {
		g.nodes += 3
		return el("w:p", nil, el("w:r", nil, txt("w:t", nil, "Text that belongs to the bookmarked range.")))
	}
	var out []Node
	layout := pick(t, "bm-layout", 14)
	if layout >= 12 {
		layout = 5
	}
	switch layout {
	case 0: // tightly around the heading
		out = []Node{start, h, end}
	case 1, 2: // the range covers the heading and the text below it
		out = []Node{start, h, para(), end}
		g.shape("bookmark-range:covers-more-than-the-heading")
	case 3: // ... a heading and a table
		out = []Node{start, h, g.producerTable(1), para(), end}
		g.shape("bookmark-range:covers-more-than-the-heading")
	case 4: // no end
		out = []Node{start, h, para()}
		g.shape("bookmark-range:no-end")
	case 5: // the heading is the last block: nothing follows
		out = []Node{para(), start, h}
		g.shape("bookmark-range:no-end")
		g.shape("bookmark-range:heading-is-the-last-block")
		g.endBody = true
	case 6: // the end right after the heading belongs to another bookmark
		other := g.uniqueValue("n", "")
		out = []Node{el("w:bookmarkStart", at("w:id", other, "w:name", g.uniqueValue("s", "_Ref"))), start, h, el("w:bookmarkEnd", at("w:id", other)), para(), end}
		g.shape("bookmark-range:other-end")
	case 7: // collapsed in front of the heading
		out = []Node{start, end, h, para()}
	case 8: // an end without a start
		out = []Node{h, end, para()}
	case 9: // nested: two starts, two ends
		id2 := g.uniqueValue("n", "")
		out = []Node{start, el("w:bookmarkStart", at("w:id", id2, "w:name", g.uniqueValue("s", "_Toc"))), h, el("w:bookmarkEnd", at("w:id", id2)), para(), end}
	case 10: // the marks inside the paragraph, as Word writes them, and a second heading tightly wrapped
		kids := []Node{h.C[0], start}
		kids = append(kids, h.C[1:]...)
		h.C = append(kids, end)
		id2 := g.uniqueValue("n", "")
		out = []Node{h, el("w:bookmarkStart", at("w:id", id2, "w:name", g.uniqueValue("s", "_Toc"))), g.headingParagraph(), el("w:bookmarkEnd", at("w:id", id2))}
	default: // two headings inside one range
		out = []Node{start, h, para(), g.headingParagraph(), end, para()}
		g.shape("bookmark-range:covers-more-than-the-heading")
	}
	// attributes without a value / without the attribute at all, rarely
	if chance(t, "bm-noattr", 60) {
		out[0].A = nil
	}
	return out
}

// labelBookmarks reports what Open made of such input (public types and fields only): evidence that the shapes above reach
// the document-level edits as body elements.
func (j *judge) labelBookmarks(doc *document.Document) {
	els := doc.Body.Elements
	for i, e := range els {
		s, ok := e.(*document.BookmarkStart)
		if !ok || s == nil {
			continue
		}
		j.res.Label("opened-body-bookmark")
		if i+1 >= len(els) {
			continue
		}
		p, ok := els[i+1].(*document.Paragraph)
		if !ok || p == nil || p.Properties == nil || p.Properties.ParagraphStyle == nil {
			continue
		}
		j.res.Label("opened-bookmark-start-before-styled-paragraph")
		j.tocFirst = true
		if !strings.HasPrefix(s.Name, "_Toc") {
			continue
		}
		if i+2 >= len(els) {
			j.res.Label("opened-toc-bookmark-start-before-last-paragraph")
			continue
		}
		if _, isEnd := els[i+2].(*document.BookmarkEnd); !isEnd {
			j.res.Label("opened-toc-bookmark-start-without-end-after-the-paragraph")
		}
	}
}

// tocAsFirstEdit opens the bytes once more and builds the table of contents as the first edit of that document (twice: the second
// run meets the bookmarks of the first), then saves. Errors are acceptable.
func (j *judge) tocAsFirstEdit(b []byte) {
	const E, S = "C06.T2.edit", "C06.T2.save"
	res := j.res
	var doc *document.Document
	var err error
	res.Eval("C06.T2.open")
	if !j.call("C06.T2.open", "OpenFromMemory (a further document from the same bytes)", "", func() { doc, err = document.OpenFromMemory(readCloser{bytes.NewReader(b)}) }) || err != nil || doc == nil || doc.Body == nil {
		return
	}
	res.Label("toc-as-first-edit")
	res.Eval(E)
	ok := j.call(E, "AutoGenerateTOC(nil) as the first edit of an opened document", "", func() { doc.AutoGenerateTOC(nil) })
	ok = ok && j.call(E, "AutoGenerateTOC(nil), second run, on an opened document", "", func() { doc.AutoGenerateTOC(nil) })
	if !ok {
		return
	}
	res.Eval(S)
	var out []byte
	if j.call(S, "ToBytes after AutoGenerateTOC as the first edit", "", func() { out, err = doc.ToBytes() }) && err == nil {
		j.checkSavedMain(out, 0)
	}
}

package c06

import (
	"encoding/json"
	"fmt"
	"os"
	"regexp"
	"sort"
	"strconv"
	"testing"
	"time"

	"pgregory.net/rapid"
)

var reNum = regexp.MustCompile(`0x[0-9a-f]+|#\d+|\d+`)
var reArgs = regexp.MustCompile(`\([^()]*\) @`)

func TestSurvey(t *testing.T) {
	if os.Getenv("C06_SURVEY") == "" {
		t.Skip()
	}
	n, _ := strconv.Atoi(os.Getenv("C06_SURVEY"))
	hist := map[string]int{}
	first := map[string]string{}
	labels := map[string]int{}
	var slow time.Duration
	var slowCase string
	total := 0
	g := rapid.Custom(genCase)
	for i := 0; i < n; i++ {
		c := g.Example(i)
		t0 := time.Now()
		res := run(c)
		d := time.Since(t0)
		total++
		if d > slow {
			slow = d
			js, _ := json.Marshal(c)
			if len(js) > 600 {
				js = js[:600]
			}
			slowCase = string(js)
		}
		seen := map[string]bool{}
		for _, l := range res.Labels {
			if !seen[l] {
				seen[l] = true
				labels[l]++
			}
		}
		for _, f := range res.Failures {
			d := f.Detail
			if len(d) > 260 {
				d = d[:260]
			}
			k := f.Clause + " " + reNum.ReplaceAllString(reArgs.ReplaceAllString(f.Detail, " @"), "N")
			if len(k) > 330 {
				k = k[:330]
			}
			hist[k]++
			if _, ok := first[k]; !ok {
				js, _ := json.Marshal(c)
				if len(js) > 1200 {
					js = js[:1200]
				}
				first[k] = f.Detail + "\n      " + string(js)
			}
		}
	}
	keys := []string{}
	for k := range hist {
		keys = append(keys, k)
	}
	sort.Slice(keys, func(i, j int) bool { return hist[keys[i]] > hist[keys[j]] })
	for _, k := range keys {
		fmt.Printf("%5d %s\n", hist[k], k)
	}
	fmt.Println("---- first witnesses")
	for _, k := range keys {
		fmt.Printf("* %s\n", first[k])
	}
	fmt.Println("---- labels of", total)
	lk := []string{}
	for k := range labels {
		lk = append(lk, k)
	}
	sort.Strings(lk)
	for _, k := range lk {
		fmt.Printf("%-40s %5d %.3f\n", k, labels[k], float64(labels[k])/float64(total))
	}
	fmt.Println("slowest", slow, slowCase)
}

package c13

import (
	"fmt"
	"sort"
	"strconv"

	"github.com/zerx-lab/wordZero/pkg/style"
)

// StyleSpec is the argument of a style-API op, in the units of the call it is given to.
type StyleSpec struct {
	ID      string `json:"id"`
	Name    string `json:"name"`
	Type    string `json:"type"` // paragraph | character | table
	BasedOn string `json:"based,omitempty"`
	Bold    bool   `json:"b,omitempty"`
	Italic  bool   `json:"i,omitempty"`
	SizePt  int    `json:"pt,omitempty"` // font size in points
	Color   string `json:"color,omitempty"`
	Font    string `json:"font,omitempty"`
	Align   string `json:"align,omitempty"`
	Before  int    `json:"before,omitempty"` // space before in points
	After   int    `json:"after,omitempty"`
}

// The style ids the library documents as predefined (pkg/style README and predefined.go), with their types.
// They are what a caller may refer to on a new document.
var builtinTypes = func() map[string]string {
	m := map[string]string{"Normal": "paragraph", "Title": "paragraph", "Subtitle": "paragraph", "ListParagraph": "paragraph",
		"Quote": "paragraph", "CodeBlock": "paragraph", "Emphasis": "character", "Strong": "character", "CodeChar": "character",
		"a1": "table", "ab": "table"}
	for i := 1; i <= 9; i++ {
		m[fmt.Sprintf("Heading%d", i)] = "paragraph"
	}
	return m
}()

// the ids GenerateTOC/AutoGenerateTOC give their entries ("toc 1".."toc 9" and the TOC heading); registered by NewStyleManager
var tocIDs = []string{"12", "13", "14", "15", "16", "17", "18", "19", "20", "21"}

// based-on relations among the predefined styles (pkg/style): everything paragraph-like derives from Normal, Table Grid from Normal Table
var predefinedBase = func() map[string]string {
	m := map[string]string{"Title": "Normal", "Subtitle": "Normal", "ListParagraph": "Normal", "Quote": "Normal", "CodeBlock": "Normal", "ab": "a1"}
	for i := 1; i <= 9; i++ {
		m[fmt.Sprintf("Heading%d", i)] = "Normal"
	}
	for _, id := range tocIDs {
		m[id] = "Normal"
	}
	return m
}()

// model is the harness's own bookkeeping for the current document object. It never looks at library state.
type model struct {
	saved  bool // the current document object has been saved at least once, or was opened from a package
	opened bool // the current document object came from Open / OpenFromMemory
	// reg: style ids a caller may consider registered, with their type: the documented predefined set on a new
	// document, the ids of the styles part on an opened one, plus everything created since through the style API.
	reg  map[string]string
	want map[string]map[string]string // X4 expectations: id -> field -> value (absent = must not be there)
	late map[string]bool              // ids created/changed through the style API after the first save/open of their document object
	used map[string]bool              // ids some paragraph/table of the body was given by an op
	// what the package the document was opened from contained when the process-wide registries were last reset
	preNum, preFn, preEn map[string]bool
	preStyles            map[string]bool // style ids of the package the document object was opened from (nil = not opened)

	base    map[string]string // id -> based-on id, for every style the caller knows about
	removed map[string]bool   // predefined ids removed through RemoveStyle and not re-created since

	// template rendering (the current document object is the result of RenderTemplateToDocument on the previous one)
	rendered bool // the current document object came from a render
	// lastSaveStyles: style ids of the styles part in the last judged save of the current, never opened document object
	// (nil = not saved yet). renderOfSaved: the current object was rendered from such a saved, never opened base.
	lastSaveStyles    map[string]bool
	renderOfSaved     bool
	lateRendered      map[string]bool // ids created/changed through the style API on a document rendered from a saved base
	renderLost        map[string]bool // style ids seen undefined on a document rendered from a saved base (stays lost over reopens)
	extendAfterRender bool
	notes             int
	listsSinceOpen    int             // list ops on the current document object since it was opened
	startNS           string          // namespace scheme of the numbering/notes parts of the package the history started from
	startStylesNS     string          // namespace scheme of the styles part of the package the history started from
	partStyles        map[string]bool // ids the styles part of the opened document is known to define: at open, plus every judged save since

	// the package the current document object was opened from defines no style at all (no styles part, an empty one, or one without w:style)
	noStylesAtOpen bool
	tocOps         int  // TOC ops executed on the current document object (or its render base)
	rejectPending  bool // a call was rejected (error result) or given a blank/nil/unknown argument since the last judged save
	rejectJudged   bool // ... and a save after it was judged
	styledNoStyles bool // styled content was added to a document opened from a package without style definitions

	lists, fns, ens   int
	listAfterOpen     bool
	noteAfterOpen     bool
	styleBetweenSaves bool
	extendAfterOpen   bool
	saves             int
	sinceSave         bool // a style/list/TOC op since the previous save
}

func newModel() *model {
	m := &model{}
	m.newDoc()
	return m
}

// newDoc: the document object is replaced by a brand-new one (document.New / markdown conversion).
func (m *model) newDoc() {
	m.saved, m.opened = false, false
	m.reg = map[string]string{}
	for k, v := range builtinTypes {
		m.reg[k] = v
	}
	m.want = map[string]map[string]string{}
	m.late = map[string]bool{}
	m.used = map[string]bool{}
	m.removed = map[string]bool{}
	m.base = map[string]string{}
	for k, v := range predefinedBase {
		m.base[k] = v
	}
	m.preNum, m.preFn, m.preEn, m.preStyles = nil, nil, nil, nil
	m.rendered, m.renderOfSaved, m.lastSaveStyles = false, false, nil
	m.lateRendered, m.renderLost = map[string]bool{}, map[string]bool{}
	m.listsSinceOpen, m.startNS, m.startStylesNS, m.partStyles = 0, "", "", nil
	m.noStylesAtOpen, m.tocOps = false, 0
}

// observedSave: o is the harness's reading of a package just saved from the current document object. What that
// package refers to is exactly what the body uses at this moment: a style no part of it refers to is unused
// until a later op gives it to something (the ops mark what they may emit).
func (m *model) observedSave(o *obs) {
	m.used = map[string]bool{}
	for _, r := range o.Refs {
		m.used[r.Val] = true
	}
}

// renderedFrom: the document object is replaced by the result of rendering it as a template base document
// (TemplateEngine.LoadTemplateFromDocument + RenderTemplateToDocument with data that changes nothing): a copy
// that starts with the definitions its base had. What the caller knows about registered styles, ids in use and
// base relations carries over; the X4 expectations do not (the statement promises presence in the next save of
// the document the style was given to, it is silent about copies).
func (m *model) renderedFrom() {
	m.rendered = true
	if !m.opened && m.lastSaveStyles != nil {
		m.renderOfSaved = true
	}
	m.want = map[string]map[string]string{}
}

// snapshot copies the bookkeeping that the verdict on a package of the (former) document object needs.
func (m *model) snapshot() *model {
	c := *m
	cp := func(src map[string]bool) map[string]bool {
		if src == nil {
			return nil
		}
		d := make(map[string]bool, len(src))
		for k, v := range src {
			d[k] = v
		}
		return d
	}
	c.late, c.used, c.removed = cp(m.late), cp(m.used), cp(m.removed)
	c.preNum, c.preFn, c.preEn, c.preStyles = cp(m.preNum), cp(m.preFn), cp(m.preEn), cp(m.preStyles)
	c.lastSaveStyles, c.lateRendered, c.renderLost = cp(m.lastSaveStyles), cp(m.lateRendered), cp(m.renderLost)
	c.want = map[string]map[string]string{} // a side document is judged on X1-X3 only
	return &c
}

// openedFrom: the document object is replaced by one opened from a package observed as o.
func (m *model) openedFrom(o *obs, fresh bool) {
	m.saved, m.opened = true, true
	m.listsSinceOpen = 0
	m.rendered, m.renderOfSaved, m.lastSaveStyles = false, false, nil
	m.lateRendered = map[string]bool{}
	m.removed = map[string]bool{} // the registry of an opened document is the predefined set again
	m.reg = map[string]string{}
	m.preStyles = map[string]bool{}
	m.partStyles = map[string]bool{}
	m.noStylesAtOpen = o != nil && len(o.Styles) == 0
	if o != nil {
		m.base = map[string]string{}
		for id, d := range o.Styles {
			m.reg[id] = d.Type
			m.preStyles[id] = true
			m.partStyles[id] = true
			if b, ok := d.Fields["basedOn"]; ok {
				m.base[id] = b
			}
		}
		// whatever the body of the package refers to is in use
		for _, r := range o.Refs {
			m.used[r.Val] = true
		}
	}
	// what the registry of the old object knew is gone; the statement promises presence in the next save only
	m.want = map[string]map[string]string{}
	// every opened document starts with empty note/numbering registries of its own (they are per document),
	// whether or not the process is the one that wrote the package
	_ = fresh
	{
		// accumulated over successive opens: a definition lost after an earlier open stays lost
		if m.preNum == nil {
			m.preNum, m.preFn, m.preEn = map[string]bool{}, map[string]bool{}, map[string]bool{}
		}
		if o != nil {
			for id := range o.Nums {
				m.preNum[id] = true
			}
			for id := range o.Footnotes {
				m.preFn[id] = true
			}
			for id := range o.Endnotes {
				m.preEn[id] = true
			}
		}
	}
}

// isBase: some style the caller knows about is based on id.
func (m *model) isBase(id string) bool {
	for other, b := range m.base {
		if other != id && b == id {
			return true
		}
	}
	return false
}

func (m *model) idsOfType(typ string) []string {
	var out []string
	for id, t := range m.reg {
		if t == typ {
			out = append(out, id)
		}
	}
	sort.Strings(out)
	return out
}

func (m *model) touched(id string) {
	// the styles part of an opened document is kept verbatim (open finding); a generated one is rewritten by every save
	if m.opened {
		m.late[id] = true
	}
	if m.renderOfSaved {
		m.lateRendered[id] = true
	}
	delete(m.removed, id)
	m.sinceSave = true
	if m.opened {
		m.extendAfterOpen = true
	}
	if m.rendered {
		m.extendAfterRender = true
	}
}

func opt(s string) string {
	if s == "" {
		return absent
	}
	return s
}
func flag(b bool) string {
	if b {
		return "1"
	}
	return absent
}
func scaled(n, k int) string {
	if n <= 0 {
		return absent
	}
	return strconv.Itoa(n * k)
}

// expectation of a style given as a whole (create / add / quick): every compared field is known.
// OOXML units: w:sz is in half-points, w:spacing/@w:before|after in twentieths of a point.
func fullWant(s *StyleSpec, withRun, withPara bool) map[string]string {
	w := map[string]string{"type": s.Type, "name": s.Name, "basedOn": opt(s.BasedOn),
		"b": absent, "i": absent, "sz": absent, "color": absent, "font": absent, "jc": absent, "before": absent, "after": absent}
	if withRun {
		w["b"], w["i"] = flag(s.Bold), flag(s.Italic)
		w["sz"] = scaled(s.SizePt, 2)
		w["color"] = opt(s.Color)
		w["font"] = opt(s.Font)
	}
	if withPara {
		w["jc"] = opt(s.Align)
		w["before"] = scaled(s.Before, 20)
		w["after"] = scaled(s.After, 20)
	}
	return w
}

// libStyle builds the *style.Style a caller hands to StyleManager.AddStyle for the spec.
func libStyle(s *StyleSpec) *style.Style {
	st := &style.Style{Type: s.Type, StyleID: s.ID, CustomStyle: true, Name: &style.StyleName{Val: s.Name}}
	if s.BasedOn != "" {
		st.BasedOn = &style.BasedOn{Val: s.BasedOn}
	}
	if s.Bold || s.Italic || s.SizePt > 0 || s.Color != "" || s.Font != "" {
		rp := &style.RunProperties{}
		if s.Bold {
			rp.Bold = &style.Bold{}
		}
		if s.Italic {
			rp.Italic = &style.Italic{}
		}
		if s.SizePt > 0 {
			rp.FontSize = &style.FontSize{Val: strconv.Itoa(2 * s.SizePt)}
		}
		if s.Color != "" {
			rp.Color = &style.Color{Val: s.Color}
		}
		if s.Font != "" {
			rp.FontFamily = &style.FontFamily{ASCII: s.Font, HAnsi: s.Font}
		}
		st.RunPr = rp
	}
	if s.Type == "paragraph" && (s.Align != "" || s.Before > 0 || s.After > 0) {
		pp := &style.ParagraphProperties{}
		if s.Align != "" {
			pp.Justification = &style.Justification{Val: s.Align}
		}
		if s.Before > 0 || s.After > 0 {
			sp := &style.Spacing{}
			if s.Before > 0 {
				sp.Before = strconv.Itoa(20 * s.Before)
			}
			if s.After > 0 {
				sp.After = strconv.Itoa(20 * s.After)
			}
			pp.Spacing = sp
		}
		st.ParagraphPr = pp
	}
	return st
}

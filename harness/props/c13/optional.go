package c13

import (
	"archive/zip"
	"bytes"
	"fmt"
	"regexp"
	"strings"
)

// Start packages that lack optional parts. The styles, numbering and notes parts of a WordprocessingML
// package are optional: minimal producers write the main part only, others write a styles part without a
// single style. A document opened from such a package and then given styled content, lists and notes must
// resolve its ids in every later save like any other.

const wNS = "http://schemas.openxmlformats.org/wordprocessingml/2006/main"

var noStylesVariants = []string{"absent", "empty", "hollow", "defaults"}

var (
	reStyleRefElem = regexp.MustCompile(`<w:(?:pStyle|rStyle|tblStyle)\b[^>]*?(?:/>|>\s*</w:(?:pStyle|rStyle|tblStyle)>)`)
	reStylesCT     = regexp.MustCompile(`<Override\b[^>]*PartName="/word/styles\.xml"[^>]*?(?:/>|>\s*</Override>)`)
	reStylesRel    = regexp.MustCompile(`<Relationship\b[^>]*Target="(?:/word/)?styles\.xml"[^>]*?(?:/>|>\s*</Relationship>)`)
)

// stripStyleRefs removes every w:pStyle / w:rStyle / w:tblStyle element of a body-like part.
func stripStyleRefs(data []byte) []byte { return reStyleRefElem.ReplaceAll(data, nil) }

// stylesPartOf returns the content of word/styles.xml for a NoStyles variant (ok=false: the part is absent).
func stylesPartOf(variant string) (data []byte, ok bool) {
	switch variant {
	case "absent":
		return nil, false
	case "empty":
		return []byte{}, true
	case "hollow":
		return []byte(`<?xml version="1.0" encoding="UTF-8" standalone="yes"?>` + "\n" + `<w:styles xmlns:w="` + wNS + `"/>`), true
	case "defaults":
		return []byte(`<?xml version="1.0" encoding="UTF-8" standalone="yes"?>` + "\n" + `<w:styles xmlns:w="` + wNS + `"><w:docDefaults><w:rPrDefault><w:rPr><w:sz w:val="21"/></w:rPr></w:rPrDefault><w:pPrDefault/></w:docDefaults></w:styles>`), true
	}
	panic("c13: unknown NoStyles variant " + variant)
}

// withoutStyles rewrites one part of a package written by the library for a NoStyles variant:
// the styles part is dropped or replaced, its content type and relationship go with it when it is dropped,
// and the body-like parts lose their style references (keep=false: the part is left out).
func withoutStyles(variant, name string, data []byte) (out []byte, keep bool) {
	switch {
	case name == "word/styles.xml":
		return stylesPartOf(variant)
	case name == "[Content_Types].xml":
		if variant == "absent" {
			return reStylesCT.ReplaceAll(data, nil), true
		}
	case name == "word/_rels/document.xml.rels":
		if variant == "absent" {
			return reStylesRel.ReplaceAll(data, nil), true
		}
	case name == "word/document.xml", name == "word/footnotes.xml", name == "word/endnotes.xml",
		strings.HasPrefix(name, "word/header") && strings.HasSuffix(name, ".xml"),
		strings.HasPrefix(name, "word/footer") && strings.HasSuffix(name, ".xml"):
		return stripStyleRefs(data), true
	}
	return data, true
}

// buildMinimal writes the package of a minimal producer by hand.
func buildMinimal(s *Start) ([]byte, error) {
	const decl = `<?xml version="1.0" encoding="UTF-8" standalone="yes"?>` + "\n"
	styles, hasStyles := []byte(nil), false
	if s.NoStyles != "" {
		styles, hasStyles = stylesPartOf(s.NoStyles)
		if hasStyles {
			var err error
			if styles, err = restyle(styles, s.StylesNS, s.StylesForm); err != nil {
				return nil, err
			}
		}
	}
	var ct strings.Builder
	ct.WriteString(decl + `<Types xmlns="http://schemas.openxmlformats.org/package/2006/content-types">` +
		`<Default Extension="rels" ContentType="application/vnd.openxmlformats-package.relationships+xml"/>` +
		`<Default Extension="xml" ContentType="application/xml"/>` +
		`<Override PartName="/word/document.xml" ContentType="application/vnd.openxmlformats-officedocument.wordprocessingml.document.main+xml"/>`)
	if hasStyles {
		ct.WriteString(`<Override PartName="/word/styles.xml" ContentType="application/vnd.openxmlformats-officedocument.wordprocessingml.styles+xml"/>`)
	}
	ct.WriteString(`</Types>`)
	var body strings.Builder
	body.WriteString(decl + `<w:document xmlns:w="` + wNS + `"><w:body>`)
	n := s.MinParas
	if n < 1 {
		n = 1
	}
	for i := 0; i < n; i++ {
		fmt.Fprintf(&body, `<w:p><w:r><w:t>minimal producer paragraph %d</w:t></w:r></w:p>`, i)
	}
	if s.MinTable {
		body.WriteString(`<w:tbl><w:tblPr><w:tblW w:w="0" w:type="auto"/></w:tblPr><w:tblGrid><w:gridCol w:w="4000"/><w:gridCol w:w="4000"/></w:tblGrid>` +
			`<w:tr><w:tc><w:tcPr><w:tcW w:w="4000" w:type="dxa"/></w:tcPr><w:p><w:r><w:t>c1</w:t></w:r></w:p></w:tc>` +
			`<w:tc><w:tcPr><w:tcW w:w="4000" w:type="dxa"/></w:tcPr><w:p><w:r><w:t>c2</w:t></w:r></w:p></w:tc></w:tr></w:tbl><w:p/>`)
	}
	body.WriteString(`<w:sectPr><w:pgSz w:w="11906" w:h="16838"/></w:sectPr></w:body></w:document>`)
	main := []byte(body.String())
	if s.MainNS != "" {
		var err error
		if main, err = reprefix(main, s.MainNS); err != nil {
			return nil, err
		}
	}
	parts := []struct {
		name string
		data []byte
	}{
		{"[Content_Types].xml", []byte(ct.String())},
		{"_rels/.rels", []byte(decl + `<Relationships xmlns="http://schemas.openxmlformats.org/package/2006/relationships">` +
			`<Relationship Id="rId1" Type="http://schemas.openxmlformats.org/officeDocument/2006/relationships/officeDocument" Target="word/document.xml"/></Relationships>`)},
		{"word/document.xml", main},
	}
	if s.MinRels || hasStyles {
		rels := decl + `<Relationships xmlns="http://schemas.openxmlformats.org/package/2006/relationships">`
		if hasStyles {
			rels += `<Relationship Id="rId1" Type="http://schemas.openxmlformats.org/officeDocument/2006/relationships/styles" Target="styles.xml"/>`
		}
		rels += `</Relationships>`
		parts = append(parts, struct {
			name string
			data []byte
		}{"word/_rels/document.xml.rels", []byte(rels)})
	}
	if hasStyles {
		parts = append(parts, struct {
			name string
			data []byte
		}{"word/styles.xml", styles})
	}
	var buf bytes.Buffer
	zw := zip.NewWriter(&buf)
	for _, p := range parts {
		w, err := zw.Create(p.name)
		if err != nil {
			return nil, err
		}
		if _, err := w.Write(p.data); err != nil {
			return nil, err
		}
	}
	if err := zw.Close(); err != nil {
		return nil, err
	}
	return buf.Bytes(), nil
}

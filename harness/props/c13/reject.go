package c13

import (
	"github.com/zerx-lab/wordZero/pkg/document"
	"github.com/zerx-lab/wordZero/pkg/style"

	"wzverif/internal/kit"
	"wzverif/internal/ops"
)

// Calls whose argument the library rejects, corrects or ignores: a nil config, an id that names nothing,
// a value outside the documented range. Some return an error, some silently fall back to a default.
// The property quantifies over every saved package, so whatever such a call answered, the next save must
// still resolve every id: a rejected call must not leave a reference behind. The oracle does not look at
// the result of the call (it is only labelled); X1-X3 of the following saves decide.
var rejectKinds = []string{
	"rmfootnote",     // RemoveFootnote(id that names no footnote)
	"rmendnote",      // RemoveEndnote(id that names no endnote)
	"restartnum",     // RestartNumbering(id that names no w:num)
	"listnil",        // AddListItem(text, nil): the default bullet list
	"tocnil",         // GenerateTOC(nil): the default TOC configuration
	"autotocnil",     // AutoGenerateTOC(nil)
	"notecfgnil",     // SetFootnoteConfig(nil)
	"rmstyle",        // StyleManager.RemoveStyle(id that names no style)
	"quickdup",       // CreateQuickStyle with the id of an existing style: documented to be rejected
	"headinglevel",   // AddHeadingParagraph with a level outside 1-9: documented range, treated as level 1
	"tblempty",       // ApplyTableStyle(&TableStyleConfig{}): neither template nor style id
	"tblcustomempty", // CreateCustomTableStyle("", name, nil, nil, false)
	"multilistnil",   // CreateMultiLevelList(nil)
	"tocstyle",       // SetTOCStyle(level outside 1-9, nil)
}

var badLevels = []int{0, 10, -1, 99}

// reject executes one op of kind "rej"; false = the history cannot continue.
func (r *runner) reject(where string, op Op) bool {
	m, x, res := r.m, r.x, r.res
	d := x.Doc
	sm := d.GetStyleManager()
	kind := rejectKinds[ops.In(op.I[0], len(rejectKinds))]
	where += " " + kind
	id, text := op.S[0], op.S[1]
	var err error
	ran := true
	call := func(f func()) bool {
		if p, st := kit.Try(f); p != nil {
			res.Fail("C13.X0", "%s panicked: %v [%s]", where, p, st)
			return false
		}
		return true
	}
	switch kind {
	case "rmfootnote":
		if !call(func() { err = d.RemoveFootnote(id) }) {
			return false
		}
	case "rmendnote":
		if !call(func() { err = d.RemoveEndnote(id) }) {
			return false
		}
	case "restartnum":
		if !call(func() { d.RestartNumbering(id) }) {
			return false
		}
	case "listnil":
		if !call(func() { x.Paras = append(x.Paras, d.AddListItem(text, nil)) }) {
			return false
		}
		r.afterList()
	case "tocnil":
		if !call(func() { err = d.GenerateTOC(nil) }) {
			return false
		}
		r.afterTOC("toc")
	case "autotocnil":
		if !call(func() { err = d.AutoGenerateTOC(nil) }) {
			return false
		}
		r.refresh()
		r.afterTOC("autotoc")
	case "notecfgnil":
		if !call(func() { err = d.SetFootnoteConfig(nil) }) {
			return false
		}
	case "rmstyle":
		known := true
		if sm != nil {
			if !call(func() { known = sm.StyleExists(id) || sm.GetStyle(id) != nil }) {
				return false
			}
		}
		if _, ok := m.reg[id]; ok || known || sm == nil {
			ran = false
			break
		}
		if !call(func() { sm.RemoveStyle(id) }) {
			return false
		}
	case "quickdup":
		exists := false
		if sm != nil {
			if !call(func() { exists = sm.StyleExists("Normal") }) {
				return false
			}
		}
		if !exists {
			ran = false
			break
		}
		if !call(func() {
			_, err = style.NewQuickStyleAPI(sm).CreateQuickStyle(style.QuickStyleConfig{ID: "Normal", Name: text, Type: style.StyleTypeParagraph})
		}) {
			return false
		}
	case "headinglevel":
		lvl := badLevels[ops.In(op.I[1], len(badLevels))]
		if !call(func() { x.Paras = append(x.Paras, d.AddHeadingParagraph(text, lvl)) }) {
			return false
		}
		r.afterHeading(lvl)
	case "tblempty", "tblcustomempty":
		if len(x.Tables) == 0 {
			ran = false
			break
		}
		tb := x.Tables[ops.In(op.I[1], len(x.Tables))]
		if kind == "tblempty" {
			if !call(func() { err = tb.ApplyTableStyle(&document.TableStyleConfig{}) }) {
				return false
			}
		} else if !call(func() { err = tb.CreateCustomTableStyle("", text, nil, nil, false) }) {
			return false
		}
	case "multilistnil":
		if !call(func() { err = d.CreateMultiLevelList(nil) }) {
			return false
		}
	case "tocstyle":
		if !call(func() { err = d.SetTOCStyle(badLevels[ops.In(op.I[1], len(badLevels))], nil) }) {
			return false
		}
	}
	if !ran {
		res.Count("rej_skipped", 1)
		return true
	}
	res.Label("op:rej")
	res.Label("rej:" + kind)
	if err != nil {
		res.Count("op_errors", 1)
		res.Label("rej:error-result")
	}
	m.rejectPending = true
	return true
}

package c13

import (
	"fmt"

	"github.com/zerx-lab/wordZero/pkg/document"
	"pgregory.net/rapid"

	"wzverif/internal/kit"
)

// Widening of the history domain towards narrow corners the property quantifies over as well:
// counts past 9 / 16 / 32 / 64 (two-digit ids, more definitions than any fixed table holds), style ids and
// names that look like something the library generates or that need escaping, and two document objects
// that are used alternately (every definition belongs to the document it was given to).

// style ids beyond the everyday ones: an id one past the predefined heading range, a case variant of a predefined
// id, ids that need XML escaping or contain a blank, a numeric id that no predefined style has, a long id
var oddIDs = []string{"Heading10", "heading1", "A&B", "x y", "7", "Q123456789012345678901234567890123456789012345678901234567890123456789", "a<b", "Ünï-ç0dé", "tōc 1"}

// style names that coincide with names of the predefined styles (the id stays the caller's own)
var oddNames = []string{"heading 1", "Normal", "toc 1", "Title"}

// burstCount: how many times the call of a burst is repeated: usually just past 9, now and then past 16 / 32 / 64
func burstCount(t *rapid.T) int {
	switch rapid.IntRange(0, 11).Draw(t, "burstclass") {
	case 0:
		return rapid.IntRange(16, 18).Draw(t, "burstn")
	case 1:
		return rapid.IntRange(32, 34).Draw(t, "burstn")
	case 2:
		return rapid.IntRange(64, 66).Draw(t, "burstn")
	}
	return rapid.IntRange(9, 12).Draw(t, "burstn")
}

var burstKinds = []string{"footnote", "endnote", "fnrun", "listitem", "bullet", "numbered", "heading", "st.create", "st.add", "tblstyle", "tblcustom"}

// genBurst: the many-of-one-kind shape. One call is repeated n times (n just past 9, rarely past 16 / 32 / 64), the
// document is saved or reopened, and the call is made once more - the definitions with two-digit ids have to
// be in every package, and the id given after the open/save cycle must not collide with or displace them.
func genBurst(t *rapid.T) []Op {
	var out []Op
	k := rapid.SampledFrom(burstKinds).Draw(t, "burstk")
	n := burstCount(t)
	one := func(i int) Op {
		o := genOpOf(t, k)
		switch k {
		case "st.create", "st.add":
			// distinct ids: Bulk00, Bulk01, ...
			o.St.ID = fmt.Sprintf("Bulk%02d", i)
		case "tblcustom":
			o.S[0] = fmt.Sprintf("BulkTbl%02d", i)
		case "tblstyle":
			o.I[1] = 1 // by template
		}
		return o
	}
	if k == "fnrun" {
		out = append(out, genOpOf(t, "para"))
	}
	for i := 0; i < n; i++ {
		if k == "tblstyle" || k == "tblcustom" {
			tb := genOpOf(t, "table")
			out = append(out, tb)
			o := one(i)
			o.I[0] = i // the table just added (tables are selected modulo their number)
			out = append(out, o)
			continue
		}
		out = append(out, one(i))
	}
	if k == "st.create" || k == "st.add" {
		out = append(out, genOpOf(t, "para"), genOpOf(t, "pstyle"), genOpOf(t, "para"), genOpOf(t, "pstyle"))
	}
	out = append(out, genOpOf(t, rapid.SampledFrom([]string{"save", "reopen", "reopen", "render"}).Draw(t, "burstcut")))
	out = append(out, one(n))
	if rapid.Bool().Draw(t, "burstmod") && (k == "st.create" || k == "st.add") {
		out = append(out, genOpOf(t, "st.mod"), genOpOf(t, "save"), genOpOf(t, "st.mod"))
	}
	return out
}

// genAlternate: the two-documents shape. A second document object comes into being (a new one, or one opened from a
// save of the current one) and the history goes back and forth between the two; both are saved and judged at the end.
func genAlternate(t *rapid.T) []Op {
	var out []Op
	kinds := []string{"listitem", "footnote", "endnote", "heading", "st.add", "st.create", "pstyle", "numbered", "st.mod", "tblstyle", "save", "para"}
	rounds := rapid.IntRange(2, 4).Draw(t, "altrounds")
	for r := 0; r < rounds; r++ {
		out = append(out, genOpOf(t, "swap"))
		n := rapid.IntRange(1, 3).Draw(t, "altn")
		for i := 0; i < n; i++ {
			out = append(out, genOpOf(t, rapid.SampledFrom(kinds).Draw(t, "altk")))
		}
		if rapid.IntRange(0, 3).Draw(t, "altcut") == 0 {
			out = append(out, genOpOf(t, rapid.SampledFrom([]string{"save", "reopen"}).Draw(t, "altcutk")))
		}
	}
	return out
}

// altDoc is the document object that is not the current one, with the bookkeeping that belongs to it.
type altDoc struct {
	doc *document.Document
	m   *model
}

// swap makes the other document object the current one. The first swap of a history creates it: a new document,
// or (fromSave) one opened from a save of the current document.
func (r *runner) swap(fromSave bool, where string) bool {
	res := r.res
	cur := &altDoc{doc: r.x.Doc, m: r.m}
	r.swaps++
	if r.alt != nil {
		r.x.Doc, r.m = r.alt.doc, r.alt.m
		r.alt = cur
		r.other = !r.other
		r.refresh()
		res.Label("op:swap")
		if r.swaps >= 3 {
			res.Label("swap:back-and-forth")
		}
		return true
	}
	if fromSave {
		b, o, ok := r.save(false, where+" (the save the second document is opened from)")
		if !ok {
			return false
		}
		if b == nil || o == nil {
			r.swaps--
			return true
		}
		nm := newModel()
		nm.startNS, nm.startStylesNS = cur.m.startNS, cur.m.startStylesNS
		r.m = nm
		if !r.open(b, o, false, false, where) {
			// the package does not open: stay with the one document
			r.x.Doc, r.m = cur.doc, cur.m
			r.refresh()
			r.swaps--
			return true
		}
		res.Label("swap:second-opened-from-save")
	} else {
		var nd *document.Document
		if p, st := tryCall(func() { nd = document.New() }); p != nil {
			res.Fail("C13.X0", "%s: document.New panicked: %v [%s]", where, p, st)
			return false
		}
		r.x.Doc, r.m = nd, newModel()
		r.refresh()
		res.Label("swap:second-new")
	}
	r.alt = cur
	r.other = true
	res.Label("op:swap")
	return true
}

// labelCounts labels a history by how often it makes one kind of call (the count classes of the many-of-one-kind shape).
func labelCounts(res *kit.Result, c Case) {
	n := map[string]int{}
	for _, op := range c.Ops {
		switch {
		case isNoteOp(op.K) || op.K == "fnrun":
			n["note"]++
		case isListOp(op.K):
			n["list"]++
		case op.K == "st.create" || op.K == "st.add" || op.K == "st.quick":
			n["style"]++
		case op.K == "tblstyle" || op.K == "tblcustom":
			n["tblstyle"]++
		case op.K == "heading":
			n["heading"]++
		}
	}
	most := 0
	for _, k := range []string{"note", "list", "style", "tblstyle", "heading"} {
		if n[k] > 9 {
			res.Label("many:" + k)
		}
		if n[k] > most {
			most = n[k]
		}
	}
	for _, th := range []int{9, 16, 32, 64} {
		if most > th {
			res.Label(fmt.Sprintf("many:more-than-%d-of-a-kind", th))
		}
	}
}

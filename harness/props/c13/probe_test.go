package c13

import (
	"bytes"
	"fmt"
	"io"
	"regexp"
	"testing"

	"github.com/zerx-lab/wordZero/pkg/document"
	"github.com/zerx-lab/wordZero/pkg/style"
	"wzverif/internal/opc"
)

func part(b []byte, name string) string {
	p, _ := opc.Read(b)
	return string(p.Parts[name])
}

func TestProbe(t *testing.T) {
	document.SetGlobalLevel(document.LogLevelSilent)
	document.VerifResetGlobals()
	d := document.New()
	d.AddHeadingParagraph("h", 1)
	b1, _ := d.ToBytes()
	d.GetStyleManager().CreateCustomStyle("My1", "my 1", style.StyleTypeParagraph, "Normal")
	p := d.AddParagraph("x")
	p.SetStyle("My1")
	b2, _ := d.ToBytes()
	fmt.Println("D29 My1 in save2:", bytes.Contains([]byte(part(b2, "word/styles.xml")), []byte("My1")), len(b1))
	// D33
	nd, err := document.OpenFromMemory(io.NopCloser(bytes.NewReader(b2)))
	fmt.Println("open err", err, "My1 registered after open:", nd.GetStyleManager().StyleExists("My1"))
	// lists
	d.AddListItem("a", &document.ListConfig{Type: document.ListTypeBullet, BulletSymbol: document.BulletTypeDot})
	d.AddListItem("b", &document.ListConfig{Type: document.ListTypeNumber})
	d.AddListItem("c", &document.ListConfig{Type: document.ListTypeLowerRoman})
	d.AddFootnote("t1", "n1")
	d.AddFootnote("t2", "n2")
	d.AddEndnote("t3", "e1")
	b3, _ := d.ToBytes()
	pk, _ := opc.Read(b3)
	fmt.Println(pk.SortedNames())
	fmt.Println(string(pk.Parts["word/_rels/document.xml.rels"]))
	fmt.Println(string(pk.Parts["_rels/.rels"]))
	re := regexp.MustCompile(`<w:num [^>]*>|<w:abstractNum [^>]*>|<w:abstractNumId[^>]*>`)
	fmt.Println(re.FindAllString(string(pk.Parts["word/numbering.xml"]), -1))
	fmt.Println(string(pk.Parts["word/footnotes.xml"]))
	document.VerifResetGlobals()
	nd, _ = document.OpenFromMemory(io.NopCloser(bytes.NewReader(b3)))
	nd.AddListItem("d", &document.ListConfig{Type: document.ListTypeBullet, BulletSymbol: document.BulletTypeDot})
	nd.AddFootnote("t4", "n4")
	b4, _ := nd.ToBytes()
	pk, _ = opc.Read(b4)
	fmt.Println(re.FindAllString(string(pk.Parts["word/numbering.xml"]), -1))
	fmt.Println(regexp.MustCompile(`<w:footnote [^>]*>`).FindAllString(string(pk.Parts["word/footnotes.xml"]), -1))
	fmt.Println(regexp.MustCompile(`<w:numId[^>]*>|\[[^\]]*\]`).FindAllString(string(pk.Parts["word/document.xml"]), -1))
	fmt.Println(string(pk.Parts["word/_rels/document.xml.rels"]))
}

package c13

import (
	"fmt"
	"regexp"
	"sort"
	"strings"

	"wzverif/internal/canon"
	"wzverif/internal/opc"
)

// This file is the observer side of C13: it reads a saved package with the harness's own
// zip/OPC reader and canonical XML trees (no library code) and extracts every id reference
// and every id definition the property talks about.

// ref is one style reference found in a body-like part.
type ref struct {
	Part string // part name
	Kind string // pStyle | rStyle | tblStyle
	Val  string
	Sdt  bool // the reference sits inside a content control (w:sdtContent)
}

// styleDef is what the styles part says about one style (the attributes X4 compares).
type styleDef struct {
	Type   string
	Fields map[string]string // name, basedOn, b, i, sz, color, font, jc, before, after (present keys only)
}

// obs is everything the oracle needs from one package.
type obs struct {
	Main       string
	StylesPart string
	HasStyles  bool
	StylesErr  string
	Styles     map[string]*styleDef
	DupStyles  []string
	Refs       []ref

	NumRefs        []ref // Kind = "numId"
	NumberingPart  string
	NumberingRel   bool // a numbering relationship of the main part resolves to an existing part
	HasNumbering   bool
	NumberingErr   string
	Nums           map[string]string // numId -> abstractNumId ("" = no reference)
	Abstracts      map[string]bool
	FnRefs, EnRefs []ref // Kind = "element" (w:footnoteReference) | "marker" (the library's [N] text run)
	Footnotes      map[string]bool
	Endnotes       map[string]bool
	HasFn, HasEn   bool
	FnErr, EnErr   string
}

const (
	relStyles    = opc.RelPrefix + "styles"
	relNumbering = opc.RelPrefix + "numbering"
	relFootnotes = opc.RelPrefix + "footnotes"
	relEndnotes  = opc.RelPrefix + "endnotes"
	relHeader    = opc.RelPrefix + "header"
	relFooter    = opc.RelPrefix + "footer"
)

// The library writes a note reference as the text "[N]" (footnote) or "[尾注N]" (endnote): a run of its
// own (AddFootnote/AddEndnote) or appended to the text of an existing run (AddFootnoteToRun); N is the id
// of the note the call created in the notes part. Every such marker in a run of the main part is a reference
// (generated texts contain no brackets).
var (
	fnMarker = regexp.MustCompile(`\[(\d+)\]`)
	enMarker = regexp.MustCompile(`\[尾注(\d+)\]`)
)

func observe(b []byte) (*obs, error) {
	pkg, err := opc.Read(b)
	if err != nil {
		return nil, err
	}
	mains := pkg.MainParts()
	if len(mains) != 1 {
		return nil, fmt.Errorf("%d main parts", len(mains))
	}
	o := &obs{Main: mains[0].Resolved, Styles: map[string]*styleDef{}, Nums: map[string]string{}, Abstracts: map[string]bool{},
		Footnotes: map[string]bool{}, Endnotes: map[string]bool{}}
	if _, ok := pkg.Parts[o.Main]; !ok {
		return nil, fmt.Errorf("main part %q missing", o.Main)
	}
	mainRels := pkg.RelsOf(o.Main)
	relTarget := func(typ string) (string, bool) {
		for _, r := range mainRels {
			if r.Type == typ && !r.External() {
				if _, ok := pkg.Parts[r.Resolved]; ok {
					return r.Resolved, true
				}
			}
		}
		return "", false
	}
	byCT := func(sub string) string {
		for _, n := range pkg.SortedNames() {
			if ct, ok := pkg.Overrides[n]; ok && strings.Contains(ct, sub) {
				if _, ok := pkg.Parts[n]; ok {
					return n
				}
			}
		}
		return ""
	}
	locate := func(rel, ct, conventional string) string {
		if p, ok := relTarget(rel); ok {
			return p
		}
		if p := byCT(ct); p != "" {
			return p
		}
		if _, ok := pkg.Parts[conventional]; ok {
			return conventional
		}
		return ""
	}

	// ---- body-like parts: main, headers, footers, notes
	bodyParts := map[string]bool{o.Main: true}
	for _, r := range mainRels {
		if (r.Type == relHeader || r.Type == relFooter) && !r.External() {
			if _, ok := pkg.Parts[r.Resolved]; ok {
				bodyParts[r.Resolved] = true
			}
		}
	}
	for n, ct := range pkg.Overrides {
		if strings.Contains(ct, "wordprocessingml.header+xml") || strings.Contains(ct, "wordprocessingml.footer+xml") {
			if _, ok := pkg.Parts[n]; ok {
				bodyParts[n] = true
			}
		}
	}
	fnPart := locate(relFootnotes, "wordprocessingml.footnotes+xml", "word/footnotes.xml")
	enPart := locate(relEndnotes, "wordprocessingml.endnotes+xml", "word/endnotes.xml")
	if fnPart != "" {
		bodyParts[fnPart] = true
	}
	if enPart != "" {
		bodyParts[enPart] = true
	}
	names := make([]string, 0, len(bodyParts))
	for n := range bodyParts {
		names = append(names, n)
	}
	sort.Strings(names)
	for _, n := range names {
		root, err := canon.Parse(pkg.Parts[n])
		if err != nil {
			if n == o.Main {
				return nil, fmt.Errorf("main part: %v", err)
			}
			continue // well-formedness of parts is C01's clause
		}
		root.Walk(func(x *canon.Node) bool {
			if x.Space != canon.W {
				return true
			}
			switch x.Local {
			case "pStyle", "rStyle", "tblStyle":
				if v, ok := x.Attr(canon.W, "val"); ok {
					sdt := false
					for a := x.Parent; a != nil; a = a.Parent {
						if a.Is(canon.W, "sdtContent") {
							sdt = true
						}
					}
					o.Refs = append(o.Refs, ref{n, x.Local, v, sdt})
				}
			case "numId":
				// the numbering id of a list paragraph: w:p/w:pPr/w:numPr/w:numId
				if x.Parent.Is(canon.W, "numPr") && x.Parent.Parent.Is(canon.W, "pPr") && x.Parent.Parent.Parent.Is(canon.W, "p") {
					if v, ok := x.Attr(canon.W, "val"); ok {
						o.NumRefs = append(o.NumRefs, ref{Part: n, Kind: "numId", Val: v})
					}
				}
			case "footnoteReference":
				if v, ok := x.Attr(canon.W, "id"); ok && n != fnPart {
					o.FnRefs = append(o.FnRefs, ref{Part: n, Kind: "element", Val: v})
				}
			case "endnoteReference":
				if v, ok := x.Attr(canon.W, "id"); ok && n != enPart {
					o.EnRefs = append(o.EnRefs, ref{Part: n, Kind: "element", Val: v})
				}
			case "r":
				if n == o.Main {
					txt := x.TextOf(canon.W, "t")
					if strings.Contains(txt, "[") {
						for _, m := range fnMarker.FindAllStringSubmatch(txt, -1) {
							o.FnRefs = append(o.FnRefs, ref{Part: n, Kind: "marker", Val: m[1]})
						}
						for _, m := range enMarker.FindAllStringSubmatch(txt, -1) {
							o.EnRefs = append(o.EnRefs, ref{Part: n, Kind: "marker", Val: m[1]})
						}
					}
				}
			}
			return true
		})
	}

	// ---- styles part
	o.StylesPart = locate(relStyles, "wordprocessingml.styles+xml", "word/styles.xml")
	if o.StylesPart != "" {
		o.HasStyles = true
		root, err := canon.Parse(pkg.Parts[o.StylesPart])
		if err != nil {
			o.StylesErr = err.Error()
		} else {
			for _, s := range root.KidsNamed(canon.W, "style") {
				id, ok := s.Attr(canon.W, "styleId")
				if !ok {
					continue
				}
				if _, dup := o.Styles[id]; dup {
					o.DupStyles = append(o.DupStyles, id)
				}
				o.Styles[id] = readStyle(s)
			}
		}
	}

	// ---- numbering part
	if p, ok := relTarget(relNumbering); ok {
		o.NumberingRel = true
		o.NumberingPart = p
	} else {
		o.NumberingPart = locate("-", "wordprocessingml.numbering+xml", "word/numbering.xml")
	}
	if o.NumberingPart != "" {
		o.HasNumbering = true
		root, err := canon.Parse(pkg.Parts[o.NumberingPart])
		if err != nil {
			o.NumberingErr = err.Error()
		} else {
			for _, a := range root.KidsNamed(canon.W, "abstractNum") {
				if id, ok := a.Attr(canon.W, "abstractNumId"); ok {
					o.Abstracts[id] = true
				}
			}
			for _, nn := range root.KidsNamed(canon.W, "num") {
				id, ok := nn.Attr(canon.W, "numId")
				if !ok {
					continue
				}
				abs := ""
				if a := nn.Kid(canon.W, "abstractNumId"); a != nil {
					abs = "=" + a.A(canon.W, "val")
				}
				o.Nums[id] = abs
			}
		}
	}

	// ---- notes parts
	readNotes := func(part, local string, into map[string]bool) string {
		root, err := canon.Parse(pkg.Parts[part])
		if err != nil {
			return err.Error()
		}
		for _, f := range root.KidsNamed(canon.W, local) {
			if id, ok := f.Attr(canon.W, "id"); ok {
				into[id] = true
			}
		}
		return ""
	}
	if fnPart != "" {
		o.HasFn = true
		o.FnErr = readNotes(fnPart, "footnote", o.Footnotes)
	}
	if enPart != "" {
		o.HasEn = true
		o.EnErr = readNotes(enPart, "endnote", o.Endnotes)
	}
	return o, nil
}

func onOff(n *canon.Node) bool {
	if n == nil {
		return false
	}
	v, ok := n.Attr(canon.W, "val")
	if !ok {
		return true
	}
	return v != "0" && v != "false" && v != "off"
}

func readStyle(s *canon.Node) *styleDef {
	d := &styleDef{Type: s.A(canon.W, "type"), Fields: map[string]string{}}
	set := func(k string, n *canon.Node, attr string) {
		if n == nil {
			return
		}
		if v, ok := n.Attr(canon.W, attr); ok {
			d.Fields[k] = v
		}
	}
	d.Fields["type"] = d.Type
	set("name", s.Kid(canon.W, "name"), "val")
	set("basedOn", s.Kid(canon.W, "basedOn"), "val")
	rpr := s.Kid(canon.W, "rPr")
	if onOff(rpr.Kid(canon.W, "b")) {
		d.Fields["b"] = "1"
	}
	if onOff(rpr.Kid(canon.W, "i")) {
		d.Fields["i"] = "1"
	}
	set("sz", rpr.Kid(canon.W, "sz"), "val")
	set("color", rpr.Kid(canon.W, "color"), "val")
	set("font", rpr.Kid(canon.W, "rFonts"), "ascii")
	ppr := s.Kid(canon.W, "pPr")
	set("jc", ppr.Kid(canon.W, "jc"), "val")
	set("before", ppr.Kid(canon.W, "spacing"), "before")
	set("after", ppr.Kid(canon.W, "spacing"), "after")
	return d
}

var kindType = map[string]string{"pStyle": "paragraph", "rStyle": "character", "tblStyle": "table"}

// violation is one oracle finding on a package, before it is turned into a kit failure.
type violation struct {
	Clause string
	ID     string // the id that does not resolve / the style concerned
	Kind   string // pStyle|rStyle|tblStyle|numId|abstractNumId|footnote|endnote|style
	Text   string
	Sdt    bool
}

func vio(clause, id, kind, text string) violation {
	return violation{Clause: clause, ID: id, Kind: kind, Text: text}
}

// checkRefs evaluates X1-X3 on the observation.
func checkRefs(o *obs) []violation {
	var out []violation
	seen := map[string]bool{}
	add := func(v violation) {
		k := fmt.Sprint(v.Clause, "\x00", v.Kind, "\x00", v.ID, "\x00", v.Text, "\x00", v.Sdt)
		if !seen[k] {
			seen[k] = true
			out = append(out, v)
		}
	}
	// X1
	for _, r := range o.Refs {
		if !o.HasStyles {
			add(vio("C13.X1", r.Val, r.Kind, fmt.Sprintf("%s: w:%s id=%q but the package has no styles part", r.Part, r.Kind, r.Val)))
			continue
		}
		if o.StylesErr != "" {
			add(vio("C13.X1", r.Val, r.Kind, fmt.Sprintf("%s: w:%s id=%q but the styles part does not parse: %s", r.Part, r.Kind, r.Val, o.StylesErr)))
			continue
		}
		def, ok := o.Styles[r.Val]
		if !ok {
			add(violation{Clause: "C13.X1", ID: r.Val, Kind: r.Kind, Sdt: r.Sdt, Text: fmt.Sprintf("%s: w:%s id=%q is not a w:styleId of %s", r.Part, r.Kind, r.Val, o.StylesPart)})
			continue
		}
		if def.Type != kindType[r.Kind] {
			add(vio("C13.X1.type", r.Val, r.Kind, fmt.Sprintf("%s: w:%s id=%q is defined with w:type=%q, not %q", r.Part, r.Kind, r.Val, def.Type, kindType[r.Kind])))
		}
	}
	// X2
	for _, r := range o.NumRefs {
		if r.Val == "0" {
			continue
		}
		if !o.HasNumbering {
			add(vio("C13.X2", r.Val, "numId", fmt.Sprintf("%s: w:numId id=%q but the package has no numbering part", r.Part, r.Val)))
			continue
		}
		if o.NumberingErr != "" {
			add(vio("C13.X2", r.Val, "numId", fmt.Sprintf("%s: w:numId id=%q but the numbering part does not parse: %s", r.Part, r.Val, o.NumberingErr)))
			continue
		}
		if !o.NumberingRel {
			add(vio("C13.X2.rel", "", "numbering", fmt.Sprintf("list paragraphs use w:numId but no numbering relationship of %s resolves to a part (numbering part found at %q)", o.Main, o.NumberingPart)))
		}
		abs, ok := o.Nums[r.Val]
		if !ok {
			add(vio("C13.X2", r.Val, "numId", fmt.Sprintf("%s: w:numId id=%q is not a w:num of %s", r.Part, r.Val, o.NumberingPart)))
			continue
		}
		if abs == "" {
			add(vio("C13.X2.abstract", r.Val, "abstractNumId", fmt.Sprintf("w:num %q of %s has no w:abstractNumId", r.Val, o.NumberingPart)))
		} else if !o.Abstracts[abs[1:]] {
			add(vio("C13.X2.abstract", r.Val, "abstractNumId", fmt.Sprintf("w:num %q points to w:abstractNum %q which %s does not define", r.Val, abs[1:], o.NumberingPart)))
		}
	}
	// X3
	notes := func(refs []ref, has bool, perr string, defs map[string]bool, what string) {
		for _, r := range refs {
			switch {
			case !has:
				add(vio("C13.X3", r.Val, what, fmt.Sprintf("%s: %s reference (%s) id=%q but the package has no %ss part", r.Part, what, r.Kind, r.Val, what)))
			case perr != "":
				add(vio("C13.X3", r.Val, what, fmt.Sprintf("%s: %s reference (%s) id=%q but the %ss part does not parse: %s", r.Part, what, r.Kind, r.Val, what, perr)))
			case !defs[r.Val]:
				add(vio("C13.X3", r.Val, what, fmt.Sprintf("%s: %s reference (%s) id=%q is not defined in the %ss part (defined: %s)", r.Part, what, r.Kind, r.Val, what, keys(defs))))
			}
		}
	}
	notes(o.FnRefs, o.HasFn, o.FnErr, o.Footnotes, "footnote")
	notes(o.EnRefs, o.HasEn, o.EnErr, o.Endnotes, "endnote")
	return out
}

func keys(m map[string]bool) string {
	k := make([]string, 0, len(m))
	for s := range m {
		k = append(k, s)
	}
	sort.Strings(k)
	return strings.Join(k, ",")
}

// checkStyles evaluates X4: every expectation of the model is met by the styles part.
// want: id -> field -> value; the value absent means "the attribute/element must not be there".
const absent = "\x00absent"

func checkStyles(o *obs, want map[string]map[string]string) []violation {
	var out []violation
	ids := make([]string, 0, len(want))
	for id := range want {
		ids = append(ids, id)
	}
	sort.Strings(ids)
	for _, id := range ids {
		if !o.HasStyles || o.StylesErr != "" {
			out = append(out, vio("C13.X4", id, "style", fmt.Sprintf("style id=%q was set through the style API but the package has no readable styles part", id)))
			continue
		}
		def, ok := o.Styles[id]
		if !ok {
			out = append(out, vio("C13.X4", id, "style", fmt.Sprintf("style id=%q was created/changed through the style API before this save but is not in %s", id, o.StylesPart)))
			continue
		}
		fs := make([]string, 0, len(want[id]))
		for f := range want[id] {
			fs = append(fs, f)
		}
		sort.Strings(fs)
		for _, f := range fs {
			w := want[id][f]
			g, has := def.Fields[f]
			switch {
			case w == absent && has:
				out = append(out, vio("C13.X4.attr", id, "style", fmt.Sprintf("style id=%q field %s: the styles part has %q, the style as last set through the API has none", id, f, g)))
			case w != absent && !has:
				out = append(out, vio("C13.X4.attr", id, "style", fmt.Sprintf("style id=%q field %s: the styles part has none, the style as last set through the API has %q", id, f, w)))
			case w != absent && g != w:
				out = append(out, vio("C13.X4.attr", id, "style", fmt.Sprintf("style id=%q field %s: the styles part has %q, the style as last set through the API has %q", id, f, g, w)))
			}
		}
	}
	return out
}

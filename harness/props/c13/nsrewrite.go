package c13

import (
	"bytes"
	"encoding/xml"
	"fmt"

	"wzverif/internal/canon"
)

// A part of a package from elsewhere need not bind the WordprocessingML namespace to the prefix w:
// generic XML toolkits write <ns0:numbering xmlns:ns0="...">, or make it the default namespace of the
// elements and keep a prefix for the (qualified) attributes only. reprefix re-serialises a part whose
// names are all in the WordprocessingML (or xml:) namespace with such bindings; the infoset is unchanged.
//
//	ns0          elements ns0:, attributes ns0:            xmlns:ns0
//	default      elements unprefixed, attributes w:        xmlns + xmlns:w
//	default-ns1  elements unprefixed, attributes ns1:      xmlns + xmlns:ns1
var nsSchemes = []string{"ns0", "default", "default-ns1"}

func reprefix(data []byte, scheme string) ([]byte, error) {
	var elemP, attrP, decl string
	switch scheme {
	case "ns0":
		elemP, attrP = "ns0:", "ns0:"
		decl = fmt.Sprintf(` xmlns:ns0="%s"`, canon.W)
	case "default":
		elemP, attrP = "", "w:"
		decl = fmt.Sprintf(` xmlns="%s" xmlns:w="%s"`, canon.W, canon.W)
	case "default-ns1":
		elemP, attrP = "", "ns1:"
		decl = fmt.Sprintf(` xmlns="%s" xmlns:ns1="%s"`, canon.W, canon.W)
	default:
		return nil, fmt.Errorf("unknown namespace scheme %q", scheme)
	}
	root, err := canon.Parse(data)
	if err != nil {
		return nil, err
	}
	var b bytes.Buffer
	b.WriteString(`<?xml version="1.0" encoding="UTF-8" standalone="yes"?>` + "\n")
	var werr error
	esc := func(s string) string {
		var e bytes.Buffer
		xml.EscapeText(&e, []byte(s))
		return e.String()
	}
	var write func(n *canon.Node, top bool)
	write = func(n *canon.Node, top bool) {
		if n.Space != canon.W {
			werr = fmt.Errorf("element {%s}%s is not in the main namespace", n.Space, n.Local)
			return
		}
		if n.Text != "" && len(n.Kids) > 0 {
			werr = fmt.Errorf("mixed content in %s", n.Local)
			return
		}
		b.WriteString("<" + elemP + n.Local)
		if top {
			b.WriteString(decl)
		}
		for _, a := range n.Attrs {
			switch a.Space {
			case canon.W:
				b.WriteString(" " + attrP + a.Local + `="` + esc(a.Value) + `"`)
			case canon.XML:
				b.WriteString(" xml:" + a.Local + `="` + esc(a.Value) + `"`)
			default:
				werr = fmt.Errorf("attribute {%s}%s of %s", a.Space, a.Local, n.Local)
				return
			}
		}
		if len(n.Kids) == 0 && n.Text == "" {
			b.WriteString("/>")
			return
		}
		b.WriteString(">")
		b.WriteString(esc(n.Text))
		for _, k := range n.Kids {
			write(k, false)
		}
		b.WriteString("</" + elemP + n.Local + ">")
	}
	write(root, true)
	if werr != nil {
		return nil, werr
	}
	return b.Bytes(), nil
}

package c13

import (
	"bytes"
	"encoding/xml"
	"fmt"
	"strings"

	"wzverif/internal/canon"
)

// A part of a package from elsewhere need not bind the WordprocessingML namespace to the prefix w:
// generic XML toolkits write <ns0:numbering xmlns:ns0="...">, or make it the default namespace of the
// elements and keep a prefix for the (qualified) attributes only. reprefix re-serialises a part whose
// names are all in the WordprocessingML (or xml:) namespace with such bindings; the infoset is unchanged.
//
//	ns0          elements ns0:, attributes ns0:            xmlns:ns0
//	default      elements unprefixed, attributes w:        xmlns + xmlns:w
//	default-ns1  elements unprefixed, attributes ns1:      xmlns + xmlns:ns1
var nsSchemes = []string{"ns0", "default", "default-ns1"}

func reprefix(data []byte, scheme string) ([]byte, error) { return reserialise(data, scheme, "") }

// Layouts of a re-serialised styles part (the infoset of the definitions is unchanged):
//
//	""        everything on one line after the XML declaration (ElementTree)
//	pretty    one element per line, two-space indentation (lxml pretty_print)
//	dressed   tab indentation, a single-quoted XML declaration, a comment before every style definition and a
//	          w:latentStyles block after w:docDefaults (as Word writes one)
var stylesForms = []string{"", "pretty", "dressed"}

// restyle re-serialises the styles part of a start package with the namespace scheme ns ("" = prefix w) in layout form.
func restyle(data []byte, ns, form string) ([]byte, error) {
	if len(data) == 0 || (ns == "" && form == "") {
		return data, nil
	}
	return reserialise(data, ns, form)
}

func reserialise(data []byte, scheme, form string) ([]byte, error) {
	var elemP, attrP, decl string
	switch scheme {
	case "":
		elemP, attrP = "w:", "w:"
		decl = fmt.Sprintf(` xmlns:w="%s"`, canon.W)
	case "ns0":
		elemP, attrP = "ns0:", "ns0:"
		decl = fmt.Sprintf(` xmlns:ns0="%s"`, canon.W)
	case "default":
		elemP, attrP = "", "w:"
		decl = fmt.Sprintf(` xmlns="%s" xmlns:w="%s"`, canon.W, canon.W)
	case "default-ns1":
		elemP, attrP = "", "ns1:"
		decl = fmt.Sprintf(` xmlns="%s" xmlns:ns1="%s"`, canon.W, canon.W)
	default:
		return nil, fmt.Errorf("unknown namespace scheme %q", scheme)
	}
	indent, nl := "", ""
	switch form {
	case "":
	case "pretty":
		indent, nl = "  ", "\n"
	case "dressed":
		indent, nl = "\t", "\n"
	default:
		return nil, fmt.Errorf("unknown layout %q", form)
	}
	root, err := canon.Parse(data)
	if err != nil {
		return nil, err
	}
	var b bytes.Buffer
	if form == "dressed" {
		b.WriteString(`<?xml version='1.0' encoding='UTF-8'?>` + "\n")
	} else {
		b.WriteString(`<?xml version="1.0" encoding="UTF-8" standalone="yes"?>` + "\n")
	}
	var werr error
	esc := func(s string) string {
		var e bytes.Buffer
		xml.EscapeText(&e, []byte(s))
		return e.String()
	}
	pad := func(depth int) {
		for i := 0; i < depth && indent != ""; i++ {
			b.WriteString(indent)
		}
	}
	writeLatent := func() {
		pad(1)
		b.WriteString("<" + elemP + "latentStyles " + attrP + `defLockedState="0" ` + attrP + `defUIPriority="99" ` + attrP + `count="2"><` +
			elemP + "lsdException " + attrP + `name="Normal" ` + attrP + `uiPriority="0" ` + attrP + `qFormat="1"/><` +
			elemP + "lsdException " + attrP + `name="heading 1" ` + attrP + `uiPriority="9" ` + attrP + `qFormat="1"/></` + elemP + "latentStyles>" + nl)
	}
	var write func(n *canon.Node, depth int)
	write = func(n *canon.Node, depth int) {
		if n.Space != canon.W {
			werr = fmt.Errorf("element {%s}%s is not in the main namespace", n.Space, n.Local)
			return
		}
		if n.Text != "" && len(n.Kids) > 0 {
			werr = fmt.Errorf("mixed content in %s", n.Local)
			return
		}
		if form == "dressed" && depth == 1 && n.Local == "style" {
			pad(depth)
			b.WriteString("<!-- " + strings.ReplaceAll(esc(n.A(canon.W, "styleId")), "--", "- -") + " -->" + nl)
		}
		pad(depth)
		b.WriteString("<" + elemP + n.Local)
		if depth == 0 {
			b.WriteString(decl)
		}
		for _, a := range n.Attrs {
			switch a.Space {
			case canon.W:
				b.WriteString(" " + attrP + a.Local + `="` + esc(a.Value) + `"`)
			case canon.XML:
				b.WriteString(" xml:" + a.Local + `="` + esc(a.Value) + `"`)
			default:
				if depth == 0 && a.Space == "http://schemas.openxmlformats.org/markup-compatibility/2006" && a.Local == "Ignorable" {
					// the root's mc:Ignorable list names prefixes of extension namespaces that the re-serialised part
					// does not declare any more (no element or attribute of the part is in one of them): left out
					continue
				}
				werr = fmt.Errorf("attribute {%s}%s of %s", a.Space, a.Local, n.Local)
				return
			}
		}
		if len(n.Kids) == 0 && n.Text == "" {
			b.WriteString("/>" + nl)
			return
		}
		b.WriteString(">")
		if len(n.Kids) > 0 {
			b.WriteString(nl)
		}
		b.WriteString(esc(n.Text))
		latent := false
		for _, k := range n.Kids {
			if form == "dressed" && depth == 0 && !latent && k.Local == "style" {
				latent = true
				writeLatent()
			}
			write(k, depth+1)
			if form == "dressed" && depth == 0 && !latent && k.Local == "docDefaults" {
				latent = true
				writeLatent()
			}
		}
		if len(n.Kids) > 0 {
			pad(depth)
		}
		b.WriteString("</" + elemP + n.Local + ">" + nl)
	}
	write(root, 0)
	if werr != nil {
		return nil, werr
	}
	return bytes.TrimRight(b.Bytes(), "\n"), nil
}

package c13

import (
	"testing"

	"wzverif/internal/kit"
)

// FuzzC13: coverage-guided search over the generator and oracle of TestC13 (thorough tier; see internal/kit/fuzz.go).
func FuzzC13(f *testing.F) { kit.FuzzVia(f, TestC13) }

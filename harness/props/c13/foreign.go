package c13

import (
	"archive/zip"
	"bytes"
	"fmt"
	"regexp"
	"strconv"
	"strings"

	"github.com/zerx-lab/wordZero/pkg/document"
	"github.com/zerx-lab/wordZero/pkg/style"

	"wzverif/internal/opc"
)

// Start describes a package "from elsewhere" that a history starts from: a document that already
// carries its own styles, numbering and notes. It is obtained by building a document in a
// (simulated) other process, saving it once, and then rewriting the saved parts in harness code:
// style ids are renamed to localised ones consistently in the styles part and the main part
// (as Word zh-CN / WPS write them) and, optionally, every style the body does not need is dropped.
type Start struct {
	Scheme    string `json:"scheme"`          // none | zh | wps | lower | upper | suffix (see nearMissSchemes)
	Strip     bool   `json:"strip,omitempty"` // keep only the styles the body refers to (plus defaults and their bases)
	Headings  []int  `json:"headings,omitempty"`
	Custom    bool   `json:"custom,omitempty"` // a paragraph using a custom paragraph style
	Quote     bool   `json:"quote,omitempty"`
	Lists     int    `json:"lists,omitempty"`
	Footnotes int    `json:"fn,omitempty"`
	Endnotes  int    `json:"en,omitempty"`
	// NS: how the numbering / footnotes / endnotes parts bind the WordprocessingML namespace:
	// "" = prefix w (as the library writes), else one of nsSchemes (see nsrewrite.go)
	NS string `json:"ns,omitempty"`
	// StylesNS: the same for the styles part (and, with Minimal/NoStyles, for the style-less styles part):
	// a styles part written by a generic XML toolkit is <ns0:styles xmlns:ns0="..."> or uses the default namespace.
	// StylesForm: how that part is laid out ("" = as re-serialised: one line; see stylesForms in nsrewrite.go).
	StylesNS string `json:"stylesns,omitempty"`
	// MainNS: the same for the main part (word/document.xml): the references themselves are then not spelled w:pStyle / w:numId
	MainNS     string `json:"mainns,omitempty"`
	StylesForm string `json:"stylesform,omitempty"`
	// NoStyles: the package lacks the (optional) styles part or carries one without any style definition:
	// "" = it has its styles part, "absent" = no word/styles.xml (no content type, no relationship),
	// "empty" = a zero-length word/styles.xml, "hollow" = <w:styles .../> without children,
	// "defaults" = a styles part with w:docDefaults only. The body then refers to no style at all.
	NoStyles string `json:"nostyles,omitempty"`
	// Minimal: the package of a minimal producer, written by the harness (optional.go): content types,
	// package relationships and a main part with MinParas plain paragraphs (and a plain table); no numbering,
	// notes, settings, properties parts; MinRels = it has an (empty) word/_rels/document.xml.rels
	Minimal  bool `json:"minimal,omitempty"`
	MinParas int  `json:"minparas,omitempty"`
	MinTable bool `json:"mintable,omitempty"`
	MinRels  bool `json:"minrels,omitempty"`
}

var startListTypes = []document.ListType{document.ListTypeBullet, document.ListTypeNumber, document.ListTypeLowerRoman, document.ListTypeUpperLetter}

func renameMap(scheme string) map[string]string {
	m := map[string]string{}
	switch scheme {
	case "zh":
		m["Normal"] = "a"
		for i := 1; i <= 9; i++ {
			m[fmt.Sprintf("Heading%d", i)] = strconv.Itoa(i)
		}
	case "wps":
		m["Normal"] = "1"
		for i := 1; i <= 9; i++ {
			m[fmt.Sprintf("Heading%d", i)] = strconv.Itoa(i + 1)
		}
	default:
		return m
	}
	m["Title"] = "a3"
	m["Subtitle"] = "a4"
	m["Quote"] = "a5"
	m["ListParagraph"] = "a6"
	m["CodeBlock"] = "a7"
	m["StartPara"] = "a8"
	return m
}

// nearMissSchemes: producers for which a style id is an opaque, case-sensitive string (as ST_String is) and whose ids
// are NOT the ones the library emits but come close to them: the same letters in another case (heading1, HEADING1,
// normal) or the library's id plus a suffix (Heading1x, 12x). The package is consistent in itself; whatever the library
// refers to later (Heading1, 12, ...) is, by exact comparison, not defined in such a styles part.
var nearMissSchemes = map[string]func(string) string{
	"lower":  strings.ToLower,
	"upper":  strings.ToUpper,
	"suffix": func(id string) string { return id + "x" },
}

var (
	reValRef   = regexp.MustCompile(`(<w:(?:pStyle|rStyle|tblStyle|basedOn|next|link) w:val=")([^"]*)(")`)
	reStyleID  = regexp.MustCompile(`(w:styleId=")([^"]*)(")`)
	reStyleBlk = regexp.MustCompile(`(?s)[ \t]*<w:style [^>]*>.*?</w:style>\n?`)
	reBodyRef  = regexp.MustCompile(`<w:(?:pStyle|rStyle|tblStyle) w:val="([^"]*)"`)
	reBased    = regexp.MustCompile(`<w:(?:basedOn|next|link) w:val="([^"]*)"`)
	reDefault  = regexp.MustCompile(`^[ \t]*<w:style [^>]*w:default="(?:true|1)"`)
)

func renameIn(s string, re *regexp.Regexp, m map[string]string) string {
	return re.ReplaceAllStringFunc(s, func(x string) string {
		g := re.FindStringSubmatch(x)
		if n, ok := m[g[2]]; ok {
			return g[1] + n + g[3]
		}
		return x
	})
}

// buildStart returns the bytes of the start package. The process-wide registries are reset
// before (the package comes from another process) - the caller resets them again before opening.
func buildStart(s *Start) ([]byte, error) {
	document.VerifResetGlobals()
	if s.Minimal {
		return buildMinimal(s)
	}
	d := document.New()
	if s.Custom {
		d.GetStyleManager().CreateCustomStyle("StartPara", "start para", style.StyleTypeParagraph, "Normal")
	}
	d.AddParagraph("start")
	for i, l := range s.Headings {
		d.AddHeadingParagraph(fmt.Sprintf("start heading %d", i), l)
	}
	if s.Custom {
		d.AddParagraph("start custom").SetStyle("StartPara")
	}
	if s.Quote {
		d.AddParagraph("start quote").SetStyle("Quote")
	}
	for i := 0; i < s.Lists; i++ {
		d.AddListItem(fmt.Sprintf("start item %d", i), &document.ListConfig{Type: startListTypes[i%len(startListTypes)], BulletSymbol: document.BulletTypeDot, StartNumber: 1})
	}
	for i := 0; i < s.Footnotes; i++ {
		if err := d.AddFootnote(fmt.Sprintf("start fn %d", i), "fn text"); err != nil {
			return nil, err
		}
	}
	for i := 0; i < s.Endnotes; i++ {
		if err := d.AddEndnote(fmt.Sprintf("start en %d", i), "en text"); err != nil {
			return nil, err
		}
	}
	b, err := d.ToBytes()
	if err != nil {
		return nil, err
	}
	pkg, err := opc.Read(b)
	if err != nil {
		return nil, err
	}
	doc := string(pkg.Parts["word/document.xml"])
	sty := string(pkg.Parts["word/styles.xml"])
	m := renameMap(s.Scheme)
	if f := nearMissSchemes[s.Scheme]; f != nil {
		// every id the styles part defines is replaced by its near-miss spelling (ids without letters stay under lower/upper)
		for _, g := range reStyleID.FindAllStringSubmatch(sty, -1) {
			if n := f(g[2]); n != g[2] {
				m[g[2]] = n
			}
		}
	}
	if len(m) > 0 {
		doc = renameIn(doc, reValRef, m)
		sty = renameIn(sty, reValRef, m)
		sty = renameIn(sty, reStyleID, m)
	}
	if s.Strip {
		need := map[string]bool{}
		for _, g := range reBodyRef.FindAllStringSubmatch(doc, -1) {
			need[g[1]] = true
		}
		blocks := reStyleBlk.FindAllString(sty, -1)
		byID := map[string]string{}
		for _, blk := range blocks {
			if g := reStyleID.FindStringSubmatch(blk); g != nil {
				byID[g[2]] = blk
				if reDefault.MatchString(blk) {
					need[g[2]] = true
				}
			}
		}
		for changed := true; changed; {
			changed = false
			for id := range need {
				for _, g := range reBased.FindAllStringSubmatch(byID[id], -1) {
					if _, ok := byID[g[1]]; ok && !need[g[1]] {
						need[g[1]] = true
						changed = true
					}
				}
			}
		}
		sty = reStyleBlk.ReplaceAllStringFunc(sty, func(blk string) string {
			if g := reStyleID.FindStringSubmatch(blk); g != nil && !need[g[2]] {
				return ""
			}
			return blk
		})
	}
	var buf bytes.Buffer
	zw := zip.NewWriter(&buf)
	for _, n := range pkg.Names {
		data := pkg.Parts[n]
		switch n {
		case "word/document.xml":
			data = []byte(doc)
		case "word/styles.xml":
			data = []byte(sty)
		}
		if s.NoStyles != "" {
			// before any re-binding of namespaces: the style references are found by their w: spelling
			var keep bool
			if data, keep = withoutStyles(s.NoStyles, n, data); !keep {
				continue
			}
		}
		switch n {
		case "word/numbering.xml", "word/footnotes.xml", "word/endnotes.xml":
			if s.NS != "" {
				if data, err = reprefix(data, s.NS); err != nil {
					return nil, err
				}
			}
		case "word/styles.xml":
			if data, err = restyle(data, s.StylesNS, s.StylesForm); err != nil {
				return nil, err
			}
		case "word/document.xml":
			if s.MainNS != "" {
				if data, err = reprefix(data, s.MainNS); err != nil {
					return nil, err
				}
			}
		}
		w, err := zw.Create(n)
		if err != nil {
			return nil, err
		}
		if _, err := w.Write(data); err != nil {
			return nil, err
		}
	}
	if err := zw.Close(); err != nil {
		return nil, err
	}
	return buf.Bytes(), nil
}

func (s *Start) sig() string {
	if s == nil {
		return "new"
	}
	if s.Minimal {
		return fmt.Sprintf("start(minimal,p=%d,t=%v,rels=%v,styles=%s,sns=%s,mns=%s)", s.MinParas, s.MinTable, s.MinRels, s.NoStyles, s.StylesNS, s.MainNS)
	}
	return fmt.Sprintf("start(%s,strip=%v,h=%d,c=%v,q=%v,l=%d,f=%d,e=%d,ns=%s,styles=%s,sns=%s/%s,mns=%s)", s.Scheme, s.Strip, len(s.Headings), s.Custom, s.Quote, s.Lists, s.Footnotes, s.Endnotes, s.NS, s.NoStyles, s.StylesNS, s.StylesForm, s.MainNS)
}

func hasPrefixAny(s string, p ...string) bool {
	for _, x := range p {
		if strings.HasPrefix(s, x) {
			return true
		}
	}
	return false
}

package c13

import (
	"regexp"
	"strconv"
	"strings"

	"wzverif/internal/kit"
)

const (
	kfFrozen    = "KF-C13-styles-frozen-opened"
	kfTemplate  = "KF-C13-tblstyle-template"
	kfTblCustom = "KF-C13-tblstyle-custom"
	kfAutoTOC2  = "KF-C13-autotoc-style2"
	kfListOpen  = "KF-C13-list-after-open"
	kfNoteOpen  = "KF-C13-note-after-open"
	kfOpenBuilt = "KF-C13-open-builtin-ids"
	kfTOCRemove = "KF-C13-toc-removed-style"
	kfTblOpened = "KF-C13-tblstyle-opened"
	kfRenderFrz = "KF-C13-styles-frozen-rendered"
	kfReverted  = "KF-C13-style-reverted-after-open"
	kfOpenReg   = "KF-C13-open-registry-predefined"
)

var reTOCID = regexp.MustCompile(`^(1[2-9]|2[01])$`)

var reDetail = regexp.MustCompile(`\[kind=(\w+) id=("(?:[^"\\]|\\.)*") flags=([^\]]*)\]$`)

// parse reads the structured tail every C13 failure detail ends with.
func parse(f kit.Failure) (kind, id string, flags map[string]bool, ok bool) {
	g := reDetail.FindStringSubmatch(f.Detail)
	if g == nil {
		return "", "", nil, false
	}
	id, err := strconv.Unquote(g[2])
	if err != nil {
		return "", "", nil, false
	}
	flags = map[string]bool{}
	for _, fl := range strings.Split(g[3], ",") {
		if fl != "" {
			flags[fl] = true
		}
	}
	return g[1], id, flags, true
}

// walk replays the history shape (no library, no model state beyond these flags) and reports, for every op,
// whether the current document object had been saved/opened before it and whether an open (reopen op or foreign start) of a
// package with lists / notes precedes it.
type at struct {
	saved               bool
	opened              bool // the current document object came from Open/OpenFromMemory (its styles part was loaded, not generated)
	freshLists, freshNt bool
	rendered            bool // the current document object is the result of a template render
}

func walk(c Case, f func(op Op, s at) bool) bool {
	var s at
	lists, notes := 0, 0
	// a history that uses two document objects alternately (swap): the state of the one that is not the current
	type side struct {
		s            at
		lists, notes int
	}
	var alt *side
	if c.Start != nil {
		s.saved = true
		s.opened = true
		lists, notes = c.Start.Lists, c.Start.Footnotes+c.Start.Endnotes
		s.freshLists, s.freshNt = lists > 0, notes > 0
	}
	for _, op := range c.Ops {
		if f(op, s) {
			return true
		}
		switch {
		case op.K == "swap":
			cur := side{s, lists, notes}
			switch {
			case alt != nil:
				s, lists, notes = alt.s, alt.lists, alt.notes
			case len(op.B) > 0 && op.B[0]:
				// the second document is opened from a save of the current one
				cur.s.saved = true
				s.saved, s.opened = true, true
				s.freshLists, s.freshNt = s.freshLists || lists > 0, s.freshNt || notes > 0
			default:
				s, lists, notes = at{}, 0, 0
			}
			alt = &cur
		case op.K == "save":
			s.saved = true
		case op.K == "reopen":
			s.saved = true
			s.opened = true
			// the registries are per document: every opened document starts with empty ones
			if lists > 0 {
				s.freshLists = true
			}
			if notes > 0 {
				s.freshNt = true
			}
		case op.K == "render":
			// the rendered copy replaces its base: it carries over what the base was (saved / opened, lists, notes)
			s.rendered = true
		case op.K == "md":
			s = at{}
			lists, notes = 0, 0
		case isListOp(op.K):
			lists++
		case isNoteOp(op.K):
			notes++
		}
	}
	return false
}

func hasOp(c Case, pred func(Op) bool) bool {
	for _, op := range c.Ops {
		if pred(op) {
			return true
		}
	}
	return false
}

var reEmitted = regexp.MustCompile(`^(Heading[1-9]|1[2-9]|2[01])$`)

// revertedOnOpened: on ONE opened document object the history changes a style, saves, and later changes a style again
// in place (st.mod), or re-defines exactly the failing id (st.add / st.create / st.quick) - the shape in which a style can
// be put back into the state it had when the document was opened after another state of it was saved.
func revertedOnOpened(c Case, id string) bool {
	opened := c.Start != nil
	phase := 0 // 0 nothing yet, 1 a style was changed on the opened object, 2 ... and a save followed
	type side struct {
		opened bool
		phase  int
	}
	var alt *side
	for _, op := range c.Ops {
		switch {
		case op.K == "swap":
			cur := side{opened, phase}
			switch {
			case alt != nil:
				opened, phase = alt.opened, alt.phase
			case len(op.B) > 0 && op.B[0]:
				if cur.opened && cur.phase == 1 {
					cur.phase = 2 // the save the second document is opened from
				}
				opened, phase = true, 0
			default:
				opened, phase = false, 0
			}
			alt = &cur
		case op.K == "reopen":
			opened, phase = true, 0
		case op.K == "md":
			opened, phase = false, 0
		case !opened:
		case op.K == "save":
			if phase == 1 {
				phase = 2
			}
		case op.K == "st.mod", (op.K == "st.add" || op.K == "st.create" || op.K == "st.quick") && op.St != nil:
			if phase == 2 && (op.K == "st.mod" || op.St.ID == id) {
				return true
			}
			if phase == 0 {
				phase = 1
			}
		}
	}
	return false
}

// predefinedSetBackAfterReopen: the history (re)defines the failing predefined style (st.add / st.create / st.quick with exactly
// that id, or some in-place change) and then reopens - the saved styles part now defines the id differently from the library's
// predefined definition - and an in-place change (st.mod) follows on the opened document.
func predefinedSetBackAfterReopen(c Case, id string) bool {
	redefined, armed := false, false
	type side struct{ redefined, armed bool }
	var alt *side
	for _, op := range c.Ops {
		switch {
		case op.K == "swap":
			cur := side{redefined, armed}
			switch {
			case alt != nil:
				redefined, armed = alt.redefined, alt.armed
			case len(op.B) > 0 && op.B[0]:
				// opened from a save of the current document: what that one re-defined is in the file
				armed = armed || redefined
			default:
				redefined, armed = false, false
			}
			alt = &cur
		case op.K == "md":
			redefined, armed = false, false
		case op.K == "reopen":
			if redefined {
				armed = true
			}
		case op.K == "st.mod":
			if armed {
				return true
			}
			redefined = true
		case (op.K == "st.add" || op.K == "st.create" || op.K == "st.quick") && op.St != nil && op.St.ID == id:
			redefined = true
		}
	}
	return false
}

func isPredefinedID(id string) bool {
	_, ok := builtinTypes[id]
	return ok || reTOCID.MatchString(id)
}

var findings = []kit.Finding[Case]{
	{
		ID:     kfOpenReg,
		Clause: "C13.X4.attr",
		Desc:   "the styles part is still not parsed on Open (LoadStylesFromDocument: expected element type <w:styles> but have <styles>), the registry of an opened document is the library's predefined set: when the file defines a predefined id differently (it was re-defined before the save that was opened), GetStyle returns the predefined definition, and an in-place change that sets a field to the value the predefined definition happens to have is not recognised as a change - the styles part keeps the file's value",
		// input class: the failing id is a predefined one, the history re-defined it (or changed some style in place) before a reopen,
		// and an in-place change follows on the opened document; the style is in the part, only an attribute differs
		Trigger: func(c Case, f kit.Failure) bool {
			kind, id, flags, ok := parse(f)
			if !ok || kind != "style" || f.Clause != "C13.X4.attr" || !flags["late-style"] || !isPredefinedID(id) {
				return false
			}
			if predefinedSetBackAfterReopen(c, id) {
				return true
			}
			// second input class of the same root cause: the history starts from a package with localised ids, whose styles
			// part bases the (unrenamed) predefined id on the renamed Normal ("a" / "1"); GetStyle shows the predefined
			// definition based on "Normal", and an in-place change of that style's base to exactly that value is no change
			// for the library. Only the based-on field can differ this way.
			return c.Start != nil && c.Start.Scheme != "none" && strings.Contains(f.Detail, "field basedOn:") &&
				hasOp(c, func(op Op) bool { return op.K == "st.mod" && len(op.B) > 1 && op.B[1] && len(op.I) > 1 && op.I[1] == 1 })
		},
	},
	{
		ID:     kfReverted,
		Clause: "C13.X4.attr",
		Desc:   "opened document: a style is changed through the style API and saved, then changed back to exactly the state it had when the document was opened: the second change never reaches the styles part, which keeps the definition written by the first save (extendOpenedStyles compares the registry with its state at Open, not with what the part holds now)",
		// input class: on one opened document object a style change, a save, and a later in-place change (or a re-definition of exactly
		// the failing id); the failing style is still in the styles part (only X4.attr, never X4/X1) and was touched after the open
		Trigger: func(c Case, f kit.Failure) bool {
			kind, id, flags, ok := parse(f)
			if !ok || kind != "style" || f.Clause != "C13.X4.attr" || !flags["late-style"] {
				return false
			}
			return revertedOnOpened(c, id)
		},
	},
	{
		ID:     kfFrozen,
		Clause: "C13.X",
		Desc:   "the styles part of an OPENED document is kept verbatim: a style created or changed through the style API on a document obtained from Open/OpenFromMemory is not written, and paragraphs given that style refer to an undefined id",
		// input class: a style-API op placed after an open of the document object; the failing id is one such an op touched
		// (the same defect on documents that were only saved before was fixed in /repo cd7a151)
		Trigger: func(c Case, f kit.Failure) bool {
			kind, _, flags, ok := parse(f)
			if !ok || !flags["late-style"] {
				return false
			}
			switch f.Clause {
			case "C13.X4", "C13.X4.attr":
			case "C13.X1":
				if kind != "pStyle" && kind != "tblStyle" {
					return false
				}
			default:
				return false
			}
			return walk(c, func(op Op, s at) bool { return s.opened && isStyleOp(op.K) && op.K != "st.remove" })
		},
	},
	{
		ID:     kfRenderFrz,
		Clause: "C13.X",
		Desc:   "a document rendered (LoadTemplateFromDocument + RenderTemplateToDocument) from a base document that was created with New and saved before gets the base's generated word/styles.xml as a verbatim part: styles created or changed through the style API, and table styles applied, after the base's last save never reach the rendered document's styles part",
		// input class: a render op whose base is a saved, never opened document object; the failing id is a style that the styles part
		// of the base's last save did not have (X1) or that a style-API op touched on such a rendered document (X4)
		Trigger: func(c Case, f kit.Failure) bool {
			kind, _, flags, ok := parse(f)
			if !ok {
				return false
			}
			switch f.Clause {
			case "C13.X4", "C13.X4.attr":
				if !flags["late-rendered"] {
					return false
				}
			case "C13.X1":
				if !flags["rendered-without"] || (kind != "pStyle" && kind != "rStyle" && kind != "tblStyle") {
					return false
				}
			default:
				return false
			}
			return walk(c, func(op Op, s at) bool { return op.K == "render" && s.saved && !s.opened })
		},
	},
	{
		ID:     kfTemplate,
		Clause: "C13.X1",
		Desc:   "ApplyTableStyle with one of the library's TableStyleTemplate constants writes w:tblStyle with that name, but no style with such an id is defined anywhere",
		Trigger: func(c Case, f kit.Failure) bool {
			kind, id, _, ok := parse(f)
			if !ok || kind != "tblStyle" || f.Clause != "C13.X1" {
				return false
			}
			return hasOp(c, func(op Op) bool {
				return op.K == "tblstyle" && len(op.I) > 1 && op.I[1] != 0 && len(op.S) > 0 && op.S[0] == id
			})
		},
	},
	{
		ID:     kfTblCustom,
		Clause: "C13.X1",
		Desc:   "CreateCustomTableStyle(id, name, ...) does not create a style: it only writes w:tblStyle=id on the table, no style with that id reaches the styles part",
		Trigger: func(c Case, f kit.Failure) bool {
			kind, id, _, ok := parse(f)
			if !ok || kind != "tblStyle" || f.Clause != "C13.X1" {
				return false
			}
			return hasOp(c, func(op Op) bool { return op.K == "tblcustom" && len(op.S) > 0 && op.S[0] == id })
		},
	},
	{
		ID:     kfAutoTOC2,
		Clause: "C13.X1",
		Desc:   "AutoGenerateTOC gives the paragraph that closes the TOC field the style id \"2\", which the style registry does not define",
		Trigger: func(c Case, f kit.Failure) bool {
			kind, id, _, ok := parse(f)
			if !ok || kind != "pStyle" || id != "2" || f.Clause != "C13.X1" {
				return false
			}
			return hasOp(c, func(op Op) bool { return op.K == "autotoc" })
		},
	},
	{
		ID:     kfListOpen,
		Clause: "C13.X2",
		Desc:   "a list item added to an opened document rewrites word/numbering.xml from the document's own, empty numbering registry: the w:num definitions the existing list paragraphs refer to are dropped",
		// input class: a list op after any open (reopen op or foreign start) of a document that had list items; the orphaned numId existed at that open
		Trigger: func(c Case, f kit.Failure) bool {
			kind, _, flags, ok := parse(f)
			if !ok || kind != "numId" || f.Clause != "C13.X2" || !flags["pre-open"] {
				return false
			}
			return walk(c, func(op Op, s at) bool { return s.freshLists && isListOp(op.K) })
		},
	},
	{
		ID:     kfNoteOpen,
		Clause: "C13.X3",
		Desc:   "a footnote/endnote added to an opened document rewrites the notes part from the document's own, empty note registry: the notes the existing references point to are dropped",
		Trigger: func(c Case, f kit.Failure) bool {
			kind, _, flags, ok := parse(f)
			if !ok || (kind != "footnote" && kind != "endnote") || f.Clause != "C13.X3" || !flags["pre-open"] {
				return false
			}
			return walk(c, func(op Op, s at) bool { return s.freshNt && op.K == kind })
		},
	},
	{
		ID:     kfOpenBuilt,
		Clause: "C13.X1",
		Desc:   "the styles part of an opened document is never parsed (its registry is always the predefined set) and never extended: headings and TOC entries added to a document whose styles part uses other ids (localised \"1\", \"2\", \"a\"...) or lacks them get HeadingN / 12-21, which that part does not define",
		// input class: history starts from a package whose styles part was localised/stripped, and a heading/TOC op follows;
		// the failing id is one those helpers emit and the opened styles part did not have it
		Trigger: func(c Case, f kit.Failure) bool {
			kind, id, flags, ok := parse(f)
			if !ok || kind != "pStyle" || f.Clause != "C13.X1" || !flags["opened-without"] || !reEmitted.MatchString(id) {
				return false
			}
			// the opened styles part lacks the id because the package came localised/stripped, or because this
			// history removed that predefined style before saving and reopening
			foreign := c.Start != nil && (c.Start.Strip || c.Start.Scheme != "none")
			removedThenReopened := hasOp(c, func(op Op) bool { return op.K == "st.remove" && len(op.S) > 0 && op.S[0] == id }) &&
				hasOp(c, func(op Op) bool { return op.K == "reopen" })
			if !foreign && !removedThenReopened {
				return false
			}
			return hasOp(c, func(op Op) bool { return op.K == "heading" || isTOCOp(op.K) })
		},
	},
	{
		ID:     kfTblOpened,
		Clause: "C13.X1",
		Desc:   "ApplyTableStyle/CreateCustomTableStyle on a table of an OPENED document: the style for the w:tblStyle id is only registered while the styles part is generated, and the styles part of an opened document is kept verbatim, so the id stays undefined",
		// input class: a table-style op naming exactly the failing id, executed on a document object that came from an open,
		// and the styles part seen at that open did not define the id
		Trigger: func(c Case, f kit.Failure) bool {
			kind, id, flags, ok := parse(f)
			if !ok || kind != "tblStyle" || f.Clause != "C13.X1" || !flags["opened-without"] {
				return false
			}
			return walk(c, func(op Op, s at) bool {
				return s.opened && (op.K == "tblstyle" || op.K == "tblcustom") && len(op.S) > 0 && op.S[0] == id
			})
		},
	},
	{
		ID:     kfTOCRemove,
		Clause: "C13.X1",
		Desc:   "GenerateTOC/AutoGenerateTOC/UpdateTOC give their entry and field paragraphs the TOC style ids 12-21 (AutoGenerateTOC also Heading1 for the paragraph closing the field) without looking at the registry: after RemoveStyle of such an (unused) style the TOC refers to an id the styles part no longer defines",
		// input class: RemoveStyle of exactly that predefined id followed by a TOC op; for Heading1 the reference must be the
		// one inside the TOC content control written by AutoGenerateTOC (a heading paragraph of the body is not absorbed)
		Trigger: func(c Case, f kit.Failure) bool {
			kind, id, flags, ok := parse(f)
			if !ok || kind != "pStyle" || f.Clause != "C13.X1" || !flags["removed"] {
				return false
			}
			removedHere := hasOp(c, func(op Op) bool { return op.K == "st.remove" && len(op.S) > 0 && op.S[0] == id })
			switch {
			case reTOCID.MatchString(id):
				return removedHere && hasOp(c, func(op Op) bool { return isTOCOp(op.K) })
			case id == "Heading1":
				return removedHere && flags["in-sdt"] && hasOp(c, func(op Op) bool { return op.K == "autotoc" })
			}
			return false
		},
	},
}
